import PegVerif.Eval
import PegVerif.Proofs.Trace
import PegVerif.Proofs.RefineRule
/-
  Property C06, the packrat bound: "within one parse, the body of a rule marked @memoize is
  evaluated at most once per input position, whether that evaluation succeeded or failed; every
  further attempt at that position is answered from the cache".

  One pass over the evaluator proves, for every evaluation from `g` to `g'` with new events `l`
  (`Trans g b g' l`, `b` = "the result is a panic"):
    * `mono`  the cache only grows (no key is ever removed or overwritten as seen by `lookup`),
    * `hit`   a key that is cached in `g` has no `bodyEval` event in `l`,
    * `done`  unless the evaluation panics, every key with a `bodyEval` event in `l` is cached in `g'`,
    * `once`  if `l` has no *re-entry* (`NoRe l`, a predicate on the log alone) then every key has at
              most one `bodyEval` event in `l`,
    * `evok`  every `bodyEval name off` event belongs to a memoized normal rule `name` and `off` is
              bounded by the total length of a state satisfying the state invariant.
  The pass is parametric in a predicate `P` on `s.off + s.rest.length` (an invariant of all
  matchers): `P := fun _ => True` gives the unconditional statements, `P := (· = inp.length)` the
  offsets-within-the-input statement needed for the bound.

  Results (all for grammars without `@leftrec` rules, `NoLeftrec`):
    Part I (any user functions): cache monotonicity `C06_cache_mono`, evaluated ⇒ cached
    `C06_evaluated_cached`, cached ⇒ not re-evaluated `C06_cached_not_evaluated`, the sequential form
    `C06_no_reevaluation`, the counting form *conditional on* `NoRe` (`C06_once`, `C06_parse_once`),
    the bound `C06_bound`; a decision procedure for `NoRe`; a counterexample (`exBad`) showing that
    the counting form is false for user functions that modify the user context.
    Part II (`PureHooks`): the counting form and the bound *unconditionally*
    (`C06_parse_once_pure`, `C06_bound_pure`).
-/
namespace Peg

/-! ### counting ghost events -/

/-- `e` is the ghost event "the body of the memoized rule `k.1` starts evaluating at offset `k.2`" -/
def isBodyEval (k : String × Nat) : Ev → Bool
  | .bodyEval n o => n == k.1 && o == k.2
  | _ => false

/-- number of body evaluations of the key `k` recorded in `l` -/
def evals (l : List Ev) (k : String × Nat) : Nat := (l.filter (isBodyEval k)).length

theorem evals_append (a b : List Ev) (k) : evals (a ++ b) k = evals a k + evals b k := by
  simp [evals, List.filter_append]

theorem isBodyEval_eq {k : String × Nat} {e : Ev} (h : isBodyEval k e = true) : e = .bodyEval k.1 k.2 := by
  cases e <;> simp [isBodyEval] at h
  obtain ⟨h1, h2⟩ := h
  subst h1; subst h2; rfl

theorem isBodyEval_self (k : String × Nat) : isBodyEval k (.bodyEval k.1 k.2) = true := by
  simp [isBodyEval]

theorem isBodyEval_iff {k : String × Nat} {n o} : isBodyEval k (.bodyEval n o) = true ↔ (n, o) = k := by
  obtain ⟨a, b⟩ := k
  simp [isBodyEval]

theorem mem_of_evals_pos {l : List Ev} {k} (h : 0 < evals l k) : Ev.bodyEval k.1 k.2 ∈ l := by
  unfold evals at h
  obtain ⟨e, he⟩ := List.exists_mem_of_length_pos h
  rw [List.mem_filter] at he
  rw [← isBodyEval_eq he.2]; exact he.1

theorem evals_pos_of_mem {l : List Ev} {k} (h : Ev.bodyEval k.1 k.2 ∈ l) : 0 < evals l k := by
  unfold evals
  exact List.length_pos_of_mem (List.mem_filter.2 ⟨h, isBodyEval_self k⟩)

theorem evals_singleton_self (k : String × Nat) : evals [.bodyEval k.1 k.2] k = 1 := by
  simp [evals, isBodyEval_self]

theorem evals_singleton_ne {k k' : String × Nat} (h : k ≠ k') : evals [.bodyEval k.1 k.2] k' = 0 := by
  have : isBodyEval k' (.bodyEval k.1 k.2) = false := by
    cases hb : isBodyEval k' (.bodyEval k.1 k.2) with
    | false => rfl
    | true => exact absurd (isBodyEval_iff.1 hb) h
  simp [evals, this]

/-- an event that is not a `bodyEval` -/
def Neutral (e : Ev) : Prop := ∀ k, isBodyEval k e = false

theorem evals_singleton_neutral {e : Ev} (he : Neutral e) (k) : evals [e] k = 0 := by
  simp [evals, he k]

/-! ### re-entry, as a predicate on the log

`bodyEval k` is emitted right after the `traceStart` of the rule invocation; relative to that
bracket the depth is `1` and the invocation has returned as soon as the depth reaches `0`. -/

/-- (chronological list) two `bodyEval k` events such that in between the rule invocation that
    emitted the first one has not returned -/
def Reentry (c : List Ev) (k : String × Nat) : Prop :=
  ∃ pre mid post, c = pre ++ (Ev.bodyEval k.1 k.2 :: mid) ++ (Ev.bodyEval k.1 k.2 :: post) ∧
    ∀ p, p <+: mid → depthAfter p 1 ≠ some 0

/-- (newest-first list, as in `Global.log`) no key is re-entered while its body is being evaluated -/
def NoRe (l : List Ev) : Prop := ∀ k, ¬ Reentry l.reverse k

theorem Reentry.append_left {c : List Ev} {k} (x : List Ev) (h : Reentry c k) : Reentry (x ++ c) k := by
  obtain ⟨pre, mid, post, rfl, hm⟩ := h
  exact ⟨x ++ pre, mid, post, by simp [List.append_assoc], hm⟩

theorem Reentry.append_right {c : List Ev} {k} (y : List Ev) (h : Reentry c k) : Reentry (c ++ y) k := by
  obtain ⟨pre, mid, post, rfl, hm⟩ := h
  exact ⟨pre, mid, post ++ y, by simp [List.append_assoc], hm⟩

theorem NoRe.left {l1 l2 : List Ev} (h : NoRe (l2 ++ l1)) : NoRe l2 := by
  intro k hr
  apply h k
  rw [List.reverse_append]
  exact hr.append_left _

theorem NoRe.right {l1 l2 : List Ev} (h : NoRe (l2 ++ l1)) : NoRe l1 := by
  intro k hr
  apply h k
  rw [List.reverse_append]
  exact hr.append_right _

/-- the re-entry of a key inside its own body evaluation -/
theorem reentry_of_nested {b : Bool} {l1 : List Ev} {k : String × Nat} (ht : Tr b l1) (h : 0 < evals l1 k) :
    Reentry (l1 ++ [Ev.bodyEval k.1 k.2]).reverse k := by
  have hm : Ev.bodyEval k.1 k.2 ∈ l1.reverse := List.mem_reverse.2 (mem_of_evals_pos h)
  obtain ⟨mid, post, he⟩ := List.append_of_mem hm
  refine ⟨[], mid, post, by simp [he], fun p hp => ?_⟩
  have hp' : p <+: l1.reverse := by
    rw [he]; exact hp.trans (List.prefix_append _ _)
  obtain ⟨d', hd, hle⟩ := ht.noUnderflow p hp' 1
  rw [hd]
  intro hc
  cases hc
  omega

/-! ### the state invariant: `P (off + remaining length)` -/

/-- `off + remaining length`: constant along `advance` -/
def St.tot (s : St) : Nat := s.off + s.rest.length

@[simp] theorem tot_recordError (s : St) (e : PErr) : (s.recordError e).tot = s.tot := by
  simp [St.tot]

theorem tot_advance {α} {s s' : St} {n : Nat} {v v' : α} (h : s.advance n v = .ok v' s') : s'.tot = s.tot := by
  unfold St.advance at h
  split at h
  · cases h
  · cases h; simp only [St.tot, List.length_drop]; omega

theorem tot_advanceSafe {α} {s s' : St} {n : Nat} {v v' : α} (h : s.advanceSafe n v = .ok v' s') :
    s'.tot = s.tot := by
  unfold St.advanceSafe at h
  split at h
  · cases h
  · split at h
    · cases h
    · cases h; simp only [St.tot, List.length_drop]; omega

theorem wsPrefixLen_le (bs : List UInt8) : wsPrefixLen bs ≤ bs.length := by
  induction bs with
  | nil => simp [wsPrefixLen]
  | cons b bs ih => simp only [wsPrefixLen]; split <;> simp <;> omega

theorem tot_parseChar {s v s'} (h : parseChar s = .ok v s') : s'.tot = s.tot := by
  unfold parseChar at h; split at h
  · cases h
  · exact tot_advance h

theorem tot_parseWhitespace {s v s'} (h : parseWhitespace s = .ok v s') : s'.tot = s.tot := by
  unfold parseWhitespace at h; cases h
  have := wsPrefixLen_le s.rest
  simp only [St.tot, List.length_drop]; omega

theorem tot_parseStringLiteral {s l v s'} (h : parseStringLiteral s l = .ok v s') : s'.tot = s.tot := by
  unfold parseStringLiteral at h; simp only at h; split at h
  · cases h
  · exact tot_advance h

theorem tot_parseCharacterLiteral {s c v s'} (h : parseCharacterLiteral s c = .ok v s') : s'.tot = s.tot := by
  unfold parseCharacterLiteral at h
  split at h
  · split at h
    · cases h
    · split at h
      · cases h
      · exact tot_advance h
  · split at h
    · cases h
    · exact tot_advance h

theorem tot_parseCharacterRange {s lo hi v s'} (h : parseCharacterRange s lo hi = .ok v s') :
    s'.tot = s.tot := by
  unfold parseCharacterRange at h
  split at h
  · split at h
    · cases h
    · split at h
      · cases h
      · exact tot_advance h
  · split at h
    · cases h
    · split at h
      · cases h
      · exact tot_advance h

theorem tot_parseStringLiteralInsensitive {s l v s'} (h : parseStringLiteralInsensitive s l = .ok v s') :
    s'.tot = s.tot := by
  unfold parseStringLiteralInsensitive at h; simp only at h; split at h
  · cases h
  · exact tot_advance h

theorem tot_parseCharacterLiteralInsensitive {s c v s'}
    (h : parseCharacterLiteralInsensitive s c = .ok v s') : s'.tot = s.tot := by
  unfold parseCharacterLiteralInsensitive at h
  split at h
  · cases h
  · split at h
    · cases h
    · exact tot_advance h

theorem tot_parseEndOfInput {s v s'} (h : parseEndOfInput s = .ok v s') : s'.tot = s.tot := by
  unfold parseEndOfInput at h; split at h
  · cases h; rfl
  · cases h

section
variable (env : Env) (P : Nat → Prop)

/-- an `ok` result carries a state satisfying the invariant -/
def ResB {α} (r : Res α) : Prop := ∀ v s', r = .ok v s' → P s'.tot

/-- every cached `ok` entry carries a state satisfying the invariant -/
def CacheB (g : Global) : Prop := ∀ k v s', g.lookup k = some (.ok v s') → P s'.tot

/-- what is known about a `bodyEval name off` event -/
def EvOk (name : String) (off : Nat) : Prop :=
  (∃ r0, env.g.find name = some (.rule r0) ∧ r0.flags.memoize = true) ∧ ∃ t, P t ∧ off ≤ t

/-- an evaluation from `g` to `g'` with new events `l` (newest first); `b`: the result is a panic -/
structure Trans (g : Global) (b : Bool) (g' : Global) (l : List Ev) : Prop where
  log : g'.log = l ++ g.log
  mono : ∀ k v, g.lookup k = some v → g'.lookup k = some v
  hit : ∀ k, g.lookup k ≠ none → evals l k = 0
  done : b = false → ∀ k, 0 < evals l k → g'.lookup k ≠ none
  once : NoRe l → ∀ k, evals l k ≤ 1
  evok : ∀ n o, Ev.bodyEval n o ∈ l → EvOk env P n o

def Step (g : Global) (b : Bool) (g' : Global) : Prop := ∃ l, Trans env P g b g' l

variable {env P}

theorem ResB.ok {α} {v : α} {s : St} (h : P s.tot) : ResB P (.ok v s) := by
  intro v' s' he; cases he; exact h

theorem ResB.of_ok {α} {v : α} {s : St} (h : ResB P (.ok v s)) : P s.tot := h v s rfl

theorem ResB.err {α} (e : PErr) : ResB P (.err e : Res α) := by
  intro v' s' he; cases he

theorem ResB.panic {α} (m : String) : ResB P (.panic m : Res α) := by
  intro v' s' he; cases he

theorem ResB.map {α β} {r : Res α} (f : α → β) (h : ResB P r) : ResB P (r.map f) := by
  intro v s' he
  obtain ⟨v0, hv0⟩ := map_ok he
  exact h v0 s' hv0

theorem ResB.of_tot {α} {r : Res α} {s : St} (hs : P s.tot) (h : ∀ v s', r = .ok v s' → s'.tot = s.tot) :
    ResB P r := by
  intro v s' he
  rw [h v s' he]; exact hs

theorem lookup_ne_none_of_mono {g g' : Global} (hm : ∀ k v, g.lookup k = some v → g'.lookup k = some v)
    {k} (h : g.lookup k ≠ none) : g'.lookup k ≠ none := by
  cases hk : g.lookup k with
  | none => exact absurd hk h
  | some v => rw [hm k v hk]; exact fun h => by cases h

theorem Step.refl (g : Global) (b : Bool) : Step env P g b g :=
  ⟨[], rfl, fun _ _ h => h, fun _ _ => rfl, fun _ k h => by simp [evals] at h,
    fun _ k => by simp [evals], fun _ _ h => by cases h⟩

theorem Step.mono {g g' : Global} {b b' : Bool} (h : Step env P g b g') (hb : b' = false → b = false) :
    Step env P g b' g' := by
  obtain ⟨l, h⟩ := h
  exact ⟨l, h.log, h.mono, h.hit, fun hb' => h.done (hb hb'), h.once, h.evok⟩

theorem Step.trans {g g1 g2 : Global} {b : Bool} (h1 : Step env P g false g1) (h2 : Step env P g1 b g2) :
    Step env P g b g2 := by
  obtain ⟨l1, h1⟩ := h1
  obtain ⟨l2, h2⟩ := h2
  refine ⟨l2 ++ l1, ?_, ?_, ?_, ?_, ?_, ?_⟩
  · rw [h2.log, h1.log, List.append_assoc]
  · exact fun k v h => h2.mono k v (h1.mono k v h)
  · intro k hk
    rw [evals_append, h1.hit k hk, h2.hit k (lookup_ne_none_of_mono h1.mono hk)]
  · intro hb k hk
    rw [evals_append] at hk
    by_cases h0 : 0 < evals l1 k
    · exact lookup_ne_none_of_mono h2.mono (h1.done rfl k h0)
    · exact h2.done hb k (by omega)
  · intro hno k
    rw [evals_append]
    have e1 := h1.once hno.right k
    have e2 := h2.once hno.left k
    by_cases h0 : 0 < evals l1 k
    · have := h2.hit k (h1.done rfl k h0)
      omega
    · omega
  · intro n o hm
    rcases List.mem_append.1 hm with hm | hm
    · exact h2.evok n o hm
    · exact h1.evok n o hm

theorem Step.emit (g : Global) (b : Bool) {e : Ev} (he : Neutral e) : Step env P g b (g.emit e) := by
  refine ⟨[e], rfl, fun _ _ h => h, fun k _ => evals_singleton_neutral he k, ?_, ?_, ?_⟩
  · intro _ k hk; rw [evals_singleton_neutral he k] at hk; cases hk
  · intro _ k; rw [evals_singleton_neutral he k]; omega
  · intro n o hm
    simp only [List.mem_singleton] at hm
    subst hm
    have := he (n, o)
    simp [isBodyEval] at this

theorem Step.setUctx (g : Global) (b : Bool) (u : Nat) : Step env P g b { g with uctx := u } :=
  ⟨[], rfl, fun _ _ h => h, fun _ _ => rfl, fun _ k h => by simp [evals] at h,
    fun _ k => by simp [evals], fun _ _ h => by cases h⟩

/-- the cache-miss branch of `generate_memoized_body` -/
theorem Step.memo {g g1 : Global} {b b' : Bool} {k : String × Nat} (hk : g.lookup k = none)
    (hev : EvOk env P k.1 k.2)
    (h1 : Step env P (g.emit (.bodyEval k.1 k.2)) b g1)
    (ht : ∀ l1, g1.log = l1 ++ (g.emit (.bodyEval k.1 k.2)).log → Tr b' l1) :
    Step env P g true g1 ∧ ∀ r, Step env P g b (g1.insert k r) := by
  obtain ⟨l1, h1⟩ := h1
  have ht1 := ht l1 h1.log
  have hlog : g1.log = (l1 ++ [Ev.bodyEval k.1 k.2]) ++ g.log := by
    rw [h1.log]; simp
  have hhit : ∀ k', g.lookup k' ≠ none → evals (l1 ++ [Ev.bodyEval k.1 k.2]) k' = 0 := by
    intro k' hk'
    have hne : k ≠ k' := fun he => hk' (he ▸ hk)
    rw [evals_append, h1.hit k' hk', evals_singleton_ne hne]
  have honce : NoRe (l1 ++ [Ev.bodyEval k.1 k.2]) → ∀ k', evals (l1 ++ [Ev.bodyEval k.1 k.2]) k' ≤ 1 := by
    intro hno k'
    rw [evals_append]
    have e1 := h1.once hno.left k'
    by_cases hkk : k = k'
    · subst hkk
      rw [evals_singleton_self]
      by_cases h0 : 0 < evals l1 k
      · exact absurd (reentry_of_nested ht1 h0) (hno k)
      · omega
    · rw [evals_singleton_ne hkk]; omega
  have hevok : ∀ n o, Ev.bodyEval n o ∈ l1 ++ [Ev.bodyEval k.1 k.2] → EvOk env P n o := by
    intro n o hm
    rcases List.mem_append.1 hm with hm | hm
    · exact h1.evok n o hm
    · simp only [List.mem_singleton, Ev.bodyEval.injEq] at hm
      obtain ⟨rfl, rfl⟩ := hm
      exact hev
  refine ⟨⟨_, hlog, h1.mono, hhit, (fun h => by cases h), honce, hevok⟩, fun r => ⟨_, ?_, ?_, hhit, ?_, honce, hevok⟩⟩
  · rw [insert_log]; exact hlog
  · intro k' v hk'
    rw [lookup_insert]
    have hne : ¬ (k == k') = true := by
      intro he
      have : k = k' := by simpa using he
      subst this
      rw [hk] at hk'; cases hk'
    rw [if_neg hne]
    exact h1.mono k' v hk'
  · intro hb k' hk'
    rw [lookup_insert]
    split
    · exact fun h => by cases h
    · rename_i hne
      have hne' : k ≠ k' := fun he => hne (by simp [he])
      rw [evals_append, evals_singleton_ne hne'] at hk'
      exact h1.done hb k' (by omega)

/-! ### the invariant of a computation -/

variable (env P)

def PPost {α} (g : Global) (r : Res α) (g' : Global) : Prop :=
  Step env P g r.isPanic g' ∧ CacheB P g' ∧ ResB P r

def PInv {α} (f : Global → Out α) : Prop :=
  ∀ g r g', f g = some (r, g') → CacheB P g → PPost env P g r g'

structure RecP (rec : Rec) : Prop where
  expr : ∀ ctx e s, P s.tot → PInv env P (rec.expr ctx e s)
  rule : ∀ name s, P s.tot → PInv env P (rec.rule name s)

variable {env P}

theorem PPost.refl {α} {g : Global} {r : Res α} (hc : CacheB P g) (hr : ResB P r) : PPost env P g r g :=
  ⟨Step.refl g _, hc, hr⟩

/-- replace the result (e.g. by a panic of the generated code after the sub-evaluation) -/
theorem PPost.replace {α β} {g g' : Global} {r : Res α} {r' : Res β} (h : PPost env P g r g')
    (hb : r'.isPanic = false → r.isPanic = false) (hr : ResB P r') : PPost env P g r' g' :=
  ⟨h.1.mono hb, h.2.1, hr⟩

theorem PPost.trans {α} {g g1 g2 : Global} {r : Res α} (h1 : Step env P g false g1) (h2 : PPost env P g1 r g2) :
    PPost env P g r g2 :=
  ⟨h1.trans h2.1, h2.2⟩

theorem PPost.emit_after {α} {g g' : Global} {r : Res α} (h : PPost env P g r g') (hnp : r.isPanic = false)
    {e : Ev} (he : Neutral e) : PPost env P g r (g'.emit e) := by
  refine ⟨?_, fun k v s' hl => h.2.1 k v s' hl, h.2.2⟩
  have h1 := h.1
  rw [hnp] at h1 ⊢
  exact h1.trans (Step.emit _ _ he)

theorem PPost.toPanic {α β} {g g' : Global} {r : Res α} (h : PPost env P g r g') (m : String) :
    PPost env P g (.panic m : Res β) g' :=
  h.replace (fun h => by simp [Res.isPanic] at h) (ResB.panic m)

theorem PPost.toErr {α β} {g g' : Global} {r : Res α} (h : PPost env P g r g') (hnp : r.isPanic = false)
    (e : PErr) : PPost env P g (.err e : Res β) g' :=
  h.replace (fun _ => hnp) (ResB.err e)

theorem PPost.toOk {α β} {g g' : Global} {r : Res α} (h : PPost env P g r g') (hnp : r.isPanic = false)
    (v : β) {s : St} (hs : P s.tot) : PPost env P g (.ok v s) g' :=
  h.replace (fun _ => hnp) (ResB.ok hs)

theorem PInv.pure {α} (r : Res α) (hr : ResB P r) : PInv env P (fun g => some (r, g)) := by
  intro g r' g' h hc
  cases h
  exact PPost.refl hc hr

theorem PInv.congr {α} {f f' : Global → Out α} (he : ∀ g, f g = f' g) (h : PInv env P f') : PInv env P f := by
  have : f = f' := funext he
  rw [this]; exact h

theorem PInv.ite {α} {c : Prop} [Decidable c] {f f' : Global → Out α} (h1 : PInv env P f)
    (h2 : PInv env P f') : PInv env P (fun g => if c then f g else f' g) := by
  by_cases hc : c
  · simp only [hc, if_true]; exact h1
  · simp only [hc, if_false]; exact h2

theorem bindR_pinv {α β} {f : Global → Out α} {k : α → St → Global → Out β}
    (hf : PInv env P f) (hk : ∀ v s, P s.tot → PInv env P (k v s)) :
    PInv env P (fun g => bindR (f g) k) := by
  intro g r g' h hc
  simp only [bindR] at h
  split at h
  · cases h
  · rename_i v s1 g1 heq
    obtain ⟨hs, hc1, hr1⟩ := hf _ _ _ heq hc
    exact PPost.trans hs (hk v s1 hr1.of_ok _ _ _ h hc1)
  · rename_i e g1 heq
    cases h
    exact (hf _ _ _ heq hc).toErr rfl e
  · rename_i m g1 heq
    cases h
    exact (hf _ _ _ heq hc).toPanic m

theorem withSkipWs_pinv {α} {rec : Rec} (hrec : RecP env P rec) {ctx : Ctx} {s : St} (hs : P s.tot)
    {k : St → Global → Out α} (hk : ∀ s, P s.tot → PInv env P (k s)) :
    PInv env P (fun g => withSkipWs rec ctx s g k) := by
  unfold withSkipWs
  split
  · exact bindR_pinv (hrec.rule _ _ hs) (fun _ s hs' => hk s hs')
  · exact hk s hs

/-! ### expression level -/

section
variable {rec : Rec}

theorem evalSeq_pinv (hrec : RecP env P rec) {ctx : Ctx} :
    ∀ ps seen acc s, P s.tot → PInv env P (evalSeq env rec ctx ps seen acc s) := by
  intro ps
  induction ps with
  | nil => intro seen acc s hs; exact PInv.pure _ (ResB.ok hs)
  | cons p ps ih =>
    intro seen acc s hs
    refine PInv.congr (fun g => by rw [evalSeq]) (bindR_pinv (hrec.expr ctx p s hs) (fun r s' hs' => ?_))
    cases hm : mergePart (filterRuleFields ctx.ruleFields (ownFields env p)) seen acc r with
    | error m => simp only [hm]; exact PInv.pure _ (ResB.panic _)
    | ok v => simp only [hm]; exact ih _ _ _ hs'

theorem evalAlts_pinv (hrec : RecP env P rec) {ctx : Ctx} {fields} :
    ∀ as s, P s.tot → PInv env P (evalAlts env rec ctx fields as s) := by
  intro as
  induction as with
  | nil => intro s hs; exact PInv.pure _ (ResB.err _)
  | cons a as ih =>
    intro s hs g r g' h hc
    simp only [evalAlts] at h
    split at h
    · cases h
    · rename_i r0 s0 g0 hx
      have hp := hrec.expr _ _ _ hs _ _ _ hx hc
      split at h
      · cases h; exact hp.toOk rfl _ hp.2.2.of_ok
      · cases h; exact hp.toPanic _
    · rename_i e0 g0 hx
      have hp := hrec.expr _ _ _ hs _ _ _ hx hc
      exact PPost.trans hp.1 (ih _ (by simpa using hs) _ _ _ h hp.2.1)
    · rename_i m g0 hx
      cases h
      exact (hrec.expr _ _ _ hs _ _ _ hx hc).toPanic _

theorem evalLoop_pinv {body : St → Global → Out Parsed} (hbody : ∀ s, P s.tot → PInv env P (body s)) {fields} :
    ∀ k iters acc s, P s.tot → PInv env P (evalLoop body fields k iters acc s) := by
  intro k
  induction k with
  | zero => intro iters acc s hs g r g' h; simp [evalLoop] at h
  | succ k ih =>
    intro iters acc s hs g r g' h hc
    simp only [evalLoop] at h
    split at h
    · cases h
    · rename_i r0 s0 g0 hx
      have hp := hbody _ hs _ _ _ hx hc
      split at h
      · exact PPost.trans hp.1 (ih _ _ _ hp.2.2.of_ok _ _ _ h hp.2.1)
      · cases h; exact hp.toPanic _
    · rename_i e0 g0 hx
      cases h
      exact (hbody _ hs _ _ _ hx hc).toOk rfl _ (by simpa using hs)
    · rename_i m g0 hx
      cases h
      exact (hbody _ hs _ _ _ hx hc).toPanic _

theorem stepExpr_pinv (hrec : RecP env P rec) (n : Nat) (ctx : Ctx) (e : Expr) (s : St) (hs : P s.tot) :
    PInv env P (stepExpr env rec n ctx e s) := by
  cases e with
  | choice alts =>
    match alts with
    | [] => exact PInv.pure _ (ResB.panic _)
    | [a] => exact hrec.expr ctx a s hs
    | a :: b :: rest => exact evalAlts_pinv hrec _ _ hs
  | seq parts =>
    match parts with
    | [] => exact PInv.pure _ (ResB.ok hs)
    | [a] => exact hrec.expr ctx a s hs
    | a :: b :: rest =>
      refine bindR_pinv (evalSeq_pinv hrec _ _ _ _ hs) (fun v s' hs' => ?_)
      obtain ⟨seen, acc⟩ := v
      cases hp : project (filterRuleFields ctx.ruleFields (ownFields env (.seq (a :: b :: rest)))) acc with
      | error m => simp only [hp]; exact PInv.pure _ (ResB.panic _)
      | ok v => simp only [hp]; exact PInv.pure _ (ResB.ok hs')
  | group b => exact hrec.expr ctx b s hs
  | opt b =>
    intro g r g' h hc
    simp only [stepExpr] at h
    split at h
    · cases h
    · rename_i r0 s0 g0 hx
      cases h
      exact hrec.expr _ _ _ hs _ _ _ hx hc
    · rename_i e0 g0 hx
      have hp := hrec.expr _ _ _ hs _ _ _ hx hc
      split at h
      · cases h; exact hp.toOk rfl _ (by simpa using hs)
      · cases h; exact hp.toPanic _
    · rename_i m g0 hx
      cases h
      exact hrec.expr _ _ _ hs _ _ _ hx hc
  | closure b plus =>
    show PInv env P (fun g => stepExpr env rec n ctx (.closure b plus) s g)
    simp only [stepExpr]
    cases hinit : closureInit (filterRuleFields ctx.ruleFields (ownFields env b)) with
    | error m => simp only []; exact PInv.pure _ (ResB.panic _)
    | ok init =>
      simp only []
      exact bindR_pinv (evalLoop_pinv (hrec.expr ctx b) _ _ _ _ hs)
        (fun v s' hs' => PInv.ite (PInv.pure _ (ResB.err _)) (PInv.pure _ (ResB.ok hs')))
  | neg b =>
    intro g r g' h hc
    simp only [stepExpr] at h
    split at h
    · cases h
    · rename_i r0 s0 g0 hx
      cases h
      exact (hrec.expr _ _ _ hs _ _ _ hx hc).toErr rfl _
    · rename_i e0 g0 hx
      cases h
      exact (hrec.expr _ _ _ hs _ _ _ hx hc).toOk rfl _ hs
    · rename_i m g0 hx
      cases h
      exact (hrec.expr _ _ _ hs _ _ _ hx hc).toPanic _
  | pos b => exact bindR_pinv (hrec.expr ctx b s hs) (fun _ _ _ => PInv.pure _ (ResB.ok hs))
  | range lo hi =>
    show PInv env P (fun g => stepExpr env rec n ctx (.range lo hi) s g)
    simp only [stepExpr]
    cases hlo : lo.toChar <;> cases hhi : hi.toChar <;> simp only []
    all_goals first
      | exact PInv.pure _ (ResB.panic _)
      | exact withSkipWs_pinv hrec hs (fun s hs' => PInv.pure _
          (ResB.map _ (ResB.of_tot hs' (fun _ _ h => tot_parseCharacterRange h))))
  | lit ins body =>
    show PInv env P (fun g => stepExpr env rec n ctx (.lit ins body) s g)
    simp only [stepExpr]
    cases hm : compileLit ins body with
    | err m => simp only []; exact PInv.pure _ (ResB.panic _)
    | fuel => simp only []; exact PInv.pure _ (ResB.panic _)
    | ok m =>
      simp only []
      refine withSkipWs_pinv hrec hs (fun s hs' => ?_)
      cases m
      · exact PInv.pure _ (ResB.map _ (ResB.of_tot hs' (fun _ _ h => tot_parseCharacterLiteral h)))
      · exact PInv.pure _ (ResB.map _ (ResB.of_tot hs' (fun _ _ h => tot_parseStringLiteral h)))
      · exact PInv.pure _ (ResB.map _ (ResB.of_tot hs' (fun _ _ h => tot_parseCharacterLiteralInsensitive h)))
      · exact PInv.pure _ (ResB.map _ (ResB.of_tot hs' (fun _ _ h => tot_parseStringLiteralInsensitive h)))
  | eoi =>
    exact withSkipWs_pinv hrec hs (fun s hs' => PInv.pure _
      (ResB.map _ (ResB.of_tot hs' (fun _ _ h => tot_parseEndOfInput h))))
  | incl r =>
    show PInv env P (fun g => stepExpr env rec n ctx (.incl r) s g)
    simp only [stepExpr]
    cases hf : env.g.findRule r with
    | none => simp only []; exact PInv.pure _ (ResB.panic _)
    | some rule => simp only []; exact hrec.expr ctx _ s hs
  | field name boxed typ =>
    show PInv env P (fun g => stepExpr env rec n ctx (.field name boxed typ) s g)
    simp only [stepExpr]
    refine withSkipWs_pinv hrec hs (fun s hs' => bindR_pinv (hrec.rule typ s hs') (fun v s' hs'' => ?_))
    cases name with
    | none => exact PInv.pure _ (ResB.ok hs'')
    | some nm =>
      simp only []
      cases hp : postprocessField ctx.ruleFields nm.key typ v with
      | error m => simp only []; exact PInv.pure _ (ResB.panic _)
      | ok fv => simp only []; exact PInv.pure _ (ResB.ok hs'')

/-! ### rule level -/

theorem Step.uctx_emit (g : Global) (u : Nat) {e : Ev} (he : Neutral e) :
    Step env P g false (({ g with uctx := u } : Global).emit e) :=
  (Step.setUctx g false u).trans (Step.emit _ _ he)

theorem cacheB_insert {g : Global} {k : String × Nat} {r : Res Val} (hc : CacheB P g) (hr : ResB P r) :
    CacheB P (g.insert k r) := by
  intro k' v s' hl
  rw [lookup_insert] at hl
  split at hl
  · cases hl; exact hr v s' rfl
  · exact hc k' v s' hl

theorem runChecks_pinv : ∀ fs v s, P s.tot → PInv env P (runChecks env fs v s) := by
  intro fs
  induction fs with
  | nil => intro v s hs; exact PInv.pure _ (ResB.ok hs)
  | cons f fs ih =>
    intro v s hs g r g' h hc
    simp only [runChecks] at h
    split at h
    · cases h
      exact ⟨Step.uctx_emit _ _ (fun _ => rfl), fun k v s' h => hc k v s' h, ResB.err _⟩
    · exact PPost.trans (Step.uctx_emit _ _ (fun _ => rfl)) (ih _ _ hs _ _ _ h (fun k v s' h => hc k v s' h))

theorem ruleBody_pinv (hrec : RecP env P rec) (r : Rule) (s : St) (hs : P s.tot) :
    PInv env P (ruleBody env rec r s) := by
  show PInv env P (fun g => ruleBody env rec r s g)
  simp only [ruleBody]
  cases hf : getFields env.g env.nf r.definition with
  | ok fields =>
    simp only []
    refine PInv.ite (bindR_pinv (hrec.expr _ _ _ hs) (fun _ s' hs' => runChecks_pinv _ _ _ hs'))
      (PInv.ite (bindR_pinv (hrec.expr _ _ _ hs) (fun p s' hs' => ?_))
        (PInv.ite (PInv.pure _ (ResB.panic _)) (bindR_pinv (hrec.expr _ _ _ hs) (fun p s' hs' => ?_))))
    · cases hv : p.get "_override" with
      | none => simp only []; exact PInv.pure _ (ResB.panic _)
      | some v => simp only []; exact runChecks_pinv _ _ _ hs'
    · cases hp : project fields p with
      | error m => simp only []; exact PInv.pure _ (ResB.panic _)
      | ok fs => simp only []; exact runChecks_pinv _ _ _ hs'
  | err m => simp only []; exact PInv.pure _ (ResB.panic _)
  | fuel => simp only []; exact PInv.pure _ (ResB.panic _)

theorem memoBody_pinv {body : St → Global → Out Val} (hbody : ∀ s, P s.tot → PInv env P (body s))
    (hblog : ∀ s, LogInv (body s)) (flags : RuleFlags) (hlr : flags.leftRecursive = false)
    (name : String) (hev : flags.memoize = true → ∀ o t, P t → o ≤ t → EvOk env P name o)
    (n : Nat) (s : St) (hs : P s.tot) : PInv env P (memoBody flags name body n s) := by
  intro g r g' h hc
  simp only [memoBody, hlr, Bool.false_eq_true, if_false] at h
  split at h
  · rename_i hm
    split at h
    · rename_i cached hl
      cases h
      refine ⟨Step.emit _ _ (fun _ => rfl), fun k v s' h => hc k v s' h, ?_⟩
      intro v s' he; subst he; exact hc _ _ _ hl
    · rename_i hl
      cases hx : body s (g.emit (.bodyEval name s.off)) with
      | none => simp [hx] at h
      | some a =>
        obtain ⟨r1, g1⟩ := a
        have hp := hbody s hs _ _ _ hx (fun k v s' h => hc k v s' h)
        have ht : ∀ l1, g1.log = l1 ++ (g.emit (.bodyEval name s.off)).log → Tr r1.isPanic l1 :=
          fun l1 hl1 => (hblog s).tr hx hl1
        obtain ⟨hpan, hins⟩ := Step.memo (k := (name, s.off)) hl
          (hev hm s.off s.tot hs (Nat.le_add_right _ _)) hp.1 ht
        cases r1 with
        | panic m => simp only [hx] at h; cases h; exact ⟨hpan, hp.2.1, ResB.panic _⟩
        | ok v s1 => simp only [hx] at h; cases h; exact ⟨hins _, cacheB_insert hp.2.1 hp.2.2, hp.2.2⟩
        | err e => simp only [hx] at h; cases h; exact ⟨hins _, cacheB_insert hp.2.1 hp.2.2, hp.2.2⟩
  · exact hbody s hs _ _ _ h hc

theorem normalRule_pinv (hrec : RecP env P rec) (hlog : RecInv rec) (n : Nat) (r : Rule)
    (hlr : r.flags.leftRecursive = false) (hfind : env.g.find r.name = some (.rule r))
    (s : St) (hs : P s.tot) : PInv env P (normalRule env rec n r s) := by
  intro g res g' h hc
  simp only [normalRule] at h
  split at h
  · cases h
  · rename_i res1 g1 hx
    cases h
    have hp := memoBody_pinv (ruleBody_pinv hrec r) (ruleBody_log hlog r) r.flags hlr r.name
      (fun hm o t ht ho => ⟨⟨r, hfind, hm⟩, t, ht, ho⟩) n s hs _ _ _ hx (fun k v s' h => hc k v s' h)
    have hp' : PPost env P g res g1 := PPost.trans (Step.emit _ _ (fun _ => rfl)) hp
    cases res with
    | ok v s1 => exact hp'.emit_after rfl (fun _ => rfl)
    | err e => exact hp'.emit_after rfl (fun _ => rfl)
    | panic m => exact hp'

theorem charChecks_pinv (name : String) :
    ∀ fs c s (g : Global) o g', charChecks env name fs c s g = (o, g') →
      Step env P g false g' ∧ (CacheB P g → CacheB P g') := by
  intro fs
  induction fs with
  | nil =>
    intro c s g o g' h
    simp only [charChecks, Prod.mk.injEq] at h
    obtain ⟨rfl, rfl⟩ := h
    exact ⟨Step.refl _ _, fun h => h⟩
  | cons f fs ih =>
    intro c s g o g' h
    simp only [charChecks] at h
    split at h
    · simp only [Prod.mk.injEq] at h
      obtain ⟨rfl, rfl⟩ := h
      exact ⟨Step.emit _ _ (fun _ => rfl), fun hc k v s' h => hc k v s' h⟩
    · obtain ⟨h1, h2⟩ := ih _ _ _ _ _ h
      exact ⟨(Step.emit _ _ (fun _ => rfl)).trans h1, fun hc => h2 (fun k v s' h => hc k v s' h)⟩

/-- first success wins, the error of the first computation is dropped -/
theorem orElse_pinv {x rest : Global → Out Val} (hx : PInv env P x) (hrest : PInv env P rest) :
    PInv env P (fun g => match x g with
      | none => none
      | some (.ok v s', g') => some (.ok v s', g')
      | some (.err _, g') => rest g'
      | some (.panic m, g') => some (.panic m, g')) := by
  intro g r g' h hc
  simp only at h
  split at h
  · cases h
  · rename_i v s1 g1 hx1
    cases h; exact hx _ _ _ hx1 hc
  · rename_i e g1 hx1
    have hp := hx _ _ _ hx1 hc
    exact PPost.trans hp.1 (hrest _ _ _ h hp.2.1)
  · rename_i m g1 hx1
    cases h; exact hx _ _ _ hx1 hc

theorem charParts_pinv (hrec : RecP env P rec) (name : String) :
    ∀ ps s, P s.tot → PInv env P (charParts rec name ps s) := by
  intro ps
  induction ps with
  | nil => intro s hs; exact PInv.pure _ (ResB.err _)
  | cons p ps ih =>
    intro s hs
    cases p with
    | chr item =>
      refine orElse_pinv ?_ (ih s hs)
      simp only []
      cases item.toChar
      · exact PInv.pure _ (ResB.map _ (ResB.of_tot hs (fun _ _ h => tot_parseCharacterLiteral h)))
      all_goals exact PInv.pure _ (ResB.panic _)
    | range lo hi =>
      refine orElse_pinv ?_ (ih s hs)
      simp only []
      cases lo.toChar <;> cases hi.toChar
      · exact PInv.pure _ (ResB.map _ (ResB.of_tot hs (fun _ _ h => tot_parseCharacterRange h)))
      all_goals exact PInv.pure _ (ResB.panic _)
    | ident id => exact orElse_pinv (hrec.rule id s hs) (ih s hs)

theorem charRule_pinv (hrec : RecP env P rec) (r : CharRule) (s : St) (hs : P s.tot) :
    PInv env P (charRule env rec r s) := by
  intro g res g' h hc
  simp only [charRule] at h
  split at h
  · exact charParts_pinv hrec _ _ _ hs _ _ _ h hc
  · split at h
    · cases h
      exact PPost.refl hc (ResB.err _)
    · split at h
      · rename_i e g1 hcc
        obtain ⟨h1, h2⟩ := charChecks_pinv (P := P) _ _ _ _ _ _ _ hcc
        cases h
        exact ⟨h1, h2 hc, ResB.err _⟩
      · rename_i g1 hcc
        obtain ⟨h1, h2⟩ := charChecks_pinv (P := P) _ _ _ _ _ _ _ hcc
        exact PPost.trans h1 (charParts_pinv hrec _ _ _ hs _ _ _ h (h2 hc))

theorem externRule_pinv (r : ExternRule) (s : St) (hs : P s.tot) : PInv env P (externRule env r s) := by
  intro g res g' h hc
  simp only [externRule] at h
  split at h
  · cases h
    exact ⟨(Step.uctx_emit _ _ (fun _ => rfl)).mono (fun _ => rfl), fun k v s' h => hc k v s' h,
      ResB.of_tot hs (fun _ _ h => tot_advanceSafe h)⟩
  · cases h
    exact ⟨Step.uctx_emit _ _ (fun _ => rfl), fun k v s' h => hc k v s' h, ResB.err _⟩

theorem stepRule_pinv (hnl : NoLeftrec env.g) (hrec : RecP env P rec) (hlog : RecInv rec) (n : Nat)
    (name : String) (s : St) (hs : P s.tot) : PInv env P (stepRule env rec n name s) := by
  show PInv env P (fun g => stepRule env rec n name s g)
  simp only [stepRule]
  cases hf : env.g.find name with
  | none =>
    simp only []
    exact PInv.ite (PInv.pure _ (ResB.map _ (ResB.of_tot hs (fun _ _ h => tot_parseChar h))))
      (PInv.ite (PInv.pure _ (ResB.map _ (ResB.of_tot hs (fun _ _ h => tot_parseWhitespace h))))
        (PInv.pure _ (ResB.panic _)))
  | some e =>
    cases e with
    | rule r =>
      simp only []
      have hmem : RuleEntry.rule r ∈ env.g.rules := List.mem_of_find?_eq_some hf
      have hname : r.name = name := by
        have := List.find?_some hf
        simpa [RuleEntry.name] using this
      exact normalRule_pinv hrec hlog n r (hnl r hmem) (by rw [hname]; exact hf) s hs
    | charRule r => simp only []; exact charRule_pinv hrec r s hs
    | externRule r => simp only []; exact externRule_pinv r s hs

theorem step_pinv (hnl : NoLeftrec env.g) (hrec : RecP env P rec) (hlog : RecInv rec) (n : Nat) :
    RecP env P (step env rec n) :=
  ⟨fun ctx e s hs => stepExpr_pinv hrec n ctx e s hs, fun name s hs => stepRule_pinv hnl hrec hlog n name s hs⟩

end

/-- the packrat invariant holds for every evaluation, at every fuel -/
theorem eval_pinv (hnl : NoLeftrec env.g) : ∀ n, RecP env P (eval env n) := by
  intro n
  induction n with
  | zero =>
    refine ⟨fun _ _ _ _ g r g' h => ?_, fun _ _ _ g r g' h => ?_⟩
    · simp [eval] at h
    · simp [eval] at h
  | succ n ih => exact step_pinv hnl ih (eval_log env n) n

end

/-! ### consequences -/

section
variable {env : Env}

theorem Trans.of_log {P : Nat → Prop} {g g' : Global} {b : Bool} (h : Step env P g b g') {l : List Ev}
    (hl : g'.log = l ++ g.log) : Trans env P g b g' l := by
  obtain ⟨l', h⟩ := h
  have : l = l' := List.append_cancel_right (hl.symm.trans h.log)
  rw [this]; exact h

theorem cacheB_true (g : Global) : CacheB (fun _ => True) g := fun _ _ _ _ => trivial

/-- an arbitrary evaluation of the model (an expression or a rule call, at any fuel) from the global
    state `g` to `g'`; the flag says whether the result is a panic -/
inductive Run (env : Env) : Global → Bool → Global → Prop
  | expr {n : Nat} {ctx : Ctx} {e : Expr} {s : St} {g g' : Global} {r : Res Parsed} :
      (eval env n).expr ctx e s g = some (r, g') → Run env g r.isPanic g'
  | rule {n : Nat} {name : String} {s : St} {g g' : Global} {r : Res Val} :
      (eval env n).rule name s g = some (r, g') → Run env g r.isPanic g'

theorem Run.step (hnl : NoLeftrec env.g) {g g' : Global} {b : Bool} (h : Run env g b g') :
    Step env (fun _ => True) g b g' := by
  cases h with
  | expr h => exact ((eval_pinv hnl _).expr _ _ _ trivial _ _ _ h (cacheB_true _)).1
  | rule h => exact ((eval_pinv hnl _).rule _ _ trivial _ _ _ h (cacheB_true _)).1

/-- the new events of an evaluation -/
theorem Run.log {g g' : Global} {b : Bool} (h : Run env g b g') : ∃ l, g'.log = l ++ g.log := by
  cases h with
  | expr h => obtain ⟨l, hl, _⟩ := eval_log_erasure h; exact ⟨l, hl⟩
  | rule h => obtain ⟨l, hl, _⟩ := eval_log_erasure_rule h; exact ⟨l, hl⟩

/-- **1. Cache monotonicity**: every key present before an evaluation is present afterwards, with the
    same value. -/
theorem C06_cache_mono (hnl : NoLeftrec env.g) {g g' : Global} {b : Bool} (h : Run env g b g')
    {k : String × Nat} {v : Res Val} (hk : g.lookup k = some v) : g'.lookup k = some v := by
  obtain ⟨l, h⟩ := h.step hnl
  exact h.mono k v hk

theorem C06_cache_mono_expr (hnl : NoLeftrec env.g) {n ctx e s g r g'}
    (h : (eval env n).expr ctx e s g = some (r, g')) {k : String × Nat} {v : Res Val}
    (hk : g.lookup k = some v) : g'.lookup k = some v :=
  C06_cache_mono hnl (Run.expr h) hk

theorem C06_cache_mono_rule (hnl : NoLeftrec env.g) {n name s g r g'}
    (h : (eval env n).rule name s g = some (r, g')) {k : String × Nat} {v : Res Val}
    (hk : g.lookup k = some v) : g'.lookup k = some v :=
  C06_cache_mono hnl (Run.rule h) hk

theorem traceResult_lookup (g : Global) (r : Res Val) (k) : (traceResult g r).lookup k = g.lookup k := by
  cases r <;> rfl

/-- **2. Evaluated ⇒ cached**: after a non-panicking call of a memoized normal rule at `s`, the cache
    holds exactly the returned result for `(name, s.off)` (the fresh result after a miss, the old
    entry – which is what was returned – after a hit). -/
theorem C06_evaluated_cached (hnl : NoLeftrec env.g) {n : Nat} {name : String} {s : St} {g g' : Global}
    {r : Res Val} {r0 : Rule} (h : (eval env n).rule name s g = some (r, g')) (hp : ∀ m, r ≠ .panic m)
    (hf : env.g.find name = some (.rule r0)) (hm : r0.flags.memoize = true) :
    g'.lookup (name, s.off) = some r := by
  have hname : r0.name = name := by
    have := List.find?_some hf
    simpa [RuleEntry.name] using this
  have hlr : r0.flags.leftRecursive = false := hnl r0 (List.mem_of_find?_eq_some hf)
  cases n with
  | zero => simp [eval] at h
  | succ n =>
    have h' : normalRule env (eval env n) n r0 s g = some (r, g') := by
      simpa only [eval, step, stepRule, hf] using h
    simp only [normalRule] at h'
    split at h'
    · cases h'
    · rename_i res1 g1 hx
      cases h'
      rw [traceResult_lookup]
      simp only [memoBody, hlr, hm, Bool.false_eq_true, if_false, if_true, hname] at hx
      split at hx
      · rename_i cached hl
        cases hx
        exact hl
      · rename_i hl
        split at hx
        · cases hx
        · cases hx
          exact absurd rfl (hp _)
        · cases hx
          rw [lookup_insert]; simp

/-- a miss really evaluates: the result in the cache after a miss is the result of this call, and
    after a hit it is the old entry -/
theorem C06_hit_returns_entry (hnl : NoLeftrec env.g) {n : Nat} {name : String} {s : St} {g g' : Global}
    {r c : Res Val} {r0 : Rule} (h : (eval env n).rule name s g = some (r, g'))
    (hf : env.g.find name = some (.rule r0)) (hm : r0.flags.memoize = true)
    (hc : g.lookup (name, s.off) = some c) :
    r = c ∧ ∀ l, g'.log = l ++ g.log → ∀ k, evals l k = 0 := by
  have hname : r0.name = name := by
    have := List.find?_some hf
    simpa [RuleEntry.name] using this
  have hlr : r0.flags.leftRecursive = false := hnl r0 (List.mem_of_find?_eq_some hf)
  cases n with
  | zero => simp [eval] at h
  | succ n =>
    have h' : normalRule env (eval env n) n r0 s g = some (r, g') := by
      simpa only [eval, step, stepRule, hf] using h
    simp only [normalRule] at h'
    split at h'
    · cases h'
    · rename_i res1 g1 hx
      cases h'
      simp only [memoBody, hlr, hm, Bool.false_eq_true, if_false, if_true, hname, emit_lookup, hc] at hx
      cases hx
      refine ⟨rfl, fun l hl k => ?_⟩
      cases r with
      | ok v s1 =>
        have : l = [.traceOk s1.off, .info "Cache hit", .traceStart name s.off] :=
          List.append_cancel_right (hl.symm.trans (by simp [traceResult]))
        subst this; simp [evals, isBodyEval]
      | err e =>
        have : l = [.traceErr e.spec, .info "Cache hit", .traceStart name s.off] :=
          List.append_cancel_right (hl.symm.trans (by simp [traceResult]))
        subst this; simp [evals, isBodyEval]
      | panic m =>
        have : l = [.info "Cache hit", .traceStart name s.off] :=
          List.append_cancel_right (hl.symm.trans (by simp [traceResult]))
        subst this; simp [evals, isBodyEval]

/-- **3a. A cached position is never re-evaluated**: if `k` is in the cache before an evaluation, the
    evaluation emits no `bodyEval k`. -/
theorem C06_cached_not_evaluated (hnl : NoLeftrec env.g) {g g' : Global} {b : Bool} (h : Run env g b g')
    {l : List Ev} (hl : g'.log = l ++ g.log) {k : String × Nat} (hk : g.lookup k ≠ none) :
    evals l k = 0 :=
  (Trans.of_log (h.step hnl) hl).hit k hk

/-- **3b. Every body evaluation is followed by the insertion**: if a non-panicking evaluation emitted
    `bodyEval k`, then `k` was absent before and is present afterwards. -/
theorem C06_evaluated_inserted (hnl : NoLeftrec env.g) {g g' : Global} (h : Run env g false g')
    {l : List Ev} (hl : g'.log = l ++ g.log) {k : String × Nat} (hk : 0 < evals l k) :
    g.lookup k = none ∧ g'.lookup k ≠ none := by
  have ht := Trans.of_log (h.step hnl) hl
  refine ⟨?_, ht.done rfl k hk⟩
  cases hg : g.lookup k with
  | none => rfl
  | some v =>
    have := ht.hit k (by rw [hg]; exact fun h => by cases h)
    omega

/-- **3c (C06, sequential form).**  Two successive evaluations (any expressions / rules, in
    sequence, threading the global state): a memoized body that was evaluated (to completion, without
    panic) in the first is not evaluated again in the second. -/
theorem C06_no_reevaluation (hnl : NoLeftrec env.g) {g g1 g2 : Global} {b : Bool}
    (h1 : Run env g false g1) (h2 : Run env g1 b g2) {l1 l2 : List Ev}
    (hl1 : g1.log = l1 ++ g.log) (hl2 : g2.log = l2 ++ g1.log) {k : String × Nat}
    (hk : 0 < evals l1 k) : evals l2 k = 0 :=
  C06_cached_not_evaluated hnl h2 hl2 (C06_evaluated_inserted hnl h1 hl1 hk).2

/-- same, with any number of evaluations in between (the cache is monotone) -/
theorem C06_no_reevaluation_later (hnl : NoLeftrec env.g) {g g1 g2 g3 : Global} {b : Bool}
    (h1 : Run env g false g1) (hmid : ∀ k v, g1.lookup k = some v → g2.lookup k = some v)
    (h3 : Run env g2 b g3) {l1 l3 : List Ev}
    (hl1 : g1.log = l1 ++ g.log) (hl3 : g3.log = l3 ++ g2.log) {k : String × Nat}
    (hk : 0 < evals l1 k) : evals l3 k = 0 :=
  C06_cached_not_evaluated hnl h3 hl3
    (lookup_ne_none_of_mono hmid (C06_evaluated_inserted hnl h1 hl1 hk).2)

/-- **3d (C06, counting form, conditional).**  In an evaluation whose log has no re-entry (`NoRe`),
    every key is evaluated at most once – also when the evaluation ends in a panic. -/
theorem C06_once (hnl : NoLeftrec env.g) {g g' : Global} {b : Bool} (h : Run env g b g')
    {l : List Ev} (hl : g'.log = l ++ g.log) (hno : NoRe l) (k : String × Nat) : evals l k ≤ 1 :=
  (Trans.of_log (h.step hnl) hl).once hno k

theorem parse_log {n rule inp u} {r : Res Val} {g' : Global}
    (_h : parseAdvanced env n rule inp u = some (r, g')) : g'.log = g'.log ++ (Global.init u).log := by
  simp [Global.init]

/-- counting form for a complete parse -/
theorem C06_parse_once (hnl : NoLeftrec env.g) {n rule inp u} {r : Res Val} {g' : Global}
    (h : parseAdvanced env n rule inp u = some (r, g')) (hno : NoRe g'.log) (k : String × Nat) :
    evals g'.log k ≤ 1 :=
  C06_once hnl (Run.rule h) (parse_log h) hno k

/-- where the counting form can fail: the only way to get a second `bodyEval k` is a re-entry, i.e. a
    `bodyEval k` among the events of the body evaluation that the first `bodyEval k` announces
    (`mid` never closes the trace bracket of the invocation: the rule `k.1` has called itself at the
    same offset `k.2`, without consuming input, before its first invocation returned) -/
theorem C06_twice_is_reentry (hnl : NoLeftrec env.g) {g g' : Global} {b : Bool} (h : Run env g b g')
    {l : List Ev} (hl : g'.log = l ++ g.log) {k : String × Nat} (hk : 1 < evals l k) :
    ∃ k', Reentry l.reverse k' := by
  apply Classical.byContradiction
  intro hne
  have := C06_once hnl h hl (fun k' hr => hne ⟨k', hr⟩) k
  omega

/-! ### 4. the bound -/

/-- keys of the `bodyEval` events of a log -/
def bodyKeys (l : List Ev) : List (String × Nat) :=
  l.filterMap fun e => match e with | .bodyEval n o => some (n, o) | _ => none

theorem evals_cons (e : Ev) (l : List Ev) (k : String × Nat) :
    evals (e :: l) k = (if isBodyEval k e = true then 1 else 0) + evals l k := by
  have := evals_append [e] l k
  simp only [List.singleton_append] at this
  rw [this]; congr 1
  by_cases h : isBodyEval k e = true <;> simp [evals, h]

theorem evals_eq_count (l : List Ev) (k : String × Nat) : evals l k = (bodyKeys l).count k := by
  induction l with
  | nil => rfl
  | cons e l ih =>
    rw [evals_cons, ih]
    cases e
    case bodyEval n o =>
      have hb : bodyKeys (.bodyEval n o :: l) = (n, o) :: bodyKeys l := by simp [bodyKeys]
      rw [hb, List.count_cons]
      by_cases hk : (n, o) = k
      · have h1 : isBodyEval k (.bodyEval n o) = true := isBodyEval_iff.2 hk
        simp [h1, hk]; omega
      · have h1 : ¬ isBodyEval k (.bodyEval n o) = true := fun h => hk (isBodyEval_iff.1 h)
        simp [h1, hk]
    all_goals simp [isBodyEval, bodyKeys]

theorem mem_bodyKeys {l : List Ev} {n o} : (n, o) ∈ bodyKeys l ↔ Ev.bodyEval n o ∈ l := by
  simp only [bodyKeys, List.mem_filterMap]
  constructor
  · rintro ⟨e, he, h⟩
    cases e <;> simp at h
    obtain ⟨rfl, rfl⟩ := h; exact he
  · intro h; exact ⟨_, h, rfl⟩

/-- names of the memoized normal rules -/
def memoNames (g : Grammar) : List String :=
  g.rules.filterMap fun e => match e with
    | .rule r => if r.flags.memoize then some r.name else none
    | _ => none

theorem memoNames_length_le (g : Grammar) : (memoNames g).length ≤ g.rules.length :=
  List.length_filterMap_le _ _

def keyGrid (names : List String) (len : Nat) : List (String × Nat) :=
  names.flatMap fun n => (List.range (len + 1)).map fun o => (n, o)

theorem keyGrid_length (names : List String) (len : Nat) :
    (keyGrid names len).length = names.length * (len + 1) := by
  induction names with
  | nil => simp [keyGrid]
  | cons a as ih =>
    simp only [keyGrid, List.flatMap_cons, List.length_append, List.length_map, List.length_range,
      List.length_cons] at ih ⊢
    rw [ih, Nat.add_mul]; omega

theorem mem_keyGrid {names : List String} {len : Nat} {n o} (hn : n ∈ names) (ho : o ≤ len) :
    (n, o) ∈ keyGrid names len := by
  simp only [keyGrid, List.mem_flatMap, List.mem_map, List.mem_range]
  exact ⟨n, hn, o, by omega, rfl⟩

/-- every `bodyEval name off` of a complete parse belongs to a memoized normal rule and has
    `off ≤ inp.length` -/
theorem C06_parse_events (hnl : NoLeftrec env.g) {n rule inp u} {r : Res Val} {g' : Global}
    (h : parseAdvanced env n rule inp u = some (r, g')) {name : String} {off : Nat}
    (hm : Ev.bodyEval name off ∈ g'.log) :
    name ∈ memoNames env.g ∧ off ≤ inp.length := by
  have hp := (eval_pinv (P := (· = inp.length)) hnl n).rule rule (St.new inp)
    (by simp [St.tot, St.new]) _ _ _ h (by intro k v s' hl; simp [Global.init, Global.lookup] at hl)
  have ht := Trans.of_log hp.1 (parse_log h)
  obtain ⟨⟨r0, hf, hmemo⟩, t, rfl, ho⟩ := ht.evok name off hm
  refine ⟨?_, ho⟩
  have hname : r0.name = name := by
    have := List.find?_some hf
    simpa [RuleEntry.name] using this
  have hmem : RuleEntry.rule r0 ∈ env.g.rules := List.mem_of_find?_eq_some hf
  simp only [memoNames, List.mem_filterMap]
  exact ⟨_, hmem, by simp [hmemo, hname]⟩

/-- **4. The packrat bound**, from the counting form: a complete parse of an input of `inp.length`
    bytes evaluates at most `(number of memoized rules) * (inp.length + 1)` memoized rule bodies. -/
theorem C06_bound_of_once (hnl : NoLeftrec env.g) {n rule inp u} {r : Res Val} {g' : Global}
    (h : parseAdvanced env n rule inp u = some (r, g')) (honce : ∀ k, evals g'.log k ≤ 1) :
    (bodyKeys g'.log).length ≤ (memoNames env.g).length * (inp.length + 1) := by
  rw [← keyGrid_length]
  apply List.Nodup.length_le_of_subset
  · rw [List.nodup_iff_count]
    intro k; rw [← evals_eq_count]; exact honce k
  · intro k hk
    obtain ⟨kn, ko⟩ := k
    obtain ⟨h1, h2⟩ := C06_parse_events hnl h (mem_bodyKeys.1 hk)
    exact mem_keyGrid h1 h2

/-- the bound for a parse without re-entry -/
theorem C06_bound (hnl : NoLeftrec env.g) {n rule inp u} {r : Res Val} {g' : Global}
    (h : parseAdvanced env n rule inp u = some (r, g')) (hno : NoRe g'.log) :
    (bodyKeys g'.log).length ≤ (memoNames env.g).length * (inp.length + 1) :=
  C06_bound_of_once hnl h (C06_parse_once hnl h hno)

/-- in the form of the task statement: at most `(number of rules) * (len + 1)` -/
theorem C06_bound_rules (hnl : NoLeftrec env.g) {n rule inp u} {r : Res Val} {g' : Global}
    (h : parseAdvanced env n rule inp u = some (r, g')) (hno : NoRe g'.log) :
    (bodyKeys g'.log).length ≤ env.g.rules.length * (inp.length + 1) :=
  Nat.le_trans (C06_bound hnl h hno) (Nat.mul_le_mul_right _ (memoNames_length_le _))

end

/-! ### a decision procedure for `NoRe` (used for the examples below) -/

/-- scan the events after a `bodyEval k` (relative depth `d ≥ 1`): `false` as soon as another
    `bodyEval k` is seen before the bracket closes -/
def scanRe (k : String × Nat) : List Ev → Nat → Bool
  | [], _ => true
  | e :: es, d =>
    if isBodyEval k e then false
    else if isStart e then scanRe k es (d + 1)
    else if isResult e then (if d ≤ 1 then true else scanRe k es (d - 1))
    else scanRe k es d

/-- (chronological list) no re-entry -/
def noReB : List Ev → Bool
  | [] => true
  | e :: es => (match e with | .bodyEval n o => scanRe (n, o) es 1 | _ => true) && noReB es

theorem scanRe_false (k : String × Nat) (post : List Ev) :
    ∀ (mid : List Ev) (d : Nat), 1 ≤ d → (∀ p, p <+: mid → depthAfter p d ≠ some 0) →
      scanRe k (mid ++ Ev.bodyEval k.1 k.2 :: post) d = false := by
  intro mid
  induction mid with
  | nil => intro d _ _; simp [scanRe, isBodyEval_self]
  | cons e es ih =>
    intro d hd h
    simp only [List.cons_append, scanRe]
    split
    · rfl
    · split
      · rename_i hs
        refine ih (d + 1) (by omega) (fun p hp => ?_)
        have := h (e :: p) (List.cons_prefix_cons.2 ⟨rfl, hp⟩)
        simpa [depthAfter, hs] using this
      · rename_i hs
        split
        · rename_i hr
          have hd0 : d ≠ 0 := by omega
          split
          · exfalso
            have hd1 : d = 1 := by omega
            subst hd1
            have := h [e] (List.cons_prefix_cons.2 ⟨rfl, List.nil_prefix⟩)
            simp [depthAfter, hs, hr] at this
          · refine ih (d - 1) (by omega) (fun p hp => ?_)
            have := h (e :: p) (List.cons_prefix_cons.2 ⟨rfl, hp⟩)
            simpa [depthAfter, hs, hr, hd0] using this
        · rename_i hr
          refine ih d hd (fun p hp => ?_)
          have := h (e :: p) (List.cons_prefix_cons.2 ⟨rfl, hp⟩)
          simpa [depthAfter, hs, hr] using this

theorem noReB_false_of_reentry {c : List Ev} {k : String × Nat} (h : Reentry c k) : noReB c = false := by
  obtain ⟨pre, mid, post, rfl, hm⟩ := h
  induction pre with
  | nil =>
    simp only [List.nil_append, List.cons_append, noReB]
    rw [scanRe_false k post mid 1 (Nat.le_refl 1) hm]
    rfl
  | cons e es ih =>
    simp only [List.cons_append, noReB, List.append_assoc] at ih ⊢
    rw [ih]; simp

/-- soundness of the checker -/
theorem NoRe_of_check {l : List Ev} (h : noReB l.reverse = true) : NoRe l := by
  intro k hr
  rw [noReB_false_of_reentry hr] at h
  cases h

/-! ### examples -/

/-- the hypotheses (`NoLeftrec`, `NoRe`) are satisfiable, and the statements are not vacuous:
    `S = A 'x' | A 'y'`, `A = 'a'`, both memoized, on the input "ay": the parse succeeds, its log
    has no re-entry, `A` and `S` are evaluated once at offset 0 (the second attempt of `A` is a
    cache hit). -/
def exGood : Env :=
  let a : Rule := ⟨[.memoize], "A", .choice [.seq [.lit false [.chr 'a']]]⟩
  let s : Rule := ⟨[.export, .memoize], "S",
      .choice [.seq [.field none false "A", .lit false [.chr 'x']],
               .seq [.field none false "A", .lit false [.chr 'y']]]⟩
  { g := ⟨[.rule s, .rule a]⟩, settings := {}, hooks := default, nf := 10 }

theorem exGood_noLeftrec : NoLeftrec exGood.g := by
  intro r hr
  simp only [exGood, List.mem_cons, RuleEntry.rule.injEq, List.mem_nil_iff, or_false] at hr
  rcases hr with rfl | rfl <;> rfl

example :
    (match parseAdvanced exGood 20 "S" [97, 121] 0 with
      | some (.ok _ st, g) => (st.off, noReB g.log.reverse, bodyKeys g.log)
      | _ => (99, false, [])) = (2, true, [("A", 0), ("S", 0)]) := by decide

example : ∀ r g', parseAdvanced exGood 20 "S" [97, 121] 0 = some (r, g') →
    NoRe g'.log ∧ (∀ k, evals g'.log k ≤ 1) ∧ (bodyKeys g'.log).length ≤ 2 * 3 := by
  intro r g' h
  have hno : NoRe g'.log := by
    apply NoRe_of_check
    have : (match parseAdvanced exGood 20 "S" [97, 121] 0 with
      | some (_, g) => noReB g.log.reverse | none => false) = true := by decide
    rw [h] at this; exact this
  exact ⟨hno, C06_parse_once exGood_noLeftrec h hno, C06_bound exGood_noLeftrec h hno⟩

/-- **Counterexample to the unconditional counting form** (why `NoRe`, or purity of the user
    functions, is needed): `@memoize A = X A | 'a'` where `X` is an `@extern` rule whose user
    function succeeds *without consuming input* the first time (user context `0`, which it sets to
    `1`) and fails afterwards.  No `@leftrec` anywhere.  On the input "a" the parse succeeds, yet the
    body of `A` is evaluated twice at offset 0 (the nested call happens before the outer insertion),
    and the cache receives two entries for `("A", 0)`. -/
def exBad : Env :=
  let a : Rule := ⟨[.memoize], "A",
      .choice [.seq [.field none false "X", .field none false "A"], .seq [.lit false [.chr 'a']]]⟩
  { g := ⟨[.rule a, .externRule ⟨["x"], none, "X"⟩]⟩, settings := {},
    hooks := { extern := fun _ _ u => if u == 0 then (.ok (.unit, 0), 1) else (.error "no", u),
               check := fun _ _ u => (true, u), charCheck := fun _ _ => true },
    nf := 10 }

theorem exBad_noLeftrec : NoLeftrec exBad.g := by
  intro r hr
  simp only [exBad, List.mem_cons, RuleEntry.rule.injEq, List.mem_nil_iff, or_false, reduceCtorEq] at hr
  subst hr; rfl

example :
    (match parseAdvanced exBad 20 "A" [97] 0 with
      | some (.ok _ st, g) => (st.off, evals g.log ("A", 0), g.cache.length, noReB g.log.reverse)
      | _ => (99, 99, 99, true)) = (1, 2, 2, false) := by decide


/-! ## Part II: the unconditional counting form under `PureHooks`

  A memoized rule cannot re-enter its own key while its body is being evaluated: such a re-entry is a
  left recursion of the reference semantics at the same offset, which never converges – and every
  rule invocation started during an evaluation that returns converges in the reference semantics
  with *less* fuel than its caller (`QT.q`, proved by a second pass that uses the refinement theorem
  `eval_ref` for the values of the sub-results and the packrat pass above for `hit`/`done`). -/

section Pure
open Spec

abbrev PT : Nat → Prop := fun _ => True

section
variable (env : Env) (u : Nat) (inp : List UInt8)

/-- the reference semantics answers for the rule `name` at offset `off` with fuel `M` -/
def Cvg (M : Nat) (name : String) (off : Nat) : Prop :=
  (Spec.eval env u M).rule name ⟨inp.drop off, off, none⟩ ≠ none

/-- every rule invocation started in `l` converges in the reference semantics with fuel `M` -/
def Starts (M : Nat) (l : List Ev) : Prop :=
  ∀ name off, Ev.traceStart name off ∈ l → Cvg env u inp M name off

/-- `conv M`: the reference computation corresponding to this run answers with fuel `M` -/
structure QT (conv : Nat → Prop) (g g' : Global) (l : List Ev) : Prop where
  log : g'.log = l ++ g.log
  q : ∀ M, conv M → Starts env u inp M l
  o : ∀ k, evals l k ≤ 1
  c : ∀ n o, Ev.bodyEval n o ∈ l → Ev.traceStart n o ∈ l

def QPost (conv : Nat → Prop) (g g' : Global) : Prop := ∃ l, QT env u inp conv g g' l

/-- events that are neither `bodyEval` nor `traceStart` -/
def Quiet (l : List Ev) : Prop := ∀ e, e ∈ l → Neutral e ∧ ∀ n o, e ≠ Ev.traceStart n o

variable {env u inp}

theorem evals_quiet {l : List Ev} (h : Quiet l) (k : String × Nat) : evals l k = 0 := by
  unfold evals
  rw [List.length_eq_zero_iff, List.filter_eq_nil_iff]
  intro e he
  rw [(h e he).1 k]; exact fun h => by cases h

theorem Quiet.nil : Quiet [] := fun _ h => by cases h

theorem Quiet.single {e : Ev} (h1 : Neutral e) (h2 : ∀ n o, e ≠ Ev.traceStart n o) : Quiet [e] := by
  intro e' he
  simp only [List.mem_singleton] at he
  subst he; exact ⟨h1, h2⟩

theorem Quiet.append {a b : List Ev} (ha : Quiet a) (hb : Quiet b) : Quiet (a ++ b) := by
  intro e he
  rcases List.mem_append.1 he with h | h
  · exact ha e h
  · exact hb e h

theorem Quiet.no_body {l : List Ev} (h : Quiet l) {n o} : Ev.bodyEval n o ∉ l := by
  intro hm
  have := (h _ hm).1 (n, o)
  simp [isBodyEval] at this

theorem Quiet.no_start {l : List Ev} (h : Quiet l) {n o} : Ev.traceStart n o ∉ l :=
  fun hm => (h _ hm).2 n o rfl

theorem Cvg.mono {M M' : Nat} (h : M ≤ M') {name off} (hc : Cvg env u inp M name off) :
    Cvg env u inp M' name off := by
  unfold Cvg at *
  cases hr : (Spec.eval env u M).rule name ⟨inp.drop off, off, none⟩ with
  | none => exact absurd hr hc
  | some r =>
    rw [(Spec.eval_mono env u h).rule _ _ _ hr]
    exact fun h => by cases h

theorem Starts.mono {M M' : Nat} (h : M ≤ M') {l : List Ev} (hs : Starts env u inp M l) :
    Starts env u inp M' l :=
  fun name off hm => (hs name off hm).mono h

theorem QPost.refl (conv : Nat → Prop) (g : Global) : QPost env u inp conv g g :=
  ⟨[], rfl, (fun _ _ _ _ h => by cases h), (fun k => by simp [evals]), (fun _ _ h => by cases h)⟩

theorem QPost.weaken {conv conv' : Nat → Prop} {g g' : Global} (h : QPost env u inp conv g g')
    (hc : ∀ M, conv' M → conv M) : QPost env u inp conv' g g' := by
  obtain ⟨l, h⟩ := h
  exact ⟨l, h.log, fun M hm => h.q M (hc M hm), h.o, h.c⟩

theorem QPost.seq {conv conv1 conv2 : Nat → Prop} {g g1 g2 : Global} {b : Bool}
    (hs1 : Step env PT g false g1) (hq1 : QPost env u inp conv1 g g1)
    (hs2 : Step env PT g1 b g2) (hq2 : QPost env u inp conv2 g1 g2)
    (hc : ∀ M, conv M → conv1 M ∧ conv2 M) : QPost env u inp conv g g2 := by
  obtain ⟨l1, h1⟩ := hq1
  obtain ⟨l2, h2⟩ := hq2
  have t1 := Trans.of_log hs1 h1.log
  have t2 := Trans.of_log hs2 h2.log
  refine ⟨l2 ++ l1, ?_, ?_, ?_, ?_⟩
  · rw [h2.log, h1.log, List.append_assoc]
  · intro M hm name off hmem
    rcases List.mem_append.1 hmem with h | h
    · exact h2.q M (hc M hm).2 name off h
    · exact h1.q M (hc M hm).1 name off h
  · intro k
    rw [evals_append]
    have e1 := h1.o k
    have e2 := h2.o k
    by_cases h0 : 0 < evals l1 k
    · have := t2.hit k (t1.done rfl k h0)
      omega
    · omega
  · intro n o hmem
    rcases List.mem_append.1 hmem with h | h
    · exact List.mem_append_left _ (h2.c n o h)
    · exact List.mem_append_right _ (h1.c n o h)

theorem QPost.quiet_after {conv : Nat → Prop} {g g1 g2 : Global} (hq : QPost env u inp conv g g1)
    {l : List Ev} (hl : g2.log = l ++ g1.log) (hquiet : Quiet l) : QPost env u inp conv g g2 := by
  obtain ⟨l1, h1⟩ := hq
  refine ⟨l ++ l1, ?_, ?_, ?_, ?_⟩
  · rw [hl, h1.log, List.append_assoc]
  · intro M hm name off hmem
    rcases List.mem_append.1 hmem with h | h
    · exact absurd h hquiet.no_start
    · exact h1.q M hm name off h
  · intro k; rw [evals_append, evals_quiet hquiet]; have := h1.o k; omega
  · intro n o hmem
    rcases List.mem_append.1 hmem with h | h
    · exact absurd h hquiet.no_body
    · exact List.mem_append_right _ (h1.c n o h)

theorem QPost.quiet_before {conv : Nat → Prop} {g g1 g2 : Global} {l : List Ev}
    (hl : g1.log = l ++ g.log) (hquiet : Quiet l) (hq : QPost env u inp conv g1 g2) :
    QPost env u inp conv g g2 := by
  obtain ⟨l2, h2⟩ := hq
  refine ⟨l2 ++ l, ?_, ?_, ?_, ?_⟩
  · rw [h2.log, hl, List.append_assoc]
  · intro M hm name off hmem
    rcases List.mem_append.1 hmem with h | h
    · exact h2.q M hm name off h
    · exact absurd h hquiet.no_start
  · intro k; rw [evals_append, evals_quiet hquiet]; have := h2.o k; omega
  · intro n o hmem
    rcases List.mem_append.1 hmem with h | h
    · exact List.mem_append_left _ (h2.c n o h)
    · exact absurd h hquiet.no_body

theorem QPost.of_quiet (conv : Nat → Prop) {g g' : Global} {l : List Ev} (hl : g'.log = l ++ g.log)
    (hquiet : Quiet l) : QPost env u inp conv g g' :=
  (QPost.refl conv g).quiet_after hl hquiet

/-! ### uniqueness of reference answers -/

/-- the answer of a fuel-indexed reference computation, whenever defined, is its eventual answer -/
def Det {α} (f : Nat → SOut α) : Prop := ∀ M y r, f M = some y → Evt f r → y = r

theorem Det.of_mono {α} {f : Nat → SOut α} (h : ∀ m m' y, m ≤ m' → f m = some y → f m' = some y) : Det f := by
  intro M y r hy ⟨m0, h0⟩
  have e1 := h M (max M m0) y (Nat.le_max_left _ _) hy
  have e2 := h0 (max M m0) (Nat.le_max_right _ _)
  rw [e1] at e2
  exact Option.some.inj e2

theorem Det.const {α} (x : SOut α) : Det (fun _ => x) := Det.of_mono (fun _ _ _ _ h => h)

theorem det_expr (ctx : Ctx) (e : Expr) (st : St) : Det (fun m => (Spec.eval env u m).expr ctx e st) :=
  Det.of_mono (fun _ _ _ hm h => (Spec.eval_mono env u hm).expr _ _ _ _ h)

theorem det_rule (name : String) (st : St) : Det (fun m => (Spec.eval env u m).rule name st) :=
  Det.of_mono (fun _ _ _ hm h => (Spec.eval_mono env u hm).rule _ _ _ h)

theorem ne_none_of_eq_some {α} {x : Option α} {y : α} (h : x = some y) : x ≠ none := by
  rw [h]; exact fun h => by cases h

theorem bindS_ne_none {α β} {x : SOut α} {k : α → St → SOut β} (h : bindS x k ≠ none) : x ≠ none := by
  intro hx; apply h; rw [hx]; rfl

/-! ### the invariant of the recursive calls -/

variable (env u inp)

/-- everything known about one sub-run: refinement (`Post`), packrat transition (`Step`), and
    convergence tracking (`QPost`) -/
def Sub {α} (f : Nat → SOut α) (g : Global) (r : Res α) (g' : Global) : Prop :=
  Post env u inp f r g' ∧ Step env PT g r.isPanic g' ∧ QPost env u inp (fun M => f M ≠ none) g g'

structure QRec (rec : Rec) : Prop where
  ref : Ref env u inp rec
  pk : RecP env PT rec
  log : RecInv rec
  expr : ∀ ctx e s g r g', rec.expr ctx e s g = some (r, g') → WfSt inp s → Good env u inp g →
    QPost env u inp (fun M => (Spec.eval env u M).expr ctx e (clr s) ≠ none) g g'
  rule : ∀ name s g r g', rec.rule name s g = some (r, g') → WfSt inp s → Good env u inp g →
    QPost env u inp (fun M => (Spec.eval env u M).rule name (clr s) ≠ none) g g'

variable {env u inp}

theorem QRec.subE {rec : Rec} (hrec : QRec env u inp rec) {ctx e s g r g'}
    (h : rec.expr ctx e s g = some (r, g')) (hw : WfSt inp s) (hg : Good env u inp g) :
    Sub env u inp (fun m => (Spec.eval env u m).expr ctx e (clr s)) g r g' :=
  ⟨hrec.ref.expr _ _ _ _ _ _ h hw hg, (hrec.pk.expr ctx e s trivial g r g' h (cacheB_true g)).1,
    hrec.expr _ _ _ _ _ _ h hw hg⟩

theorem QRec.subR {rec : Rec} (hrec : QRec env u inp rec) {name s g r g'}
    (h : rec.rule name s g = some (r, g')) (hw : WfSt inp s) (hg : Good env u inp g) :
    Sub env u inp (fun m => (Spec.eval env u m).rule name (clr s)) g r g' :=
  ⟨hrec.ref.rule _ _ _ _ _ h hw hg, (hrec.pk.rule name s trivial g r g' h (cacheB_true g)).1,
    hrec.rule _ _ _ _ _ h hw hg⟩

theorem Sub.pure {α} (r : Res α) {y : SOut α} {g : Global} (hy : y = some (abs r)) (hg : Good env u inp g)
    (hw : ∀ v s', r = .ok v s' → WfSt inp s') : Sub env u inp (fun _ => y) g r g :=
  ⟨Post.const (fun _ => hy) hg hw, Step.refl _ _, QPost.refl _ _⟩

theorem bindR_q {α β} {x : Out α} {k : α → St → Global → Out β} {fx : Nat → SOut α}
    {fk : Nat → α → St → SOut β} {g : Global} {r : Res β} {g' : Global}
    (h : bindR x k = some (r, g'))
    (hx : ∀ rx gx, x = some (rx, gx) → Sub env u inp fx g rx gx)
    (hdet : Det fx)
    (hk : ∀ v s1 g1, k v s1 g1 = some (r, g') → WfSt inp s1 → Good env u inp g1 →
      Step env PT g1 r.isPanic g' ∧ QPost env u inp (fun M => fk M v (clr s1) ≠ none) g1 g') :
    QPost env u inp (fun M => bindS (fx M) (fk M) ≠ none) g g' := by
  cases x with
  | none => simp [bindR] at h
  | some a =>
    obtain ⟨rx, gx⟩ := a
    obtain ⟨hp, hs, hq⟩ := hx rx gx rfl
    cases rx with
    | ok v s1 =>
      simp only [bindR] at h
      obtain ⟨hs2, hq2⟩ := hk v s1 gx h (hp.2.2 v s1 rfl) hp.2.1
      refine QPost.seq hs hq hs2 hq2 (fun M hc => ⟨bindS_ne_none hc, ?_⟩)
      cases hfx : fx M with
      | none => exact absurd hfx (bindS_ne_none hc)
      | some y =>
        have : y = abs (.ok v s1) := hdet M y _ hfx hp.1
        subst this
        simpa only [hfx, bindS, abs] using hc
    | err e =>
      simp only [bindR, Option.some.injEq, Prod.mk.injEq] at h
      obtain ⟨rfl, rfl⟩ := h
      exact hq.weaken (fun M hc => bindS_ne_none hc)
    | panic m =>
      simp only [bindR, Option.some.injEq, Prod.mk.injEq] at h
      obtain ⟨rfl, rfl⟩ := h
      exact hq.weaken (fun M hc => bindS_ne_none hc)

/-- a continuation that only emits quiet events (user-function calls, nothing) -/
theorem bindR_q_quiet {α β} {x : Out α} {k : α → St → Global → Out β} {conv : Nat → Prop}
    {g : Global} {r : Res β} {g' : Global}
    (h : bindR x k = some (r, g'))
    (hx : ∀ rx gx, x = some (rx, gx) → QPost env u inp conv g gx)
    (hk : ∀ v s1 g1, k v s1 g1 = some (r, g') → ∃ l, g'.log = l ++ g1.log ∧ Quiet l) :
    QPost env u inp conv g g' := by
  cases x with
  | none => simp [bindR] at h
  | some a =>
    obtain ⟨rx, gx⟩ := a
    have hq := hx rx gx rfl
    cases rx with
    | ok v s1 =>
      simp only [bindR] at h
      obtain ⟨l, hl, hquiet⟩ := hk v s1 gx h
      exact hq.quiet_after hl hquiet
    | err e =>
      simp only [bindR, Option.some.injEq, Prod.mk.injEq] at h
      obtain ⟨rfl, rfl⟩ := h
      exact hq
    | panic m =>
      simp only [bindR, Option.some.injEq, Prod.mk.injEq] at h
      obtain ⟨rfl, rfl⟩ := h
      exact hq

theorem withSkipWs_q {α} {rec : Rec} (hrec : QRec env u inp rec) {ctx : Ctx} {s : St} {g : Global}
    {k : St → Global → Out α} {fk : Nat → St → SOut α} {r : Res α} {g' : Global}
    (h : Peg.withSkipWs rec ctx s g k = some (r, g')) (hw : WfSt inp s) (hg : Good env u inp g)
    (hk : ∀ s1 g1, k s1 g1 = some (r, g') → WfSt inp s1 → Good env u inp g1 →
      Step env PT g1 r.isPanic g' ∧ QPost env u inp (fun M => fk M (clr s1) ≠ none) g1 g') :
    QPost env u inp (fun M => Spec.withSkipWs (Spec.eval env u M) ctx (clr s) (fk M) ≠ none) g g' := by
  unfold Peg.withSkipWs at h
  unfold Spec.withSkipWs
  split at h
  · rename_i hs
    simp only [hs, if_true]
    exact bindR_q (fk := fun M _ s' => fk M s') h (fun rx gx hx => hrec.subR hx hw hg) (det_rule _ _)
      (fun v s1 g1 h hw1 hg1 => hk s1 g1 h hw1 hg1)
  · rename_i hs
    simp only [hs]
    exact (hk _ _ h hw hg).2

/-! ### expression level -/

section
variable {rec : Rec}

theorem evalSeq_q (hrec : QRec env u inp rec) {ctx : Ctx} :
    ∀ ps seen acc s g r g', evalSeq env rec ctx ps seen acc s g = some (r, g') →
      WfSt inp s → Good env u inp g →
      QPost env u inp (fun M => Spec.evalSeq env (Spec.eval env u M) ctx ps seen acc (clr s) ≠ none) g g' := by
  intro ps
  induction ps with
  | nil =>
    intro seen acc s g r g' h hw hg
    simp only [evalSeq, Option.some.injEq, Prod.mk.injEq] at h
    obtain ⟨rfl, rfl⟩ := h
    exact QPost.refl _ _
  | cons p ps ih =>
    intro seen acc s g r g' h hw hg
    simp only [evalSeq] at h
    simp only [Spec.evalSeq]
    refine bindR_q h (fun rx gx hx => hrec.subE hx hw hg) (det_expr _ _ _) ?_
    intro v s1 g1 h hw1 hg1
    split at h
    · rename_i hm
      simp only [Option.some.injEq, Prod.mk.injEq] at h
      obtain ⟨rfl, rfl⟩ := h
      exact ⟨Step.refl _ _, QPost.refl _ _⟩
    · rename_i hm
      refine ⟨(evalSeq_pinv hrec.pk _ _ _ _ trivial _ _ _ h (cacheB_true _)).1, ?_⟩
      exact (ih _ _ _ _ _ _ h hw1 hg1).weaken (fun M hc => by simpa only [hm] using hc)

theorem evalAlts_q (hrec : QRec env u inp rec) {ctx : Ctx} {fields} :
    ∀ as s g r g', evalAlts env rec ctx fields as s g = some (r, g') →
      WfSt inp s → Good env u inp g →
      QPost env u inp (fun M => Spec.evalAlts env (Spec.eval env u M) ctx fields as (clr s) ≠ none) g g' := by
  intro as
  induction as with
  | nil =>
    intro s g r g' h hw hg
    simp only [evalAlts, Option.some.injEq, Prod.mk.injEq] at h
    obtain ⟨rfl, rfl⟩ := h
    exact QPost.refl _ _
  | cons a as ih =>
    intro s g r g' h hw hg
    simp only [evalAlts] at h
    split at h
    · cases h
    · rename_i r0 s0 g0 hx
      obtain ⟨hp, hs, hq⟩ := hrec.subE hx hw hg
      have hg' : g' = g0 := by
        split at h <;> (simp only [Option.some.injEq, Prod.mk.injEq] at h; exact h.2.symm)
      subst hg'
      exact hq.weaken (fun M hc h0 => hc (by simp only [Spec.evalAlts, h0]))
    · rename_i e0 g0 hx
      obtain ⟨hp, hs, hq⟩ := hrec.subE hx hw hg
      have hs2 := (evalAlts_pinv hrec.pk _ _ trivial _ _ _ h (cacheB_true _)).1
      have hq2 := ih _ _ _ _ h (wf_recordError.mpr hw) hp.2.1
      refine QPost.seq hs hq hs2 hq2 (fun M hc => ?_)
      cases hfx : (Spec.eval env u M).expr ctx a (clr s) with
      | none => exact absurd (by simp only [Spec.evalAlts, hfx]) hc
      | some y =>
        have : y = abs (.err e0) := det_expr _ _ _ M y _ hfx hp.1
        subst this
        refine ⟨ne_none_of_eq_some hfx, ?_⟩
        simpa only [Spec.evalAlts, hfx, abs, clr_recordError] using hc
    · rename_i m g0 hx
      obtain ⟨hp, hs, hq⟩ := hrec.subE hx hw hg
      simp only [Option.some.injEq, Prod.mk.injEq] at h
      obtain ⟨rfl, rfl⟩ := h
      exact hq.weaken (fun M hc h0 => hc (by simp only [Spec.evalAlts, h0]))

theorem evalLoop_q (hrec : QRec env u inp rec) {ctx : Ctx} {b : Expr} {fields} :
    ∀ k iters acc s g r g', evalLoop (rec.expr ctx b) fields k iters acc s g = some (r, g') →
      WfSt inp s → Good env u inp g →
      QPost env u inp (fun M => ∃ c,
        Spec.evalLoop ((Spec.eval env u M).expr ctx b) fields c iters acc (clr s) ≠ none) g g' := by
  intro k
  induction k with
  | zero => intro iters acc s g r g' h; simp [evalLoop] at h
  | succ k ih =>
    intro iters acc s g r g' h hw hg
    have hfirst : ∀ M, (∃ c, Spec.evalLoop ((Spec.eval env u M).expr ctx b) fields c iters acc (clr s) ≠ none) →
        (Spec.eval env u M).expr ctx b (clr s) ≠ none := by
      intro M ⟨c, hc⟩ h0
      cases c with
      | zero => exact hc (by simp [Spec.evalLoop])
      | succ c => exact hc (by simp only [Spec.evalLoop, h0])
    simp only [evalLoop] at h
    split at h
    · cases h
    · rename_i r0 s0 g0 hx
      obtain ⟨hp, hs, hq⟩ := hrec.subE hx hw hg
      split at h
      · rename_i acc' hacc
        have hs2 := (evalLoop_pinv (hrec.pk.expr ctx b) _ _ _ _ trivial _ _ _ h (cacheB_true _)).1
        have hq2 := ih _ _ _ _ _ _ h (hp.2.2 _ _ rfl) hp.2.1
        refine QPost.seq hs hq hs2 hq2 (fun M hc => ⟨hfirst M hc, ?_⟩)
        obtain ⟨c, hc⟩ := hc
        cases c with
        | zero => exact absurd (by simp [Spec.evalLoop]) hc
        | succ c =>
          cases hfx : (Spec.eval env u M).expr ctx b (clr s) with
          | none => exact absurd (by simp only [Spec.evalLoop, hfx]) hc
          | some y =>
            have : y = abs (.ok r0 s0) := det_expr _ _ _ M y _ hfx hp.1
            subst this
            exact ⟨c, by simpa only [Spec.evalLoop, hfx, abs, hacc] using hc⟩
      · simp only [Option.some.injEq, Prod.mk.injEq] at h
        obtain ⟨rfl, rfl⟩ := h
        exact hq.weaken hfirst
    · rename_i e0 g0 hx
      obtain ⟨hp, hs, hq⟩ := hrec.subE hx hw hg
      simp only [Option.some.injEq, Prod.mk.injEq] at h
      obtain ⟨rfl, rfl⟩ := h
      exact hq.weaken hfirst
    · rename_i m g0 hx
      obtain ⟨hp, hs, hq⟩ := hrec.subE hx hw hg
      simp only [Option.some.injEq, Prod.mk.injEq] at h
      obtain ⟨rfl, rfl⟩ := h
      exact hq.weaken hfirst

theorem resB_true {α} (r : Res α) : ResB PT r := fun _ _ _ => trivial

/-- a terminal matcher under `generate_skip_ws` -/
theorem terminal_q {α} (hrec : QRec env u inp rec) {ctx : Ctx} {s : St} {g : Global}
    {mt : St → Res α} {fk : Nat → St → SOut Parsed} {r : Res Parsed} {g' : Global}
    (h : Peg.withSkipWs rec ctx s g (fun s g => some ((mt s).map (fun _ => ([] : Parsed)), g)) = some (r, g'))
    (hw : WfSt inp s) (hg : Good env u inp g) :
    QPost env u inp (fun M => Spec.withSkipWs (Spec.eval env u M) ctx (clr s) (fk M) ≠ none) g g' := by
  refine withSkipWs_q hrec h hw hg ?_
  intro s1 g1 h _ _
  simp only [Option.some.injEq, Prod.mk.injEq] at h
  obtain ⟨rfl, rfl⟩ := h
  exact ⟨Step.refl _ _, QPost.refl _ _⟩

theorem stepExpr_q (hrec : QRec env u inp rec) (n : Nat) {ctx e s g r g'}
    (h : stepExpr env rec n ctx e s g = some (r, g')) (hw : WfSt inp s) (hg : Good env u inp g) :
    QPost env u inp (fun M => Spec.stepExpr env (Spec.eval env u M) M ctx e (clr s) ≠ none) g g' := by
  cases e with
  | choice alts =>
    match alts with
    | [] =>
      simp only [stepExpr, Option.some.injEq, Prod.mk.injEq] at h
      obtain ⟨rfl, rfl⟩ := h
      exact QPost.refl _ _
    | [a] =>
      simp only [stepExpr] at h
      exact hrec.expr _ _ _ _ _ _ h hw hg
    | a :: b :: rest =>
      simp only [stepExpr] at h
      exact evalAlts_q hrec _ _ _ _ _ h hw hg
  | seq parts =>
    match parts with
    | [] =>
      simp only [stepExpr, Option.some.injEq, Prod.mk.injEq] at h
      obtain ⟨rfl, rfl⟩ := h
      exact QPost.refl _ _
    | [a] =>
      simp only [stepExpr] at h
      exact hrec.expr _ _ _ _ _ _ h hw hg
    | a :: b :: rest =>
      simp only [stepExpr] at h
      simp only [Spec.stepExpr]
      refine (bindR_q_quiet h (fun rx gx hx => evalSeq_q hrec _ _ _ _ _ _ _ hx hw hg) ?_).weaken
        (fun M hc => bindS_ne_none hc)
      intro v s1 g1 h
      obtain ⟨seen, acc⟩ := v
      simp only at h
      split at h <;>
        (simp only [Option.some.injEq, Prod.mk.injEq] at h; obtain ⟨_, rfl⟩ := h; exact ⟨[], rfl, Quiet.nil⟩)
  | group b =>
    simp only [stepExpr] at h
    exact hrec.expr _ _ _ _ _ _ h hw hg
  | opt b =>
    simp only [stepExpr] at h
    split at h
    · cases h
    · rename_i r0 s0 g0 hx
      simp only [Option.some.injEq, Prod.mk.injEq] at h
      obtain ⟨rfl, rfl⟩ := h
      exact (hrec.expr _ _ _ _ _ _ hx hw hg).weaken (fun M hc h0 => hc (by simp only [Spec.stepExpr, h0]))
    · rename_i e0 g0 hx
      have hg' : g' = g0 := by
        split at h <;> (simp only [Option.some.injEq, Prod.mk.injEq] at h; exact h.2.symm)
      subst hg'
      exact (hrec.expr _ _ _ _ _ _ hx hw hg).weaken (fun M hc h0 => hc (by simp only [Spec.stepExpr, h0]))
    · rename_i m g0 hx
      simp only [Option.some.injEq, Prod.mk.injEq] at h
      obtain ⟨rfl, rfl⟩ := h
      exact (hrec.expr _ _ _ _ _ _ hx hw hg).weaken (fun M hc h0 => hc (by simp only [Spec.stepExpr, h0]))
  | closure b plus =>
    simp only [stepExpr] at h
    split at h
    · simp only [Option.some.injEq, Prod.mk.injEq] at h
      obtain ⟨rfl, rfl⟩ := h
      exact QPost.refl _ _
    · rename_i init hinit
      refine (bindR_q_quiet h (fun rx gx hx => evalLoop_q hrec _ _ _ _ _ _ _ hx hw hg) ?_).weaken
        (fun M hc => ⟨M, fun h0 => hc (by simp only [Spec.stepExpr, hinit, h0, bindS])⟩)
      intro v s1 g1 h
      obtain ⟨iters, acc⟩ := v
      simp only at h
      split at h <;>
        (simp only [Option.some.injEq, Prod.mk.injEq] at h; obtain ⟨_, rfl⟩ := h; exact ⟨[], rfl, Quiet.nil⟩)
  | neg b =>
    simp only [stepExpr] at h
    split at h
    · cases h
    · rename_i r0 s0 g0 hx
      simp only [Option.some.injEq, Prod.mk.injEq] at h
      obtain ⟨rfl, rfl⟩ := h
      exact (hrec.expr _ _ _ _ _ _ hx hw hg).weaken (fun M hc h0 => hc (by simp only [Spec.stepExpr, h0]))
    · rename_i e0 g0 hx
      simp only [Option.some.injEq, Prod.mk.injEq] at h
      obtain ⟨rfl, rfl⟩ := h
      exact (hrec.expr _ _ _ _ _ _ hx hw hg).weaken (fun M hc h0 => hc (by simp only [Spec.stepExpr, h0]))
    · rename_i m g0 hx
      simp only [Option.some.injEq, Prod.mk.injEq] at h
      obtain ⟨rfl, rfl⟩ := h
      exact (hrec.expr _ _ _ _ _ _ hx hw hg).weaken (fun M hc h0 => hc (by simp only [Spec.stepExpr, h0]))
  | pos b =>
    simp only [stepExpr] at h
    simp only [Spec.stepExpr]
    refine (bindR_q_quiet h (fun rx gx hx => hrec.expr _ _ _ _ _ _ hx hw hg) ?_).weaken
      (fun M hc => bindS_ne_none hc)
    intro v s1 g1 h
    simp only [Option.some.injEq, Prod.mk.injEq] at h
    obtain ⟨_, rfl⟩ := h
    exact ⟨[], rfl, Quiet.nil⟩
  | range lo hi =>
    simp only [stepExpr] at h
    simp only [Spec.stepExpr]
    split at h
    · rename_i lo' hi' hlo hhi
      simp only [hlo, hhi]
      exact terminal_q hrec h hw hg
    · simp only [Option.some.injEq, Prod.mk.injEq] at h
      obtain ⟨rfl, rfl⟩ := h
      exact QPost.refl _ _
  | lit ins body =>
    simp only [stepExpr] at h
    simp only [Spec.stepExpr]
    split at h
    · rename_i mt hmt
      simp only [hmt]
      cases mt <;> exact terminal_q hrec h hw hg
    · simp only [Option.some.injEq, Prod.mk.injEq] at h
      obtain ⟨rfl, rfl⟩ := h
      exact QPost.refl _ _
  | eoi =>
    simp only [stepExpr] at h
    simp only [Spec.stepExpr]
    exact terminal_q hrec h hw hg
  | incl r0 =>
    simp only [stepExpr] at h
    simp only [Spec.stepExpr]
    split at h
    · simp only [Option.some.injEq, Prod.mk.injEq] at h
      obtain ⟨rfl, rfl⟩ := h
      exact QPost.refl _ _
    · rename_i hf
      simp only [hf]
      exact hrec.expr _ _ _ _ _ _ h hw hg
  | field name boxed typ =>
    simp only [stepExpr] at h
    simp only [Spec.stepExpr]
    refine withSkipWs_q (fk := fun m s =>
        bindS ((Spec.eval env u m).rule typ s) fun v s' =>
          match name with
          | none => some (.ok [] s')
          | some nm =>
            match postprocessField ctx.ruleFields nm.key typ v with
            | .ok fv => some (.ok [(nm.key, fv)] s')
            | .error m => some (.panic ("codegen: " ++ m))) hrec h hw hg ?_
    intro s1 g1 h hw1 hg1
    refine ⟨?_, (bindR_q_quiet h (fun rx gx hx => hrec.rule _ _ _ _ _ hx hw1 hg1) ?_).weaken
      (fun M hc => bindS_ne_none hc)⟩
    · refine (bindR_pinv (hrec.pk.rule typ s1 trivial) (fun v s' _ => ?_) _ _ _ h (cacheB_true _)).1
      cases name with
      | none => exact PInv.pure _ (resB_true _)
      | some nm =>
        simp only []
        cases hp : postprocessField ctx.ruleFields nm.key typ v with
        | error m => simp only []; exact PInv.pure _ (resB_true _)
        | ok fv => simp only []; exact PInv.pure _ (resB_true _)
    · intro v s2 g2 h2
      cases name with
      | none =>
        simp only [Option.some.injEq, Prod.mk.injEq] at h2
        obtain ⟨_, rfl⟩ := h2; exact ⟨[], rfl, Quiet.nil⟩
      | some nm =>
        simp only at h2
        split at h2 <;>
          (simp only [Option.some.injEq, Prod.mk.injEq] at h2; obtain ⟨_, rfl⟩ := h2; exact ⟨[], rfl, Quiet.nil⟩)

/-! ### rule level -/

theorem runChecks_quiet : ∀ fs v s g r g', runChecks env fs v s g = some (r, g') →
    ∃ l, g'.log = l ++ g.log ∧ Quiet l := by
  intro fs
  induction fs with
  | nil =>
    intro v s g r g' h
    simp only [runChecks, Option.some.injEq, Prod.mk.injEq] at h
    obtain ⟨_, rfl⟩ := h
    exact ⟨[], rfl, Quiet.nil⟩
  | cons f fs ih =>
    intro v s g r g' h
    simp only [runChecks] at h
    split at h
    · simp only [Option.some.injEq, Prod.mk.injEq] at h
      obtain ⟨_, rfl⟩ := h
      exact ⟨[_], rfl, Quiet.single (fun _ => rfl) (fun _ _ h => by cases h)⟩
    · obtain ⟨l, hl, hq⟩ := ih _ _ _ _ _ h
      exact ⟨l ++ [Ev.checkCall ("::".intercalate f) v.render g.uctx], by rw [hl]; simp [Global.emit],
        hq.append (Quiet.single (fun _ => rfl) (fun _ _ h => by cases h))⟩

theorem ruleBody_q (hrec : QRec env u inp rec) {r0 : Rule} {s g r g'}
    (h : ruleBody env rec r0 s g = some (r, g')) (hw : WfSt inp s) (hg : Good env u inp g) :
    QPost env u inp (fun M => Spec.ruleBody env u (Spec.eval env u M) r0 (clr s) ≠ none) g g' := by
  unfold ruleBody at h
  unfold Spec.ruleBody
  split at h
  · rename_i fields hf
    simp only [hf]
    simp only at h
    split at h
    · rename_i hc
      simp only [if_pos hc]
      exact (bindR_q_quiet h (fun rx gx hx => hrec.expr _ _ _ _ _ _ hx hw hg)
        (fun v s1 g1 h => runChecks_quiet _ _ _ _ _ _ h)).weaken (fun M hc => bindS_ne_none hc)
    · rename_i hc
      simp only [if_neg hc]
      split at h
      · rename_i hc2
        simp only [if_pos hc2]
        refine (bindR_q_quiet h (fun rx gx hx => hrec.expr _ _ _ _ _ _ hx hw hg) ?_).weaken
          (fun M hc => bindS_ne_none hc)
        intro v s1 g1 h
        split at h
        · exact runChecks_quiet _ _ _ _ _ _ h
        · simp only [Option.some.injEq, Prod.mk.injEq] at h
          obtain ⟨_, rfl⟩ := h; exact ⟨[], rfl, Quiet.nil⟩
      · rename_i hc2
        simp only [if_neg hc2]
        split at h
        · simp only [Option.some.injEq, Prod.mk.injEq] at h
          obtain ⟨rfl, rfl⟩ := h
          exact QPost.refl _ _
        · rename_i hc3
          simp only [if_neg hc3]
          refine (bindR_q_quiet h (fun rx gx hx => hrec.expr _ _ _ _ _ _ hx hw hg) ?_).weaken
            (fun M hc => bindS_ne_none hc)
          intro v s1 g1 h
          split at h
          · exact runChecks_quiet _ _ _ _ _ _ h
          · simp only [Option.some.injEq, Prod.mk.injEq] at h
            obtain ⟨_, rfl⟩ := h; exact ⟨[], rfl, Quiet.nil⟩
  · simp only [Option.some.injEq, Prod.mk.injEq] at h
    obtain ⟨rfl, rfl⟩ := h
    exact QPost.refl _ _

theorem exists_least {p : Nat → Prop} (h : ∃ n, p n) : ∃ n, p n ∧ ∀ m, m < n → ¬ p m := by
  obtain ⟨n, hn⟩ := h
  induction n using Nat.strongRecOn with
  | _ n ih =>
    by_cases hex : ∃ m, m < n ∧ p m
    · obtain ⟨m, hm, hpm⟩ := hex; exact ih m hm hpm
    · exact ⟨n, hn, fun m hm hp => hex ⟨m, hm, hp⟩⟩

/-- the reference semantics of a normal rule is its body, one unit of fuel deeper -/
theorem cvg_rule_succ {r0 : Rule} (hfind : env.g.find r0.name = some (.rule r0)) {s : St} (hw : WfSt inp s)
    (M : Nat) :
    Cvg env u inp (M + 1) r0.name s.off ↔ Spec.ruleBody env u (Spec.eval env u M) r0 (clr s) ≠ none := by
  unfold Cvg
  rw [← clr_eq_of_wf hw]
  show Spec.stepRule env u (Spec.eval env u M) r0.name (clr s) ≠ none ↔ _
  unfold Spec.stepRule
  rw [hfind]

/-- **no re-entry**: while the body of a rule is evaluated at `s` (and that evaluation returns), the
    rule is not invoked again at the same offset – the reference semantics would not converge -/
theorem no_nested_start (hrec : QRec env u inp rec) (hp : PureHooks env.hooks) {r0 : Rule}
    (hfind : env.g.find r0.name = some (.rule r0)) {s g r g'}
    (h : ruleBody env rec r0 s g = some (r, g')) (hw : WfSt inp s) (hg : Good env u inp g)
    {l : List Ev} (hl : g'.log = l ++ g.log) : Ev.traceStart r0.name s.off ∉ l := by
  intro hmem
  obtain ⟨l', hq⟩ := ruleBody_q hrec h hw hg
  have : l = l' := List.append_cancel_right (hl.symm.trans hq.log)
  subst this
  obtain ⟨⟨m0, h0⟩, _, _⟩ := ruleBody_post hrec.ref hp h hw hg
  obtain ⟨M0, hM0, hleast⟩ := exists_least
    (p := fun M => Spec.ruleBody env u (Spec.eval env u M) r0 (clr s) ≠ none)
    ⟨m0, ne_none_of_eq_some (h0 m0 (Nat.le_refl _))⟩
  have hc := hq.q M0 hM0 _ _ hmem
  cases M0 with
  | zero => exact hc rfl
  | succ M1 => exact hleast M1 (Nat.lt_succ_self _) ((cvg_rule_succ hfind hw M1).1 hc)

theorem Good.traceResult' {g : Global} (hg : Good env u inp g) (res : Res Val) :
    Good env u inp (traceResult g res) := by
  cases res <;> simp only [traceResult] <;> first | exact hg.emit _ | exact hg

theorem normalRule_q (hrec : QRec env u inp rec) (hp : PureHooks env.hooks) (n : Nat) (r0 : Rule)
    (hlr : r0.flags.leftRecursive = false) (hfind : env.g.find r0.name = some (.rule r0))
    {s g res g'} (h : normalRule env rec n r0 s g = some (res, g')) (hw : WfSt inp s)
    (hg : Good env u inp g) :
    QPost env u inp (fun M => ∃ M', M = M' + 1 ∧
      Spec.ruleBody env u (Spec.eval env u M') r0 (clr s) ≠ none) g g' := by
  simp only [normalRule] at h
  split at h
  · cases h
  · rename_i res1 g1 hx
    simp only [Option.some.injEq, Prod.mk.injEq] at h
    obtain ⟨rfl, rfl⟩ := h
    have hg0 : Good env u inp (g.emit (.traceStart r0.name s.off)) := hg.emit _
    -- the events of the memoized body
    have hA : ∃ lm, g1.log = lm ++ (g.emit (.traceStart r0.name s.off)).log ∧
        (∀ M, Spec.ruleBody env u (Spec.eval env u M) r0 (clr s) ≠ none → Starts env u inp M lm) ∧
        (∀ k, evals lm k ≤ 1) ∧
        (∀ n o, Ev.bodyEval n o ∈ lm → (n, o) = (r0.name, s.off) ∨ Ev.traceStart n o ∈ lm) := by
      simp only [memoBody, hlr, Bool.false_eq_true, if_false] at hx
      split at hx
      · split at hx
        · -- hit
          simp only [Option.some.injEq, Prod.mk.injEq] at hx
          obtain ⟨_, rfl⟩ := hx
          refine ⟨[.info "Cache hit"], rfl, ?_, ?_, ?_⟩
          · intro M _ name off hm
            simp only [List.mem_singleton] at hm; cases hm
          · intro k; simp [evals, isBodyEval]
          · intro n o hm
            simp only [List.mem_singleton] at hm; cases hm
        · -- miss
          cases hb : ruleBody env rec r0 s ((g.emit (.traceStart r0.name s.off)).emit (.bodyEval r0.name s.off)) with
          | none => simp [hb] at hx
          | some a =>
            obtain ⟨r1, g2⟩ := a
            obtain ⟨lb, hq⟩ := ruleBody_q hrec hb hw (hg0.emit _)
            have hno := no_nested_start hrec hp hfind hb hw (hg0.emit _) hq.log
            have hzero : evals lb (r0.name, s.off) = 0 := by
              cases h0 : evals lb (r0.name, s.off) with
              | zero => rfl
              | succ j =>
                exact absurd (hq.c _ _ (mem_of_evals_pos (k := (r0.name, s.off)) (by omega))) hno
            have hlog : g2.log = (lb ++ [Ev.bodyEval r0.name s.off]) ++
                (g.emit (.traceStart r0.name s.off)).log := by
              rw [hq.log]; simp
            have hg1 : g1.log = g2.log := by
              cases r1 <;> (simp only [hb, Option.some.injEq, Prod.mk.injEq] at hx; obtain ⟨_, rfl⟩ := hx; rfl)
            refine ⟨lb ++ [Ev.bodyEval r0.name s.off], hg1.trans hlog, ?_, ?_, ?_⟩
            · intro M hc name off hm
              rcases List.mem_append.1 hm with hm | hm
              · exact hq.q M hc name off hm
              · simp only [List.mem_singleton] at hm; cases hm
            · intro k
              rw [evals_append]
              by_cases hk : (r0.name, s.off) = k
              · subst hk
                rw [hzero, evals_singleton_self (r0.name, s.off)]
                exact Nat.le_refl _
              · rw [evals_singleton_ne (k := (r0.name, s.off)) hk]
                have := hq.o k; omega
            · intro n o hm
              rcases List.mem_append.1 hm with hm | hm
              · exact Or.inr (List.mem_append_left _ (hq.c n o hm))
              · simp only [List.mem_singleton, Ev.bodyEval.injEq] at hm
                exact Or.inl (by rw [hm.1, hm.2])
      · obtain ⟨lb, hq⟩ := ruleBody_q hrec hx hw hg0
        exact ⟨lb, hq.log, hq.q, hq.o, fun n o hm => Or.inr (hq.c n o hm)⟩
    obtain ⟨lm, hlm, hAq, hAo, hAc⟩ := hA
    -- the trace result
    have hres : ∃ lres, (traceResult g1 res1).log = lres ++ g1.log ∧ Quiet lres := by
      cases res1 with
      | ok v s1 => exact ⟨[_], rfl, Quiet.single (fun _ => rfl) (fun _ _ h => by cases h)⟩
      | err e => exact ⟨[_], rfl, Quiet.single (fun _ => rfl) (fun _ _ h => by cases h)⟩
      | panic m => exact ⟨[], rfl, Quiet.nil⟩
    obtain ⟨lres, hlres, hquiet⟩ := hres
    refine ⟨lres ++ (lm ++ [Ev.traceStart r0.name s.off]), ?_, ?_, ?_, ?_⟩
    · rw [hlres, hlm]; simp
    · rintro M ⟨M', rfl, hc⟩ name off hm
      rcases List.mem_append.1 hm with hm | hm
      · exact absurd hm hquiet.no_start
      · rcases List.mem_append.1 hm with hm | hm
        · exact (hAq M' hc name off hm).mono (Nat.le_succ _)
        · simp only [List.mem_singleton, Ev.traceStart.injEq] at hm
          obtain ⟨rfl, rfl⟩ := hm
          exact (cvg_rule_succ hfind hw M').2 hc
    · intro k
      rw [evals_append, evals_append, evals_quiet hquiet,
        evals_singleton_neutral (e := Ev.traceStart r0.name s.off) (fun _ => rfl)]
      have := hAo k; omega
    · intro n o hm
      rcases List.mem_append.1 hm with hm | hm
      · exact absurd hm hquiet.no_body
      · rcases List.mem_append.1 hm with hm | hm
        · rcases hAc n o hm with hk | hk
          · obtain ⟨rfl, rfl⟩ := Prod.mk.inj hk
            exact List.mem_append_right _ (List.mem_append_right _ (List.mem_singleton.2 rfl))
          · exact List.mem_append_right _ (List.mem_append_left _ hk)
        · simp only [List.mem_singleton] at hm; cases hm

theorem charChecks_quiet (name : String) :
    ∀ fs c s (g : Global) o g', charChecks env name fs c s g = (o, g') →
      ∃ l, g'.log = l ++ g.log ∧ Quiet l := by
  intro fs
  induction fs with
  | nil =>
    intro c s g o g' h
    simp only [charChecks, Prod.mk.injEq] at h
    obtain ⟨_, rfl⟩ := h
    exact ⟨[], rfl, Quiet.nil⟩
  | cons f fs ih =>
    intro c s g o g' h
    simp only [charChecks] at h
    split at h
    · simp only [Prod.mk.injEq] at h
      obtain ⟨_, rfl⟩ := h
      exact ⟨[_], rfl, Quiet.single (fun _ => rfl) (fun _ _ h => by cases h)⟩
    · obtain ⟨l, hl, hq⟩ := ih _ _ _ _ _ h
      exact ⟨l ++ [Ev.charCheckCall ("::".intercalate f) c], by rw [hl]; simp [Global.emit],
        hq.append (Quiet.single (fun _ => rfl) (fun _ _ h => by cases h))⟩

/-- first success wins, the error of the first computation is dropped -/
theorem orElse_q {x : Out Val} {fx : Nat → SOut Val} {rest : Global → Out Val} {frest : Nat → SOut Val}
    {g : Global} {r : Res Val} {g' : Global}
    (h : (match x with
          | none => none
          | some (.ok v s', g') => some (.ok v s', g')
          | some (.err _, g') => rest g'
          | some (.panic m, g') => some (.panic m, g')) = some (r, g'))
    (hx : ∀ rx gx, x = some (rx, gx) → Sub env u inp fx g rx gx) (hdet : Det fx)
    (hrest : ∀ g1, rest g1 = some (r, g') → Good env u inp g1 →
      Step env PT g1 r.isPanic g' ∧ QPost env u inp (fun M => frest M ≠ none) g1 g') :
    QPost env u inp (fun M => (match fx M with
          | none => none
          | some (.ok v s') => some (.ok v s')
          | some (.err _) => frest M
          | some (.panic m) => some (.panic m)) ≠ none) g g' := by
  cases x with
  | none => simp at h
  | some a =>
    obtain ⟨rx, gx⟩ := a
    obtain ⟨hp, hs, hq⟩ := hx rx gx rfl
    cases rx with
    | ok v s1 =>
      simp only [Option.some.injEq, Prod.mk.injEq] at h
      obtain ⟨rfl, rfl⟩ := h
      exact hq.weaken (fun M hc h0 => hc (by rw [h0]))
    | err e =>
      simp only at h
      obtain ⟨hs2, hq2⟩ := hrest _ h hp.2.1
      refine QPost.seq hs hq hs2 hq2 (fun M hc => ?_)
      cases hfx : fx M with
      | none => exact absurd (by rw [hfx]) hc
      | some y =>
        have : y = abs (.err e) := hdet M y _ hfx hp.1
        subst this
        exact ⟨Option.some_ne_none _, by simpa only [hfx, abs] using hc⟩
    | panic m =>
      simp only [Option.some.injEq, Prod.mk.injEq] at h
      obtain ⟨rfl, rfl⟩ := h
      exact hq.weaken (fun M hc h0 => hc (by rw [h0]))

theorem charParts_q (hrec : QRec env u inp rec) (name : String) :
    ∀ ps s g r g', charParts rec name ps s g = some (r, g') → WfSt inp s → Good env u inp g →
      QPost env u inp (fun M => Spec.charParts (Spec.eval env u M) ps (clr s) ≠ none) g g' := by
  intro ps
  induction ps with
  | nil =>
    intro s g r g' h hw hg
    simp only [charParts, Option.some.injEq, Prod.mk.injEq] at h
    obtain ⟨rfl, rfl⟩ := h
    exact QPost.refl _ _
  | cons p ps ih =>
    intro s g r g' h hw hg
    have hrest : ∀ g1, charParts rec name ps s g1 = some (r, g') → Good env u inp g1 →
        Step env PT g1 r.isPanic g' ∧
          QPost env u inp (fun M => Spec.charParts (Spec.eval env u M) ps (clr s) ≠ none) g1 g' :=
      fun g1 h1 hg1 => ⟨(charParts_pinv hrec.pk name ps s trivial _ _ _ h1 (cacheB_true _)).1,
        ih _ _ _ _ h1 hw hg1⟩
    cases p with
    | chr item =>
      simp only [charParts] at h
      simp only [Spec.charParts]
      cases hi : item.toChar with
      | ok c =>
        simp only [hi] at h ⊢
        refine orElse_q (fx := fun _ => some (abs ((parseCharacterLiteral (clr s) c).map .chr))) h
          ?_ (Det.const _) hrest
        intro rx gx hx
        simp only [Option.some.injEq, Prod.mk.injEq] at hx
        obtain ⟨rfl, rfl⟩ := hx
        refine Sub.pure _ (by simp only [abs_map, abs_parseCharacterLiteral]) hg ?_
        intro v s' h
        obtain ⟨v0, hv0⟩ := map_ok h
        exact wf_parseCharacterLiteral hw hv0
      | err msg =>
        simp only [hi] at h
        simp only [Option.some.injEq, Prod.mk.injEq] at h
        obtain ⟨rfl, rfl⟩ := h
        exact QPost.refl _ _
      | fuel =>
        simp only [hi] at h
        simp only [Option.some.injEq, Prod.mk.injEq] at h
        obtain ⟨rfl, rfl⟩ := h
        exact QPost.refl _ _
    | range lo hi =>
      simp only [charParts] at h
      simp only [Spec.charParts]
      cases hlo : lo.toChar with
      | ok a =>
        cases hhi : hi.toChar with
        | ok b =>
          simp only [hlo, hhi] at h ⊢
          refine orElse_q (fx := fun _ => some (abs ((parseCharacterRange (clr s) a b).map .chr))) h
            ?_ (Det.const _) hrest
          intro rx gx hx
          simp only [Option.some.injEq, Prod.mk.injEq] at hx
          obtain ⟨rfl, rfl⟩ := hx
          refine Sub.pure _ (by simp only [abs_map, abs_parseCharacterRange]) hg ?_
          intro v s' h
          obtain ⟨v0, hv0⟩ := map_ok h
          exact wf_parseCharacterRange hw hv0
        | err msg =>
          simp only [hlo, hhi] at h
          simp only [Option.some.injEq, Prod.mk.injEq] at h
          obtain ⟨rfl, rfl⟩ := h
          exact QPost.refl _ _
        | fuel =>
          simp only [hlo, hhi] at h
          simp only [Option.some.injEq, Prod.mk.injEq] at h
          obtain ⟨rfl, rfl⟩ := h
          exact QPost.refl _ _
      | err msg =>
        simp only [hlo] at h
        simp only [Option.some.injEq, Prod.mk.injEq] at h
        obtain ⟨rfl, rfl⟩ := h
        exact QPost.refl _ _
      | fuel =>
        simp only [hlo] at h
        simp only [Option.some.injEq, Prod.mk.injEq] at h
        obtain ⟨rfl, rfl⟩ := h
        exact QPost.refl _ _
    | ident id =>
      simp only [charParts] at h
      simp only [Spec.charParts]
      exact orElse_q (fx := fun m => (Spec.eval env u m).rule id (clr s)) h
        (fun rx gx hx => hrec.subR hx hw hg) (det_rule _ _) hrest

theorem QPost.shift {conv : Nat → Prop} {g g' : Global} (h : QPost env u inp conv g g') :
    QPost env u inp (fun M => ∃ M', M = M' + 1 ∧ conv M') g g' := by
  obtain ⟨l, h⟩ := h
  refine ⟨l, h.log, ?_, h.o, h.c⟩
  rintro M ⟨M', rfl, hc⟩
  exact (h.q M' hc).mono (Nat.le_succ _)

theorem stepRule_q (hrec : QRec env u inp rec) (hp : PureHooks env.hooks) (hnl : NoLeftrec env.g)
    (n : Nat) {name s g r g'} (h : stepRule env rec n name s g = some (r, g')) (hw : WfSt inp s)
    (hg : Good env u inp g) :
    QPost env u inp (fun M => ∃ M', M = M' + 1 ∧
      Spec.stepRule env u (Spec.eval env u M') name (clr s) ≠ none) g g' := by
  unfold stepRule at h
  unfold Spec.stepRule
  split at h
  · -- normal rule
    rename_i r0 hfind
    simp only [hfind]
    have hmem : RuleEntry.rule r0 ∈ env.g.rules := List.mem_of_find?_eq_some hfind
    have hname : r0.name = name := by
      have := List.find?_some hfind
      simpa [RuleEntry.name] using this
    exact normalRule_q hrec hp n r0 (hnl r0 hmem) (by rw [hname]; exact hfind) h hw hg
  · -- @char rule
    rename_i cr hfind
    simp only [hfind]
    refine QPost.shift ?_
    unfold charRule at h
    unfold Spec.charRule
    split at h
    · rename_i hc
      simp only [if_pos hc]
      exact charParts_q hrec _ _ _ _ _ _ h hw hg
    · rename_i hc
      simp only [if_neg hc]
      split at h
      · simp only [Option.some.injEq, Prod.mk.injEq] at h
        obtain ⟨rfl, rfl⟩ := h
        exact QPost.refl _ _
      · rename_i c hd
        simp only [clr_rest, hd]
        split at h
        · rename_i e g1 hcc
          obtain ⟨l, hl, hquiet⟩ := charChecks_quiet _ _ _ _ _ _ _ hcc
          simp only [Option.some.injEq, Prod.mk.injEq] at h
          obtain ⟨rfl, rfl⟩ := h
          exact QPost.of_quiet _ hl hquiet
        · rename_i g1 hcc
          obtain ⟨l, hl, hquiet⟩ := charChecks_quiet _ _ _ _ _ _ _ hcc
          obtain ⟨h1, h2, h3⟩ := charChecks_spec _ _ _ _ _ _ _ hcc
          have hgg : Good env u inp g1 :=
            ⟨h3 ▸ hg.uctx, fun n o r hl => hg.cache n o r (by simpa [Global.lookup, h2] using hl)⟩
          have hck : Spec.charChecksOk env cr.directives c = true := by simpa using h1.symm
          simp only [hck, if_true]
          exact QPost.quiet_before hl hquiet (charParts_q hrec _ _ _ _ _ _ h hw hgg)
  · -- @extern rule
    rename_i er hfind
    unfold externRule at h
    simp only at h
    refine QPost.of_quiet _ (l := [Ev.externCall ("::".intercalate er.function) s.off g.uctx]) ?_
      (Quiet.single (fun _ => rfl) (fun _ _ h => by cases h))
    split at h <;>
      (simp only [Option.some.injEq, Prod.mk.injEq] at h; obtain ⟨_, rfl⟩ := h; rfl)
  · -- builtins
    have : g' = g := by
      split at h
      · simp only [Option.some.injEq, Prod.mk.injEq] at h; exact h.2.symm
      · split at h <;> (simp only [Option.some.injEq, Prod.mk.injEq] at h; exact h.2.symm)
    subst this
    exact QPost.refl _ _

/-- one unfolding of the evaluator preserves the invariant -/
theorem step_q (hrec : QRec env u inp rec) (hp : PureHooks env.hooks) (hnl : NoLeftrec env.g) (n : Nat) :
    QRec env u inp (step env rec n) := by
  refine ⟨step_ref hrec.ref hp hnl n, step_pinv hnl hrec.pk hrec.log n, step_log hrec.log n, ?_, ?_⟩
  · intro ctx e s g r g' h hw hg
    refine (stepExpr_q hrec n h hw hg).shift.weaken (fun M hc => ?_)
    cases M with
    | zero => exact absurd rfl hc
    | succ M' => exact ⟨M', rfl, hc⟩
  · intro name s g r g' h hw hg
    refine (stepRule_q hrec hp hnl n h hw hg).weaken (fun M hc => ?_)
    cases M with
    | zero => exact absurd rfl hc
    | succ M' => exact ⟨M', rfl, hc⟩

end

theorem eval_q (hp : PureHooks env.hooks) (hnl : NoLeftrec env.g) : ∀ n, QRec env u inp (eval env n) := by
  intro n
  induction n with
  | zero =>
    exact ⟨eval_ref hp hnl 0, eval_pinv hnl 0, eval_log env 0,
      fun _ _ _ _ _ _ h => by simp [eval] at h, fun _ _ _ _ _ h => by simp [eval] at h⟩
  | succ n ih => exact step_q ih hp hnl n

end

/-! ### C06, unconditional forms (pure user functions) -/

theorem pk_wf_new (inp : List UInt8) : WfSt inp (St.new inp) := by simp [WfSt, St.new]

theorem pk_good_init (env : Env) (u : Nat) (inp : List UInt8) : Good env u inp (Global.init u) :=
  ⟨rfl, fun n o r h => by simp [Global.init, Global.lookup] at h⟩

/-- **C06, counting form** for an arbitrary rule call from a consistent cursor and a good global
    state (`Good`: user context `u`, every cached entry is the reference answer): at most one body
    evaluation per key. -/
theorem C06_once_pure_rule {env : Env} {u : Nat} {inp : List UInt8} (hp : PureHooks env.hooks)
    (hnl : NoLeftrec env.g) {n : Nat} {name : String} {s : St} {g g' : Global} {r : Res Val}
    (h : (eval env n).rule name s g = some (r, g')) (hw : WfSt inp s) (hg : Good env u inp g)
    {l : List Ev} (hl : g'.log = l ++ g.log) (k : String × Nat) : evals l k ≤ 1 := by
  obtain ⟨l', hq⟩ := (eval_q (u := u) (inp := inp) hp hnl n).rule _ _ _ _ _ h hw hg
  have : l = l' := List.append_cancel_right (hl.symm.trans hq.log)
  subst this
  exact hq.o k

theorem C06_once_pure_expr {env : Env} {u : Nat} {inp : List UInt8} (hp : PureHooks env.hooks)
    (hnl : NoLeftrec env.g) {n : Nat} {ctx : Ctx} {e : Expr} {s : St} {g g' : Global} {r : Res Parsed}
    (h : (eval env n).expr ctx e s g = some (r, g')) (hw : WfSt inp s) (hg : Good env u inp g)
    {l : List Ev} (hl : g'.log = l ++ g.log) (k : String × Nat) : evals l k ≤ 1 := by
  obtain ⟨l', hq⟩ := (eval_q (u := u) (inp := inp) hp hnl n).expr _ _ _ _ _ _ h hw hg
  have : l = l' := List.append_cancel_right (hl.symm.trans hq.log)
  subst this
  exact hq.o k

/-- **C06 (packrat property), complete parse**: with pure user functions and no `@leftrec` rule,
    within one parse the body of a memoized rule is evaluated at most once per input position –
    whatever the outcome of the parse (success, failure or panic). -/
theorem C06_parse_once_pure {env : Env} (hp : PureHooks env.hooks) (hnl : NoLeftrec env.g)
    {n : Nat} {rule : String} {inp : List UInt8} {u : Nat} {r : Res Val} {g' : Global}
    (h : parseAdvanced env n rule inp u = some (r, g')) (k : String × Nat) : evals g'.log k ≤ 1 :=
  C06_once_pure_rule hp hnl h (pk_wf_new inp) (pk_good_init env u inp) (parse_log h) k

/-- **C06, the packrat bound**: a complete parse evaluates at most
    `(number of memoized rules) * (inp.length + 1)` memoized rule bodies. -/
theorem C06_bound_pure {env : Env} (hp : PureHooks env.hooks) (hnl : NoLeftrec env.g)
    {n : Nat} {rule : String} {inp : List UInt8} {u : Nat} {r : Res Val} {g' : Global}
    (h : parseAdvanced env n rule inp u = some (r, g')) :
    (bodyKeys g'.log).length ≤ (memoNames env.g).length * (inp.length + 1) :=
  C06_bound_of_once hnl h (C06_parse_once_pure hp hnl h)

theorem C06_bound_pure_rules {env : Env} (hp : PureHooks env.hooks) (hnl : NoLeftrec env.g)
    {n : Nat} {rule : String} {inp : List UInt8} {u : Nat} {r : Res Val} {g' : Global}
    (h : parseAdvanced env n rule inp u = some (r, g')) :
    (bodyKeys g'.log).length ≤ env.g.rules.length * (inp.length + 1) :=
  Nat.le_trans (C06_bound_pure hp hnl h) (Nat.mul_le_mul_right _ (memoNames_length_le _))

/-- a memoized rule never calls itself at the same offset during an evaluation that returns -/
theorem C06_no_self_call {env : Env} {u : Nat} {inp : List UInt8} (hp : PureHooks env.hooks)
    (hnl : NoLeftrec env.g) {n : Nat} {r0 : Rule} (hfind : env.g.find r0.name = some (.rule r0))
    {s : St} {g g' : Global} {r : Res Val}
    (h : ruleBody env (eval env n) r0 s g = some (r, g')) (hw : WfSt inp s) (hg : Good env u inp g)
    {l : List Ev} (hl : g'.log = l ++ g.log) : Ev.traceStart r0.name s.off ∉ l :=
  no_nested_start (eval_q hp hnl n) hp hfind h hw hg hl

/-- the hypotheses of the unconditional form are satisfiable (`exGood`: default hooks are pure) -/
theorem exGood_pure : PureHooks exGood.hooks := ⟨fun _ _ _ => rfl, fun _ _ _ => rfl⟩

example : ∀ r g', parseAdvanced exGood 20 "S" [97, 121] 0 = some (r, g') →
    (∀ k, evals g'.log k ≤ 1) ∧ (bodyKeys g'.log).length ≤ 2 * 3 :=
  fun _ _ h => ⟨C06_parse_once_pure exGood_pure exGood_noLeftrec h, C06_bound_pure exGood_pure exGood_noLeftrec h⟩


/-- the counterexample `exBad` above is outside the scope of the unconditional form: its `@extern`
    function modifies the user context -/
example : ¬ PureHooks exBad.hooks := by
  intro h
  have := h.1 "x" [] 0
  simp [exBad] at this

end Pure

end Peg
