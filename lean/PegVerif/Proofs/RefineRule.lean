import PegVerif.Proofs.RefineExpr
/-
  Refinement, rule level: checks, the three rule bodies, `@memoize` (hit and miss), `@char`,
  `@extern`, builtins; then induction on the fuel.
-/
namespace Peg
open Spec

section
variable {env : Env} {u : Nat} {inp : List UInt8}

theorem runChecks_post (hp : PureHooks env.hooks) :
    ∀ fs v s g r g', runChecks env fs v s g = some (r, g') → WfSt inp s → Good env u inp g →
      Post env u inp (fun _ => Spec.runChecks env u fs v (clr s)) r g' := by
  intro fs
  induction fs with
  | nil =>
    intro v s g r g' h hw hg
    simp only [runChecks, Option.some.injEq, Prod.mk.injEq] at h
    obtain ⟨rfl, rfl⟩ := h
    exact Post.const (fun _ => rfl) hg (fun v s' h => by cases h; exact hw)
  | cons f fs ih =>
    intro v s g r g' h hw hg
    simp only [runChecks] at h
    have hu : (env.hooks.check ("::".intercalate f) v g.uctx).2 = g.uctx := hp.2 _ _ _
    have hgu := hg.uctx
    split at h
    · rename_i hb
      simp only [Option.some.injEq, Prod.mk.injEq] at h
      obtain ⟨rfl, rfl⟩ := h
      refine Post.const (fun _ => ?_) ?_ (fun v s' h => by cases h)
      · simp only [Spec.runChecks, ← hgu, hb, if_true, abs]
      · exact ⟨by show (env.hooks.check _ v g.uctx).2 = u
                  rw [hu]; exact hgu, fun n o r hl => hg.cache n o r hl⟩
    · rename_i hb
      have hg1 : Good env u inp
          ({ g with uctx := (env.hooks.check ("::".intercalate f) v g.uctx).2 }.emit
            (.checkCall ("::".intercalate f) v.render g.uctx)) :=
        ⟨by show (env.hooks.check _ v g.uctx).2 = u
            rw [hu]; exact hgu, fun n o r hl => hg.cache n o r hl⟩
      have := ih _ _ _ _ _ h hw hg1
      refine this.of_eq (fun _ => ?_)
      simp only [Spec.runChecks, ← hgu, hb]
      rfl

theorem ruleBody_post {rec : Rec} (hrec : Ref env u inp rec) (hp : PureHooks env.hooks) {r0 : Rule}
    {s g r g'} (h : ruleBody env rec r0 s g = some (r, g')) (hw : WfSt inp s) (hg : Good env u inp g) :
    Post env u inp (fun m => Spec.ruleBody env u (Spec.eval env u m) r0 (clr s)) r g' := by
  unfold ruleBody at h
  unfold Spec.ruleBody
  split at h
  · rename_i fields hf
    simp only [hf]
    simp only at h
    split at h
    · rename_i hc
      simp only [if_pos hc]
      refine bindR_post (fk := fun _ _ s' =>
        Spec.runChecks env u r0.checks
          (if r0.flags.position = true then
            Val.node r0.name [("string", Val.str ((clr s).sliceUntil s'))] (some ((clr s).off, s'.off))
          else Val.str ((clr s).sliceUntil s')) s') h
        (fun rx gx hx => hrec.expr _ _ _ _ _ _ hx hw hg) ?_
      intro v s1 g1 r g' h hw1 hg1
      exact runChecks_post hp _ _ _ _ _ _ h hw1 hg1
    · rename_i hc
      simp only [if_neg hc]
      split at h
      · rename_i hc2
        simp only [if_pos hc2]
        refine bindR_post (fk := fun _ p s' =>
          match p.get "_override" with
          | some v => Spec.runChecks env u r0.checks v s'
          | none => some (.panic "codegen: override value missing")) h
          (fun rx gx hx => hrec.expr _ _ _ _ _ _ hx hw hg) ?_
        intro v s1 g1 r g' h hw1 hg1
        split at h
        · rename_i hv
          simp only [hv]
          exact runChecks_post hp _ _ _ _ _ _ h hw1 hg1
        · rename_i hv
          simp only [Option.some.injEq, Prod.mk.injEq] at h
          obtain ⟨rfl, rfl⟩ := h
          exact Post.panic (fun _ => by simp only [hv]) hg1
      · rename_i hc2
        simp only [if_neg hc2]
        split at h
        · rename_i hc3
          simp only [Option.some.injEq, Prod.mk.injEq] at h
          obtain ⟨rfl, rfl⟩ := h
          exact Post.panic (fun _ => by simp only [if_pos hc3]) hg
        · rename_i hc3
          simp only [if_neg hc3]
          refine bindR_post (fk := fun _ p s' =>
            match project fields p with
            | .ok fs =>
              Spec.runChecks env u r0.checks
                (Val.node r0.name fs (if r0.flags.position = true then some ((clr s).off, s'.off) else none)) s'
            | .error m => some (.panic ("codegen: " ++ m))) h
            (fun rx gx hx => hrec.expr _ _ _ _ _ _ hx hw hg) ?_
          intro v s1 g1 r g' h hw1 hg1
          split at h
          · rename_i fs hfs
            simp only [hfs]
            exact runChecks_post hp _ _ _ _ _ _ h hw1 hg1
          · rename_i msg hfs
            simp only [Option.some.injEq, Prod.mk.injEq] at h
            obtain ⟨rfl, rfl⟩ := h
            exact Post.panic (fun _ => by simp only [hfs]) hg1
  · rename_i hne
    simp only [Option.some.injEq, Prod.mk.injEq] at h
    obtain ⟨rfl, rfl⟩ := h
    refine Post.panic (fun _ => ?_) hg
    split
    · rename_i fields hf; exact absurd hf (hne _)
    · rfl

theorem Good.insert {g : Global} {name : String} {s : St} {r : Res Val}
    (hg : Good env u inp g) (hw : WfSt inp s)
    (hev : Evt (fun m => (Spec.eval env u m).rule name (clr s)) (abs r))
    (hwr : ∀ v s', r = .ok v s' → WfSt inp s') :
    Good env u inp (g.insert (name, s.off) r) := by
  refine ⟨hg.uctx, fun n o r' hl => ?_⟩
  rw [lookup_insert] at hl
  split at hl
  · rename_i hk
    simp only [Option.some.injEq] at hl
    subst hl
    have hk' : (name, s.off) = (n, o) := by simpa using hk
    obtain ⟨rfl, rfl⟩ := Prod.mk.inj hk'
    refine ⟨?_, hwr⟩
    rw [← clr_eq_of_wf hw]
    exact hev
  · exact hg.cache n o r' hl

theorem charChecks_spec (name : String) :
    ∀ fs c s (g : Global) o g', charChecks env name fs c s g = (o, g') →
      (o.isNone = Spec.charChecksOk env fs c) ∧ g'.cache = g.cache ∧ g'.uctx = g.uctx := by
  intro fs
  induction fs with
  | nil =>
    intro c s g o g' h
    simp only [charChecks, Prod.mk.injEq] at h
    obtain ⟨rfl, rfl⟩ := h
    exact ⟨rfl, rfl, rfl⟩
  | cons f fs ih =>
    intro c s g o g' h
    simp only [charChecks] at h
    split at h
    · rename_i hb
      simp only [Prod.mk.injEq] at h
      obtain ⟨rfl, rfl⟩ := h
      refine ⟨?_, rfl, rfl⟩
      simp only [Spec.charChecksOk]
      simp at hb
      simp [hb]
    · rename_i hb
      obtain ⟨h1, h2, h3⟩ := ih _ _ _ _ _ h
      refine ⟨?_, h2, h3⟩
      simp only [Spec.charChecksOk]
      simp at hb
      simp [hb, h1]

theorem charParts_post {rec : Rec} (hrec : Ref env u inp rec) (name : String) :
    ∀ ps s g r g', charParts rec name ps s g = some (r, g') → WfSt inp s → Good env u inp g →
      Post env u inp (fun m => Spec.charParts (Spec.eval env u m) ps (clr s)) r g' := by
  intro ps
  induction ps with
  | nil =>
    intro s g r g' h hw hg
    simp only [charParts, Option.some.injEq, Prod.mk.injEq] at h
    obtain ⟨rfl, rfl⟩ := h
    exact Post.const (fun _ => rfl) hg (fun v s' h => by cases h)
  | cons p ps ih =>
    intro s g r g' h hw hg
    -- the outcome of the first part, in both worlds
    have key : ∀ (x : Out Val) (fx : Nat → SOut Val),
        (∀ rx gx, x = some (rx, gx) → Post env u inp fx rx gx) →
        (match x with
          | none => none
          | some (.ok v s', g') => some (.ok v s', g')
          | some (.err _, g') => charParts rec name ps s g'
          | some (.panic m, g') => some (.panic m, g')) = some (r, g') →
        Post env u inp (fun m =>
          match fx m with
          | none => none
          | some (.ok v s') => some (.ok v s')
          | some (.err _) => Spec.charParts (Spec.eval env u m) ps (clr s)
          | some (.panic m) => some (.panic m)) r g' := by
      intro x fx hx h
      cases x with
      | none => simp at h
      | some a =>
        obtain ⟨rx, gx⟩ := a
        obtain ⟨⟨m0, h0⟩, hg0, hw0⟩ := hx rx gx rfl
        cases rx with
        | ok v s1 =>
          simp only [Option.some.injEq, Prod.mk.injEq] at h
          obtain ⟨rfl, rfl⟩ := h
          refine ⟨⟨m0, fun m hm => ?_⟩, hg0, hw0⟩
          have e0 := h0 m hm
          simp only [abs] at e0
          simp only [e0, abs]
        | err e =>
          simp only at h
          obtain ⟨⟨m1, h1⟩, hg1, hw1⟩ := ih _ _ _ _ h hw hg0
          refine ⟨⟨max m0 m1, fun m hm => ?_⟩, hg1, hw1⟩
          have e0 := h0 m (by omega)
          simp only [abs] at e0
          simp only [e0]
          exact h1 m (by omega)
        | panic msg =>
          simp only [Option.some.injEq, Prod.mk.injEq] at h
          obtain ⟨rfl, rfl⟩ := h
          refine ⟨⟨m0, fun m hm => ?_⟩, hg0, fun v s' h => by cases h⟩
          have e0 := h0 m hm
          simp only [abs] at e0
          simp only [e0, abs]
    cases p with
    | chr item =>
      simp only [charParts] at h
      simp only [Spec.charParts]
      cases hi : item.toChar with
      | ok c =>
        simp only [hi] at h ⊢
        refine key _ (fun _ => some (abs ((parseCharacterLiteral (clr s) c).map .chr))) ?_ h
        intro rx gx hx
        simp only [Option.some.injEq, Prod.mk.injEq] at hx
        obtain ⟨rfl, rfl⟩ := hx
        refine Post.const (fun _ => by simp only [abs_map, abs_parseCharacterLiteral]) hg ?_
        intro v s' h
        obtain ⟨v0, hv0⟩ := map_ok h
        exact wf_parseCharacterLiteral hw hv0
      | err msg =>
        simp only [hi] at h ⊢
        simp only [Option.some.injEq, Prod.mk.injEq] at h
        obtain ⟨rfl, rfl⟩ := h
        exact Post.panic (fun _ => rfl) hg
      | fuel =>
        simp only [hi] at h ⊢
        simp only [Option.some.injEq, Prod.mk.injEq] at h
        obtain ⟨rfl, rfl⟩ := h
        exact Post.panic (fun _ => rfl) hg
    | range lo hi =>
      simp only [charParts] at h
      simp only [Spec.charParts]
      cases hlo : lo.toChar with
      | ok a =>
        cases hhi : hi.toChar with
        | ok b =>
          simp only [hlo, hhi] at h ⊢
          refine key _ (fun _ => some (abs ((parseCharacterRange (clr s) a b).map .chr))) ?_ h
          intro rx gx hx
          simp only [Option.some.injEq, Prod.mk.injEq] at hx
          obtain ⟨rfl, rfl⟩ := hx
          refine Post.const (fun _ => by simp only [abs_map, abs_parseCharacterRange]) hg ?_
          intro v s' h
          obtain ⟨v0, hv0⟩ := map_ok h
          exact wf_parseCharacterRange hw hv0
        | err msg =>
          simp only [hlo, hhi] at h ⊢
          simp only [Option.some.injEq, Prod.mk.injEq] at h
          obtain ⟨rfl, rfl⟩ := h
          exact Post.panic (fun _ => rfl) hg
        | fuel =>
          simp only [hlo, hhi] at h ⊢
          simp only [Option.some.injEq, Prod.mk.injEq] at h
          obtain ⟨rfl, rfl⟩ := h
          exact Post.panic (fun _ => rfl) hg
      | err msg =>
        simp only [hlo] at h ⊢
        simp only [Option.some.injEq, Prod.mk.injEq] at h
        obtain ⟨rfl, rfl⟩ := h
        exact Post.panic (fun _ => rfl) hg
      | fuel =>
        simp only [hlo] at h ⊢
        simp only [Option.some.injEq, Prod.mk.injEq] at h
        obtain ⟨rfl, rfl⟩ := h
        exact Post.panic (fun _ => rfl) hg
    | ident id =>
      simp only [charParts] at h
      simp only [Spec.charParts]
      exact key _ (fun m => (Spec.eval env u m).rule id (clr s))
        (fun rx gx hx => hrec.rule _ _ _ _ _ hx hw hg) h

theorem stepRule_post {rec : Rec} (hrec : Ref env u inp rec) (hp : PureHooks env.hooks)
    (hnl : NoLeftrec env.g) (n : Nat) {name s g r g'}
    (h : stepRule env rec n name s g = some (r, g')) (hw : WfSt inp s) (hg : Good env u inp g) :
    Post env u inp (fun m => Spec.stepRule env u (Spec.eval env u m) name (clr s)) r g' := by
  unfold stepRule at h
  unfold Spec.stepRule
  split at h
  · -- normal rule
    rename_i r0 hfind
    simp only [hfind]
    have hmem : RuleEntry.rule r0 ∈ env.g.rules := List.mem_of_find?_eq_some hfind
    have hlr := hnl r0 hmem
    unfold normalRule at h
    simp only at h
    split at h
    · cases h
    · rename_i res g1 hm
      simp only [Option.some.injEq, Prod.mk.injEq] at h
      obtain ⟨rfl, rfl⟩ := h
      have hg0 : Good env u inp (g.emit (.traceStart r0.name s.off)) := hg.emit _
      suffices hpost : Post env u inp (fun m => Spec.ruleBody env u (Spec.eval env u m) r0 (clr s)) res g1 by
        refine ⟨hpost.1, ?_, hpost.2.2⟩
        cases res <;> simp only [traceResult] <;> first | exact hpost.2.1.emit _ | exact hpost.2.1
      unfold memoBody at hm
      simp only [hlr, Bool.false_eq_true, if_false] at hm
      split at hm
      · -- @memoize
        split at hm
        · -- cache hit
          rename_i cached hl
          simp only [Option.some.injEq, Prod.mk.injEq] at hm
          obtain ⟨rfl, rfl⟩ := hm
          have hname : r0.name = name := by
            have := List.find?_some hfind
            simpa [RuleEntry.name] using this
          obtain ⟨hev, hwr⟩ := hg0.cache _ _ _ hl
          refine ⟨?_, hg0.emit _, hwr⟩
          rw [← clr_eq_of_wf hw] at hev
          -- the reference answer of the *rule* is the reference answer of its body
          obtain ⟨m0, h0⟩ := hev
          refine ⟨m0 + 1, fun m hm => ?_⟩
          obtain ⟨m', rfl⟩ : ∃ m', m = m' + 1 := ⟨m - 1, by omega⟩
          have e0 : (Spec.eval env u (m' + 1)).rule r0.name (clr s) = some (abs cached) :=
            h0 (m' + 1) (by omega)
          have : (Spec.eval env u (m' + 1)).rule r0.name (clr s) =
              Spec.ruleBody env u (Spec.eval env u m') r0 (clr s) := by
            show Spec.stepRule env u (Spec.eval env u m') r0.name (clr s) = _
            unfold Spec.stepRule
            rw [hname, hfind]
          rw [this] at e0
          exact (Spec.ruleBody_le (Spec.eval_le_succ env u m') e0)
        · -- cache miss
          rename_i hl
          split at hm
          · cases hm
          · rename_i msg g2 hb
            simp only [Option.some.injEq, Prod.mk.injEq] at hm
            obtain ⟨rfl, rfl⟩ := hm
            exact ruleBody_post hrec hp hb hw (hg0.emit _)
          · rename_i r2 g2 hne hb
            simp only [Option.some.injEq, Prod.mk.injEq] at hm
            obtain ⟨rfl, rfl⟩ := hm
            have hpost := ruleBody_post hrec hp hb hw (hg0.emit _)
            refine ⟨hpost.1, ?_, hpost.2.2⟩
            have hname : r0.name = name := by
              have := List.find?_some hfind
              simpa [RuleEntry.name] using this
            refine Good.insert hpost.2.1 hw ?_ hpost.2.2
            obtain ⟨m0, h0⟩ := hpost.1
            refine ⟨m0 + 1, fun m hm => ?_⟩
            obtain ⟨m', rfl⟩ : ∃ m', m = m' + 1 := ⟨m - 1, by omega⟩
            show Spec.stepRule env u (Spec.eval env u m') r0.name (clr s) = _
            unfold Spec.stepRule
            rw [hname, hfind]
            exact h0 m' (by omega)
      · exact ruleBody_post hrec hp hm hw hg0
  · -- @char rule
    rename_i cr hfind
    simp only [hfind]
    unfold charRule at h
    unfold Spec.charRule
    split at h
    · rename_i hc
      simp only [if_pos hc]
      exact charParts_post hrec _ _ _ _ _ _ h hw hg
    · rename_i hc
      simp only [if_neg hc]
      split at h
      · rename_i hd
        simp only [Option.some.injEq, Prod.mk.injEq] at h
        obtain ⟨rfl, rfl⟩ := h
        exact Post.const (fun _ => by simp only [clr_rest, hd]; rfl) hg (fun v s' h => by cases h)
      · rename_i c hd
        simp only [clr_rest, hd]
        split at h
        · rename_i e g1 hcc
          obtain ⟨h1, h2, h3⟩ := charChecks_spec _ _ _ _ _ _ _ hcc
          simp only [Option.some.injEq, Prod.mk.injEq] at h
          obtain ⟨rfl, rfl⟩ := h
          have hgg : Good env u inp g1 :=
            ⟨h3 ▸ hg.uctx, fun n o r hl => hg.cache n o r (by simpa [Global.lookup, h2] using hl)⟩
          have hck : Spec.charChecksOk env cr.directives c = false := by simpa using h1.symm
          exact Post.const (fun _ => by simp only [hck, Bool.false_eq_true, if_false]; rfl) hgg
            (fun v s' h => by cases h)
        · rename_i g1 hcc
          obtain ⟨h1, h2, h3⟩ := charChecks_spec _ _ _ _ _ _ _ hcc
          have hgg : Good env u inp g1 :=
            ⟨h3 ▸ hg.uctx, fun n o r hl => hg.cache n o r (by simpa [Global.lookup, h2] using hl)⟩
          have hck : Spec.charChecksOk env cr.directives c = true := by simpa using h1.symm
          simp only [hck, if_true]
          exact charParts_post hrec _ _ _ _ _ _ h hw hgg
  · -- @extern rule
    rename_i er hfind
    simp only [hfind]
    unfold externRule at h
    unfold Spec.externRule
    simp only at h
    have hgu := hg.uctx
    subst hgu
    have hu : (env.hooks.extern ("::".intercalate er.function) s.rest g.uctx).2 = g.uctx := hp.1 _ _ _
    have hg1 : Good env g.uctx inp
        ({ g with uctx := (env.hooks.extern ("::".intercalate er.function) s.rest g.uctx).2 }.emit
          (.externCall ("::".intercalate er.function) s.off g.uctx)) :=
      ⟨hu, fun n o r hl => hg.cache n o r hl⟩
    simp only [clr_rest]
    split at h
    · rename_i v adv hres
      simp only [Option.some.injEq, Prod.mk.injEq] at h
      obtain ⟨rfl, rfl⟩ := h
      refine Post.const (fun _ => by simp only [hres, abs_advanceSafe]) hg1 ?_
      intro v' s' h
      exact wf_advanceSafe hw h
    · rename_i msg hres
      simp only [Option.some.injEq, Prod.mk.injEq] at h
      obtain ⟨rfl, rfl⟩ := h
      exact Post.const (fun _ => by simp only [hres, abs]) hg1 (fun v s' h => by cases h)
  · -- builtins
    rename_i hfind
    simp only [hfind]
    split at h
    · rename_i hc
      simp only [Option.some.injEq, Prod.mk.injEq] at h
      obtain ⟨rfl, rfl⟩ := h
      refine Post.const (fun _ => by simp only [hc, if_true, abs_map, abs_parseChar]) hg ?_
      intro v s' h
      obtain ⟨v0, hv0⟩ := map_ok h
      exact wf_parseChar hw hv0
    · rename_i hc
      split at h
      · rename_i hc2
        simp only [Option.some.injEq, Prod.mk.injEq] at h
        obtain ⟨rfl, rfl⟩ := h
        refine Post.const (fun _ => by simp only [hc, hc2, if_true, abs_map, abs_parseWhitespace]; rfl) hg ?_
        intro v s' h
        obtain ⟨v0, hv0⟩ := map_ok h
        exact wf_parseWhitespace hw hv0
      · rename_i hc2
        simp only [Option.some.injEq, Prod.mk.injEq] at h
        obtain ⟨rfl, rfl⟩ := h
        exact Post.panic (fun _ => by simp only [hc, hc2]; rfl) hg

/-- one unfolding of the evaluator preserves refinement -/
theorem step_ref {rec : Rec} (hrec : Ref env u inp rec) (hp : PureHooks env.hooks)
    (hnl : NoLeftrec env.g) (n : Nat) : Ref env u inp (step env rec n) := by
  constructor
  · intro ctx e s g r g' h hw hg
    have := stepExpr_post hrec n h hw hg
    exact ⟨this.1.succ, this.2⟩
  · intro name s g r g' h hw hg
    have := stepRule_post hrec hp hnl n h hw hg
    exact ⟨this.1.succ, this.2⟩

/-- **Refinement theorem.**  Whatever the implementation model answers – with any set of
    memoized rules, from any cache satisfying the invariant – is the reference answer. -/
theorem eval_ref (hp : PureHooks env.hooks) (hnl : NoLeftrec env.g) :
    ∀ n, Ref env u inp (eval env n) := by
  intro n
  induction n with
  | zero =>
    exact ⟨fun _ _ _ _ _ _ h => by simp [eval] at h, fun _ _ _ _ _ h => by simp [eval] at h⟩
  | succ n ih => exact step_ref ih hp hnl n

end
end Peg
