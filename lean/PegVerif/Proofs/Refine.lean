import PegVerif.Proofs.Basics
import PegVerif.Proofs.SpecMono
/-
  Refinement: the model of the generated parser (`eval`: cache, tracer log, furthest-error
  bookkeeping, user-context threading) computes, modulo `abs`, the answer of the reference
  semantics `Spec.eval` – for *every* set of `@memoize` rules, under the cache invariant
  `CacheOk` ("every cached entry is the reference answer of that rule at that offset").

  Hypotheses: user functions do not modify the user context (`PureHooks`), no `@leftrec` rule.
-/
namespace Peg
open Spec

/-- user functions leave the user context alone -/
def PureHooks (H : Hooks) : Prop :=
  (∀ f bs u, (H.extern f bs u).2 = u) ∧ (∀ f v u, (H.check f v u).2 = u)

def NoLeftrec (g : Grammar) : Prop :=
  ∀ r, RuleEntry.rule r ∈ g.rules → r.flags.leftRecursive = false

/-- eventually-stable answer of a fuel-indexed computation -/
def Evt {α} (f : Nat → SOut α) (r : Res α) : Prop := ∃ m0, ∀ m, m0 ≤ m → f m = some r

theorem Evt.const {α} {r : Res α} : Evt (fun _ => some r) r := ⟨0, fun _ _ => rfl⟩

theorem Evt.succ {α} {f : Nat → SOut α} {r} (h : Evt (fun m => f (m + 1)) r) : Evt f r := by
  obtain ⟨m0, h⟩ := h
  refine ⟨m0 + 1, fun m hm => ?_⟩
  obtain ⟨m', rfl⟩ : ∃ m', m = m' + 1 := ⟨m - 1, by omega⟩
  exact h m' (by omega)

theorem Evt.of_eq {α} {f f' : Nat → SOut α} {r} (h : Evt f r) (he : ∀ m, f m = f' m) : Evt f' r := by
  obtain ⟨m0, h⟩ := h
  exact ⟨m0, fun m hm => (he m) ▸ h m hm⟩

section
variable (env : Env) (u : Nat) (inp : List UInt8)

/-- every cached entry is the reference answer of that rule at that offset -/
def CacheOk (g : Global) : Prop :=
  ∀ name off r, g.lookup (name, off) = some r →
    Evt (fun m => (Spec.eval env u m).rule name ⟨inp.drop off, off, none⟩) (abs r) ∧
    (∀ v s', r = .ok v s' → WfSt inp s')

structure Good (g : Global) : Prop where
  uctx : g.uctx = u
  cache : CacheOk env u inp g

def Post {α} (f : Nat → SOut α) (r : Res α) (g' : Global) : Prop :=
  Evt f (abs r) ∧ Good env u inp g' ∧ (∀ v s', r = .ok v s' → WfSt inp s')

def RefE (ev : Ctx → Expr → St → Global → Out Parsed) : Prop :=
  ∀ ctx e s g r g', ev ctx e s g = some (r, g') → WfSt inp s → Good env u inp g →
    Post env u inp (fun m => (Spec.eval env u m).expr ctx e (clr s)) r g'

def RefR (ev : String → St → Global → Out Val) : Prop :=
  ∀ name s g r g', ev name s g = some (r, g') → WfSt inp s → Good env u inp g →
    Post env u inp (fun m => (Spec.eval env u m).rule name (clr s)) r g'

structure Ref (rec : Rec) : Prop where
  expr : RefE env u inp rec.expr
  rule : RefR env u inp rec.rule

variable {env u inp}

theorem Good.emit {g : Global} (h : Good env u inp g) (e : Ev) : Good env u inp (g.emit e) :=
  ⟨h.uctx, fun n o r hl => h.cache n o r hl⟩

theorem Post.const {α} {r : Res α} {g : Global} {f : Nat → SOut α} (hf : ∀ m, f m = some (abs r))
    (hg : Good env u inp g) (hw : ∀ v s', r = .ok v s' → WfSt inp s') : Post env u inp f r g :=
  ⟨⟨0, fun m _ => hf m⟩, hg, hw⟩

theorem Post.panic {α} {m : String} {g : Global} {f : Nat → SOut α} (hf : ∀ k, f k = some (.panic m))
    (hg : Good env u inp g) : Post env u inp f (.panic m : Res α) g :=
  Post.const hf hg (fun _ _ h => by cases h)

theorem Post.of_eq {α} {f f' : Nat → SOut α} {r : Res α} {g} (h : Post env u inp f r g)
    (he : ∀ m, f m = f' m) : Post env u inp f' r g :=
  ⟨h.1.of_eq he, h.2⟩

theorem Post.emit {α} {f : Nat → SOut α} {r : Res α} {g} (h : Post env u inp f r g) (e : Ev) :
    Post env u inp f r (g.emit e) :=
  ⟨h.1, h.2.1.emit e, h.2.2⟩

/-- sequencing: the implementation's `bindR` refines the reference `bindS` -/
theorem bindR_post {α β} {x : Out α} {k : α → St → Global → Out β} {r : Res β} {g' : Global}
    {fx : Nat → SOut α} {fk : Nat → α → St → SOut β}
    (h : bindR x k = some (r, g'))
    (hx : ∀ rx gx, x = some (rx, gx) → Post env u inp fx rx gx)
    (hk : ∀ v s1 g1 r g', k v s1 g1 = some (r, g') → WfSt inp s1 → Good env u inp g1 →
      Post env u inp (fun m => fk m v (clr s1)) r g') :
    Post env u inp (fun m => bindS (fx m) (fk m)) r g' := by
  cases x with
  | none => simp [bindR] at h
  | some a =>
    obtain ⟨rx, gx⟩ := a
    obtain ⟨⟨m0, h0⟩, hg, hw⟩ := hx rx gx rfl
    cases rx with
    | ok v s1 =>
      simp only [bindR] at h
      obtain ⟨⟨m1, h1⟩, hg', hw'⟩ := hk v s1 gx r g' h (hw v s1 rfl) hg
      refine ⟨⟨max m0 m1, fun m hm => ?_⟩, hg', hw'⟩
      have e0 := h0 m (by omega)
      have e1 := h1 m (by omega)
      simp only [abs] at e0
      simp only [e0, bindS]
      exact e1
    | err e =>
      simp only [bindR, Option.some.injEq, Prod.mk.injEq] at h
      obtain ⟨rfl, rfl⟩ := h
      refine ⟨⟨m0, fun m hm => ?_⟩, hg, fun _ _ h => by cases h⟩
      have e0 := h0 m hm
      simp only [abs] at e0
      simp only [e0, bindS, abs]
    | panic msg =>
      simp only [bindR, Option.some.injEq, Prod.mk.injEq] at h
      obtain ⟨rfl, rfl⟩ := h
      refine ⟨⟨m0, fun m hm => ?_⟩, hg, fun _ _ h => by cases h⟩
      have e0 := h0 m hm
      simp only [abs] at e0
      simp only [e0, bindS, abs]

/-- `generate_skip_ws` -/
theorem withSkipWs_post {α} {rec : Rec} (hrec : Ref env u inp rec) {ctx : Ctx} {s : St} {g : Global}
    {k : St → Global → Out α} {fk : Nat → St → SOut α} {r : Res α} {g' : Global}
    (h : Peg.withSkipWs rec ctx s g k = some (r, g')) (hw : WfSt inp s) (hg : Good env u inp g)
    (hk : ∀ s1 g1 r g', k s1 g1 = some (r, g') → WfSt inp s1 → Good env u inp g1 →
      Post env u inp (fun m => fk m (clr s1)) r g') :
    Post env u inp (fun m => Spec.withSkipWs (Spec.eval env u m) ctx (clr s) (fk m)) r g' := by
  unfold Peg.withSkipWs at h
  unfold Spec.withSkipWs
  split at h
  · rename_i hs
    simp only [hs, if_true]
    exact bindR_post (fk := fun m _ s' => fk m s') h
      (fun rx gx hx => hrec.rule _ _ _ _ _ hx hw hg)
      (fun v s1 g1 r g' h hw1 hg1 => hk s1 g1 r g' h hw1 hg1)
  · rename_i hs
    simp only [hs]
    exact hk _ _ _ _ h hw hg

end
end Peg
