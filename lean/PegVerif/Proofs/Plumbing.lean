import PegVerif.Eval
import PegVerif.Proofs.Arity
/-
  Property C03: the field plumbing of the generated parsers never goes wrong.

  Every `Except.error` of the helpers `postprocessField`, `mergePart`, `project`, `convertArm`,
  `defaults`, `closureInit`, `extendAll` (a generator panic or ill-typed generated Rust) becomes a
  `Res.panic ("codegen: " ++ msg)` in `stepExpr` / `ruleBody`.  We prove that for every expression
  accepted by the field analysis, evaluated in a context whose rule fields cover its own fields
  (`SubFields`), no such panic is ever produced, and that every successful result has exactly the
  declared shape (`Shaped`): one entry per (filtered) rule field, `Option`-shaped for `optional`
  fields, `Vec`-shaped for `multiple` fields.
-/
namespace Peg

/-! ### the shape invariant -/

def ShapeOk : Arity → Val → Prop
  | .one, _ => True
  | .optional, v => v = .none ∨ ∃ x, v = .some x
  | .multiple, v => ∃ l, v = .list l

/-- `p` has exactly one entry per field of `fields`, in that order, each of the declared shape -/
def Shaped (fields : List FieldDesc) (p : Parsed) : Prop :=
  p.map (·.1) = fields.map (·.name) ∧ ∀ f ∈ fields, ∃ v, p.get f.name = some v ∧ ShapeOk f.arity v

/-- the same, entry by entry (equivalent to `Shaped` when the names are duplicate-free) -/
inductive ShapedL : List FieldDesc → Parsed → Prop
  | nil : ShapedL [] []
  | cons {f : FieldDesc} {v : Val} {fs : List FieldDesc} {p : Parsed} :
      ShapeOk f.arity v → ShapedL fs p → ShapedL (f :: fs) ((f.name, v) :: p)

/-! ### association lists -/

theorem Parsed.get_nil (x : String) : Parsed.get [] x = none := rfl

theorem Parsed.get_cons (k : String) (v : Val) (p : Parsed) (x : String) :
    Parsed.get ((k, v) :: p) x = if k = x then some v else Parsed.get p x := by
  unfold Parsed.get
  simp only [List.find?_cons]
  by_cases h : k = x
  · simp [h]
  · have hb : (k == x) = false := by simpa using h
    simp [hb, h]

theorem Parsed.any_iff (p : Parsed) (n : String) : p.any (·.1 == n) = true ↔ n ∈ p.map (·.1) := by
  simp only [List.any_eq_true, List.mem_map, beq_iff_eq]

theorem Parsed.mem_keys_of_get {p : Parsed} {n : String} {v : Val} (h : p.get n = some v) :
    n ∈ p.map (·.1) := by
  induction p with
  | nil => cases h
  | cons kv p ih =>
    obtain ⟨k, w⟩ := kv
    rw [Parsed.get_cons] at h
    by_cases hk : k = n
    · simp [hk]
    · rw [if_neg hk] at h
      simp only [List.map_cons, List.mem_cons]; exact Or.inr (ih h)

theorem Parsed.get_map_other (p : Parsed) {n m : String} (v : Val) (h : n ≠ m) :
    Parsed.get (p.map fun kv => if kv.1 == n then (n, v) else kv) m = p.get m := by
  induction p with
  | nil => rfl
  | cons kv p ih =>
    obtain ⟨k, w⟩ := kv
    simp only [List.map_cons]
    by_cases hk : k = n
    · subst hk
      simp only [beq_self_eq_true, if_true, Parsed.get_cons, if_neg h, ih]
    · have hkb : (k == n) = false := by simpa using hk
      simp only [hkb, Bool.false_eq_true, if_false, Parsed.get_cons, ih]

theorem Parsed.get_map_self (p : Parsed) {n : String} (v : Val) (h : n ∈ p.map (·.1)) :
    Parsed.get (p.map fun kv => if kv.1 == n then (n, v) else kv) n = some v := by
  induction p with
  | nil => cases h
  | cons kv p ih =>
    obtain ⟨k, w⟩ := kv
    simp only [List.map_cons]
    by_cases hk : k = n
    · subst hk
      simp only [beq_self_eq_true, if_true, Parsed.get_cons]
    · have hkb : (k == n) = false := by simpa using hk
      simp only [hkb, Bool.false_eq_true, if_false, Parsed.get_cons, if_neg hk]
      simp only [List.map_cons, List.mem_cons] at h
      exact ih (h.resolve_left (fun e => hk e.symm))

theorem Parsed.get_append_single (p : Parsed) (n : String) (v : Val) (m : String) :
    Parsed.get (p ++ [(n, v)]) m = match p.get m with | some w => some w | none => if n = m then some v else none := by
  induction p with
  | nil => simp only [List.nil_append, Parsed.get_cons, Parsed.get_nil]
  | cons kv p ih =>
    obtain ⟨k, w⟩ := kv
    simp only [List.cons_append, Parsed.get_cons]
    by_cases hk : k = m
    · simp only [if_pos hk]
    · simp only [if_neg hk, ih]

theorem Parsed.get_none_of_not_mem {p : Parsed} {n : String} (h : n ∉ p.map (·.1)) : p.get n = none := by
  cases hg : p.get n with
  | none => rfl
  | some v => exact absurd (Parsed.mem_keys_of_get hg) h

theorem Parsed.get_set (p : Parsed) (n : String) (v : Val) (m : String) :
    (p.set n v).get m = if n = m then some v else p.get m := by
  unfold Parsed.set
  split
  · rename_i hany
    by_cases hnm : n = m
    · subst hnm
      rw [if_pos rfl]; exact Parsed.get_map_self p v ((Parsed.any_iff p n).mp hany)
    · rw [if_neg hnm]; exact Parsed.get_map_other p v hnm
  · rename_i hany
    have hn : n ∉ p.map (·.1) := fun h => hany ((Parsed.any_iff p n).mpr h)
    rw [Parsed.get_append_single]
    by_cases hnm : n = m
    · subst hnm
      rw [Parsed.get_none_of_not_mem hn, if_pos rfl]
    · rw [if_neg hnm]
      cases p.get m <;> simp [hnm]

theorem Parsed.keys_set {p : Parsed} {n : String} (h : n ∈ p.map (·.1)) (v : Val) :
    (p.set n v).map (·.1) = p.map (·.1) := by
  unfold Parsed.set
  rw [if_pos ((Parsed.any_iff p n).mpr h), List.map_map]
  refine List.map_congr_left (fun kv _ => ?_)
  simp only [Function.comp]
  split
  · rename_i hk; exact (beq_iff_eq.mp hk).symm
  · rfl

/-! ### `ShapedL` and `Shaped` -/

theorem ShapedL.keys {fs : List FieldDesc} {p : Parsed} (h : ShapedL fs p) :
    p.map (·.1) = fs.map (·.name) := by
  induction h with
  | nil => rfl
  | cons _ _ ih => simp only [List.map_cons, ih]

theorem ShapedL.shaped {fs : List FieldDesc} {p : Parsed} (h : ShapedL fs p)
    (hn : (fs.map (·.name)).Nodup) : Shaped fs p := by
  refine ⟨h.keys, ?_⟩
  induction h with
  | nil => intro f hf; cases hf
  | @cons f0 v fs p hv _ ih =>
    simp only [List.map_cons, List.nodup_cons] at hn
    intro f hf
    rcases List.mem_cons.mp hf with rfl | hf
    · exact ⟨v, by rw [Parsed.get_cons, if_pos rfl], hv⟩
    · have hne : f0.name ≠ f.name := fun e => hn.1 (e ▸ List.mem_map.mpr ⟨f, hf, rfl⟩)
      obtain ⟨w, hw, hs⟩ := ih hn.2 f hf
      exact ⟨w, by rw [Parsed.get_cons, if_neg hne]; exact hw, hs⟩

theorem Shaped.nil : Shaped [] [] := ⟨rfl, fun _ h => by cases h⟩

/-! ### filtered rule fields -/

theorem mem_filterRuleFields {RF own : List FieldDesc} {f : FieldDesc} :
    f ∈ filterRuleFields RF own ↔ f ∈ RF ∧ hasField own f.name = true := by
  unfold filterRuleFields; exact List.mem_filter

theorem filterRuleFields_nodup {RF : List FieldDesc} (h : (RF.map (·.name)).Nodup) (own : List FieldDesc) :
    ((filterRuleFields RF own).map (·.name)).Nodup :=
  List.Nodup.sublist (List.Sublist.map _ List.filter_sublist) h

theorem filterRuleFields_congr (RF : List FieldDesc) {own own' : List FieldDesc}
    (h : ∀ x, hasField own x = hasField own' x) : filterRuleFields RF own = filterRuleFields RF own' := by
  unfold filterRuleFields
  exact List.filter_congr (fun f _ => h f.name)

theorem filterRuleFields_nil (RF : List FieldDesc) : filterRuleFields RF [] = [] := by
  unfold filterRuleFields
  exact List.filter_eq_nil_iff.mpr (fun f _ => by simp [hasField])

theorem filterRuleFields_self (fs : List FieldDesc) : filterRuleFields fs fs = fs := by
  unfold filterRuleFields
  exact List.filter_eq_self.mpr (fun f hf => hasField_of_mem hf)

theorem hasField_filterRuleFields {RF own : List FieldDesc} {x : String} :
    hasField (filterRuleFields RF own) x = true ↔ hasField RF x = true ∧ hasField own x = true := by
  constructor
  · intro h
    obtain ⟨f, hf, rfl⟩ := exists_of_hasField h
    exact ⟨hasField_of_mem (mem_filterRuleFields.mp hf).1, (mem_filterRuleFields.mp hf).2⟩
  · rintro ⟨h1, h2⟩
    obtain ⟨f, hf, rfl⟩ := exists_of_hasField h1
    exact hasField_of_mem (mem_filterRuleFields.mpr ⟨hf, h2⟩)

/-- the rule-level descriptor dominates every own descriptor of the same name -/
theorem rule_field_covers {RF own : List FieldDesc} (hn : (RF.map (·.name)).Nodup)
    (hs : SubFields own RF) {f o : FieldDesc} (hf : f ∈ RF) (ho : o ∈ own) (e : o.name = f.name) :
    FLe o f := by
  obtain ⟨o', ho', l⟩ := hs o ho
  have : o' = f := eq_of_name_eq hn ho' hf (l.1.trans e)
  exact this ▸ l

theorem findField_of_mem {RF : List FieldDesc} (hn : (RF.map (·.name)).Nodup) {f : FieldDesc}
    (hf : f ∈ RF) : findField RF f.name = some f := by
  unfold findField
  induction RF with
  | nil => cases hf
  | cons a RF ih =>
    simp only [List.map_cons, List.nodup_cons] at hn
    simp only [List.find?_cons]
    rcases List.mem_cons.mp hf with rfl | hf
    · simp
    · have hne : a.name ≠ f.name := fun e => hn.1 (e ▸ List.mem_map.mpr ⟨f, hf, rfl⟩)
      have : (a.name == f.name) = false := by simpa using hne
      rw [this]; exact ih hn.2 hf

/-! ### the helpers never fail on well-shaped inputs -/

theorem postprocessField_good {RF : List FieldDesc} (hn : (RF.map (·.name)).Nodup) {f : FieldDesc}
    (hf : f ∈ RF) {typ : String} (ht : ∃ t ∈ f.types, t.1 = typ) (v : Val) :
    ∃ fv, postprocessField RF f.name typ v = .ok fv ∧ ShapeOk f.arity fv := by
  unfold postprocessField
  rw [findField_of_mem hn hf]
  simp only
  cases hfind : f.types.find? (·.1 == typ) with
  | none =>
    obtain ⟨t, htm, e⟩ := ht
    have := List.find?_eq_none.mp hfind t htm
    simp [e] at this
  | some tb =>
    obtain ⟨t1, bx⟩ := tb
    simp only
    refine ⟨_, rfl, ?_⟩
    cases f.arity with
    | one => trivial
    | optional => exact Or.inr ⟨_, rfl⟩
    | multiple => exact ⟨_, rfl⟩

theorem defaultField_good {f : FieldDesc} (h : Arity.optional ≤ f.arity) :
    ∃ v, defaultField f = .ok v ∧ ShapeOk f.arity v := by
  unfold defaultField
  cases ha : f.arity with
  | one => rw [ha] at h; exact absurd h (by decide)
  | optional => exact ⟨_, rfl, Or.inl rfl⟩
  | multiple => exact ⟨_, rfl, [], rfl⟩

theorem defaults_good : ∀ (fs : List FieldDesc), (∀ f ∈ fs, Arity.optional ≤ f.arity) →
    ∃ p, defaults fs = .ok p ∧ ShapedL fs p := by
  intro fs
  induction fs with
  | nil => intro _; exact ⟨[], rfl, .nil⟩
  | cons f fs ih =>
    intro h
    obtain ⟨v, hv, hs⟩ := defaultField_good (h f List.mem_cons_self)
    obtain ⟨p, hp, hsp⟩ := ih (fun f hf => h f (List.mem_cons_of_mem _ hf))
    exact ⟨(f.name, v) :: p, by simp only [defaults, hv, hp], .cons hs hsp⟩

theorem closureInit_good : ∀ (fs : List FieldDesc), (∀ f ∈ fs, f.arity = .multiple) →
    ∃ p, closureInit fs = .ok p ∧ ShapedL fs p := by
  intro fs
  induction fs with
  | nil => intro _; exact ⟨[], rfl, .nil⟩
  | cons f fs ih =>
    intro h
    have hf := h f List.mem_cons_self
    obtain ⟨p, hp, hsp⟩ := ih (fun f hf => h f (List.mem_cons_of_mem _ hf))
    refine ⟨(f.name, .list []) :: p, ?_, .cons (by rw [hf]; exact ⟨[], rfl⟩) hsp⟩
    simp only [closureInit, hf, hp, bne_self_eq_false, Bool.false_eq_true, if_false]

theorem project_good (acc : Parsed) : ∀ (fs : List FieldDesc),
    (∀ f ∈ fs, ∃ v, acc.get f.name = some v ∧ ShapeOk f.arity v) →
    ∃ p, project fs acc = .ok p ∧ ShapedL fs p := by
  intro fs
  induction fs with
  | nil => intro _; exact ⟨[], rfl, .nil⟩
  | cons f fs ih =>
    intro h
    obtain ⟨v, hv, hs⟩ := h f List.mem_cons_self
    obtain ⟨p, hp, hsp⟩ := ih (fun f hf => h f (List.mem_cons_of_mem _ hf))
    exact ⟨(f.name, v) :: p, by simp only [project, hv, hp], .cons hs hsp⟩

theorem convertArm_go_good {inner : List FieldDesc} {r : Parsed} : ∀ (fs : List FieldDesc),
    (∀ f ∈ fs, hasField inner f.name = false → Arity.optional ≤ f.arity) →
    (∀ f ∈ fs, hasField inner f.name = true → ∃ v, r.get f.name = some v ∧ ShapeOk f.arity v) →
    ∃ p, convertArm.go inner r fs = .ok p ∧ ShapedL fs p := by
  intro fs
  induction fs with
  | nil => intro _ _; exact ⟨[], rfl, .nil⟩
  | cons f fs ih =>
    intro habs hr
    obtain ⟨p, hp, hsp⟩ := ih (fun f hf => habs f (List.mem_cons_of_mem _ hf))
      (fun f hf => hr f (List.mem_cons_of_mem _ hf))
    by_cases hin : hasField inner f.name = true
    · obtain ⟨v, hv, hs⟩ := hr f List.mem_cons_self hin
      exact ⟨(f.name, v) :: p, by simp only [convertArm.go, hin, if_true, hv, hp], .cons hs hsp⟩
    · have hin' : hasField inner f.name = false := by simpa using hin
      obtain ⟨v, hv, hs⟩ := defaultField_good (habs f List.mem_cons_self hin')
      exact ⟨(f.name, v) :: p,
        by simp only [convertArm.go, hin', Bool.false_eq_true, if_false, hv, hp], .cons hs hsp⟩

/-- `Choice::generate_result_converter` succeeds: every field of the arm is a field of the choice,
    fields absent from the arm are at least `optional`, the arm's result binds its fields -/
theorem convertArm_good {fields inner : List FieldDesc} {r : Parsed}
    (hsub : ∀ o ∈ inner, ∃ f ∈ fields, f.name = o.name)
    (habs : ∀ f ∈ fields, hasField inner f.name = false → Arity.optional ≤ f.arity)
    (hr : ∀ f ∈ fields, hasField inner f.name = true → ∃ v, r.get f.name = some v ∧ ShapeOk f.arity v) :
    ∃ p, convertArm fields inner r = .ok p ∧ ShapedL fields p := by
  match fields with
  | [] => exact ⟨[], rfl, .nil⟩
  | [f] =>
    simp only [convertArm]
    cases inner with
    | nil =>
      obtain ⟨v, hv, hs⟩ := defaultField_good (habs f List.mem_cons_self (by simp [hasField]))
      exact ⟨[(f.name, v)], by simp only [List.isEmpty_nil, if_true, hv], .cons hs .nil⟩
    | cons o inner =>
      obtain ⟨f', hf', e⟩ := hsub o List.mem_cons_self
      rw [List.mem_singleton.mp hf'] at e
      have hin : hasField (o :: inner) f.name = true := e ▸ hasField_of_mem List.mem_cons_self
      obtain ⟨v, hv, hs⟩ := hr f List.mem_cons_self hin
      exact ⟨[(f.name, v)], by simp only [List.isEmpty_cons, Bool.false_eq_true, if_false, hv],
        .cons hs .nil⟩
  | f1 :: f2 :: rest =>
    simp only [convertArm]
    exact convertArm_go_good _ habs hr

/-- the accumulator of a sequence binds every seen rule field with a value of the declared shape -/
def AccOk (RF : List FieldDesc) (seen : List String) (acc : Parsed) : Prop :=
  ∀ f ∈ RF, f.name ∈ seen → ∃ v, acc.get f.name = some v ∧ ShapeOk f.arity v

theorem extendVal_list (a b : List Val) : extendVal (.list a) (.list b) = .ok (.list (a ++ b)) := rfl

/-- one part of a sequence: the `let`/`extend` statements succeed -/
theorem mergePart_good {RF : List FieldDesc} (hn : (RF.map (·.name)).Nodup) {r : Parsed} :
    ∀ (fs : List FieldDesc) (seen : List String) (acc : Parsed),
      (fs.map (·.name)).Nodup →
      (∀ f ∈ fs, f ∈ RF ∧ ∃ v, r.get f.name = some v ∧ ShapeOk f.arity v) →
      (∀ f ∈ fs, f.name ∈ seen → f.arity = .multiple) →
      AccOk RF seen acc →
      ∃ seen' acc', mergePart fs seen acc r = .ok (seen', acc') ∧ AccOk RF seen' acc' ∧
        ∀ x, x ∈ seen' ↔ x ∈ seen ∨ x ∈ fs.map (·.name) := by
  intro fs
  induction fs with
  | nil =>
    intro seen acc _ _ _ hacc
    exact ⟨seen, acc, rfl, hacc, fun x => by simp⟩
  | cons f fs ih =>
    intro seen acc hnd hr hm hacc
    simp only [List.map_cons, List.nodup_cons] at hnd
    obtain ⟨hfRF, v, hv, hs⟩ := hr f List.mem_cons_self
    have hr' : ∀ f' ∈ fs, f' ∈ RF ∧ ∃ v, r.get f'.name = some v ∧ ShapeOk f'.arity v :=
      fun f' hf' => hr f' (List.mem_cons_of_mem _ hf')
    simp only [mergePart, hv]
    by_cases hseen : f.name ∈ seen
    · -- seen before: the field is `multiple`, both values are `Vec`s
      have hmul := hm f List.mem_cons_self hseen
      obtain ⟨old, hold, hso⟩ := hacc f hfRF hseen
      rw [hmul] at hs hso
      obtain ⟨b, rfl⟩ := hs
      obtain ⟨a, rfl⟩ := hso
      have hacc' : AccOk RF seen (acc.set f.name (.list (a ++ b))) := by
        intro f' hf' hs'
        rw [Parsed.get_set]
        by_cases e : f.name = f'.name
        · rw [if_pos e]
          have : f = f' := eq_of_name_eq hn hfRF hf' e
          subst this
          exact ⟨_, rfl, by rw [hmul]; exact ⟨_, rfl⟩⟩
        · rw [if_neg e]; exact hacc f' hf' hs'
      obtain ⟨seen', acc', h1, h2, h3⟩ := ih seen _ hnd.2 hr'
        (fun f' hf' hs' => hm f' (List.mem_cons_of_mem _ hf') hs') hacc'
      refine ⟨seen', acc', ?_, h2, fun x => ?_⟩
      · have hc : seen.contains f.name = true := by simpa using hseen
        simp only [hc, Bool.not_true, Bool.false_eq_true, if_false, hmul, bne_self_eq_false, hold,
          extendVal_list]
        exact h1
      · rw [h3]; simp only [List.map_cons, List.mem_cons]
        constructor
        · rintro (h | h)
          · exact Or.inl h
          · exact Or.inr (Or.inr h)
        · rintro (h | h | h)
          · exact Or.inl h
          · exact Or.inl (h ▸ hseen)
          · exact Or.inr h
    · -- first sight: bind
      have hacc' : AccOk RF (f.name :: seen) (acc.set f.name v) := by
        intro f' hf' hs'
        rw [Parsed.get_set]
        by_cases e : f.name = f'.name
        · rw [if_pos e]
          have : f = f' := eq_of_name_eq hn hfRF hf' e
          subst this
          exact ⟨_, rfl, hs⟩
        · rw [if_neg e]
          rcases List.mem_cons.mp hs' with h | h
          · exact absurd h.symm e
          · exact hacc f' hf' h
      obtain ⟨seen', acc', h1, h2, h3⟩ := ih (f.name :: seen) _ hnd.2 hr'
        (fun f' hf' hs' => by
          rcases List.mem_cons.mp hs' with h | h
          · exact absurd (h ▸ List.mem_map.mpr ⟨f', hf', rfl⟩) hnd.1
          · exact hm f' (List.mem_cons_of_mem _ hf') h) hacc'
      refine ⟨seen', acc', ?_, h2, fun x => ?_⟩
      · have hc : seen.contains f.name = false := by simpa using hseen
        simp only [hc, Bool.not_false, if_true]
        exact h1
      · rw [h3]; simp only [List.map_cons, List.mem_cons]
        constructor
        · rintro ((h | h) | h)
          · exact Or.inr (Or.inl h)
          · exact Or.inl h
          · exact Or.inr (Or.inr h)
        · rintro (h | h | h)
          · exact Or.inl (Or.inr h)
          · exact Or.inl (Or.inl h)
          · exact Or.inr h

/-- the closure's `extend` statements succeed and keep the accumulator well-shaped -/
theorem extendAll_good {fields : List FieldDesc} (hmul : ∀ f ∈ fields, f.arity = .multiple)
    {r : Parsed} (hr : Shaped fields r) :
    ∀ (fs : List FieldDesc) (acc : Parsed), (∀ f ∈ fs, f ∈ fields) → Shaped fields acc →
      ∃ acc', extendAll fs acc r = .ok acc' ∧ Shaped fields acc' := by
  intro fs
  induction fs with
  | nil => intro acc _ h; exact ⟨acc, rfl, h⟩
  | cons f fs ih =>
    intro acc hfs hacc
    have hf := hfs f List.mem_cons_self
    obtain ⟨va, hva, hsa⟩ := hacc.2 f hf
    obtain ⟨vb, hvb, hsb⟩ := hr.2 f hf
    rw [hmul f hf] at hsa hsb
    obtain ⟨a, rfl⟩ := hsa
    obtain ⟨b, rfl⟩ := hsb
    have hacc' : Shaped fields (acc.set f.name (.list (a ++ b))) := by
      refine ⟨by rw [Parsed.keys_set (Parsed.mem_keys_of_get hva)]; exact hacc.1, fun f' hf' => ?_⟩
      rw [Parsed.get_set]
      by_cases e : f.name = f'.name
      · rw [if_pos e]; exact ⟨_, rfl, by rw [hmul f' hf']; exact ⟨_, rfl⟩⟩
      · rw [if_neg e]; exact hacc.2 f' hf'
    obtain ⟨acc', h1, h2⟩ := ih _ (fun f' hf' => hfs f' (List.mem_cons_of_mem _ hf')) hacc'
    exact ⟨acc', by simp only [extendAll, hva, hvb, extendVal_list]; exact h1, h2⟩

/-! ### codegen panics, the cache invariant, postconditions -/

/-- the result is a panic raised by the field plumbing -/
def IsCg {α} (r : Res α) : Prop := ∃ m, r = .panic ("codegen: " ++ m)

/-- no cached result is a plumbing panic (trivially true for the empty cache of `parseAdvanced`) -/
def CleanCache (g : Global) : Prop := ∀ kv ∈ g.cache, ¬ IsCg kv.2

/-- postcondition of an evaluation step: no plumbing panic, clean cache, `Q` on success -/
def PostP {α} (Q : α → St → Prop) (r : Res α) (g : Global) : Prop :=
  ¬ IsCg r ∧ CleanCache g ∧ ∀ v s, r = .ok v s → Q v s

theorem not_isCg_ok {α} (v : α) (s : St) : ¬ IsCg (.ok v s) := fun ⟨_, h⟩ => by cases h
theorem not_isCg_err {α} (e : PErr) : ¬ IsCg (.err e : Res α) := fun ⟨_, h⟩ => by cases h

theorem isCg_panic_iff {α} {m : String} : IsCg (.panic m : Res α) ↔ ∃ m', m = "codegen: " ++ m' := by
  constructor
  · rintro ⟨m', h⟩; exact ⟨m', by injection h⟩
  · rintro ⟨m', rfl⟩; exact ⟨m', rfl⟩

theorem isCg_panic_cast {α β} {m : String} (h : ¬ IsCg (.panic m : Res α)) : ¬ IsCg (.panic m : Res β) :=
  fun h' => h (isCg_panic_iff.mpr (isCg_panic_iff.mp h'))

/-- a panic message that does not start with `c` is not a plumbing panic -/
theorem not_isCg_of_head {α} {m : String} (h : m.toList.head? ≠ some 'c') : ¬ IsCg (.panic m : Res α) := by
  intro h'
  obtain ⟨m', rfl⟩ := isCg_panic_iff.mp h'
  apply h
  simp [String.toList_append]

theorem not_isCg_map {α β} {f : α → β} {r : Res α} (h : ¬ IsCg r) : ¬ IsCg (r.map f) := by
  cases r with
  | ok v s => exact not_isCg_ok _ _
  | err e => exact not_isCg_err _
  | panic m => exact isCg_panic_cast h

theorem CleanCache.emit {g : Global} (h : CleanCache g) (e : Ev) : CleanCache (g.emit e) := h

theorem CleanCache.uctx {g : Global} (h : CleanCache g) (u : Nat) : CleanCache { g with uctx := u } := h

theorem CleanCache.insert {g : Global} (h : CleanCache g) (k : String × Nat) {r : Res Val}
    (hr : ¬ IsCg r) : CleanCache (g.insert k r) := by
  intro kv hkv
  rcases List.mem_cons.mp hkv with rfl | hkv
  · exact hr
  · exact h kv hkv

theorem CleanCache.lookup {g : Global} (h : CleanCache g) {k : String × Nat} {r : Res Val}
    (hl : g.lookup k = some r) : ¬ IsCg r := by
  unfold Global.lookup at hl
  cases hf : g.cache.find? (fun kv => kv.1 == k) with
  | none => rw [hf] at hl; cases hl
  | some kv =>
    rw [hf] at hl
    simp only [Option.map_some, Option.some.injEq] at hl
    exact hl ▸ h kv (List.mem_of_find?_eq_some hf)

theorem PostP.ok {α} {Q : α → St → Prop} {v : α} {s : St} {g : Global} (hg : CleanCache g) (hq : Q v s) :
    PostP Q (.ok v s) g :=
  ⟨not_isCg_ok _ _, hg, fun v' s' h => by cases h; exact hq⟩

theorem PostP.err {α} {Q : α → St → Prop} {e : PErr} {g : Global} (hg : CleanCache g) :
    PostP Q (.err e) g :=
  ⟨not_isCg_err _, hg, fun _ _ h => by cases h⟩

theorem PostP.panic {α} {Q : α → St → Prop} {m : String} {g : Global} (hg : CleanCache g)
    (hm : ¬ IsCg (.panic m : Res α)) : PostP Q (.panic m) g :=
  ⟨hm, hg, fun _ _ h => by cases h⟩

theorem PostP.mono {α} {Q Q' : α → St → Prop} {r : Res α} {g : Global} (h : PostP Q r g)
    (hq : ∀ v s, Q v s → Q' v s) : PostP Q' r g :=
  ⟨h.1, h.2.1, fun v s e => hq v s (h.2.2 v s e)⟩

theorem PostP.of_some {α} {Q : α → St → Prop} {r r' : Res α} {g g' : Global}
    (h : some (r, g) = some (r', g')) (hp : PostP Q r g) : PostP Q r' g' := by
  simp only [Option.some.injEq, Prod.mk.injEq] at h
  obtain ⟨rfl, rfl⟩ := h
  exact hp

theorem bindR_good {α β} {x : Out α} {k : α → St → Global → Out β} {r : Res β} {g' : Global}
    {Qx : α → St → Prop} {Q : β → St → Prop}
    (h : bindR x k = some (r, g'))
    (hx : ∀ rx gx, x = some (rx, gx) → PostP Qx rx gx)
    (hk : ∀ v s1 g1 r g', Qx v s1 → CleanCache g1 → k v s1 g1 = some (r, g') → PostP Q r g') :
    PostP Q r g' := by
  cases x with
  | none => simp [bindR] at h
  | some a =>
    obtain ⟨rx, gx⟩ := a
    obtain ⟨h1, h2, h3⟩ := hx rx gx rfl
    cases rx with
    | ok v s1 =>
      simp only [bindR] at h
      exact hk v s1 gx r g' (h3 v s1 rfl) h2 h
    | err e =>
      simp only [bindR] at h
      exact PostP.of_some h (PostP.err h2)
    | panic msg =>
      simp only [bindR] at h
      exact PostP.of_some h (PostP.panic h2 (isCg_panic_cast h1))

/-! ### the induction hypothesis on the evaluator -/

/-- expressions: in a context covering the expression's own fields there is no plumbing panic and
    the result has the declared shape -/
def GoodE (env : Env) (ev : Ctx → Expr → St → Global → Out Parsed) : Prop :=
  ∀ ctx e own s g r g', (ctx.ruleFields.map (·.name)).Nodup →
    getFields env.g env.nf e = .ok own → SubFields own ctx.ruleFields → CleanCache g →
    ev ctx e s g = some (r, g') →
    PostP (fun p _ => Shaped (filterRuleFields ctx.ruleFields own) p) r g'

/-- rules: no plumbing panic -/
def GoodR (ev : String → St → Global → Out Val) : Prop :=
  ∀ name s g r g', CleanCache g → ev name s g = some (r, g') → PostP (fun _ _ => True) r g'

structure GoodRec (env : Env) (rec : Rec) : Prop where
  expr : GoodE env rec.expr
  rule : GoodR rec.rule

theorem ownFields_eq {env : Env} {e : Expr} {own : List FieldDesc}
    (h : getFields env.g env.nf e = .ok own) : ownFields env e = own := by
  unfold ownFields; rw [h]

theorem ownFields_eq_fieldsOf (env : Env) (e : Expr) : ownFields env e = fieldsOf env.g env.nf e := by
  unfold ownFields fieldsOf
  cases getFields env.g env.nf e <;> rfl

section
variable {env : Env} {rec : Rec}

theorem withSkipWs_good {α} (hrec : GoodRec env rec) {ctx : Ctx} {s : St} {g : Global}
    {k : St → Global → Out α} {Q : α → St → Prop} {r : Res α} {g' : Global}
    (h : withSkipWs rec ctx s g k = some (r, g')) (hg : CleanCache g)
    (hk : ∀ s1 g1 r g', CleanCache g1 → k s1 g1 = some (r, g') → PostP Q r g') : PostP Q r g' := by
  unfold withSkipWs at h
  split at h
  · exact bindR_good h (fun rx gx hx => hrec.rule _ _ _ _ _ hg hx)
      (fun v s1 g1 r g' _ hg1 h => hk s1 g1 r g' hg1 h)
  · exact hk _ _ _ _ hg h

/-- a terminal matcher under `generate_skip_ws` -/
theorem terminal_good {α} (hrec : GoodRec env rec) {ctx : Ctx} {s : St} {g : Global}
    {mt : St → Res α} {r : Res Parsed} {g' : Global} (hmt : ∀ s, ¬ IsCg (mt s))
    (h : withSkipWs rec ctx s g (fun s g => some ((mt s).map (fun _ => ([] : Parsed)), g)) = some (r, g'))
    (hg : CleanCache g) : PostP (fun p _ => Shaped [] p) r g' := by
  refine withSkipWs_good hrec h hg ?_
  intro s1 g1 r g' hg1 h
  refine PostP.of_some h ⟨not_isCg_map (hmt s1), hg1, fun v s' e => ?_⟩
  cases hm : mt s1 with
  | ok v0 s0 => rw [hm] at e; simp only [Res.map, Res.ok.injEq] at e; rw [← e.1]; exact Shaped.nil
  | err e0 => rw [hm] at e; cases e
  | panic m => rw [hm] at e; cases e

end

/-! ### runtime matchers raise no plumbing panic -/

theorem not_isCg_advance {α} (s : St) (n : Nat) (v : α) : ¬ IsCg (s.advance n v) := by
  unfold St.advance; split
  · exact not_isCg_of_head (by decide)
  · exact not_isCg_ok _ _

theorem not_isCg_advanceSafe {α} (s : St) (n : Nat) (v : α) : ¬ IsCg (s.advanceSafe n v) := by
  unfold St.advanceSafe; split
  · exact not_isCg_of_head (by decide)
  · split
    · exact not_isCg_of_head (by decide)
    · exact not_isCg_ok _ _

theorem not_isCg_parseChar (s : St) : ¬ IsCg (parseChar s) := by
  unfold parseChar; split
  · exact not_isCg_err _
  · exact not_isCg_advance _ _ _

theorem not_isCg_parseWhitespace (s : St) : ¬ IsCg (parseWhitespace s) := not_isCg_ok _ _

theorem not_isCg_parseStringLiteral (s : St) (l) : ¬ IsCg (parseStringLiteral s l) := by
  unfold parseStringLiteral; simp only; split
  · exact not_isCg_err _
  · exact not_isCg_advance _ _ _

theorem not_isCg_parseCharacterLiteral (s : St) (c) : ¬ IsCg (parseCharacterLiteral s c) := by
  unfold parseCharacterLiteral
  repeat' split
  all_goals first | exact not_isCg_err _ | exact not_isCg_advance _ _ _

theorem not_isCg_parseCharacterRange (s : St) (lo hi) : ¬ IsCg (parseCharacterRange s lo hi) := by
  unfold parseCharacterRange
  repeat' split
  all_goals first | exact not_isCg_err _ | exact not_isCg_advance _ _ _

theorem not_isCg_parseStringLiteralInsensitive (s : St) (l) : ¬ IsCg (parseStringLiteralInsensitive s l) := by
  unfold parseStringLiteralInsensitive; simp only; split
  · exact not_isCg_err _
  · exact not_isCg_advance _ _ _

theorem not_isCg_parseCharacterLiteralInsensitive (s : St) (c) :
    ¬ IsCg (parseCharacterLiteralInsensitive s c) := by
  unfold parseCharacterLiteralInsensitive
  repeat' split
  all_goals first | exact not_isCg_err _ | exact not_isCg_advance _ _ _

theorem not_isCg_parseEndOfInput (s : St) : ¬ IsCg (parseEndOfInput s) := by
  unfold parseEndOfInput; split
  · exact not_isCg_ok _ _
  · exact not_isCg_err _

/-! ### list / loop helpers -/

section
variable {env : Env} {rec : Rec}

/-- `seen` = the rule fields occurring in the parts processed so far -/
def SeenInv (env : Env) (RF : List FieldDesc) (pre : List Expr) (seen : List String) : Prop :=
  ∀ x, x ∈ seen ↔ (hasField RF x = true ∧ ∃ q ∈ pre, hasField (ownFields env q) x = true)

theorem evalSeq_good (hrec : GoodRec env rec) {ctx : Ctx} (hn : (ctx.ruleFields.map (·.name)).Nodup)
    {parts : List Expr}
    (hparts : ∀ p ∈ parts, getFields env.g env.nf p = .ok (ownFields env p) ∧
      SubFields (ownFields env p) ctx.ruleFields)
    (hmult : ∀ pre p post f, parts = pre ++ p :: post → f ∈ ctx.ruleFields →
      hasField (ownFields env p) f.name = true →
      (∃ q ∈ pre, hasField (ownFields env q) f.name = true) → f.arity = .multiple) :
    ∀ ps pre seen acc s g r g', parts = pre ++ ps → SeenInv env ctx.ruleFields pre seen →
      AccOk ctx.ruleFields seen acc → CleanCache g →
      evalSeq env rec ctx ps seen acc s g = some (r, g') →
      PostP (fun sa _ => SeenInv env ctx.ruleFields parts sa.1 ∧ AccOk ctx.ruleFields sa.1 sa.2) r g' := by
  intro ps
  induction ps with
  | nil =>
    intro pre seen acc s g r g' hpre hseen hacc hg h
    simp only [evalSeq] at h
    rw [List.append_nil] at hpre
    subst hpre
    exact PostP.of_some h (PostP.ok hg ⟨hseen, hacc⟩)
  | cons p ps ih =>
    intro pre seen acc s g r g' hpre hseen hacc hg h
    have hp : p ∈ parts := by rw [hpre]; simp
    obtain ⟨hget, hsub⟩ := hparts p hp
    simp only [evalSeq] at h
    refine bindR_good h (fun rx gx hx => hrec.expr _ _ _ _ _ _ _ hn hget hsub hg hx) ?_
    intro v s1 g1 r g' hv hg1 h
    obtain ⟨seen', acc', hmp, hacc', hseen'⟩ :=
      mergePart_good hn (r := v) (filterRuleFields ctx.ruleFields (ownFields env p)) seen acc
        (filterRuleFields_nodup hn _)
        (fun f hf => ⟨(mem_filterRuleFields.mp hf).1, hv.2 f hf⟩)
        (fun f hf hs => hmult pre p ps f hpre (mem_filterRuleFields.mp hf).1
          (mem_filterRuleFields.mp hf).2 ((hseen f.name).mp hs).2)
        hacc
    simp only [hmp] at h
    refine ih (pre ++ [p]) seen' acc' s1 g1 r g' (by rw [hpre]; simp) ?_ hacc' hg1 h
    intro x
    rw [hseen', hseen x, ← hasField_iff, hasField_filterRuleFields]
    constructor
    · rintro (⟨h1, q, hq, hqx⟩ | ⟨h1, h2⟩)
      · exact ⟨h1, q, List.mem_append_left _ hq, hqx⟩
      · exact ⟨h1, p, by simp, h2⟩
    · rintro ⟨h1, q, hq, hqx⟩
      rcases List.mem_append.mp hq with hq | hq
      · exact Or.inl ⟨h1, q, hq, hqx⟩
      · rw [List.mem_singleton.mp hq] at hqx; exact Or.inr ⟨h1, hqx⟩

theorem evalAlts_good (hrec : GoodRec env rec) {ctx : Ctx} (hn : (ctx.ruleFields.map (·.name)).Nodup)
    {fields : List FieldDesc} (hfields : ∀ f ∈ fields, f ∈ ctx.ruleFields) :
    ∀ as s g r g',
      (∀ a ∈ as, getFields env.g env.nf a = .ok (ownFields env a) ∧
        SubFields (ownFields env a) ctx.ruleFields ∧
        (∀ o ∈ ownFields env a, ∃ f ∈ fields, f.name = o.name) ∧
        (∀ f ∈ fields, hasField (ownFields env a) f.name = false → Arity.optional ≤ f.arity)) →
      CleanCache g → evalAlts env rec ctx fields as s g = some (r, g') →
      PostP (fun p _ => ShapedL fields p) r g' := by
  intro as
  induction as with
  | nil =>
    intro s g r g' _ hg h
    simp only [evalAlts] at h
    exact PostP.of_some h (PostP.err hg)
  | cons a as ih =>
    intro s g r g' has hg h
    obtain ⟨hget, hsub, hin, habs⟩ := has a List.mem_cons_self
    simp only [evalAlts] at h
    split at h
    · cases h
    · rename_i r0 s0 g0 hx
      obtain ⟨_, hg0, hr0⟩ := hrec.expr _ _ _ _ _ _ _ hn hget hsub hg hx
      have hsh := hr0 r0 s0 rfl
      obtain ⟨p, hp, hsp⟩ := convertArm_good (fields := fields) (inner := ownFields env a) (r := r0)
        hin habs (fun f hf hi => hsh.2 f (mem_filterRuleFields.mpr ⟨hfields f hf, hi⟩))
      simp only [hp] at h
      exact PostP.of_some h (PostP.ok hg0 hsp)
    · rename_i e0 g0 hx
      obtain ⟨_, hg0, _⟩ := hrec.expr _ _ _ _ _ _ _ hn hget hsub hg hx
      exact ih _ _ _ _ (fun a' ha' => has a' (List.mem_cons_of_mem _ ha')) hg0 h
    · rename_i msg g0 hx
      obtain ⟨hc, hg0, _⟩ := hrec.expr _ _ _ _ _ _ _ hn hget hsub hg hx
      exact PostP.of_some h (PostP.panic hg0 hc)

theorem evalLoop_good {body : St → Global → Out Parsed} {fields : List FieldDesc}
    (hmul : ∀ f ∈ fields, f.arity = .multiple)
    (hbody : ∀ s g r g', CleanCache g → body s g = some (r, g') →
      PostP (fun p _ => Shaped fields p) r g') :
    ∀ k iters acc s g r g', Shaped fields acc → CleanCache g →
      evalLoop body fields k iters acc s g = some (r, g') →
      PostP (fun ia _ => Shaped fields ia.2) r g' := by
  intro k
  induction k with
  | zero => intro iters acc s g r g' _ _ h; simp [evalLoop] at h
  | succ k ih =>
    intro iters acc s g r g' hacc hg h
    simp only [evalLoop] at h
    split at h
    · cases h
    · rename_i r0 s0 g0 hx
      obtain ⟨_, hg0, hr0⟩ := hbody _ _ _ _ hg hx
      obtain ⟨acc', he, hacc'⟩ := extendAll_good hmul (hr0 r0 s0 rfl) fields acc (fun _ h => h) hacc
      simp only [he] at h
      exact ih _ _ _ _ _ _ hacc' hg0 h
    · rename_i e0 g0 hx
      obtain ⟨_, hg0, _⟩ := hbody _ _ _ _ hg hx
      exact PostP.of_some h (PostP.ok hg0 hacc)
    · rename_i msg g0 hx
      obtain ⟨hc, hg0, _⟩ := hbody _ _ _ _ hg hx
      exact PostP.of_some h (PostP.panic hg0 (isCg_panic_cast hc))

end

/-! ### one construct -/

theorem filterRuleFields_singleton {RF : List FieldDesc} (hn : (RF.map (·.name)).Nodup) {f : FieldDesc}
    (hf : f ∈ RF) {o : FieldDesc} (e : o.name = f.name) : filterRuleFields RF [o] = [f] := by
  unfold filterRuleFields
  have hh : ∀ rf : FieldDesc, hasField [o] rf.name = (f.name == rf.name) := by
    intro rf; simp [hasField, e]
  simp only [hh]
  induction RF with
  | nil => cases hf
  | cons a RF ih =>
    simp only [List.map_cons, List.nodup_cons] at hn
    rcases List.mem_cons.mp hf with rfl | hf
    · rw [List.filter_cons, if_pos (by simp)]
      congr 1
      refine List.filter_eq_nil_iff.mpr (fun b hb hc => hn.1 ?_)
      rw [beq_iff_eq.mp hc]; exact List.mem_map.mpr ⟨b, hb, rfl⟩
    · have hne : ¬ (f.name == a.name) = true := by
        intro hc; exact hn.1 (beq_iff_eq.mp hc ▸ List.mem_map.mpr ⟨f, hf, rfl⟩)
      rw [List.filter_cons, if_neg hne]
      exact ih hn.2 hf

section
variable {env : Env} {rec : Rec}

theorem stepExpr_good (hrec : GoodRec env rec) (n : Nat) : GoodE env (stepExpr env rec n) := by
  intro ctx e own s g r g' hn hget hsub hg h
  cases e with
  | choice alts =>
    obtain ⟨harms, hnames, habs⟩ := getFields_choice hget
    match alts with
    | [] =>
      simp only [stepExpr] at h
      exact PostP.of_some h (PostP.panic hg (not_isCg_of_head (by decide)))
    | [a] =>
      simp only [stepExpr] at h
      obtain ⟨h1, h2⟩ := harms a List.mem_cons_self
      have hcongr : filterRuleFields ctx.ruleFields (fieldsOf env.g env.nf a) =
          filterRuleFields ctx.ruleFields own := by
        refine filterRuleFields_congr _ (fun x => ?_)
        rw [Bool.eq_iff_iff, hnames x]
        simp
      rw [← hcongr]
      exact hrec.expr ctx a _ s g r g' hn h1 (h2.trans hsub) hg h
    | a :: b :: rest =>
      simp only [stepExpr] at h
      rw [ownFields_eq hget] at h
      refine (evalAlts_good hrec hn (fields := filterRuleFields ctx.ruleFields own)
        (fun f hf => (mem_filterRuleFields.mp hf).1) _ s g r g' ?_ hg h).mono
        (fun p _ hp => hp.shaped (filterRuleFields_nodup hn own))
      intro a' ha'
      rw [ownFields_eq_fieldsOf]
      obtain ⟨h1, h2⟩ := harms a' ha'
      refine ⟨h1, h2.trans hsub, ?_, ?_⟩
      · intro o ho
        obtain ⟨o', ho', l1⟩ := h2 o ho
        obtain ⟨f, hf, l2⟩ := hsub o' ho'
        refine ⟨f, mem_filterRuleFields.mpr ⟨hf, ?_⟩, l2.1.trans l1.1⟩
        rw [l2.1]; exact hasField_of_mem ho'
      · intro f hf hfa
        obtain ⟨hfRF, hfo⟩ := mem_filterRuleFields.mp hf
        obtain ⟨o, ho, e⟩ := exists_of_hasField hfo
        exact Arity.le_trans (habs a' ha' f.name hfa o ho e) (rule_field_covers hn hsub hfRF ho e).2.1
  | seq parts =>
    obtain ⟨hps, hnames, htwo⟩ := getFields_seq hget
    match parts with
    | [] =>
      simp only [stepExpr] at h
      have : own = [] := by
        cases hne : own with
        | nil => rfl
        | cons o os =>
          have := (hnames o.name).mp (by rw [hne]; exact hasField_of_mem List.mem_cons_self)
          obtain ⟨p, hp, _⟩ := this
          cases hp
      rw [this, filterRuleFields_nil]
      exact PostP.of_some h (PostP.ok hg Shaped.nil)
    | [a] =>
      simp only [stepExpr] at h
      obtain ⟨h1, h2⟩ := hps a List.mem_cons_self
      have hcongr : filterRuleFields ctx.ruleFields (fieldsOf env.g env.nf a) =
          filterRuleFields ctx.ruleFields own := by
        refine filterRuleFields_congr _ (fun x => ?_)
        rw [Bool.eq_iff_iff, hnames x]
        simp
      rw [← hcongr]
      exact hrec.expr ctx a _ s g r g' hn h1 (h2.trans hsub) hg h
    | a :: b :: rest =>
      simp only [stepExpr] at h
      rw [ownFields_eq hget] at h
      have hparts : ∀ p ∈ a :: b :: rest, getFields env.g env.nf p = .ok (ownFields env p) ∧
          SubFields (ownFields env p) ctx.ruleFields := by
        intro p hp
        rw [ownFields_eq_fieldsOf]
        exact ⟨(hps p hp).1, (hps p hp).2.trans hsub⟩
      have hmult : ∀ pre p post f, a :: b :: rest = pre ++ p :: post → f ∈ ctx.ruleFields →
          hasField (ownFields env p) f.name = true →
          (∃ q ∈ pre, hasField (ownFields env q) f.name = true) → f.arity = .multiple := by
        intro pre p post f hdec hf hp hq
        simp only [ownFields_eq_fieldsOf] at hp hq
        obtain ⟨hfo, hall⟩ := htwo pre p post f.name hdec hq hp
        obtain ⟨o, ho, e⟩ := exists_of_hasField hfo
        have hle := (rule_field_covers hn hsub hf ho e).2.1
        rw [hall o ho e] at hle
        exact Arity.eq_multiple_of_le hle
      refine bindR_good h (fun rx gx hx =>
        evalSeq_good hrec hn hparts hmult _ [] [] [] s g rx gx rfl
          (fun x => by simp) (fun _ _ hx => by cases hx) hg hx) ?_
      intro v s1 g1 r g' hv hg1 h
      obtain ⟨seen, acc⟩ := v
      obtain ⟨hseen, hacc⟩ := hv
      simp only at h hseen hacc
      obtain ⟨p, hp, hsp⟩ := project_good acc (filterRuleFields ctx.ruleFields own) (by
        intro f hf
        obtain ⟨hfRF, hfo⟩ := mem_filterRuleFields.mp hf
        obtain ⟨q, hq, hqx⟩ := (hnames f.name).mp hfo
        refine hacc f hfRF ((hseen f.name).mpr ⟨hasField_of_mem hfRF, q, hq, ?_⟩)
        rw [ownFields_eq_fieldsOf]; exact hqx)
      simp only [hp] at h
      exact PostP.of_some h (PostP.ok hg1 (hsp.shaped (filterRuleFields_nodup hn own)))
  | group b =>
    simp only [stepExpr] at h
    exact hrec.expr ctx b own s g r g' hn (getFields_group_inv hget) hsub hg h
  | opt b =>
    obtain ⟨fs, hb, rfl⟩ := getFields_opt_inv hget
    have hcongr : filterRuleFields ctx.ruleFields fs = filterRuleFields ctx.ruleFields
        (fs.map fun f => { f with arity := toOptional f.arity }) :=
      filterRuleFields_congr _ (fun x => (hasField_map_arity fs toOptional x).symm)
    rw [← hcongr]
    have hsubb : SubFields fs ctx.ruleFields := (subFields_opt fs).trans hsub
    simp only [stepExpr] at h
    split at h
    · cases h
    · rename_i r0 s0 g0 hx
      obtain ⟨_, hg0, hr0⟩ := hrec.expr ctx b fs _ _ _ _ hn hb hsubb hg hx
      exact PostP.of_some h (PostP.ok hg0 (hr0 r0 s0 rfl))
    · rename_i e0 g0 hx
      obtain ⟨_, hg0, _⟩ := hrec.expr ctx b fs _ _ _ _ hn hb hsubb hg hx
      rw [ownFields_eq hb] at h
      obtain ⟨p, hp, hsp⟩ := defaults_good (filterRuleFields ctx.ruleFields fs) (by
        intro f hf
        obtain ⟨hfRF, hfo⟩ := mem_filterRuleFields.mp hf
        obtain ⟨o, ho, e⟩ := exists_of_hasField hfo
        have ho' : ({ o with arity := toOptional o.arity } : FieldDesc) ∈
            fs.map (fun f => { f with arity := toOptional f.arity }) := List.mem_map.mpr ⟨o, ho, rfl⟩
        exact Arity.le_trans (optional_le_toOptional o.arity) (rule_field_covers hn hsub hfRF ho' e).2.1)
      simp only [hp] at h
      exact PostP.of_some h (PostP.ok hg0 (hsp.shaped (filterRuleFields_nodup hn fs)))
    · rename_i msg g0 hx
      obtain ⟨hc, hg0, _⟩ := hrec.expr ctx b fs _ _ _ _ hn hb hsubb hg hx
      exact PostP.of_some h (PostP.panic hg0 hc)
  | closure b atLeastOne =>
    obtain ⟨fs, hb, rfl⟩ := getFields_closure_inv hget
    have hcongr : filterRuleFields ctx.ruleFields fs = filterRuleFields ctx.ruleFields
        (fs.map fun f => { f with arity := .multiple }) :=
      filterRuleFields_congr _ (fun x => (hasField_map_arity fs (fun _ => .multiple) x).symm)
    rw [← hcongr]
    have hsubb : SubFields fs ctx.ruleFields := (subFields_closure fs).trans hsub
    have hmul : ∀ f ∈ filterRuleFields ctx.ruleFields fs, f.arity = .multiple := by
      intro f hf
      obtain ⟨hfRF, hfo⟩ := mem_filterRuleFields.mp hf
      obtain ⟨o, ho, e⟩ := exists_of_hasField hfo
      have ho' : ({ o with arity := .multiple } : FieldDesc) ∈
          fs.map (fun f => { f with arity := .multiple }) := List.mem_map.mpr ⟨o, ho, rfl⟩
      exact Arity.eq_multiple_of_le (rule_field_covers hn hsub hfRF ho' e).2.1
    simp only [stepExpr] at h
    rw [ownFields_eq hb] at h
    obtain ⟨init, hinit, hsi⟩ := closureInit_good _ hmul
    simp only [hinit] at h
    refine bindR_good h (fun rx gx hx =>
      evalLoop_good hmul (fun s g r g' hg hx => hrec.expr ctx b fs s g r g' hn hb hsubb hg hx)
        n 0 init s g rx gx (hsi.shaped (filterRuleFields_nodup hn fs)) hg hx) ?_
    intro v s1 g1 r g' hv hg1 h
    obtain ⟨iters, acc⟩ := v
    simp only at h hv
    split at h
    · exact PostP.of_some h (PostP.err hg1)
    · exact PostP.of_some h (PostP.ok hg1 hv)
  | neg b =>
    obtain ⟨hb, rfl⟩ := getFields_neg_inv hget
    rw [filterRuleFields_nil]
    simp only [stepExpr] at h
    split at h
    · cases h
    · rename_i r0 s0 g0 hx
      obtain ⟨_, hg0, _⟩ := hrec.expr ctx b [] _ _ _ _ hn hb (SubFields.nil _) hg hx
      exact PostP.of_some h (PostP.err hg0)
    · rename_i e0 g0 hx
      obtain ⟨_, hg0, _⟩ := hrec.expr ctx b [] _ _ _ _ hn hb (SubFields.nil _) hg hx
      exact PostP.of_some h (PostP.ok hg0 Shaped.nil)
    · rename_i msg g0 hx
      obtain ⟨hc, hg0, _⟩ := hrec.expr ctx b [] _ _ _ _ hn hb (SubFields.nil _) hg hx
      exact PostP.of_some h (PostP.panic hg0 hc)
  | pos b =>
    obtain ⟨hb, rfl⟩ := getFields_pos_inv hget
    rw [filterRuleFields_nil]
    simp only [stepExpr] at h
    refine bindR_good h (fun rx gx hx => hrec.expr ctx b [] _ _ _ _ hn hb (SubFields.nil _) hg hx) ?_
    intro v s1 g1 r g' _ hg1 h
    exact PostP.of_some h (PostP.ok hg1 Shaped.nil)
  | range lo hi =>
    rw [getFields_terminal_inv (Or.inl ⟨_, _, rfl⟩) hget, filterRuleFields_nil]
    simp only [stepExpr] at h
    split at h
    · exact terminal_good hrec (mt := fun s => parseCharacterRange s _ _)
        (fun s => not_isCg_parseCharacterRange s _ _) h hg
    · exact PostP.of_some h (PostP.panic hg (not_isCg_of_head (by decide)))
  | lit ins body =>
    rw [getFields_terminal_inv (Or.inr (Or.inl ⟨_, _, rfl⟩)) hget, filterRuleFields_nil]
    simp only [stepExpr] at h
    split at h
    · rename_i m hm
      cases m with
      | charLit c =>
        exact terminal_good hrec (mt := fun s => parseCharacterLiteral s c)
          (fun s => not_isCg_parseCharacterLiteral s c) h hg
      | strLit l =>
        exact terminal_good hrec (mt := fun s => parseStringLiteral s l)
          (fun s => not_isCg_parseStringLiteral s l) h hg
      | charLitI c =>
        exact terminal_good hrec (mt := fun s => parseCharacterLiteralInsensitive s c)
          (fun s => not_isCg_parseCharacterLiteralInsensitive s c) h hg
      | strLitI l =>
        exact terminal_good hrec (mt := fun s => parseStringLiteralInsensitive s l)
          (fun s => not_isCg_parseStringLiteralInsensitive s l) h hg
    · exact PostP.of_some h (PostP.panic hg (not_isCg_of_head (by decide)))
  | eoi =>
    rw [getFields_terminal_inv (Or.inr (Or.inr (Or.inl rfl))) hget, filterRuleFields_nil]
    simp only [stepExpr] at h
    exact terminal_good hrec (mt := parseEndOfInput) not_isCg_parseEndOfInput h hg
  | incl rn =>
    obtain ⟨rule, hr, hdef⟩ := getFields_incl_inv hget
    simp only [stepExpr, hr] at h
    exact hrec.expr ctx rule.definition own s g r g' hn hdef hsub hg h
  | field name boxed typ =>
    simp only [stepExpr] at h
    refine withSkipWs_good hrec h hg ?_
    intro s1 g1 r g' hg1 h
    refine bindR_good h (fun rx gx hx => hrec.rule _ _ _ _ _ hg1 hx) ?_
    intro v s2 g2 r g' _ hg2 h
    cases name with
    | none =>
      rw [getFields_terminal_inv (Or.inr (Or.inr (Or.inr ⟨_, _, rfl⟩))) hget, filterRuleFields_nil]
      exact PostP.of_some h (PostP.ok hg2 Shaped.nil)
    | some nm =>
      have hown := getFields_field_inv hget
      subst hown
      obtain ⟨f, hf, hname, _, hty⟩ := hsub _ List.mem_cons_self
      simp only at hname hty h
      obtain ⟨t', ht', e', _⟩ := hty (typ, boxed) List.mem_cons_self
      rw [← hname] at h
      obtain ⟨fv, hfv, hs⟩ := postprocessField_good hn hf ⟨t', ht', e'⟩ v
      simp only [hfv] at h
      rw [filterRuleFields_singleton hn hf (o := ⟨nm.key, [(typ, boxed)], .one⟩) hname.symm]
      exact PostP.of_some h (PostP.ok hg2 ((ShapedL.cons hs .nil).shaped (by simp)))

end

/-! ### rule wrappers -/

section
variable {env : Env} {rec : Rec}

theorem runChecks_good : ∀ fs v s g r g', CleanCache g → runChecks env fs v s g = some (r, g') →
    PostP (fun _ _ => True) r g' := by
  intro fs
  induction fs with
  | nil =>
    intro v s g r g' hg h
    simp only [runChecks] at h
    exact PostP.of_some h (PostP.ok hg trivial)
  | cons f fs ih =>
    intro v s g r g' hg h
    simp only [runChecks] at h
    split at h
    · exact PostP.of_some h (PostP.err ((hg.uctx _).emit _))
    · exact ih _ _ _ _ _ ((hg.uctx _).emit _) h

/-- the three rule bodies: the expression is evaluated against its own fields, so no plumbing
    panic can occur – including "override value missing" and the final `project` -/
theorem ruleBody_good (hrec : GoodRec env rec) {r0 : Rule} {s g r g'} (hg : CleanCache g)
    (h : ruleBody env rec r0 s g = some (r, g')) : PostP (fun _ _ => True) r g' := by
  unfold ruleBody at h
  split at h
  · rename_i fields hf
    have hn := getFields_nodup hf
    have hexpr : ∀ skip rx gx, rec.expr ⟨skip, fields⟩ r0.definition s g = some (rx, gx) →
        PostP (fun p _ => Shaped fields p) rx gx := by
      intro skip rx gx hx
      have := hrec.expr ⟨skip, fields⟩ r0.definition fields s g rx gx hn hf (SubFields.refl _) hg hx
      rw [filterRuleFields_self] at this
      exact this
    simp only at h
    split at h
    · refine bindR_good h (fun rx gx hx => hexpr _ rx gx hx) ?_
      intro v s1 g1 r g' _ hg1 h
      exact runChecks_good _ _ _ _ _ _ hg1 h
    · split at h
      · rename_i hc
        refine bindR_good h (fun rx gx hx => hexpr _ rx gx hx) ?_
        intro p s1 g1 r g' hp hg1 h
        -- the single field is `_override`, and the result binds it
        have hget : ∃ v, p.get "_override" = some v := by
          cases fields with
          | nil => simp at hc
          | cons f fs =>
            simp only [List.head?_cons, Option.map_some, Bool.and_eq_true, beq_iff_eq,
              Option.some.injEq] at hc
            obtain ⟨v, hv, _⟩ := hp.2 f List.mem_cons_self
            exact ⟨v, hc.2 ▸ hv⟩
        obtain ⟨v, hv⟩ := hget
        simp only [hv] at h
        exact runChecks_good _ _ _ _ _ _ hg1 h
      · split at h
        · exact PostP.of_some h (PostP.panic hg (not_isCg_of_head (by decide)))
        · refine bindR_good h (fun rx gx hx => hexpr _ rx gx hx) ?_
          intro p s1 g1 r g' hp hg1 h
          obtain ⟨fs, hfs, _⟩ := project_good p fields hp.2
          simp only [hfs] at h
          exact runChecks_good _ _ _ _ _ _ hg1 h
  · exact PostP.of_some h (PostP.panic hg (not_isCg_of_head (by decide)))

theorem growLoop_good {body : St → Global → Out Val} {key : String × Nat} {s : St}
    (hbody : ∀ s g r g', CleanCache g → body s g = some (r, g') → PostP (fun _ _ => True) r g') :
    ∀ k best g r g', ¬ IsCg best → CleanCache g → growLoop body key s k best g = some (r, g') →
      PostP (fun _ _ => True) r g' := by
  intro k
  induction k with
  | zero => intro best g r g' _ _ h; simp [growLoop] at h
  | succ k ih =>
    intro best g r g' hbest hg h
    simp only [growLoop] at h
    have hg0 : CleanCache ((g.emit (.info "Starting new left recursive loop")).emit (.bodyEval key.1 key.2)) :=
      (hg.emit _).emit _
    split at h
    · cases h
    · rename_i m g1 hx
      obtain ⟨hc, hg1, _⟩ := hbody _ _ _ _ hg0 hx
      exact PostP.of_some h (PostP.panic hg1 hc)
    · rename_i v ns g1 hx
      obtain ⟨_, hg1, _⟩ := hbody _ _ _ _ hg0 hx
      split at h
      · split at h
        · exact ih _ _ _ _ (not_isCg_ok _ _) (hg1.insert _ (not_isCg_ok _ _)) h
        · exact PostP.of_some h ⟨hbest, hg1, fun _ _ _ => trivial⟩
      · exact ih _ _ _ _ (not_isCg_ok _ _) (hg1.insert _ (not_isCg_ok _ _)) h
    · rename_i e g1 hx
      obtain ⟨_, hg1, _⟩ := hbody _ _ _ _ hg0 hx
      split at h
      · exact PostP.of_some h ⟨hbest, hg1, fun _ _ _ => trivial⟩
      · exact PostP.of_some h (PostP.err (hg1.insert _ (not_isCg_err _)))

theorem memoBody_good {flags : RuleFlags} {name : String} {body : St → Global → Out Val} {n : Nat}
    (hbody : ∀ s g r g', CleanCache g → body s g = some (r, g') → PostP (fun _ _ => True) r g')
    {s g r g'} (hg : CleanCache g) (h : memoBody flags name body n s g = some (r, g')) :
    PostP (fun _ _ => True) r g' := by
  unfold memoBody at h
  simp only at h
  split at h
  · split at h
    · rename_i cached hl
      exact PostP.of_some h ⟨hg.lookup hl, hg.emit _, fun _ _ _ => trivial⟩
    · exact growLoop_good hbody _ _ _ _ _ (not_isCg_err _) (hg.insert _ (not_isCg_err _)) h
  · split at h
    · split at h
      · rename_i cached hl
        exact PostP.of_some h ⟨hg.lookup hl, hg.emit _, fun _ _ _ => trivial⟩
      · split at h
        · cases h
        · rename_i m g1 hx
          obtain ⟨hc, hg1, _⟩ := hbody _ _ _ _ (hg.emit _) hx
          exact PostP.of_some h (PostP.panic hg1 hc)
        · rename_i r1 g1 _ hx
          obtain ⟨hc, hg1, _⟩ := hbody _ _ _ _ (hg.emit _) hx
          exact PostP.of_some h ⟨hc, hg1.insert _ hc, fun _ _ _ => trivial⟩
    · exact hbody _ _ _ _ hg h

theorem CleanCache.traceResult {g : Global} (h : CleanCache g) (r : Res Val) : CleanCache (traceResult g r) := by
  cases r <;> exact h

theorem normalRule_good (hrec : GoodRec env rec) (n : Nat) {r0 : Rule} {s g r g'} (hg : CleanCache g)
    (h : normalRule env rec n r0 s g = some (r, g')) : PostP (fun _ _ => True) r g' := by
  unfold normalRule at h
  simp only at h
  split at h
  · cases h
  · rename_i res g1 hx
    obtain ⟨hc, hg1, _⟩ := memoBody_good (fun s g r g' hg h => ruleBody_good hrec hg h) (hg.emit _) hx
    exact PostP.of_some h ⟨hc, hg1.traceResult _, fun _ _ _ => trivial⟩

theorem charChecks_clean {name : String} : ∀ fs c s g, CleanCache g →
    CleanCache (charChecks env name fs c s g).2 := by
  intro fs
  induction fs with
  | nil => intro c s g hg; exact hg
  | cons f fs ih =>
    intro c s g hg
    simp only [charChecks]
    split
    · exact hg.emit _
    · exact ih _ _ _ (hg.emit _)

theorem charParts_good (hrec : GoodRec env rec) {name : String} : ∀ ps s g r g', CleanCache g →
    charParts rec name ps s g = some (r, g') → PostP (fun _ _ => True) r g' := by
  intro ps
  induction ps with
  | nil =>
    intro s g r g' hg h
    simp only [charParts] at h
    exact PostP.of_some h (PostP.err hg)
  | cons p ps ih =>
    intro s g r g' hg h
    simp only [charParts] at h
    have hp : ∀ rx gx, (match p with
        | .chr item => (match item.toChar with
          | .ok c => some ((parseCharacterLiteral s c).map Val.chr, g)
          | _ => some (.panic "uncompilable: char rule literal", g))
        | .range lo hi => (match lo.toChar, hi.toChar with
          | .ok lo, .ok hi => some ((parseCharacterRange s lo hi).map Val.chr, g)
          | _, _ => some (.panic "uncompilable: char rule range", g))
        | .ident id => rec.rule id s g : Out Val) = some (rx, gx) → PostP (fun _ _ => True) rx gx := by
      intro rx gx hx
      cases p with
      | chr item =>
        simp only at hx
        split at hx
        · exact PostP.of_some hx ⟨not_isCg_map (not_isCg_parseCharacterLiteral _ _), hg, fun _ _ _ => trivial⟩
        · exact PostP.of_some hx (PostP.panic hg (not_isCg_of_head (by decide)))
      | range lo hi =>
        simp only at hx
        split at hx
        · exact PostP.of_some hx ⟨not_isCg_map (not_isCg_parseCharacterRange _ _ _), hg, fun _ _ _ => trivial⟩
        · exact PostP.of_some hx (PostP.panic hg (not_isCg_of_head (by decide)))
      | ident id => exact hrec.rule _ _ _ _ _ hg hx
    split at h
    · cases h
    · rename_i v s1 g1 hx
      obtain ⟨_, hg1, _⟩ := hp _ _ hx
      exact PostP.of_some h (PostP.ok hg1 trivial)
    · rename_i e g1 hx
      obtain ⟨_, hg1, _⟩ := hp _ _ hx
      exact ih _ _ _ _ hg1 h
    · rename_i m g1 hx
      obtain ⟨hc, hg1, _⟩ := hp _ _ hx
      exact PostP.of_some h (PostP.panic hg1 hc)

theorem charRule_good (hrec : GoodRec env rec) {r0 : CharRule} {s g r g'} (hg : CleanCache g)
    (h : charRule env rec r0 s g = some (r, g')) : PostP (fun _ _ => True) r g' := by
  unfold charRule at h
  split at h
  · exact charParts_good hrec _ _ _ _ _ hg h
  · split at h
    · exact PostP.of_some h (PostP.err hg)
    · rename_i c hc
      have hcl := charChecks_clean (env := env) (name := r0.name) r0.directives c s g hg
      split at h
      · rename_i e g1 hx
        rw [hx] at hcl
        exact PostP.of_some h (PostP.err hcl)
      · rename_i g1 hx
        rw [hx] at hcl
        exact charParts_good hrec _ _ _ _ _ hcl h

theorem externRule_good {r0 : ExternRule} {s g r g'} (hg : CleanCache g)
    (h : externRule env r0 s g = some (r, g')) : PostP (fun _ _ => True) r g' := by
  unfold externRule at h
  simp only at h
  split at h
  · exact PostP.of_some h ⟨not_isCg_advanceSafe _ _ _, (hg.uctx _).emit _, fun _ _ _ => trivial⟩
  · exact PostP.of_some h (PostP.err ((hg.uctx _).emit _))

theorem stepRule_good (hrec : GoodRec env rec) (n : Nat) : GoodR (stepRule env rec n) := by
  intro name s g r g' hg h
  unfold stepRule at h
  split at h
  · exact normalRule_good hrec n hg h
  · exact charRule_good hrec hg h
  · exact externRule_good hg h
  · split at h
    · exact PostP.of_some h ⟨not_isCg_map (not_isCg_parseChar _), hg, fun _ _ _ => trivial⟩
    · split at h
      · exact PostP.of_some h ⟨not_isCg_map (not_isCg_parseWhitespace _), hg, fun _ _ _ => trivial⟩
      · exact PostP.of_some h (PostP.panic hg (not_isCg_of_head (by simp [String.toList_append])))

end

/-! ### induction on the fuel -/

theorem eval_goodRec (env : Env) : ∀ n, GoodRec env (eval env n) := by
  intro n
  induction n with
  | zero =>
    exact ⟨fun _ _ _ _ _ _ _ _ _ _ _ h => by simp [eval] at h, fun _ _ _ _ _ _ h => by simp [eval] at h⟩
  | succ n ih => exact ⟨stepExpr_good ih n, stepRule_good ih n⟩

/-! ### main theorems -/

theorem not_isCg_iff {α} {r : Res α} : ¬ IsCg r ↔ ∀ m, r ≠ .panic ("codegen: " ++ m) :=
  ⟨fun h m e => h ⟨m, e⟩, fun h ⟨m, e⟩ => h m e⟩

/-- **C03, expression level.**  In a context whose rule fields are duplicate-free and cover the own
    fields of `e` (as computed by the generator's `get_fields`), evaluating `e` never hits a panic
    or ill-typed statement of the field plumbing, and a successful result has exactly one entry
    per filtered rule field, of the declared shape.
    (`CleanCache g`: the memoization cache we start from holds no plumbing panic – true for the
    empty cache of `parseAdvanced`, and preserved.) -/
theorem plumbing_expr (env : Env) (n : Nat) {ctx : Ctx} {e : Expr} {own : List FieldDesc}
    {s : St} {g : Global} {r : Res Parsed} {g' : Global}
    (hn : (ctx.ruleFields.map (·.name)).Nodup)
    (hget : getFields env.g env.nf e = .ok own)
    (hsub : SubFields own ctx.ruleFields)
    (hg : CleanCache g)
    (h : (eval env n).expr ctx e s g = some (r, g')) :
    (∀ m, r ≠ .panic ("codegen: " ++ m)) ∧
    (∀ p s', r = .ok p s' → Shaped (filterRuleFields ctx.ruleFields own) p) ∧
    CleanCache g' := by
  obtain ⟨h1, h2, h3⟩ := (eval_goodRec env n).expr ctx e own s g r g' hn hget hsub hg h
  exact ⟨not_isCg_iff.mp h1, h3, h2⟩

/-- the hypotheses of `plumbing_expr` hold for the definition of a rule in the rule's own context -/
theorem plumbing_rule_definition (env : Env) (n : Nat) {r0 : Rule} {fields : List FieldDesc} (skip : Bool)
    {s : St} {g : Global} {r : Res Parsed} {g' : Global}
    (hget : getFields env.g env.nf r0.definition = .ok fields) (hg : CleanCache g)
    (h : (eval env n).expr ⟨skip, fields⟩ r0.definition s g = some (r, g')) :
    (∀ m, r ≠ .panic ("codegen: " ++ m)) ∧ (∀ p s', r = .ok p s' → Shaped fields p) ∧ CleanCache g' := by
  have := plumbing_expr env n (ctx := ⟨skip, fields⟩) (getFields_nodup hget) hget (SubFields.refl _) hg h
  rw [filterRuleFields_self] at this
  exact this

/-- **C03, rule body.**  The body of a rule (whose `get_fields` succeeds – otherwise the result is
    the `uncompilable: get_fields failed` panic) never produces a `codegen:` panic, in particular
    neither `override value missing` nor a failing final `project`. -/
theorem plumbing_ruleBody (env : Env) (n : Nat) {r0 : Rule} {fields : List FieldDesc}
    {s : St} {g : Global} {r : Res Val} {g' : Global}
    (_hget : getFields env.g env.nf r0.definition = .ok fields) (hg : CleanCache g)
    (h : ruleBody env (eval env n) r0 s g = some (r, g')) :
    (∀ m, r ≠ .panic ("codegen: " ++ m)) ∧ CleanCache g' := by
  obtain ⟨h1, h2, _⟩ := ruleBody_good (eval_goodRec env n) hg h
  exact ⟨not_isCg_iff.mp h1, h2⟩

/-- **C03, rule level**: no call of a generated `parse_<name>` produces a `codegen:` panic -/
theorem plumbing_rule (env : Env) (n : Nat) {name : String} {s : St} {g : Global} {r : Res Val} {g' : Global}
    (hg : CleanCache g) (h : (eval env n).rule name s g = some (r, g')) :
    (∀ m, r ≠ .panic ("codegen: " ++ m)) ∧ CleanCache g' := by
  obtain ⟨h1, h2, _⟩ := (eval_goodRec env n).rule name s g r g' hg h
  exact ⟨not_isCg_iff.mp h1, h2⟩

theorem cleanCache_init (u : Nat) : CleanCache (Global.init u) := fun _ h => by cases h

/-- **C03, whole parse**: `parse_advanced` never produces a `codegen:` panic, for every grammar,
    every set of hooks, every input and every amount of fuel -/
theorem parseAdvanced_no_codegen_panic (env : Env) (fuel : Nat) (rule : String) (inp : List UInt8)
    (uctx : Nat) {r : Res Val} {g' : Global} (h : parseAdvanced env fuel rule inp uctx = some (r, g')) :
    ∀ m, r ≠ .panic ("codegen: " ++ m) :=
  (plumbing_rule env fuel (cleanCache_init uctx) h).1

/-! ### concrete instances: the theorem applies, and its hypotheses cannot be dropped -/

namespace PlumbingExamples

/-- `X = $;  @memoize M = $;  R = a:X [a:X] (b:X | c:X);` -/
def exG : Grammar := ⟨[
  .rule { directives := [], name := "X", definition := .eoi },
  .rule { directives := [.memoize], name := "M", definition := .eoi },
  .rule { directives := [], name := "R", definition := (Expr.seq
      [Expr.field (some (.ident "a")) false "X", Expr.opt (Expr.field (some (.ident "a")) false "X"),
       Expr.choice [Expr.field (some (.ident "b")) false "X", Expr.field (some (.ident "c")) false "X"]]) }]⟩
def exEnv : Env := { g := exG, settings := { skipWhitespace := false }, hooks := default, nf := 5 }

/-- the analysis of `R`: `a` in two parts is `multiple`, `b`/`c` absent from an arm are `optional` -/
example : getFields exG 5 (.incl "R") = .ok
    [⟨"a", [("X", false)], .multiple⟩, ⟨"b", [("X", false)], .optional⟩, ⟨"c", [("X", false)], .optional⟩] := by
  rfl

/-- a successful parse of `R` on the empty input: `Vec`, `Some`, `None` as declared -/
example : ((eval exEnv 6).rule "R" (St.new []) (Global.init 0)).map (·.1) = some (.ok
    (.node "R" [("a", .list [.node "X" [] none, .node "X" [] none]),
                ("b", .some (.node "X" [] none)), ("c", .none)] none) (St.new [])) := by
  rfl

/-- the hypothesis `SubFields own ctx.ruleFields` of `plumbing_expr` cannot be dropped: a field
    evaluated in a context that does not declare it is the `expect("Field not found")` panic -/
example : ((eval exEnv 3).expr ⟨false, []⟩ (.field (some (.ident "a")) false "X") (St.new []) (Global.init 0)).map (·.1)
    = some (.panic ("codegen: " ++ "Field not found in rule_fields")) := by
  rfl

/-- the hypothesis `CleanCache g` cannot be dropped: a poisoned cache entry is returned verbatim
    by a `@memoize` rule -/
example : ((eval exEnv 1).rule "M" (St.new [])
      { cache := [(("M", 0), .panic ("codegen: " ++ "poison"))], log := [], uctx := 0 }).map (·.1)
    = some (.panic ("codegen: " ++ "poison")) := by
  rfl

end PlumbingExamples

end Peg
