import PegVerif.Proofs.Basics
/-
  UTF-8 boundary safety of the runtime matchers (property C01, terminal part).

  The real runtime advances its cursor with an unchecked `&str` slice; every matcher must therefore
  advance only by byte counts that land on character boundaries.  Here:
  * `IsBoundary`, `BSt`, `At` – boundary states;
  * `*_enc` – the character-level reading of every matcher on a state whose remaining bytes are `enc rem`
    (complete functional description: result, new state, error);
  * `bst_*`, `nopanic_*` – boundary preservation and absence of `advance` overruns;
  * `*_ok_iff` – "succeeds iff" corollaries;
  * `ci_nonascii_off_boundary` – the negative fact for `parseCharacterLiteralInsensitive` with a non-ASCII literal.
-/
namespace Peg

/-! ### `enc` algebra -/

theorem enc_nil : enc [] = [] := rfl
theorem enc_cons (c : Char) (cs : List Char) : enc (c :: cs) = String.utf8EncodeChar c ++ enc cs := by
  simp [enc]
theorem enc_append (a b : List Char) : enc (a ++ b) = enc a ++ enc b := by simp [enc]
theorem enc_singleton (c : Char) : enc [c] = String.utf8EncodeChar c := by simp [enc]

theorem utf8EncodeChar_ne_nil (c : Char) : String.utf8EncodeChar c ≠ [] := by
  intro h
  have h1 := String.length_utf8EncodeChar c
  rw [h] at h1
  have h2 := Char.utf8Size_pos c
  simp at h1; omega

theorem enc_eq_nil_iff {cs : List Char} : enc cs = [] ↔ cs = [] := by
  cases cs with
  | nil => simp [enc_nil]
  | cons c r => simp [enc_cons]

theorem length_enc_cons (c : Char) (cs : List Char) : (enc (c :: cs)).length = c.utf8Size + (enc cs).length := by
  rw [enc_cons, List.length_append, String.length_utf8EncodeChar]

/-! ### decoding the head of an encoded text -/

theorem decodeHead_nil : decodeHead [] = none := by
  simp [decodeHead, ByteArray.utf8DecodeChar?]

theorem decodeHead_enc_cons (c : Char) (cs : List Char) : decodeHead (enc (c :: cs)) = some c := by
  unfold decodeHead
  rw [enc_cons, List.take_append]
  have : (String.utf8EncodeChar c).take 4 = String.utf8EncodeChar c :=
    List.take_of_length_le (by rw [String.length_utf8EncodeChar]; exact Char.utf8Size_le_four c)
  rw [this, List.toByteArray_append]
  exact ByteArray.utf8DecodeChar?_utf8EncodeChar_append

/-- UTF-8 is prefix-free: the encoding of a character is determined by decoding -/
theorem utf8EncodeChar_prefix {c c' : Char} {t : List UInt8}
    (h : String.utf8EncodeChar c <+: String.utf8EncodeChar c' ++ t) : c = c' := by
  obtain ⟨t', ht'⟩ := h
  have h1 : decodeHead (enc (c :: []) ++ t') = decodeHead (enc (c' :: []) ++ t) := by
    rw [enc_singleton, enc_singleton, ht']
  have h2 : ∀ (c : Char) (t : List UInt8), decodeHead (String.utf8EncodeChar c ++ t) = some c := by
    intro c t
    unfold decodeHead
    rw [List.take_append]
    have : (String.utf8EncodeChar c).take 4 = String.utf8EncodeChar c :=
      List.take_of_length_le (by rw [String.length_utf8EncodeChar]; exact Char.utf8Size_le_four c)
    rw [this, List.toByteArray_append]
    exact ByteArray.utf8DecodeChar?_utf8EncodeChar_append
  rw [enc_singleton, enc_singleton, h2, h2] at h1
  exact Option.some.inj h1

/-! ### byte / ASCII facts (finite enumeration, kernel-checked) -/

theorem u8_all (P : UInt8 → Prop) (h : ∀ n : Fin 256, P (UInt8.ofNat n.val)) (b : UInt8) : P b := by
  have := h ⟨b.toNat, b.toNat_lt⟩
  simpa using this

theorem isAscii_iff {c : Char} : isAscii c = true ↔ c.val.toNat < 128 := by
  unfold isAscii; simp [UInt32.lt_iff_toNat_lt]

theorem isAscii_false_iff {c : Char} : isAscii c = false ↔ 128 ≤ c.val.toNat := by
  rw [← Bool.not_eq_true, isAscii_iff]; omega

theorem ascii_all (P : Char → Prop) (h : ∀ n : Fin 128, P (Char.ofNat n.val)) (c : Char)
    (hc : isAscii c = true) : P c := by
  have hlt := isAscii_iff.mp hc
  have := h ⟨c.val.toNat, hlt⟩
  simpa using this

theorem utf8Size_ascii {c : Char} (hc : isAscii c = true) : c.utf8Size = 1 := by
  rw [Char.utf8Size_eq_one_iff, UInt32.le_iff_toNat_le]
  have := isAscii_iff.mp hc
  show c.val.toNat ≤ 127
  omega

theorem isAscii_of_utf8Size {c : Char} (h : c.utf8Size = 1) : isAscii c = true := by
  rw [Char.utf8Size_eq_one_iff, UInt32.le_iff_toNat_le] at h
  rw [isAscii_iff]
  have : c.val.toNat ≤ 127 := h
  omega

/-- an ASCII character is encoded as the single byte `c as u8` -/
theorem utf8EncodeChar_ascii {c : Char} (hc : isAscii c = true) : String.utf8EncodeChar c = [charAsU8 c] :=
  String.utf8EncodeChar_eq_singleton (utf8Size_ascii hc)

theorem charAsU8_toNat {c : Char} (hc : isAscii c = true) : (charAsU8 c).toNat = c.val.toNat := by
  have := isAscii_iff.mp hc
  unfold charAsU8
  rw [UInt32.toNat_toUInt8]
  omega

theorem charAsU8_lt {c : Char} (hc : isAscii c = true) : charAsU8 c < 128 := by
  rw [UInt8.lt_iff_toNat_lt, charAsU8_toNat hc]
  exact isAscii_iff.mp hc

theorem u8AsChar_charAsU8 {c : Char} (hc : isAscii c = true) : u8AsChar (charAsU8 c) = c := by
  unfold u8AsChar
  rw [charAsU8_toNat hc]
  exact Char.ofNat_toNat c

theorem or_c0_ge (x : UInt8) : 128 ≤ (x &&& 0x1f ||| 0xc0) :=
  u8_all (fun x => 128 ≤ (x &&& 0x1f ||| 0xc0)) (by decide +kernel) x
theorem or_e0_ge (x : UInt8) : 128 ≤ (x &&& 0x0f ||| 0xe0) :=
  u8_all (fun x => 128 ≤ (x &&& 0x0f ||| 0xe0)) (by decide +kernel) x
theorem or_f0_ge (x : UInt8) : 128 ≤ (x &&& 0x07 ||| 0xf0) :=
  u8_all (fun x => 128 ≤ (x &&& 0x07 ||| 0xf0)) (by decide +kernel) x

/-- the lead byte of a non-ASCII character is ≥ 0x80 -/
theorem head_nonascii {c : Char} (hc : isAscii c = false) :
    ∃ b tl, String.utf8EncodeChar c = b :: tl ∧ 128 ≤ b := by
  rcases Char.utf8Size_eq c with h1 | h2 | h3 | h4
  · rw [isAscii_of_utf8Size h1] at hc; cases hc
  · exact ⟨_, _, String.utf8EncodeChar_eq_cons_cons h2, or_c0_ge _⟩
  · exact ⟨_, _, String.utf8EncodeChar_eq_cons_cons_cons h3, or_e0_ge _⟩
  · exact ⟨_, _, String.utf8EncodeChar_eq_cons_cons_cons_cons h4, or_f0_ge _⟩

/-- "a byte < 0x80 at a boundary is a whole one-byte character" -/
theorem head_lt_128 {c : Char} {b : UInt8} {tl : List UInt8} (he : String.utf8EncodeChar c = b :: tl)
    (hb : b < 128) : isAscii c = true ∧ b = charAsU8 c ∧ tl = [] := by
  cases hc : isAscii c with
  | true =>
    rw [utf8EncodeChar_ascii hc] at he
    injection he with h1 h2
    exact ⟨rfl, h1.symm, h2.symm⟩
  | false =>
    obtain ⟨b', tl', he', hb'⟩ := head_nonascii hc
    rw [he] at he'
    injection he' with h1 h2
    subst h1
    exact absurd hb (UInt8.not_lt.mpr hb')

theorem exists_head (c : Char) : ∃ b tl, String.utf8EncodeChar c = b :: tl :=
  List.exists_cons_of_ne_nil (utf8EncodeChar_ne_nil c)

/-- for an ASCII literal, the first-byte comparison is the character comparison -/
theorem head_eq_charAsU8_iff {c c' : Char} {b : UInt8} {tl : List UInt8} (hc : isAscii c = true)
    (he : String.utf8EncodeChar c' = b :: tl) : b = charAsU8 c ↔ c' = c := by
  constructor
  · intro hb
    have hlt : b < 128 := hb ▸ charAsU8_lt hc
    obtain ⟨hc', hb', _⟩ := head_lt_128 he hlt
    have h1 := charAsU8_toNat hc
    have h2 := charAsU8_toNat hc'
    rw [← hb', hb, h1] at h2
    have : c.val = c'.val := UInt32.toNat_inj.mp h2
    exact (Char.ext this).symm
  · intro h
    subst h
    rw [utf8EncodeChar_ascii hc] at he
    injection he with h1 _
    exact h1.symm

/-! ### boundary states -/

/-- `off` is a character boundary of the text `cs`: the byte length of some prefix of `cs` -/
def IsBoundary (cs : List Char) (off : Nat) : Prop := ∃ k, k ≤ cs.length ∧ off = (enc (cs.take k)).length
/-- a state on a boundary of `enc cs`, consistent with the input -/
def BSt (cs : List Char) (s : St) : Prop := WfSt (enc cs) s ∧ IsBoundary cs s.off

/-- the state `s` sits between the consumed text `pre` and the remaining text `rem` of `cs` -/
def At (cs pre rem : List Char) (s : St) : Prop :=
  cs = pre ++ rem ∧ s.off = (enc pre).length ∧ s.rest = enc rem

theorem At.take_drop {cs pre rem s} (h : At cs pre rem s) :
    pre = cs.take pre.length ∧ rem = cs.drop pre.length := by
  obtain ⟨h1, _, _⟩ := h
  subst h1; simp

theorem at_take_drop_iff {cs k s} :
    At cs (cs.take k) (cs.drop k) s ↔ s.off = (enc (cs.take k)).length ∧ s.rest = enc (cs.drop k) := by
  unfold At; simp [List.take_append_drop]

theorem At.bst {cs pre rem s} (h : At cs pre rem s) : BSt cs s := by
  obtain ⟨h1, h2, h3⟩ := h
  subst h1
  refine ⟨?_, pre.length, by simp, by simp [h2]⟩
  unfold WfSt
  rw [h3, h2, enc_append, List.drop_left]

theorem bst_iff_at {cs s} : BSt cs s ↔ ∃ pre rem, At cs pre rem s := by
  constructor
  · rintro ⟨hw, k, hk, hoff⟩
    refine ⟨cs.take k, cs.drop k, (List.take_append_drop k cs).symm, hoff, ?_⟩
    unfold WfSt at hw
    have hsplit : enc cs = enc (cs.take k) ++ enc (cs.drop k) := by
      rw [← enc_append, List.take_append_drop]
    rw [hw, hoff, hsplit, List.drop_left]
  · rintro ⟨pre, rem, h⟩; exact h.bst

/-- the boundary index form: `cs.drop k` is the remaining text at boundary index `k` -/
theorem bst_iff_index {cs s} : BSt cs s ↔ ∃ k, k ≤ cs.length ∧ At cs (cs.take k) (cs.drop k) s := by
  rw [bst_iff_at]
  constructor
  · rintro ⟨pre, rem, h⟩
    obtain ⟨h1, h2⟩ := h.take_drop
    refine ⟨pre.length, ?_, ?_⟩
    · rw [h.1]; simp
    · rw [← h1, ← h2]; exact h
  · rintro ⟨k, _, h⟩; exact ⟨_, _, h⟩

/-- advancing over the characters `p` -/
theorem At.advance {cs pre p r s} (h : At cs pre (p ++ r) s) :
    At cs (pre ++ p) r { s with rest := enc r, off := s.off + (enc p).length } := by
  obtain ⟨h1, h2, _⟩ := h
  refine ⟨by rw [h1, List.append_assoc], ?_, rfl⟩
  simp [enc_append, h2]

theorem At.advance_char {cs pre c r s} (h : At cs pre (c :: r) s) :
    At cs (pre ++ [c]) r { s with rest := enc r, off := s.off + c.utf8Size } := by
  have := At.advance (p := [c]) (r := r) (by simpa using h)
  rwa [enc_singleton, String.length_utf8EncodeChar] at this

theorem advance_enc {α} (s : St) (p r : List Char) (v : α) (h : s.rest = enc (p ++ r)) :
    s.advance (enc p).length v = .ok v { s with rest := enc r, off := s.off + (enc p).length } := by
  unfold St.advance
  rw [h, enc_append]
  simp

theorem advance_char {α} (s : St) (c : Char) (r : List Char) (v : α) (h : s.rest = enc (c :: r))
    {n : Nat} (hn : n = c.utf8Size) :
    s.advance n v = .ok v { s with rest := enc r, off := s.off + c.utf8Size } := by
  have := advance_enc s [c] r v (by simpa using h)
  rw [enc_singleton, String.length_utf8EncodeChar] at this
  rw [hn]; exact this

/-! ### character-level reading of the matchers (`s.rest = enc rem`) -/

/-- `parseChar` succeeds iff the remaining text is non-empty, returns its first char, advances by its size -/
theorem parseChar_enc {s : St} {rem : List Char} (h : s.rest = enc rem) :
    parseChar s = match (generalizing := false) rem with
      | [] => .err (s.reportError .expectedAnyCharacter)
      | c :: r => .ok c { s with rest := enc r, off := s.off + c.utf8Size } := by
  unfold parseChar
  cases rem with
  | nil => rw [h, enc_nil, decodeHead_nil]
  | cons c r =>
    rw [h, decodeHead_enc_cons]
    exact advance_char s c r c h rfl

/-- `parseEndOfInput` succeeds iff the remaining text is empty -/
theorem parseEndOfInput_enc {s : St} {rem : List Char} (h : s.rest = enc rem) :
    parseEndOfInput s = match (generalizing := false) rem with
      | [] => .ok () s
      | _ :: _ => .err (s.reportError .expectedEoi) := by
  unfold parseEndOfInput St.isEmpty
  cases rem with
  | nil => rw [h, enc_nil]; rfl
  | cons c r =>
    obtain ⟨b, tl, he⟩ := exists_head c
    rw [h, enc_cons, he]; rfl

/-- `parseCharacterLiteral s c` succeeds iff the remaining text starts with `c` -/
theorem parseCharacterLiteral_enc {s : St} {rem : List Char} (c : Char) (h : s.rest = enc rem) :
    parseCharacterLiteral s c = match (generalizing := false) rem with
      | [] => .err (s.reportError (.expectedCharacter c))
      | c' :: r =>
        if c' = c then .ok c { s with rest := enc r, off := s.off + c.utf8Size }
        else .err (s.reportError (.expectedCharacter c)) := by
  unfold parseCharacterLiteral
  cases hc : isAscii c with
  | true =>
    simp only [if_true]
    cases rem with
    | nil => rw [h, enc_nil]
    | cons c' r =>
      obtain ⟨b, tl, he⟩ := exists_head c'
      have h' := h
      rw [enc_cons, he, List.cons_append] at h'
      rw [h']
      simp only
      by_cases hcc : c' = c
      · have hb : b = charAsU8 c := (head_eq_charAsU8_iff hc he).mpr hcc
        subst hcc
        simp only [hb, bne_self_eq_false, Bool.false_eq_true, if_false, if_true]
        exact advance_char s c' r c' h (utf8Size_ascii hc).symm
      · have hb : ¬ b = charAsU8 c := fun hb => hcc ((head_eq_charAsU8_iff hc he).mp hb)
        simp [hb, hcc]
  | false =>
    simp only [Bool.false_eq_true, if_false]
    cases rem with
    | nil =>
      have : (String.utf8EncodeChar c).isPrefixOf s.rest = false := by
        obtain ⟨b, tl, he⟩ := exists_head c
        rw [h, enc_nil, he]; rfl
      simp [this]
    | cons c' r =>
      by_cases hcc : c' = c
      · subst hcc
        have : (String.utf8EncodeChar c').isPrefixOf s.rest = true := by
          rw [List.isPrefixOf_iff_prefix, h, enc_cons]; exact List.prefix_append _ _
        simp only [this, Bool.not_true, Bool.false_eq_true, if_false, if_true]
        exact advance_char s c' r c' h rfl
      · have : (String.utf8EncodeChar c).isPrefixOf s.rest = false := by
          rw [← Bool.not_eq_true, List.isPrefixOf_iff_prefix, h, enc_cons]
          intro hp; exact hcc (utf8EncodeChar_prefix hp).symm
        simp [this, hcc]

theorem char_le_iff {a b : Char} : a ≤ b ↔ a.val.toNat ≤ b.val.toNat := by
  rw [Char.le_def, UInt32.le_iff_toNat_le]
theorem char_lt_iff {a b : Char} : a < b ↔ a.val.toNat < b.val.toNat := by
  rw [Char.lt_def, UInt32.lt_iff_toNat_lt]

/-- `parseCharacterRange s lo hi` succeeds iff the remaining text starts with a char in `[lo, hi]` (code point order) -/
theorem parseCharacterRange_enc {s : St} {rem : List Char} (lo hi : Char) (h : s.rest = enc rem) :
    parseCharacterRange s lo hi = match (generalizing := false) rem with
      | [] => .err (s.reportError (.expectedCharacterRange lo hi))
      | c :: r =>
        if lo ≤ c ∧ c ≤ hi then .ok c { s with rest := enc r, off := s.off + c.utf8Size }
        else .err (s.reportError (.expectedCharacterRange lo hi)) := by
  unfold parseCharacterRange
  by_cases hlh : (isAscii lo && isAscii hi) = true
  · simp only [hlh, if_true]
    rw [Bool.and_eq_true] at hlh
    obtain ⟨hlo, hhi⟩ := hlh
    cases rem with
    | nil => rw [h, enc_nil]
    | cons c r =>
      obtain ⟨b, tl, he⟩ := exists_head c
      have h' := h
      rw [enc_cons, he, List.cons_append] at h'
      rw [h']
      simp only
      have nlo := charAsU8_toNat hlo
      have nhi := charAsU8_toNat hhi
      have lhi := isAscii_iff.mp hhi
      cases hc : isAscii c with
      | true =>
        have hb : b = charAsU8 c := by
          rw [utf8EncodeChar_ascii hc] at he; injection he with h1 _; exact h1.symm
        have nc := charAsU8_toNat hc
        subst hb
        by_cases hin : lo ≤ c ∧ c ≤ hi
        · have : (decide (charAsU8 c < charAsU8 lo) || decide (charAsU8 c > charAsU8 hi)) = false := by
            rw [char_le_iff, char_le_iff] at hin
            simp only [Bool.or_eq_false_iff, decide_eq_false_iff_not, GT.gt, UInt8.lt_iff_toNat_lt]
            omega
          simp only [this, Bool.false_eq_true, if_false, if_pos hin, u8AsChar_charAsU8 hc]
          exact advance_char s c r c h (utf8Size_ascii hc).symm
        · have : (decide (charAsU8 c < charAsU8 lo) || decide (charAsU8 c > charAsU8 hi)) = true := by
            rw [char_le_iff, char_le_iff] at hin
            simp only [Bool.or_eq_true, decide_eq_true_eq, GT.gt, UInt8.lt_iff_toNat_lt]
            omega
          simp only [this, if_true, if_neg hin]
      | false =>
        obtain ⟨b', tl', he', hb'⟩ := head_nonascii hc
        rw [he] at he'
        injection he' with h1 _
        subst h1
        have hcn := isAscii_false_iff.mp hc
        have hin : ¬ (lo ≤ c ∧ c ≤ hi) := by
          rw [char_le_iff, char_le_iff]; omega
        have : (decide (b < charAsU8 lo) || decide (b > charAsU8 hi)) = true := by
          have : 128 ≤ b.toNat := UInt8.le_iff_toNat_le.mp hb'
          simp only [Bool.or_eq_true, decide_eq_true_eq, GT.gt, UInt8.lt_iff_toNat_lt]
          omega
        simp only [this, if_true, if_neg hin]
  · simp only [hlh, Bool.false_eq_true, if_false]
    cases rem with
    | nil => rw [h, enc_nil, decodeHead_nil]
    | cons c r =>
      rw [h, decodeHead_enc_cons]
      simp only
      by_cases hin : lo ≤ c ∧ c ≤ hi
      · have : (decide (c < lo) || decide (c > hi)) = false := by
          rw [char_le_iff, char_le_iff] at hin
          simp only [Bool.or_eq_false_iff, decide_eq_false_iff_not, GT.gt, char_lt_iff]
          omega
        simp only [this, Bool.false_eq_true, if_false, if_pos hin]
        exact advance_char s c r c h rfl
      · have : (decide (c < lo) || decide (c > hi)) = true := by
          rw [char_le_iff, char_le_iff] at hin
          simp only [Bool.or_eq_true, decide_eq_true_eq, GT.gt, char_lt_iff]
          omega
        simp only [this, if_true, if_neg hin]

/-- UTF-8 is self-synchronising on texts: a byte-level prefix between encodings is a char-level prefix -/
theorem enc_prefix_iff {l rem : List Char} : enc l <+: enc rem ↔ l <+: rem := by
  constructor
  · intro h
    induction l generalizing rem with
    | nil => exact List.nil_prefix
    | cons c l ih =>
      cases rem with
      | nil =>
        rw [enc_nil, List.prefix_nil, enc_eq_nil_iff] at h
        cases h
      | cons c' r =>
        rw [enc_cons, enc_cons] at h
        have hcc : c = c' := by
          apply utf8EncodeChar_prefix (t := enc r)
          exact List.IsPrefix.trans (List.prefix_append _ _) h
        subst hcc
        rw [List.prefix_append_right_inj] at h
        rw [List.cons_prefix_cons]
        exact ⟨rfl, ih h⟩
  · rintro ⟨t, rfl⟩
    rw [enc_append]; exact List.prefix_append _ _

/-- `parseStringLiteral s l` succeeds iff `l` is a prefix of the remaining text, advancing by `(enc l).length` -/
theorem parseStringLiteral_enc {s : St} {rem : List Char} (lit : List Char) (h : s.rest = enc rem) :
    parseStringLiteral s lit =
      if lit.isPrefixOf rem then
        .ok () { s with rest := enc (rem.drop lit.length), off := s.off + (enc lit).length }
      else .err (s.reportError (.expectedString lit)) := by
  unfold parseStringLiteral
  simp only
  by_cases hp : lit <+: rem
  · have h1 : (enc lit).isPrefixOf s.rest = true := by
      rw [List.isPrefixOf_iff_prefix, h, enc_prefix_iff]; exact hp
    have h2 : lit.isPrefixOf rem = true := List.isPrefixOf_iff_prefix.mpr hp
    simp only [h1, h2, Bool.not_true, Bool.false_eq_true, if_false, if_true]
    obtain ⟨t, rfl⟩ := hp
    rw [List.drop_left]
    exact advance_enc s lit t () h
  · have h1 : (enc lit).isPrefixOf s.rest = false := by
      rw [← Bool.not_eq_true, List.isPrefixOf_iff_prefix, h, enc_prefix_iff]; exact hp
    have h2 : lit.isPrefixOf rem = false := by
      rw [← Bool.not_eq_true, List.isPrefixOf_iff_prefix]; exact hp
    simp [h1, h2]

/-! ### whitespace -/

/-- the five characters skipped by `parse_Whitespace`: U+0020, U+0009, U+000A, U+000C, U+000D -/
def isWsChar (c : Char) : Bool := c == ' ' || c == '\t' || c == '\n' || c == '\x0c' || c == '\r'

theorem isWsChar_ascii {c : Char} (h : isWsChar c = true) : isAscii c = true := by
  unfold isWsChar at h
  simp only [Bool.or_eq_true, beq_iff_eq] at h
  rcases h with (((h | h) | h) | h) | h <;> subst h <;> decide

theorem ws_byte_ascii {c : Char} (hc : isAscii c = true) : isAsciiWhitespace (charAsU8 c) = isWsChar c :=
  ascii_all (fun c => isAsciiWhitespace (charAsU8 c) = isWsChar c) (by decide +kernel) c hc

theorem ws_byte_hi (b : UInt8) : 128 ≤ b → isAsciiWhitespace b = false :=
  u8_all (fun b => 128 ≤ b → isAsciiWhitespace b = false) (by decide +kernel) b

/-- the whitespace test on the lead byte is the whitespace test on the character -/
theorem head_ws {c : Char} {b : UInt8} {tl : List UInt8} (he : String.utf8EncodeChar c = b :: tl) :
    isAsciiWhitespace b = isWsChar c := by
  cases hc : isAscii c with
  | true =>
    rw [utf8EncodeChar_ascii hc] at he; injection he with h1 _
    rw [← h1]; exact ws_byte_ascii hc
  | false =>
    obtain ⟨b', tl', he', hb'⟩ := head_nonascii hc
    rw [he] at he'; injection he' with h1 _; subst h1
    rw [ws_byte_hi b hb']
    cases hw : isWsChar c with
    | false => rfl
    | true => rw [isWsChar_ascii hw] at hc; cases hc

theorem wsPrefixLen_enc (rem : List Char) :
    wsPrefixLen (enc rem) = (enc (rem.takeWhile isWsChar)).length := by
  induction rem with
  | nil => rfl
  | cons c r ih =>
    obtain ⟨b, tl, he⟩ := exists_head c
    rw [enc_cons, he, List.cons_append, wsPrefixLen, head_ws he, List.takeWhile_cons]
    cases hw : isWsChar c with
    | false => simp [enc_nil]
    | true =>
      have hc := isWsChar_ascii hw
      have htl : tl = [] := by
        rw [utf8EncodeChar_ascii hc] at he; injection he with _ h2; exact h2.symm
      subst htl
      simp only [if_true, List.nil_append, ih, length_enc_cons, utf8Size_ascii hc]
      omega

/-- `parseWhitespace` never fails and skips exactly the maximal prefix of the remaining text made of the five
    characters U+0020, U+0009, U+000A, U+000C, U+000D -/
theorem parseWhitespace_enc {s : St} {rem : List Char} (h : s.rest = enc rem) :
    parseWhitespace s = .ok () { s with rest := enc (rem.dropWhile isWsChar),
                                        off := s.off + (enc (rem.takeWhile isWsChar)).length } := by
  unfold parseWhitespace
  simp only [h, wsPrefixLen_enc]
  have : enc rem = enc (rem.takeWhile isWsChar) ++ enc (rem.dropWhile isWsChar) := by
    rw [← enc_append, List.takeWhile_append_dropWhile]
  conv => lhs; rw [this, List.drop_left]

/-- U+000B (VT), U+00A0 (NBSP), U+2003 (EM SPACE) are not skipped -/
theorem isWsChar_examples :
    isWsChar '\x0b' = false ∧ isWsChar '\u00a0' = false ∧ isWsChar '\u2003' = false ∧
    isWsChar ' ' = true ∧ isWsChar '\t' = true ∧ isWsChar '\n' = true ∧ isWsChar '\x0c' = true ∧
    isWsChar '\r' = true := by decide

/-! ### case-insensitive matchers -/

theorem lower_lt_128 (b : UInt8) : toAsciiLower b < 128 → b < 128 :=
  u8_all (fun b => toAsciiLower b < 128 → b < 128) (by decide +kernel) b

theorem lower_ascii {c : Char} (hc : isAscii c = true) :
    toAsciiLower (charAsU8 c) = charAsU8 (charToAsciiLower c) ∧ isAscii (charToAsciiLower c) = true :=
  ascii_all (fun c => toAsciiLower (charAsU8 c) = charAsU8 (charToAsciiLower c) ∧ isAscii (charToAsciiLower c) = true)
    (by decide +kernel) c hc

theorem lower_nonascii {c : Char} (hc : isAscii c = false) : charToAsciiLower c = c := by
  have := isAscii_false_iff.mp hc
  unfold charToAsciiLower
  have h2 : ¬ c.val ≤ 90 := by rw [UInt32.le_iff_toNat_le]; show ¬ c.val.toNat ≤ 90; omega
  simp [h2]

theorem isAscii_of_lower {c : Char} (h : isAscii (charToAsciiLower c) = true) : isAscii c = true := by
  cases hc : isAscii c with
  | true => rfl
  | false => rw [lower_nonascii hc, hc] at h; cases h

theorem charAsU8_inj {c c' : Char} (hc : isAscii c = true) (hc' : isAscii c' = true)
    (h : charAsU8 c = charAsU8 c') : c = c' := by
  have h1 := charAsU8_toNat hc
  have h2 := charAsU8_toNat hc'
  rw [h, h2] at h1
  exact (Char.ext (UInt32.toNat_inj.mp h1)).symm

/-- for an ASCII literal char `c`: the lowercased lead byte equals `c as u8` iff the head char lowercases to `c` -/
theorem head_lower_iff {c c' : Char} {b : UInt8} {tl : List UInt8} (hc : isAscii c = true)
    (he : String.utf8EncodeChar c' = b :: tl) :
    toAsciiLower b = charAsU8 c ↔ charToAsciiLower c' = c := by
  constructor
  · intro hb
    have hlt : b < 128 := lower_lt_128 b (hb ▸ charAsU8_lt hc)
    obtain ⟨hc', hb', _⟩ := head_lt_128 he hlt
    obtain ⟨h1, h2⟩ := lower_ascii hc'
    rw [hb', h1] at hb
    exact charAsU8_inj h2 hc hb
  · intro h
    have hc' : isAscii c' = true := isAscii_of_lower (h ▸ hc)
    rw [utf8EncodeChar_ascii hc'] at he
    injection he with h1 _
    rw [← h1, (lower_ascii hc').1, h]

/-- `parseCharacterLiteralInsensitive s c` (ASCII `c`) succeeds iff the remaining text starts with a char
    whose ASCII-lowercase is `c`; it returns the literal's `c` and advances by that (one-byte) char -/
theorem parseCharacterLiteralInsensitive_enc {s : St} {rem : List Char} {c : Char} (hc : isAscii c = true)
    (h : s.rest = enc rem) :
    parseCharacterLiteralInsensitive s c = match (generalizing := false) rem with
      | [] => .err (s.reportError (.expectedCharacter c))
      | c' :: r =>
        if charToAsciiLower c' = c then .ok c { s with rest := enc r, off := s.off + c'.utf8Size }
        else .err (s.reportError (.expectedCharacter c)) := by
  unfold parseCharacterLiteralInsensitive
  cases rem with
  | nil => rw [h, enc_nil]
  | cons c' r =>
    obtain ⟨b, tl, he⟩ := exists_head c'
    have h' := h
    rw [enc_cons, he, List.cons_append] at h'
    rw [h']
    simp only
    by_cases hcc : charToAsciiLower c' = c
    · have hb : toAsciiLower b = charAsU8 c := (head_lower_iff hc he).mpr hcc
      have hc' : isAscii c' = true := isAscii_of_lower (hcc ▸ hc)
      simp only [hb, bne_self_eq_false, Bool.false_eq_true, if_false, if_pos hcc]
      exact advance_char s c' r c h (utf8Size_ascii hc').symm
    · have hb : ¬ toAsciiLower b = charAsU8 c := fun hb => hcc ((head_lower_iff hc he).mp hb)
      simp [hb, hcc]

theorem length_enc_ascii {l : List Char} (h : l.all isAscii = true) : (enc l).length = l.length := by
  induction l with
  | nil => rfl
  | cons c l ih =>
    rw [List.all_cons, Bool.and_eq_true] at h
    rw [length_enc_cons, utf8Size_ascii h.1, ih h.2, List.length_cons]; omega

theorem ci_bytes_iff {lit rem : List Char} (hl : lit.all isAscii = true) :
    enc lit = ((enc rem).take (enc lit).length).map toAsciiLower ↔
      lit = (rem.take lit.length).map charToAsciiLower := by
  induction lit generalizing rem with
  | nil => simp [enc_nil]
  | cons c l ih =>
    rw [List.all_cons, Bool.and_eq_true] at hl
    obtain ⟨hc, hl⟩ := hl
    cases rem with
    | nil => simp [enc_nil, enc_cons, utf8EncodeChar_ascii hc]
    | cons c' r =>
      obtain ⟨b, tl, he⟩ := exists_head c'
      have e1 : enc (c :: l) = charAsU8 c :: enc l := by rw [enc_cons, utf8EncodeChar_ascii hc]; rfl
      have e2 : enc (c' :: r) = b :: (tl ++ enc r) := by rw [enc_cons, he]; rfl
      rw [e1, e2, List.length_cons, List.take_succ_cons, List.map_cons, List.cons.injEq,
        List.length_cons, List.take_succ_cons, List.map_cons, List.cons.injEq]
      constructor
      · rintro ⟨h1, h2⟩
        have hcc := (head_lower_iff hc he).mp h1.symm
        have hc' : isAscii c' = true := isAscii_of_lower (hcc ▸ hc)
        have htl : tl = [] := by
          rw [utf8EncodeChar_ascii hc'] at he; injection he with _ h2; exact h2.symm
        subst htl
        exact ⟨hcc.symm, (ih hl).mp h2⟩
      · rintro ⟨h1, h2⟩
        have hc' : isAscii c' = true := isAscii_of_lower (h1 ▸ hc)
        have htl : tl = [] := by
          rw [utf8EncodeChar_ascii hc'] at he; injection he with _ h2; exact h2.symm
        subst htl
        exact ⟨((head_lower_iff hc he).mpr h1.symm).symm, (ih hl).mpr h2⟩

/-- `parseStringLiteralInsensitive s lit` (ASCII `lit`) succeeds iff the remaining text starts with `lit.length`
    chars whose ASCII-lowercase are the literal's chars; it advances by `(enc lit).length = lit.length` bytes -/
theorem parseStringLiteralInsensitive_enc {s : St} {rem : List Char} {lit : List Char}
    (hl : lit.all isAscii = true) (h : s.rest = enc rem) :
    parseStringLiteralInsensitive s lit =
      if lit = (rem.take lit.length).map charToAsciiLower then
        .ok () { s with rest := enc (rem.drop lit.length), off := s.off + (enc lit).length }
      else .err (s.reportError (.expectedString lit)) := by
  unfold parseStringLiteralInsensitive
  simp only [bne_iff_ne, ne_eq, h, ci_bytes_iff hl]
  by_cases hm : lit = (rem.take lit.length).map charToAsciiLower
  · rw [if_neg (not_not_intro hm), if_pos hm]
    have hlen : (rem.take lit.length).length = lit.length := by
      have := congrArg List.length hm; rw [List.length_map] at this; exact this.symm
    have hpa : (rem.take lit.length).all isAscii = true := by
      rw [List.all_eq_true]
      intro x hx
      apply isAscii_of_lower
      have hx' : charToAsciiLower x ∈ lit := by rw [hm]; exact List.mem_map_of_mem hx
      exact List.all_eq_true.mp hl _ hx'
    have hbytes : (enc lit).length = (enc (rem.take lit.length)).length := by
      rw [length_enc_ascii hl, length_enc_ascii hpa, hlen]
    rw [hbytes]
    exact advance_enc s (rem.take lit.length) (rem.drop lit.length) () (by rw [List.take_append_drop]; exact h)
  · rw [if_pos hm, if_neg hm]

/-! ### main theorems: boundary preservation and absence of `advance` overruns -/

theorem At.index {cs pre rem s} (h : At cs pre rem s) :
    pre.length ≤ cs.length ∧ At cs (cs.take pre.length) (cs.drop pre.length) s := by
  obtain ⟨h1, h2⟩ := h.take_drop
  refine ⟨?_, ?_⟩
  · rw [h.1]; simp
  · rw [← h1, ← h2]; exact h

theorem bst_parseChar {cs s v s'} (hb : BSt cs s) (h : parseChar s = .ok v s') : BSt cs s' := by
  obtain ⟨pre, rem, hat⟩ := bst_iff_at.mp hb
  rw [parseChar_enc hat.2.2] at h
  cases rem with
  | nil => cases h
  | cons c r => simp only [Res.ok.injEq] at h; rw [← h.2]; exact hat.advance_char.bst

theorem nopanic_parseChar {cs s} (hb : BSt cs s) : ∀ msg, parseChar s ≠ .panic msg := by
  obtain ⟨pre, rem, hat⟩ := bst_iff_at.mp hb
  rw [parseChar_enc hat.2.2]
  cases rem <;> (intro msg h; cases h)

theorem bst_parseWhitespace {cs s v s'} (hb : BSt cs s) (h : parseWhitespace s = .ok v s') : BSt cs s' := by
  obtain ⟨pre, rem, hat⟩ := bst_iff_at.mp hb
  rw [parseWhitespace_enc hat.2.2] at h
  simp only [Res.ok.injEq] at h; rw [← h.2]
  have hat' : At cs pre (rem.takeWhile isWsChar ++ rem.dropWhile isWsChar) s := by
    rw [List.takeWhile_append_dropWhile]; exact hat
  exact hat'.advance.bst

theorem nopanic_parseWhitespace {cs s} (_hb : BSt cs s) : ∀ msg, parseWhitespace s ≠ .panic msg := by
  intro msg h; unfold parseWhitespace at h; cases h

theorem bst_parseStringLiteral {cs s l v s'} (hb : BSt cs s) (h : parseStringLiteral s l = .ok v s') :
    BSt cs s' := by
  obtain ⟨pre, rem, hat⟩ := bst_iff_at.mp hb
  rw [parseStringLiteral_enc l hat.2.2] at h
  split at h
  · rename_i hp
    obtain ⟨t, rfl⟩ := List.isPrefixOf_iff_prefix.mp hp
    simp only [Res.ok.injEq, List.drop_left] at h; rw [← h.2]
    exact hat.advance.bst
  · cases h

theorem nopanic_parseStringLiteral {cs s l} (hb : BSt cs s) : ∀ msg, parseStringLiteral s l ≠ .panic msg := by
  obtain ⟨pre, rem, hat⟩ := bst_iff_at.mp hb
  rw [parseStringLiteral_enc l hat.2.2]
  split <;> (intro msg h; cases h)

theorem bst_parseCharacterLiteral {cs s c v s'} (hb : BSt cs s) (h : parseCharacterLiteral s c = .ok v s') :
    BSt cs s' := by
  obtain ⟨pre, rem, hat⟩ := bst_iff_at.mp hb
  rw [parseCharacterLiteral_enc c hat.2.2] at h
  cases rem with
  | nil => cases h
  | cons c' r =>
    simp only at h
    split at h
    · rename_i hcc; subst hcc
      simp only [Res.ok.injEq] at h; rw [← h.2]; exact hat.advance_char.bst
    · cases h

theorem nopanic_parseCharacterLiteral {cs s c} (hb : BSt cs s) :
    ∀ msg, parseCharacterLiteral s c ≠ .panic msg := by
  obtain ⟨pre, rem, hat⟩ := bst_iff_at.mp hb
  rw [parseCharacterLiteral_enc c hat.2.2]
  cases rem with
  | nil => intro msg h; cases h
  | cons c' r => simp only; split <;> (intro msg h; cases h)

theorem bst_parseCharacterRange {cs s lo hi v s'} (hb : BSt cs s)
    (h : parseCharacterRange s lo hi = .ok v s') : BSt cs s' := by
  obtain ⟨pre, rem, hat⟩ := bst_iff_at.mp hb
  rw [parseCharacterRange_enc lo hi hat.2.2] at h
  cases rem with
  | nil => cases h
  | cons c r =>
    simp only at h
    split at h
    · simp only [Res.ok.injEq] at h; rw [← h.2]; exact hat.advance_char.bst
    · cases h

theorem nopanic_parseCharacterRange {cs s lo hi} (hb : BSt cs s) :
    ∀ msg, parseCharacterRange s lo hi ≠ .panic msg := by
  obtain ⟨pre, rem, hat⟩ := bst_iff_at.mp hb
  rw [parseCharacterRange_enc lo hi hat.2.2]
  cases rem with
  | nil => intro msg h; cases h
  | cons c r => simp only; split <;> (intro msg h; cases h)

/-- needs an ASCII literal (what the generator guarantees); lowercase-ness is not needed -/
theorem bst_parseStringLiteralInsensitive {cs s l v s'} (hl : l.all isAscii = true) (hb : BSt cs s)
    (h : parseStringLiteralInsensitive s l = .ok v s') : BSt cs s' := by
  obtain ⟨pre, rem, hat⟩ := bst_iff_at.mp hb
  rw [parseStringLiteralInsensitive_enc hl hat.2.2] at h
  split at h
  · rename_i hm
    simp only [Res.ok.injEq] at h; rw [← h.2]
    have hlen : (rem.take l.length).length = l.length := by
      have := congrArg List.length hm; rw [List.length_map] at this; exact this.symm
    have hpa : (rem.take l.length).all isAscii = true := by
      rw [List.all_eq_true]
      intro x hx
      apply isAscii_of_lower
      have hx' : charToAsciiLower x ∈ l := by rw [hm]; exact List.mem_map_of_mem hx
      exact List.all_eq_true.mp hl _ hx'
    have hbytes : (enc l).length = (enc (rem.take l.length)).length := by
      rw [length_enc_ascii hl, length_enc_ascii hpa, hlen]
    rw [hbytes]
    have hat' : At cs pre (rem.take l.length ++ rem.drop l.length) s := by
      rw [List.take_append_drop]; exact hat
    exact hat'.advance.bst
  · cases h

theorem nopanic_parseStringLiteralInsensitive {cs s l} (hl : l.all isAscii = true) (hb : BSt cs s) :
    ∀ msg, parseStringLiteralInsensitive s l ≠ .panic msg := by
  obtain ⟨pre, rem, hat⟩ := bst_iff_at.mp hb
  rw [parseStringLiteralInsensitive_enc hl hat.2.2]
  split <;> (intro msg h; cases h)

/-- needs an ASCII literal char (what the generator guarantees); see `ci_nonascii_off_boundary` -/
theorem bst_parseCharacterLiteralInsensitive {cs s c v s'} (hc : isAscii c = true) (hb : BSt cs s)
    (h : parseCharacterLiteralInsensitive s c = .ok v s') : BSt cs s' := by
  obtain ⟨pre, rem, hat⟩ := bst_iff_at.mp hb
  rw [parseCharacterLiteralInsensitive_enc hc hat.2.2] at h
  cases rem with
  | nil => cases h
  | cons c' r =>
    simp only at h
    split at h
    · simp only [Res.ok.injEq] at h; rw [← h.2]; exact hat.advance_char.bst
    · cases h

/-- no overrun in any state and even for a non-ASCII literal char: the matcher advances one byte of a non-empty
    rest (unconditional form) -/
theorem nopanic_parseCharacterLiteralInsensitive' {s c} :
    ∀ msg, parseCharacterLiteralInsensitive s c ≠ .panic msg := by
  intro msg h
  unfold parseCharacterLiteralInsensitive at h
  split at h
  · cases h
  · rename_i b tl heq
    split at h
    · cases h
    · unfold St.advance at h; rw [heq] at h; simp at h

theorem nopanic_parseCharacterLiteralInsensitive {cs s c} (_hb : BSt cs s) :
    ∀ msg, parseCharacterLiteralInsensitive s c ≠ .panic msg := nopanic_parseCharacterLiteralInsensitive'

theorem bst_parseEndOfInput {cs s v s'} (hb : BSt cs s) (h : parseEndOfInput s = .ok v s') : BSt cs s' := by
  unfold parseEndOfInput at h; split at h
  · cases h; exact hb
  · cases h

theorem nopanic_parseEndOfInput {cs s} (_hb : BSt cs s) : ∀ msg, parseEndOfInput s ≠ .panic msg := by
  intro msg h; unfold parseEndOfInput at h; split at h <;> cases h

/-! ### the negative fact: a non-ASCII literal char in the insensitive matcher leaves the boundary

`'é' as u8 = 0xE9` is the lead byte of the three-byte encodings of U+9000..U+9FFF; `to_ascii_lowercase` leaves it
alone, the comparison succeeds, and `advance(1)` lands inside the character. -/

theorem ci_nonascii_off_boundary :
    ∃ (cs : List Char) (s s' : St) (c : Char),
      BSt cs s ∧ isAscii c = false ∧ parseCharacterLiteralInsensitive s c = .ok c s' ∧
      s'.off = 1 ∧ ¬ IsBoundary cs s'.off ∧ ¬ BSt cs s' := by
  refine ⟨[Char.ofNat 0x9000], St.new (enc [Char.ofNat 0x9000]), ⟨[0x80, 0x80], 1, none⟩, Char.ofNat 0xE9,
    ?_, by decide, by rfl, rfl, ?_, ?_⟩
  · exact (show At [Char.ofNat 0x9000] [] [Char.ofNat 0x9000] _ from ⟨rfl, rfl, rfl⟩).bst
  · rintro ⟨k, hk, h⟩
    have : ∀ k, k ≤ 1 → 1 ≠ (enc (([Char.ofNat 0x9000]).take k)).length := by decide +kernel
    exact this k hk h
  · rintro ⟨_, k, hk, h⟩
    have : ∀ k, k ≤ 1 → 1 ≠ (enc (([Char.ofNat 0x9000]).take k)).length := by decide +kernel
    exact this k hk h

/-! ### "succeeds iff" readings at a boundary state (terminal specs of C01)

`At cs pre rem s`: `pre` is the consumed text, `rem` the remaining text (`At.index`: `pre = cs.take k`,
`rem = cs.drop k` for the boundary index `k = pre.length`). -/

theorem parseChar_ok_iff {cs pre rem s c s'} (hat : At cs pre rem s) :
    parseChar s = .ok c s' ↔
      ∃ r, rem = c :: r ∧ s' = { s with rest := enc r, off := s.off + c.utf8Size } ∧ At cs (pre ++ [c]) r s' := by
  rw [parseChar_enc hat.2.2]
  cases rem with
  | nil => simp
  | cons c0 r0 =>
    simp only [Res.ok.injEq, List.cons.injEq]
    constructor
    · rintro ⟨rfl, rfl⟩; exact ⟨r0, ⟨rfl, rfl⟩, rfl, hat.advance_char⟩
    · rintro ⟨r, ⟨rfl, rfl⟩, rfl, _⟩; exact ⟨rfl, rfl⟩

theorem parseChar_err_iff {cs pre rem s e} (hat : At cs pre rem s) :
    parseChar s = .err e ↔ rem = [] ∧ e = s.reportError .expectedAnyCharacter := by
  rw [parseChar_enc hat.2.2]
  cases rem with
  | nil => simp [eq_comm]
  | cons c0 r0 => simp

theorem parseCharacterLiteral_ok_iff {cs pre rem s c v s'} (hat : At cs pre rem s) :
    parseCharacterLiteral s c = .ok v s' ↔
      v = c ∧ ∃ r, rem = c :: r ∧ s' = { s with rest := enc r, off := s.off + c.utf8Size } ∧
        At cs (pre ++ [c]) r s' := by
  rw [parseCharacterLiteral_enc c hat.2.2]
  cases rem with
  | nil => simp
  | cons c0 r0 =>
    simp only
    by_cases hcc : c0 = c
    · subst hcc
      simp only [if_true, Res.ok.injEq, List.cons.injEq, true_and]
      constructor
      · rintro ⟨rfl, rfl⟩; exact ⟨rfl, r0, rfl, rfl, hat.advance_char⟩
      · rintro ⟨rfl, r, rfl, rfl, _⟩; exact ⟨rfl, rfl⟩
    · simp only [if_neg hcc, List.cons.injEq, reduceCtorEq, false_iff]
      rintro ⟨_, r, ⟨h1, _⟩, _⟩; exact hcc h1

theorem parseCharacterLiteral_err_iff {cs pre rem s c e} (hat : At cs pre rem s) :
    parseCharacterLiteral s c = .err e ↔ rem.head? ≠ some c ∧ e = s.reportError (.expectedCharacter c) := by
  rw [parseCharacterLiteral_enc c hat.2.2]
  cases rem with
  | nil => simp [eq_comm]
  | cons c0 r0 =>
    simp only
    by_cases hcc : c0 = c
    · simp [hcc]
    · rw [if_neg hcc]; simp only [Res.err.injEq, List.head?_cons, ne_eq, Option.some.injEq]
      constructor
      · rintro rfl; exact ⟨hcc, rfl⟩
      · rintro ⟨_, rfl⟩; rfl

theorem parseCharacterRange_ok_iff {cs pre rem s lo hi v s'} (hat : At cs pre rem s) :
    parseCharacterRange s lo hi = .ok v s' ↔
      ∃ r, rem = v :: r ∧ lo ≤ v ∧ v ≤ hi ∧ s' = { s with rest := enc r, off := s.off + v.utf8Size } ∧
        At cs (pre ++ [v]) r s' := by
  rw [parseCharacterRange_enc lo hi hat.2.2]
  cases rem with
  | nil => simp
  | cons c0 r0 =>
    simp only
    by_cases hin : lo ≤ c0 ∧ c0 ≤ hi
    · simp only [if_pos hin, Res.ok.injEq, List.cons.injEq]
      constructor
      · rintro ⟨rfl, rfl⟩; exact ⟨r0, ⟨rfl, rfl⟩, hin.1, hin.2, rfl, hat.advance_char⟩
      · rintro ⟨r, ⟨rfl, rfl⟩, _, _, rfl, _⟩; exact ⟨rfl, rfl⟩
    · simp only [if_neg hin, List.cons.injEq, reduceCtorEq, false_iff]
      rintro ⟨r, ⟨rfl, _⟩, h1, h2, _⟩; exact hin ⟨h1, h2⟩

theorem parseCharacterRange_err_iff {cs pre rem s lo hi e} (hat : At cs pre rem s) :
    parseCharacterRange s lo hi = .err e ↔
      (∀ c ∈ rem.head?, ¬ (lo ≤ c ∧ c ≤ hi)) ∧ e = s.reportError (.expectedCharacterRange lo hi) := by
  rw [parseCharacterRange_enc lo hi hat.2.2]
  cases rem with
  | nil => simp [eq_comm]
  | cons c0 r0 =>
    simp only
    by_cases hin : lo ≤ c0 ∧ c0 ≤ hi
    · rw [if_pos hin]; simp only [reduceCtorEq, false_iff]
      rintro ⟨h, _⟩; exact h c0 (by simp) hin
    · rw [if_neg hin]; simp only [Res.err.injEq]
      constructor
      · rintro rfl
        refine ⟨?_, rfl⟩
        intro c hc
        simp only [List.head?_cons, Option.mem_def, Option.some.injEq] at hc
        subst hc; exact hin
      · rintro ⟨_, rfl⟩; rfl

theorem parseStringLiteral_ok_iff {cs pre rem s l v s'} (hat : At cs pre rem s) :
    parseStringLiteral s l = .ok v s' ↔
      ∃ t, rem = l ++ t ∧ s' = { s with rest := enc t, off := s.off + (enc l).length } ∧
        At cs (pre ++ l) t s' := by
  rw [parseStringLiteral_enc l hat.2.2]
  by_cases hp : l <+: rem
  · rw [if_pos (List.isPrefixOf_iff_prefix.mpr hp)]
    obtain ⟨t, rfl⟩ := hp
    simp only [Res.ok.injEq, List.drop_left, true_and, List.append_cancel_left_eq]
    constructor
    · rintro rfl; exact ⟨t, rfl, rfl, hat.advance⟩
    · rintro ⟨t', rfl, rfl, _⟩; rfl
  · have : ¬ l.isPrefixOf rem = true := fun h => hp (List.isPrefixOf_iff_prefix.mp h)
    rw [if_neg this]
    simp only [reduceCtorEq, false_iff]
    rintro ⟨t, rfl, _⟩; exact hp (List.prefix_append _ _)

theorem parseStringLiteral_err_iff {cs pre rem s l e} (hat : At cs pre rem s) :
    parseStringLiteral s l = .err e ↔ ¬ l <+: rem ∧ e = s.reportError (.expectedString l) := by
  rw [parseStringLiteral_enc l hat.2.2, ← List.isPrefixOf_iff_prefix]
  split
  · rename_i hp; simp only [reduceCtorEq, false_iff]; intro h; exact h.1 hp
  · rename_i hp; simp only [Res.err.injEq]
    constructor
    · rintro rfl; exact ⟨hp, rfl⟩
    · rintro ⟨_, rfl⟩; rfl

/-- `parseWhitespace` always succeeds; it consumes `ws`, the maximal prefix of the remaining text made of the
    five whitespace characters: what follows does not start with one of them -/
theorem parseWhitespace_spec {cs pre rem s} (hat : At cs pre rem s) :
    ∃ ws r s', parseWhitespace s = .ok () s' ∧ rem = ws ++ r ∧ ws.all isWsChar = true ∧
      (∀ c ∈ r.head?, isWsChar c = false) ∧
      s' = { s with rest := enc r, off := s.off + (enc ws).length } ∧ At cs (pre ++ ws) r s' := by
  refine ⟨rem.takeWhile isWsChar, rem.dropWhile isWsChar, _, parseWhitespace_enc hat.2.2,
    List.takeWhile_append_dropWhile.symm, ?_, ?_, rfl, ?_⟩
  · exact List.all_takeWhile
  · intro c hc
    have := List.head?_dropWhile_not isWsChar rem
    rw [Option.mem_def] at hc
    rw [hc] at this
    simpa using this
  · have hat' : At cs pre (rem.takeWhile isWsChar ++ rem.dropWhile isWsChar) s := by
      rw [List.takeWhile_append_dropWhile]; exact hat
    exact hat'.advance

theorem parseEndOfInput_ok_iff {cs pre rem s v s'} (hat : At cs pre rem s) :
    parseEndOfInput s = .ok v s' ↔ rem = [] ∧ s' = s := by
  rw [parseEndOfInput_enc hat.2.2]
  cases rem with
  | nil => simp [eq_comm]
  | cons c0 r0 => simp

theorem parseEndOfInput_err_iff {cs pre rem s e} (hat : At cs pre rem s) :
    parseEndOfInput s = .err e ↔ rem ≠ [] ∧ e = s.reportError .expectedEoi := by
  rw [parseEndOfInput_enc hat.2.2]
  cases rem with
  | nil => simp
  | cons c0 r0 => simp [eq_comm]

theorem parseCharacterLiteralInsensitive_ok_iff {cs pre rem s c v s'} (hc : isAscii c = true)
    (hat : At cs pre rem s) :
    parseCharacterLiteralInsensitive s c = .ok v s' ↔
      v = c ∧ ∃ c' r, rem = c' :: r ∧ charToAsciiLower c' = c ∧ c'.utf8Size = 1 ∧
        s' = { s with rest := enc r, off := s.off + 1 } ∧ At cs (pre ++ [c']) r s' := by
  rw [parseCharacterLiteralInsensitive_enc hc hat.2.2]
  cases rem with
  | nil => simp
  | cons c0 r0 =>
    simp only
    by_cases hcc : charToAsciiLower c0 = c
    · have h1 : c0.utf8Size = 1 := utf8Size_ascii (isAscii_of_lower (hcc ▸ hc))
      have hadv := hat.advance_char
      rw [h1] at hadv
      simp only [if_pos hcc, Res.ok.injEq, List.cons.injEq, h1]
      constructor
      · rintro ⟨rfl, rfl⟩; exact ⟨rfl, c0, r0, ⟨rfl, rfl⟩, hcc, h1, rfl, hadv⟩
      · rintro ⟨rfl, c', r, ⟨rfl, rfl⟩, _, _, rfl, _⟩; exact ⟨rfl, rfl⟩
    · simp only [if_neg hcc, List.cons.injEq, reduceCtorEq, false_iff]
      rintro ⟨_, c', r, ⟨rfl, _⟩, h2, _⟩; exact hcc h2

theorem parseCharacterLiteralInsensitive_err_iff {cs pre rem s c e} (hc : isAscii c = true)
    (hat : At cs pre rem s) :
    parseCharacterLiteralInsensitive s c = .err e ↔
      (∀ c' ∈ rem.head?, charToAsciiLower c' ≠ c) ∧ e = s.reportError (.expectedCharacter c) := by
  rw [parseCharacterLiteralInsensitive_enc hc hat.2.2]
  cases rem with
  | nil => simp [eq_comm]
  | cons c0 r0 =>
    simp only
    by_cases hcc : charToAsciiLower c0 = c
    · simp [hcc]
    · rw [if_neg hcc]; simp only [Res.err.injEq]
      constructor
      · rintro rfl
        refine ⟨?_, rfl⟩
        intro c' hc'
        simp only [List.head?_cons, Option.mem_def, Option.some.injEq] at hc'
        subst hc'; exact hcc
      · rintro ⟨_, rfl⟩; rfl

theorem ci_match_bytes {l p : List Char} (hl : l.all isAscii = true) (hm : l = p.map charToAsciiLower) :
    p.all isAscii = true ∧ p.length = l.length ∧ (enc l).length = (enc p).length := by
  have hlen : p.length = l.length := by
    have := congrArg List.length hm; rw [List.length_map] at this; exact this.symm
  have hpa : p.all isAscii = true := by
    rw [List.all_eq_true]
    intro x hx
    apply isAscii_of_lower
    have hx' : charToAsciiLower x ∈ l := by rw [hm]; exact List.mem_map_of_mem hx
    exact List.all_eq_true.mp hl _ hx'
  exact ⟨hpa, hlen, by rw [length_enc_ascii hl, length_enc_ascii hpa, hlen]⟩

theorem parseStringLiteralInsensitive_ok_iff {cs pre rem s l v s'} (hl : l.all isAscii = true)
    (hat : At cs pre rem s) :
    parseStringLiteralInsensitive s l = .ok v s' ↔
      ∃ p t, rem = p ++ t ∧ p.map charToAsciiLower = l ∧
        s' = { s with rest := enc t, off := s.off + (enc p).length } ∧ At cs (pre ++ p) t s' := by
  rw [parseStringLiteralInsensitive_enc hl hat.2.2]
  by_cases hm : l = (rem.take l.length).map charToAsciiLower
  · rw [if_pos hm]
    obtain ⟨_, _, hbytes⟩ := ci_match_bytes hl hm
    have hat' : At cs pre (rem.take l.length ++ rem.drop l.length) s := by
      rw [List.take_append_drop]; exact hat
    simp only [Res.ok.injEq, true_and]
    constructor
    · rintro rfl
      exact ⟨rem.take l.length, rem.drop l.length, (List.take_append_drop _ _).symm, hm.symm,
        by rw [hbytes], by rw [hbytes]; exact hat'.advance⟩
    · rintro ⟨p, t, rfl, hp, rfl, _⟩
      obtain ⟨_, hlen, hb⟩ := ci_match_bytes hl hp.symm
      rw [← hlen, List.drop_left, hb]
  · rw [if_neg hm]
    simp only [reduceCtorEq, false_iff]
    rintro ⟨p, t, rfl, hp, _⟩
    apply hm
    have hlen : p.length = l.length := by rw [← hp, List.length_map]
    rw [← hlen, List.take_left, hp]

theorem parseStringLiteralInsensitive_err_iff {cs pre rem s l e} (hl : l.all isAscii = true)
    (hat : At cs pre rem s) :
    parseStringLiteralInsensitive s l = .err e ↔
      l ≠ (rem.take l.length).map charToAsciiLower ∧ e = s.reportError (.expectedString l) := by
  rw [parseStringLiteralInsensitive_enc hl hat.2.2]
  by_cases hm : l = (rem.take l.length).map charToAsciiLower
  · rw [if_pos hm]; simp only [reduceCtorEq, false_iff]; intro h; exact h.1 hm
  · rw [if_neg hm]; simp only [Res.err.injEq]
    constructor
    · rintro rfl; exact ⟨hm, rfl⟩
    · rintro ⟨_, rfl⟩; rfl

/-! ### sanity instances (the hypotheses are satisfiable; concrete runs) -/

/-- an ASCII insensitive literal char against an upper-case input followed by a two-byte char -/
example : ∃ s', BSt ['A', 'é'] (St.new (enc ['A', 'é'])) ∧ isAscii 'a' = true ∧
    parseCharacterLiteralInsensitive (St.new (enc ['A', 'é'])) 'a' = .ok 'a' s' ∧ s'.off = 1 ∧
    BSt ['A', 'é'] s' := by
  have hb : BSt ['A', 'é'] (St.new (enc ['A', 'é'])) :=
    (show At ['A', 'é'] [] ['A', 'é'] _ from ⟨rfl, rfl, rfl⟩).bst
  have hp : parseCharacterLiteralInsensitive (St.new (enc ['A', 'é'])) 'a' = .ok 'a' ⟨enc ['é'], 1, none⟩ := by rfl
  exact ⟨_, hb, by decide, hp, rfl, bst_parseCharacterLiteralInsensitive (by decide) hb hp⟩

/-- an ASCII insensitive string literal -/
example : ∃ s', BSt ['O', 'k', 'é'] (St.new (enc ['O', 'k', 'é'])) ∧ ['o', 'k'].all isAscii = true ∧
    parseStringLiteralInsensitive (St.new (enc ['O', 'k', 'é'])) ['o', 'k'] = .ok () s' ∧ s'.off = 2 ∧
    BSt ['O', 'k', 'é'] s' := by
  have hb : BSt ['O', 'k', 'é'] (St.new (enc ['O', 'k', 'é'])) :=
    (show At ['O', 'k', 'é'] [] ['O', 'k', 'é'] _ from ⟨rfl, rfl, rfl⟩).bst
  have hp : parseStringLiteralInsensitive (St.new (enc ['O', 'k', 'é'])) ['o', 'k'] = .ok () ⟨enc ['é'], 2, none⟩ := by
    rfl
  exact ⟨_, hb, by decide, hp, rfl, bst_parseStringLiteralInsensitive (by decide) hb hp⟩

/-- whitespace stops in front of U+000B / U+00A0 / U+2003 -/
example : parseWhitespace (St.new (enc [' ', '\t', '\x0b', ' '])) = .ok () ⟨enc ['\x0b', ' '], 2, none⟩ := by rfl
example : parseWhitespace (St.new (enc ['\n', '\u00a0'])) = .ok () ⟨enc ['\u00a0'], 1, none⟩ := by rfl
example : parseWhitespace (St.new (enc ['\u2003', ' '])) = .ok () ⟨enc ['\u2003', ' '], 0, none⟩ := by rfl

end Peg
