import PegVerif.SpecLR
import PegVerif.Proofs.SpecLRMono
import PegVerif.Proofs.LRProg
import PegVerif.Proofs.RefineRule
import PegVerif.Proofs.LeftRec
import PegVerif.Proofs.SetMemo
/-
  Refinement WITH left recursion: for grammars in the class `LROk` (SpecLR.lean) and pure hooks, every
  answer of the implementation model `eval` (cache, `@memoize`, `@leftrec` grow loop) abstracts to
  the answer of the reference semantics with left recursion `SpecLR.eval`.

  Main results (end of file):
    `eval_refLR`            parseAdvanced … = some (r, g) → ∃ m, SpecLR.parse … m … = some (abs r)
    `parseAdvanced_evtLR`   the same for an explicit analysis fuel (`LROkF`), as "for all large fuels"
    `eval_refLR_rec`        the evaluator-level statement `RefLR` (any state satisfying the invariant)
    `eval_refLR_eq`, `parseAdvanced_detLR`   the answer is *the* reference answer; fuel independence
    `eval_refLR_noLeftrec`  without `@leftrec` rules this is `eval_ref` again
    `SpecLR.eval_setMemo`, `memo_refines_specLR`, `memo_transparentLR`   `@memoize` transparency
    `LRExample`             non-vacuity and the counterexamples that justify the exclusions

  The invariant.  A *ghost* list `H` of heads (rule, offset) that are growing right now in the model.
  * `GoodLR H g`: every cache entry whose key is not in `H` is `Valid`: it is the `SpecLR` answer of
    that rule at that offset under EVERY seed environment `σ` whose heads lie strictly before the
    offset, or at the offset but cannot be reached from the rule before input is consumed
    (`ChkR Q false R`).  Entries for keys in `H` are the current seeds: nothing is claimed.
    After a panic nothing is claimed about the cache (a panicking body leaves its stale seed behind;
    every construct propagates a panic, the global state is never used again).
  * the refinement statement quantifies, *after* the model run, over all seed environments `σ` that
    are compatible (`Compat`) with the run: heads at the current offset are either avoided by the
    construct being evaluated, or are in `H` with the same seed as the cache, the construct being safe
    for them.  This makes the independence of a result from the seeds it cannot consult part of the
    induction (no separate semantic lemma about `SpecLR` is needed).
  * `SafeH`: the syntactic position – for every head growing at the current offset the construct is
    in avoid or in safe mode; it is what excludes a `@memoize` rule or another `@leftrec` rule inside
    the cycle.  A sequence part that certainly consumes input (`LRC.prog`, sound for the model by
    LRProg.lean) ends the constraint: offsets only increase (`LR.RInv`, LeftRec.lean), so the heads
    at the old offset can not be consulted any more.
-/
namespace Peg
open Spec SpecLR

/-! ## seeds -/

theorem seedOf_cons (k k' : String × Nat) (x : Res Val) (σ : Seeds) :
    seedOf ((k, x) :: σ) k' = if k == k' then some x else seedOf σ k' := by
  unfold seedOf
  simp only [List.find?_cons]
  split <;> simp_all

theorem seedOf_cons_self (k : String × Nat) (x : Res Val) (σ : Seeds) :
    seedOf ((k, x) :: σ) k = some x := by
  rw [seedOf_cons]; simp

theorem seedOf_cons_ne {k k' : String × Nat} (x : Res Val) (σ : Seeds) (h : k' ≠ k) :
    seedOf ((k, x) :: σ) k' = seedOf σ k' := by
  rw [seedOf_cons]
  have : (k == k') = false := by
    apply Bool.eq_false_iff.2
    intro hb
    exact h (eq_of_beq hb).symm
  simp [this]

theorem seedOf_nil (k : String × Nat) : seedOf [] k = none := rfl

/-! ## the syntactic conditions as propositions -/

section static
variable (env : Env) (N : String → List String)

/-- the avoid set of `Q` is closed -/
def Closed (Q : String) : Prop := ∃ d, LRC.closed env.g env.settings Q (N Q) d = true

def ChkE (Q : String) (m w : Bool) (e : Expr) : Prop :=
  Closed env N Q ∧ ∃ d, LRC.chk env.g env.settings Q (N Q) d m w e = true

def ChkR (Q : String) (m : Bool) (name : String) : Prop :=
  Closed env N Q ∧
    ∃ d, LRC.chkRule env.g env.settings Q (N Q) m (LRC.chk env.g env.settings Q (N Q) d) name = true

def ChkSeq (Q : String) (m w : Bool) (ps : List Expr) : Prop :=
  Closed env N Q ∧
    ∃ d, LRC.chkSeq (LRC.chk env.g env.settings Q (N Q) d m w) (LRC.prog env.g d) ps = true

end static

section staticLemmas
variable {env : Env} {N : String → List String} {Q : String} {m w : Bool}
open LRC

theorem ChkE.choice {as} (h : ChkE env N Q m w (.choice as)) : ∀ a ∈ as, ChkE env N Q m w a := by
  obtain ⟨hc, d, hd⟩ := h
  cases d with
  | zero => simp [chk] at hd
  | succ d =>
    simp only [chk, List.all_eq_true] at hd
    exact fun a ha => ⟨hc, d, hd a ha⟩

theorem ChkE.seq {ps} (h : ChkE env N Q m w (.seq ps)) : ChkSeq env N Q m w ps := by
  obtain ⟨hc, d, hd⟩ := h
  cases d with
  | zero => simp [chk] at hd
  | succ d => exact ⟨hc, d, by simpa only [chk] using hd⟩

theorem ChkSeq.cons {p ps} (h : ChkSeq env N Q m w (p :: ps)) :
    ChkE env N Q m w p ∧ (ProgE env p ∨ ChkSeq env N Q m w ps) := by
  obtain ⟨hc, d, hd⟩ := h
  simp only [chkSeq, Bool.and_eq_true, Bool.or_eq_true] at hd
  refine ⟨⟨hc, d, hd.1⟩, ?_⟩
  rcases hd.2 with h2 | h2
  · exact Or.inl ⟨d, h2⟩
  · exact Or.inr ⟨hc, d, h2⟩

theorem ChkE.seq1 {p} (h : ChkE env N Q m w (.seq [p])) : ChkE env N Q m w p := h.seq.cons.1

theorem ChkE.group {x} (h : ChkE env N Q m w (.group x)) : ChkE env N Q m w x := by
  obtain ⟨hc, d, hd⟩ := h
  cases d with
  | zero => simp [chk] at hd
  | succ d => exact ⟨hc, d, by simpa only [chk] using hd⟩

theorem ChkE.opt {x} (h : ChkE env N Q m w (.opt x)) : ChkE env N Q m w x := by
  obtain ⟨hc, d, hd⟩ := h
  cases d with
  | zero => simp [chk] at hd
  | succ d => exact ⟨hc, d, by simpa only [chk] using hd⟩

theorem ChkE.closure {x plus} (h : ChkE env N Q m w (.closure x plus)) : ChkE env N Q m w x := by
  obtain ⟨hc, d, hd⟩ := h
  cases d with
  | zero => simp [chk] at hd
  | succ d => exact ⟨hc, d, by simpa only [chk] using hd⟩

theorem ChkE.neg {x} (h : ChkE env N Q m w (.neg x)) : ChkE env N Q m w x := by
  obtain ⟨hc, d, hd⟩ := h
  cases d with
  | zero => simp [chk] at hd
  | succ d => exact ⟨hc, d, by simpa only [chk] using hd⟩

theorem ChkE.pos {x} (h : ChkE env N Q m w (.pos x)) : ChkE env N Q m w x := by
  obtain ⟨hc, d, hd⟩ := h
  cases d with
  | zero => simp [chk] at hd
  | succ d => exact ⟨hc, d, by simpa only [chk] using hd⟩

theorem ChkE.range {lo hi} (h : ChkE env N Q m w (.range lo hi)) (hw : w = true) :
    ChkR env N Q m "Whitespace" := by
  obtain ⟨hc, d, hd⟩ := h
  cases d with
  | zero => simp [chk] at hd
  | succ d =>
    simp only [chk, hw, Bool.not_true, Bool.false_or] at hd
    exact ⟨hc, d, hd⟩

theorem ChkE.lit {ins body} (h : ChkE env N Q m w (.lit ins body)) (hw : w = true) :
    ChkR env N Q m "Whitespace" := by
  obtain ⟨hc, d, hd⟩ := h
  cases d with
  | zero => simp [chk] at hd
  | succ d =>
    simp only [chk, hw, Bool.not_true, Bool.false_or] at hd
    exact ⟨hc, d, hd⟩

theorem ChkE.eoi (h : ChkE env N Q m w .eoi) (hw : w = true) : ChkR env N Q m "Whitespace" := by
  obtain ⟨hc, d, hd⟩ := h
  cases d with
  | zero => simp [chk] at hd
  | succ d =>
    simp only [chk, hw, Bool.not_true, Bool.false_or] at hd
    exact ⟨hc, d, hd⟩

theorem ChkE.incl {r rule} (h : ChkE env N Q m w (.incl r)) (hf : env.g.findRule r = some rule) :
    ChkE env N Q m w rule.definition := by
  obtain ⟨hc, d, hd⟩ := h
  cases d with
  | zero => simp [chk] at hd
  | succ d =>
    simp only [chk, hf] at hd
    exact ⟨hc, d, hd⟩

theorem ChkE.field {nm bx typ} (h : ChkE env N Q m w (.field nm bx typ)) :
    (w = true → ChkR env N Q m "Whitespace") ∧ ChkR env N Q m typ := by
  obtain ⟨hc, d, hd⟩ := h
  cases d with
  | zero => simp [chk] at hd
  | succ d =>
    simp only [chk, Bool.and_eq_true] at hd
    refine ⟨fun hw => ?_, ⟨hc, d, hd.2⟩⟩
    have h1 := hd.1
    simp only [hw, Bool.not_true, Bool.false_or] at h1
    exact ⟨hc, d, h1⟩

/-- a member of the (closed) avoid set, as an entry -/
theorem Closed.entry (hc : Closed env N Q) {name : String} (hmem : (N Q).contains name = true) :
    ∃ d, chkEntry env.g env.settings Q (N Q) d name = true := by
  obtain ⟨d, hd⟩ := hc
  simp only [closed, List.all_eq_true] at hd
  exact ⟨d, hd name (by simpa using hmem)⟩

/-- a reference to a normal rule: it is the head itself (safe mode only), or the rule avoids the
    head, or it is an ordinary rule whose body is walked in the same mode -/
theorem ChkR.rule {name r} (h : ChkR env N Q m name) (hf : env.g.find name = some (.rule r)) :
    (r.name = Q ∧ m = true ∧ r.flags.leftRecursive = true) ∨
    (r.name ≠ Q ∧ ChkE env N Q false (env.settings.skipWhitespace && !r.flags.noSkipWs) r.definition) ∨
    (r.name ≠ Q ∧ r.flags.leftRecursive = false ∧ r.flags.memoize = false ∧
      ChkE env N Q m (env.settings.skipWhitespace && !r.flags.noSkipWs) r.definition) := by
  obtain ⟨hc, d, hd⟩ := h
  simp only [chkRule, hf, Bool.or_eq_true] at hd
  rcases hd with hmem | hd
  · obtain ⟨d', hd'⟩ := hc.entry hmem
    simp only [chkEntry, hf, Bool.and_eq_true, bne_iff_ne, ne_eq] at hd'
    exact Or.inr (Or.inl ⟨hd'.1, hc, d', hd'.2⟩)
  · split at hd
    · rename_i hq
      simp only [Bool.and_eq_true] at hd
      exact Or.inl ⟨eq_of_beq hq, hd.1, hd.2⟩
    · rename_i hq
      simp only [Bool.and_eq_true, Bool.not_eq_true'] at hd
      refine Or.inr (Or.inr ⟨fun he => hq (by simp [he]), hd.1.1, hd.1.2, hc, d, hd.2⟩)

theorem ChkR.charRule {name cr} (h : ChkR env N Q m name)
    (hf : env.g.find name = some (.charRule cr)) :
    (∀ id, CharRulePart.ident id ∈ cr.choices → ChkR env N Q false id) ∨
    (∀ id, CharRulePart.ident id ∈ cr.choices → ChkR env N Q m id) := by
  obtain ⟨hc, d, hd⟩ := h
  simp only [chkRule, hf, Bool.or_eq_true] at hd
  rcases hd with hmem | hd
  · left
    intro id hid
    obtain ⟨d', hd'⟩ := hc.entry hmem
    simp only [chkEntry, hf, List.all_eq_true] at hd'
    have h1 := hd' _ hid
    simp only at h1
    cases d' with
    | zero => simp [chk] at h1
    | succ d' =>
      simp only [chk, Bool.and_eq_true] at h1
      exact ⟨hc, d', h1.2⟩
  · right
    intro id hid
    simp only [List.all_eq_true] at hd
    have h1 := hd _ hid
    simp only at h1
    cases d with
    | zero => simp [chk] at h1
    | succ d =>
      simp only [chk, Bool.and_eq_true] at h1
      exact ⟨hc, d, h1.2⟩

/-- avoid mode never accepts a reference to the head itself -/
theorem ChkR.avoid_ne {name r} (h : ChkR env N Q false name) (hf : env.g.find name = some (.rule r)) :
    r.name ≠ Q ∧ ChkE env N Q false (env.settings.skipWhitespace && !r.flags.noSkipWs) r.definition := by
  rcases h.rule hf with ⟨_, h2, _⟩ | h | ⟨h1, _, _, h4⟩
  · cases h2
  · exact h
  · exact ⟨h1, h4⟩

/-- a reference in safe mode to a `@leftrec` / `@memoize` rule other than the head is a reference in
    avoid mode -/
theorem ChkR.to_avoid {name r} (h : ChkR env N Q true name) (hf : env.g.find name = some (.rule r))
    (hne : r.name ≠ Q) (hlm : r.flags.leftRecursive = true ∨ r.flags.memoize = true) :
    ChkR env N Q false name := by
  obtain ⟨hc, d, hd⟩ := h
  refine ⟨hc, d, ?_⟩
  simp only [chkRule, hf, Bool.or_eq_true] at hd ⊢
  rcases hd with hmem | hd
  · exact Or.inl hmem
  · have hq : (r.name == Q) = false := by simpa using hne
    simp only [hq, Bool.false_eq_true, if_false, Bool.and_eq_true, Bool.not_eq_true'] at hd
    rcases hlm with h | h
    · rw [h] at hd; exact absurd hd.1.1 (by simp)
    · rw [h] at hd; exact absurd hd.1.2 (by simp)

end staticLemmas

/-! ## the invariant -/

/-- the heads that are growing in the model: ghost state -/
abbrev Heads := List (String × Nat)

/-- position predicate: `P Q false` = the construct avoids `Q`, `P Q true` = it is safe for `Q` -/
abbrev PosP := String → Bool → Prop

/-- `P'` holds after `P` (for sub-constructs evaluated at the same offset) -/
def Imp (P P' : PosP) : Prop :=
  (∀ Q, P Q false → P' Q false) ∧ (∀ Q, P Q true → P' Q false ∨ P' Q true)

theorem Imp.of {P P' : PosP} (h : ∀ Q m, P Q m → P' Q m) : Imp P P' :=
  ⟨fun Q hq => h Q false hq, fun Q hq => Or.inr (h Q true hq)⟩

theorem Imp.refl (P : PosP) : Imp P P := Imp.of (fun _ _ h => h)

/-- for every head growing at offset `p` the construct is in avoid or in safe mode -/
def SafeH (H : Heads) (p : Nat) (P : PosP) : Prop :=
  ∀ Q, (Q, p) ∈ H → P Q false ∨ P Q true

theorem SafeH.next {H : Heads} {p p1 : Nat} {P P' : PosP} (h : SafeH H p P)
    (hle : ∀ k ∈ H, k.2 ≤ p) (hp : p ≤ p1) (himp : p1 = p → Imp P P') : SafeH H p1 P' := by
  intro Q hq
  have h1 : p1 ≤ p := hle _ hq
  have he : p1 = p := by omega
  subst he
  rcases h Q hq with h0 | h0
  · exact Or.inl ((himp rfl).1 Q h0)
  · exact (himp rfl).2 Q h0

theorem SafeH.imp {H : Heads} {p : Nat} {P P' : PosP} (h : SafeH H p P) (himp : Imp P P') :
    SafeH H p P' := by
  intro Q hq
  rcases h Q hq with h0 | h0
  · exact Or.inl (himp.1 Q h0)
  · exact himp.2 Q h0

/-- the seed environment `σ` is compatible with the model state: its heads lie at or before `p`;
    a head at `p` (of the model or of `σ`) is avoided by the construct, or the construct is safe for
    it, it is growing in the model and `σ` holds the same seed as the cache -/
def Compat (H : Heads) (σ : Seeds) (g : Global) (p : Nat) (P : PosP) : Prop :=
  (∀ k seed, seedOf σ k = some seed → k.2 ≤ p) ∧
  (∀ Q, ((Q, p) ∈ H ∨ (seedOf σ (Q, p)).isSome = true) →
    P Q false ∨ (P Q true ∧ (Q, p) ∈ H ∧
      ∃ r, g.lookup (Q, p) = some r ∧ seedOf σ (Q, p) = some (abs r)))

theorem Compat.next {H : Heads} {σ : Seeds} {g g1 : Global} {p p1 : Nat} {P P' : PosP}
    (h : Compat H σ g p P) (hk : LR.Keeps g g1) (hle : ∀ k ∈ H, k.2 ≤ p) (hp : p ≤ p1)
    (himp : p1 = p → Imp P P') : Compat H σ g1 p1 P' := by
  refine ⟨fun k seed hs => Nat.le_trans (h.1 k seed hs) hp, fun Q hq => ?_⟩
  have he : p1 = p := by
    rcases hq with hq | hq
    · have := hle _ hq; simp only at this; omega
    · cases hs : seedOf σ (Q, p1) with
      | none => simp [hs] at hq
      | some seed => have := h.1 _ _ hs; simp only at this; omega
  subst he
  rcases h.2 Q hq with h0 | ⟨h0, hm, r, hl, hs⟩
  · exact Or.inl ((himp rfl).1 Q h0)
  · rcases (himp rfl).2 Q h0 with h1 | h1
    · exact Or.inl h1
    · exact Or.inr ⟨h1, hm, r, hk _ _ hl, hs⟩

theorem Compat.imp {H : Heads} {σ : Seeds} {g : Global} {p : Nat} {P P' : PosP}
    (h : Compat H σ g p P) (hle : ∀ k ∈ H, k.2 ≤ p) (himp : Imp P P') : Compat H σ g p P' :=
  h.next (LR.Keeps.refl g) hle (Nat.le_refl p) (fun _ => himp)

section inv
variable (env : Env) (u : Nat) (inp : List UInt8) (N : String → List String)

/-- the cache entry is the reference answer under every seed environment it cannot depend on -/
def Valid (k : String × Nat) (r : Res Val) : Prop :=
  ∀ σ : Seeds,
    (∀ Q q seed, seedOf σ (Q, q) = some seed → q < k.2 ∨ (q = k.2 ∧ ChkR env N Q false k.1)) →
    Evt (fun m => (SpecLR.eval env u m σ).rule k.1 ⟨inp.drop k.2, k.2, none⟩) (abs r)

structure GoodLR (H : Heads) (g : Global) : Prop where
  uctx : g.uctx = u
  heads : ∀ k ∈ H, ∃ r, g.lookup k = some r
  valid : ∀ k r, g.lookup k = some r → k ∉ H → Valid env u inp N k r
  wf : ∀ k v s', g.lookup k = some (.ok v s') → WfSt inp s'

structure PreLR (H : Heads) (s : St) (g : Global) : Prop where
  wf : WfSt inp s
  within : LR.Within inp.length s
  good : GoodLR env u inp N H g
  cw : LR.CacheW inp.length g
  le : ∀ k ∈ H, k.2 ≤ s.off

/-- what every lemma proves: the reference answer under every compatible seed environment; the
    invariant afterwards (unless the result is a panic: the parse is over); the final cursor -/
def PostLR (H : Heads) (C : Seeds → Prop) {α} (F : Seeds → Nat → SOut α) (r : Res α) (g' : Global) :
    Prop :=
  (∀ σ, C σ → Evt (F σ) (abs r)) ∧ ((∀ m, r ≠ .panic m) → GoodLR env u inp N H g') ∧
    (∀ v s', r = .ok v s' → WfSt inp s')

/-- … together with what `LR.RInv` gives -/
structure Full (H : Heads) (s : St) (g : Global) (C : Seeds → Prop) {α} (F : Seeds → Nat → SOut α)
    (r : Res α) (g' : Global) : Prop where
  evt : ∀ σ, C σ → Evt (F σ) (abs r)
  keeps : LR.Keeps g g'
  cw : LR.CacheW inp.length g'
  good : (∀ m, r ≠ .panic m) → GoodLR env u inp N H g'
  ok : ∀ v s', r = .ok v s' → PreLR env u inp N H s' g' ∧ s.off ≤ s'.off

end inv

section invLemmas
variable {env : Env} {u : Nat} {inp : List UInt8} {N : String → List String}

theorem GoodLR.of_cache {H : Heads} {g g' : Global} (h : GoodLR env u inp N H g)
    (hc : g'.cache = g.cache) (hu : g'.uctx = g.uctx) : GoodLR env u inp N H g' := by
  have hl : ∀ k, g'.lookup k = g.lookup k := fun k => LR.lookup_of_cache_eq hc k
  exact ⟨hu ▸ h.uctx, fun k hk => by rw [hl]; exact h.heads k hk,
    fun k r hr => h.valid k r (by rw [← hl]; exact hr), fun k v s' hr => h.wf k v s' (by rw [← hl]; exact hr)⟩

theorem GoodLR.emit {H : Heads} {g : Global} (h : GoodLR env u inp N H g) (e : Ev) :
    GoodLR env u inp N H (g.emit e) := h.of_cache rfl rfl

theorem PreLR.emit {H : Heads} {s : St} {g : Global} (h : PreLR env u inp N H s g) (e : Ev) :
    PreLR env u inp N H s (g.emit e) :=
  ⟨h.wf, h.within, h.good.emit e, h.cw.of_cache rfl, h.le⟩

theorem PreLR.of_cache {H : Heads} {s : St} {g g' : Global} (h : PreLR env u inp N H s g)
    (hc : g'.cache = g.cache) (hu : g'.uctx = g.uctx) : PreLR env u inp N H s g' :=
  ⟨h.wf, h.within, h.good.of_cache hc hu, h.cw.of_cache hc, h.le⟩

theorem PreLR.recErr {H : Heads} {s : St} {g g' : Global} (h : PreLR env u inp N H s g)
    (hg : GoodLR env u inp N H g') (hc : LR.CacheW inp.length g') (e : PErr) :
    PreLR env u inp N H (s.recordError e) g' :=
  ⟨wf_recordError.mpr h.wf, LR.within_recordError.mpr h.within, hg, hc,
    fun k hk => by rw [recordError_off]; exact h.le k hk⟩

theorem PostLR.mono {H : Heads} {C C' : Seeds → Prop} {α} {F : Seeds → Nat → SOut α} {r : Res α} {g'}
    (h : PostLR env u inp N H C' F r g') (hc : ∀ σ, C σ → C' σ) : PostLR env u inp N H C F r g' :=
  ⟨fun σ hσ => h.1 σ (hc σ hσ), h.2⟩

theorem PostLR.of_eq {H : Heads} {C : Seeds → Prop} {α} {F F' : Seeds → Nat → SOut α} {r : Res α} {g'}
    (h : PostLR env u inp N H C F r g') (he : ∀ σ m, F σ m = F' σ m) : PostLR env u inp N H C F' r g' :=
  ⟨fun σ hσ => (h.1 σ hσ).of_eq (he σ), h.2⟩

theorem PostLR.const {H : Heads} {C : Seeds → Prop} {α} {F : Seeds → Nat → SOut α} {r : Res α} {g}
    (hf : ∀ σ m, F σ m = some (abs r)) (hg : GoodLR env u inp N H g)
    (hw : ∀ v s', r = .ok v s' → WfSt inp s') : PostLR env u inp N H C F r g :=
  ⟨fun σ _ => ⟨0, fun m _ => hf σ m⟩, fun _ => hg, hw⟩

theorem PostLR.panic {H : Heads} {C : Seeds → Prop} {α} {F : Seeds → Nat → SOut α} {msg : String} {g}
    (hf : ∀ σ m, F σ m = some (.panic msg)) : PostLR env u inp N H C F (.panic msg : Res α) g :=
  ⟨fun σ _ => ⟨0, fun m _ => hf σ m⟩, fun h => absurd rfl (h msg), fun _ _ h => by cases h⟩

theorem PostLR.succ {H : Heads} {C : Seeds → Prop} {α} {F : Seeds → Nat → SOut α} {r : Res α} {g'}
    (h : PostLR env u inp N H C (fun σ m => F σ (m + 1)) r g') : PostLR env u inp N H C F r g' :=
  ⟨fun σ hσ => (h.1 σ hσ).succ, h.2⟩

/-- upgrade with the facts of `LR.RInv` -/
theorem Full.of {H : Heads} {s : St} {g : Global} {C : Seeds → Prop} {α} {F : Seeds → Nat → SOut α}
    {r : Res α} {g' : Global} (hpre : PreLR env u inp N H s g) (hlr : LR.Post inp.length s g r g')
    (h : PostLR env u inp N H C F r g') : Full env u inp N H s g C F r g' := by
  obtain ⟨hcw, hfwd⟩ := hlr.2 hpre.within hpre.cw
  refine ⟨h.1, hlr.1, hcw, h.2.1, fun v s' hr => ?_⟩
  obtain ⟨ho, hwi⟩ := hfwd v s' hr
  refine ⟨⟨h.2.2 v s' hr, hwi, h.2.1 (fun m hm => by rw [hr] at hm; cases hm), hcw, ?_⟩, ho⟩
  intro k hk
  exact Nat.le_trans (hpre.le k hk) ho

theorem Full.post {H : Heads} {s : St} {g : Global} {C : Seeds → Prop} {α} {F : Seeds → Nat → SOut α}
    {r : Res α} {g' : Global} (h : Full env u inp N H s g C F r g') : PostLR env u inp N H C F r g' :=
  ⟨h.evt, h.good, fun v s' hr => (h.ok v s' hr).1.wf⟩

theorem Full.good_err {H : Heads} {s : St} {g : Global} {C : Seeds → Prop} {α} {F : Seeds → Nat → SOut α}
    {e : PErr} {g' : Global} (h : Full env u inp N H s g C F (.err e : Res α) g') :
    GoodLR env u inp N H g' := h.good (fun m hm => by cases hm)

end invLemmas

/-! ## the refinement statement -/

section ref
variable (env : Env) (u : Nat) (inp : List UInt8) (N : String → List String)

structure RefLR (rec : Rec) : Prop where
  rinv : LR.RInv inp.length rec
  prog : LRC.ProgSound env inp.length rec
  expr : ∀ H ctx e s g r g', rec.expr ctx e s g = some (r, g') → PreLR env u inp N H s g →
    SafeH H s.off (fun Q m => ChkE env N Q m ctx.skipWs e) →
    PostLR env u inp N H (fun σ => Compat H σ g s.off (fun Q m => ChkE env N Q m ctx.skipWs e))
      (fun σ m => (SpecLR.eval env u m σ).expr ctx e (clr s)) r g'
  rule : ∀ H name s g r g', rec.rule name s g = some (r, g') → PreLR env u inp N H s g →
    SafeH H s.off (fun Q m => ChkR env N Q m name) →
    PostLR env u inp N H (fun σ => Compat H σ g s.off (fun Q m => ChkR env N Q m name))
      (fun σ m => (SpecLR.eval env u m σ).rule name (clr s)) r g'

end ref

section exprLevel
variable {env : Env} {u : Nat} {inp : List UInt8} {N : String → List String}

theorem Full.monoC {H : Heads} {s : St} {g : Global} {C C' : Seeds → Prop} {α}
    {F : Seeds → Nat → SOut α} {r : Res α} {g' : Global} (h : Full env u inp N H s g C' F r g')
    (hc : ∀ σ, C σ → C' σ) : Full env u inp N H s g C F r g' :=
  ⟨fun σ hσ => h.evt σ (hc σ hσ), h.keeps, h.cw, h.good, h.ok⟩

theorem RefLR.exprF {rec : Rec} (hrec : RefLR env u inp N rec) {H ctx e s g r g'}
    (hx : rec.expr ctx e s g = some (r, g')) (hpre : PreLR env u inp N H s g)
    (hsafe : SafeH H s.off (fun Q m => ChkE env N Q m ctx.skipWs e)) :
    Full env u inp N H s g (fun σ => Compat H σ g s.off (fun Q m => ChkE env N Q m ctx.skipWs e))
      (fun σ m => (SpecLR.eval env u m σ).expr ctx e (clr s)) r g' :=
  Full.of hpre (hrec.rinv.expr _ _ _ _ _ _ hx) (hrec.expr _ _ _ _ _ _ _ hx hpre hsafe)

theorem RefLR.ruleF {rec : Rec} (hrec : RefLR env u inp N rec) {H name s g r g'}
    (hx : rec.rule name s g = some (r, g')) (hpre : PreLR env u inp N H s g)
    (hsafe : SafeH H s.off (fun Q m => ChkR env N Q m name)) :
    Full env u inp N H s g (fun σ => Compat H σ g s.off (fun Q m => ChkR env N Q m name))
      (fun σ m => (SpecLR.eval env u m σ).rule name (clr s)) r g' :=
  Full.of hpre (hrec.rinv.rule _ _ _ _ _ hx) (hrec.rule _ _ _ _ _ _ hx hpre hsafe)

/-- sequencing: the implementation's `bindR` refines the reference `bindS` -/
theorem bindR_postLR {α β} {H : Heads} {s : St} {g : Global} {C : Seeds → Prop} {x : Out α}
    {k : α → St → Global → Out β} {r : Res β} {g' : Global}
    {fx : Seeds → Nat → SOut α} {fk : Seeds → Nat → α → St → SOut β}
    (h : bindR x k = some (r, g'))
    (hx : ∀ rx gx, x = some (rx, gx) → Full env u inp N H s g C fx rx gx)
    (hk : ∀ v s1 g1, x = some (.ok v s1, g1) → PreLR env u inp N H s1 g1 → s.off ≤ s1.off →
      LR.Keeps g g1 → k v s1 g1 = some (r, g') →
      PostLR env u inp N H C (fun σ m => fk σ m v (clr s1)) r g') :
    PostLR env u inp N H C (fun σ m => bindS (fx σ m) (fk σ m)) r g' := by
  cases x with
  | none => simp [bindR] at h
  | some a =>
    obtain ⟨rx, gx⟩ := a
    have hf := hx rx gx rfl
    cases rx with
    | ok v s1 =>
      simp only [bindR] at h
      obtain ⟨hp1, ho⟩ := hf.ok v s1 rfl
      have hpost := hk v s1 gx rfl hp1 ho hf.keeps h
      refine ⟨fun σ hσ => ?_, hpost.2⟩
      obtain ⟨m0, h0⟩ := hf.evt σ hσ
      obtain ⟨m1, h1⟩ := hpost.1 σ hσ
      refine ⟨max m0 m1, fun m hm => ?_⟩
      have e0 := h0 m (by omega)
      have e1 := h1 m (by omega)
      simp only [abs] at e0
      simp only [e0, bindS]
      exact e1
    | err e =>
      simp only [bindR, Option.some.injEq, Prod.mk.injEq] at h
      obtain ⟨rfl, rfl⟩ := h
      refine ⟨fun σ hσ => ?_, fun _ => hf.good_err, fun _ _ h => by cases h⟩
      obtain ⟨m0, h0⟩ := hf.evt σ hσ
      refine ⟨m0, fun m hm => ?_⟩
      have e0 := h0 m hm
      simp only [abs] at e0
      simp only [e0, bindS, abs]
    | panic msg =>
      simp only [bindR, Option.some.injEq, Prod.mk.injEq] at h
      obtain ⟨rfl, rfl⟩ := h
      refine ⟨fun σ hσ => ?_, fun h => absurd rfl (h msg), fun _ _ h => by cases h⟩
      obtain ⟨m0, h0⟩ := hf.evt σ hσ
      refine ⟨m0, fun m hm => ?_⟩
      have e0 := h0 m hm
      simp only [abs] at e0
      simp only [e0, bindS, abs]

/-- `generate_skip_ws` -/
theorem withSkipWs_postLR {α} {rec : Rec} (hrec : RefLR env u inp N rec) {ctx : Ctx} {H : Heads}
    {s : St} {g : Global} {C : Seeds → Prop}
    {k : St → Global → Out α} {fk : Seeds → Nat → St → SOut α} {r : Res α} {g' : Global}
    (h : Peg.withSkipWs rec ctx s g k = some (r, g')) (hpre : PreLR env u inp N H s g)
    (hsafe : ctx.skipWs = true → SafeH H s.off (fun Q m => ChkR env N Q m "Whitespace"))
    (hC : ctx.skipWs = true → ∀ σ, C σ → Compat H σ g s.off (fun Q m => ChkR env N Q m "Whitespace"))
    (hk : ∀ s1 g1, PreLR env u inp N H s1 g1 → s.off ≤ s1.off → LR.Keeps g g1 →
      k s1 g1 = some (r, g') → PostLR env u inp N H C (fun σ m => fk σ m (clr s1)) r g') :
    PostLR env u inp N H C
      (fun σ m => Spec.withSkipWs (SpecLR.eval env u m σ) ctx (clr s) (fk σ m)) r g' := by
  unfold Peg.withSkipWs at h
  unfold Spec.withSkipWs
  split at h
  · rename_i hs
    simp only [hs, if_true]
    exact bindR_postLR (fk := fun σ m _ s' => fk σ m s') h
      (fun rx gx hx => (hrec.ruleF hx hpre (hsafe hs)).monoC (hC hs))
      (fun v s1 g1 _ hp1 ho hkp h => hk s1 g1 hp1 ho hkp h)
  · rename_i hs
    simp only [hs]
    exact hk _ _ hpre (Nat.le_refl _) (LR.Keeps.refl g) h

theorem evalSeq_postLR {rec : Rec} (hrec : RefLR env u inp N rec) {ctx : Ctx} {H : Heads} :
    ∀ ps seen acc s g r g', evalSeq env rec ctx ps seen acc s g = some (r, g') →
      PreLR env u inp N H s g → SafeH H s.off (fun Q m => ChkSeq env N Q m ctx.skipWs ps) →
      PostLR env u inp N H (fun σ => Compat H σ g s.off (fun Q m => ChkSeq env N Q m ctx.skipWs ps))
        (fun σ m => Spec.evalSeq env (SpecLR.eval env u m σ) ctx ps seen acc (clr s)) r g' := by
  intro ps
  induction ps with
  | nil =>
    intro seen acc s g r g' h hpre hsafe
    simp only [evalSeq, Option.some.injEq, Prod.mk.injEq] at h
    obtain ⟨rfl, rfl⟩ := h
    exact PostLR.const (fun _ _ => rfl) hpre.good (fun v s' h => by cases h; exact hpre.wf)
  | cons p ps ih =>
    intro seen acc s g r g' h hpre hsafe
    simp only [evalSeq] at h
    simp only [Spec.evalSeq]
    have himp1 : Imp (fun Q m => ChkSeq env N Q m ctx.skipWs (p :: ps))
        (fun Q m => ChkE env N Q m ctx.skipWs p) := Imp.of (fun Q m hq => hq.cons.1)
    refine bindR_postLR h
      (fun rx gx hx => (hrec.exprF hx hpre (hsafe.imp himp1)).monoC
        (fun σ hσ => hσ.imp hpre.le himp1)) ?_
    intro v s1 g1 hx hp1 ho hkp h
    -- if the part did not consume input it is not `prog`: the rest is constrained
    have himp2 : s1.off = s.off → Imp (fun Q m => ChkSeq env N Q m ctx.skipWs (p :: ps))
        (fun Q m => ChkSeq env N Q m ctx.skipWs ps) := by
      intro he
      refine Imp.of (fun Q m hq => ?_)
      rcases hq.cons.2 with hpr | hq2
      · have := hrec.prog.expr _ _ _ _ _ _ _ hpr hpre.within hpre.cw hx
        omega
      · exact hq2
    split at h
    · rename_i hm
      simp only [Option.some.injEq, Prod.mk.injEq] at h
      obtain ⟨rfl, rfl⟩ := h
      exact PostLR.panic (fun _ _ => by simp only [hm])
    · rename_i hm
      simp only [hm]
      exact (ih _ _ _ _ _ _ h hp1 (hsafe.next hpre.le ho himp2)).mono
        (fun σ hσ => hσ.next hkp hpre.le ho himp2)

/-- position predicate of a list of alternatives -/
abbrev AltsP (env : Env) (N : String → List String) (w : Bool) (as : List Expr) : PosP :=
  fun Q m => ∀ a ∈ as, ChkE env N Q m w a

theorem evalAlts_postLR {rec : Rec} (hrec : RefLR env u inp N rec) {ctx : Ctx} {fields} {H : Heads} :
    ∀ as s g r g', evalAlts env rec ctx fields as s g = some (r, g') →
      PreLR env u inp N H s g → SafeH H s.off (AltsP env N ctx.skipWs as) →
      PostLR env u inp N H (fun σ => Compat H σ g s.off (AltsP env N ctx.skipWs as))
        (fun σ m => Spec.evalAlts env (SpecLR.eval env u m σ) ctx fields as (clr s)) r g' := by
  intro as
  induction as with
  | nil =>
    intro s g r g' h hpre hsafe
    simp only [evalAlts, Option.some.injEq, Prod.mk.injEq] at h
    obtain ⟨rfl, rfl⟩ := h
    exact PostLR.const (fun _ _ => rfl) hpre.good (fun v s' h => by cases h)
  | cons a as ih =>
    intro s g r g' h hpre hsafe
    simp only [evalAlts] at h
    have himp1 : Imp (AltsP env N ctx.skipWs (a :: as)) (fun Q m => ChkE env N Q m ctx.skipWs a) :=
      Imp.of (fun Q m hq => hq a (List.mem_cons_self ..))
    have himp2 : Imp (AltsP env N ctx.skipWs (a :: as)) (AltsP env N ctx.skipWs as) :=
      Imp.of (fun Q m hq a' ha' => hq a' (List.mem_cons_of_mem _ ha'))
    split at h
    · cases h
    · rename_i r0 s0 g0 hx
      have hf := hrec.exprF hx hpre (hsafe.imp himp1)
      split at h
      · rename_i p hp
        simp only [Option.some.injEq, Prod.mk.injEq] at h
        obtain ⟨rfl, rfl⟩ := h
        refine ⟨fun σ hσ => ?_, fun _ => (hf.ok _ _ rfl).1.good,
          fun v s' h => by cases h; exact (hf.ok _ _ rfl).1.wf⟩
        obtain ⟨m0, h0⟩ := hf.evt σ (hσ.imp hpre.le himp1)
        refine ⟨m0, fun m hm => ?_⟩
        have e0 := h0 m hm
        simp only [abs] at e0
        simp only [Spec.evalAlts, e0, hp, abs]
      · rename_i msg hp
        simp only [Option.some.injEq, Prod.mk.injEq] at h
        obtain ⟨rfl, rfl⟩ := h
        refine ⟨fun σ hσ => ?_, fun h => absurd rfl (h _), fun v s' h => by cases h⟩
        obtain ⟨m0, h0⟩ := hf.evt σ (hσ.imp hpre.le himp1)
        refine ⟨m0, fun m hm => ?_⟩
        have e0 := h0 m hm
        simp only [abs] at e0
        simp only [Spec.evalAlts, e0, hp, abs]
    · rename_i e0 g0 hx
      have hf := hrec.exprF hx hpre (hsafe.imp himp1)
      have hpre' := hpre.recErr hf.good_err hf.cw e0
      have hoff : (s.recordError e0).off = s.off := recordError_off s e0
      have hpost := ih _ _ _ _ h hpre' (by rw [hoff]; exact hsafe.imp himp2)
      refine ⟨fun σ hσ => ?_, hpost.2⟩
      obtain ⟨m0, h0⟩ := hf.evt σ (hσ.imp hpre.le himp1)
      obtain ⟨m1, h1⟩ := hpost.1 σ (by
        rw [hoff]
        exact hσ.next hf.keeps hpre.le (Nat.le_refl _) (fun _ => himp2))
      refine ⟨max m0 m1, fun m hm => ?_⟩
      have e0 := h0 m (by omega)
      have e1 := h1 m (by omega)
      simp only [abs] at e0
      simp only [clr_recordError] at e1
      simp only [Spec.evalAlts, e0]
      exact e1
    · rename_i msg g0 hx
      have hf := hrec.exprF hx hpre (hsafe.imp himp1)
      simp only [Option.some.injEq, Prod.mk.injEq] at h
      obtain ⟨rfl, rfl⟩ := h
      refine ⟨fun σ hσ => ?_, fun h => absurd rfl (h _), fun v s' h => by cases h⟩
      obtain ⟨m0, h0⟩ := hf.evt σ (hσ.imp hpre.le himp1)
      refine ⟨m0, fun m hm => ?_⟩
      have e0 := h0 m hm
      simp only [abs] at e0
      simp only [Spec.evalAlts, e0, abs]

/-- the closure loop: stable in both the recursion fuel and the loop counter of the reference -/
theorem evalLoop_postLR {body : St → Global → Out Parsed} {sbody : Seeds → Nat → St → SOut Parsed}
    {fields} {H : Heads} {P : PosP}
    (hbody : ∀ s g r g', body s g = some (r, g') → PreLR env u inp N H s g → SafeH H s.off P →
      Full env u inp N H s g (fun σ => Compat H σ g s.off P) (fun σ m => sbody σ m (clr s)) r g') :
    ∀ k iters acc s g r g', evalLoop body fields k iters acc s g = some (r, g') →
      PreLR env u inp N H s g → SafeH H s.off P →
      (∀ σ, Compat H σ g s.off P → ∃ m0, ∀ m c, m0 ≤ m → m0 ≤ c →
        Spec.evalLoop (sbody σ m) fields c iters acc (clr s) = some (abs r)) ∧
      ((∀ m, r ≠ .panic m) → GoodLR env u inp N H g') ∧ (∀ v s', r = .ok v s' → WfSt inp s') := by
  intro k
  induction k with
  | zero => intro iters acc s g r g' h; simp [evalLoop] at h
  | succ k ih =>
    intro iters acc s g r g' h hpre hsafe
    simp only [evalLoop] at h
    split at h
    · cases h
    · rename_i r0 s0 g0 hx
      have hf := hbody _ _ _ _ hx hpre hsafe
      obtain ⟨hp0, ho⟩ := hf.ok _ _ rfl
      split at h
      · rename_i acc' hacc
        obtain ⟨h1', hg1, hw1⟩ := ih _ _ _ _ _ _ h hp0 (hsafe.next hpre.le ho (fun _ => Imp.refl P))
        refine ⟨fun σ hσ => ?_, hg1, hw1⟩
        obtain ⟨m0, h0⟩ := hf.evt σ hσ
        obtain ⟨m1, h1⟩ := h1' σ (hσ.next hf.keeps hpre.le ho (fun _ => Imp.refl P))
        refine ⟨max m0 m1 + 1, fun m c hm hc => ?_⟩
        obtain ⟨c', rfl⟩ : ∃ c', c = c' + 1 := ⟨c - 1, by omega⟩
        have e0 := h0 m (by omega)
        have e1 := h1 m c' (by omega) (by omega)
        simp only [abs] at e0
        simp only [Spec.evalLoop, e0, hacc]
        exact e1
      · rename_i msg hacc
        simp only [Option.some.injEq, Prod.mk.injEq] at h
        obtain ⟨rfl, rfl⟩ := h
        refine ⟨fun σ hσ => ?_, fun h => absurd rfl (h _), fun v s' h => by cases h⟩
        obtain ⟨m0, h0⟩ := hf.evt σ hσ
        refine ⟨m0 + 1, fun m c hm hc => ?_⟩
        obtain ⟨c', rfl⟩ : ∃ c', c = c' + 1 := ⟨c - 1, by omega⟩
        have e0 := h0 m (by omega)
        simp only [abs] at e0
        simp only [Spec.evalLoop, e0, hacc, abs]
    · rename_i e0 g0 hx
      have hf := hbody _ _ _ _ hx hpre hsafe
      simp only [Option.some.injEq, Prod.mk.injEq] at h
      obtain ⟨rfl, rfl⟩ := h
      refine ⟨fun σ hσ => ?_, fun _ => hf.good_err,
        fun v s' h => by cases h; exact wf_recordError.mpr hpre.wf⟩
      obtain ⟨m0, h0⟩ := hf.evt σ hσ
      refine ⟨m0 + 1, fun m c hm hc => ?_⟩
      obtain ⟨c', rfl⟩ : ∃ c', c = c' + 1 := ⟨c - 1, by omega⟩
      have e0 := h0 m (by omega)
      simp only [abs] at e0
      simp only [Spec.evalLoop, e0, abs, clr_recordError]
    · rename_i msg g0 hx
      have hf := hbody _ _ _ _ hx hpre hsafe
      simp only [Option.some.injEq, Prod.mk.injEq] at h
      obtain ⟨rfl, rfl⟩ := h
      refine ⟨fun σ hσ => ?_, fun h => absurd rfl (h _), fun v s' h => by cases h⟩
      obtain ⟨m0, h0⟩ := hf.evt σ hσ
      refine ⟨m0 + 1, fun m c hm hc => ?_⟩
      obtain ⟨c', rfl⟩ : ∃ c', c = c' + 1 := ⟨c - 1, by omega⟩
      have e0 := h0 m (by omega)
      simp only [abs] at e0
      simp only [Spec.evalLoop, e0, abs]

/-- a terminal matcher under `generate_skip_ws` -/
theorem terminal_postLR {α} {rec : Rec} (hrec : RefLR env u inp N rec) {ctx : Ctx} {H : Heads}
    {s : St} {g : Global} {C : Seeds → Prop}
    {mt : St → Res α} {r : Res Parsed} {g' : Global}
    (habs : ∀ s, abs (mt (clr s)) = abs (mt s))
    (hwf : ∀ s v s', WfSt inp s → mt s = .ok v s' → WfSt inp s')
    (h : Peg.withSkipWs rec ctx s g (fun s g => some ((mt s).map (fun _ => ([] : Parsed)), g)) = some (r, g'))
    (hpre : PreLR env u inp N H s g)
    (hsafe : ctx.skipWs = true → SafeH H s.off (fun Q m => ChkR env N Q m "Whitespace"))
    (hC : ctx.skipWs = true → ∀ σ, C σ → Compat H σ g s.off (fun Q m => ChkR env N Q m "Whitespace")) :
    PostLR env u inp N H C (fun σ m => Spec.withSkipWs (SpecLR.eval env u m σ) ctx (clr s)
      (fun s => some (abs ((mt s).map (fun _ => ([] : Parsed)))))) r g' := by
  refine withSkipWs_postLR (fk := fun _ _ s => some (abs ((mt s).map (fun _ => ([] : Parsed)))))
    hrec h hpre hsafe hC ?_
  intro s1 g1 hp1 _ _ h
  simp only [Option.some.injEq, Prod.mk.injEq] at h
  obtain ⟨rfl, rfl⟩ := h
  refine PostLR.const (fun _ _ => ?_) hp1.good ?_
  · simp only [abs_map, habs]
  · intro v s' h
    obtain ⟨v0, hv0⟩ := map_ok h
    exact hwf _ _ _ hp1.wf hv0

/-- a sub-expression evaluated at the same cursor, at a position that follows from the current one -/
theorem RefLR.expr_imp {rec : Rec} (hrec : RefLR env u inp N rec) {H : Heads} {ctx : Ctx} {e : Expr}
    {s g r g'} {P : PosP} (himp : Imp P (fun Q m => ChkE env N Q m ctx.skipWs e))
    (hx : rec.expr ctx e s g = some (r, g')) (hpre : PreLR env u inp N H s g)
    (hsafe : SafeH H s.off P) :
    Full env u inp N H s g (fun σ => Compat H σ g s.off P)
      (fun σ m => (SpecLR.eval env u m σ).expr ctx e (clr s)) r g' :=
  (hrec.exprF hx hpre (hsafe.imp himp)).monoC (fun _ hσ => hσ.imp hpre.le himp)

theorem stepExpr_postLR {rec : Rec} (hrec : RefLR env u inp N rec) (n : Nat) {H : Heads}
    {ctx e s g r g'} (h : stepExpr env rec n ctx e s g = some (r, g'))
    (hpre : PreLR env u inp N H s g)
    (hsafe : SafeH H s.off (fun Q m => ChkE env N Q m ctx.skipWs e)) :
    PostLR env u inp N H (fun σ => Compat H σ g s.off (fun Q m => ChkE env N Q m ctx.skipWs e))
      (fun σ m => Spec.stepExpr env (SpecLR.eval env u m σ) m ctx e (clr s)) r g' := by
  cases e with
  | choice alts =>
    match alts with
    | [] =>
      simp only [stepExpr, Option.some.injEq, Prod.mk.injEq] at h
      obtain ⟨rfl, rfl⟩ := h
      exact PostLR.panic (fun _ _ => rfl)
    | [a] =>
      simp only [stepExpr] at h
      exact (hrec.expr_imp (Imp.of fun Q m hq => hq.choice a (List.mem_cons_self ..)) h hpre hsafe).post
    | a :: b :: rest =>
      simp only [stepExpr] at h
      have himp : Imp (fun Q m => ChkE env N Q m ctx.skipWs (.choice (a :: b :: rest)))
          (AltsP env N ctx.skipWs (a :: b :: rest)) := Imp.of fun Q m hq => hq.choice
      exact (evalAlts_postLR hrec _ _ _ _ _ h hpre (hsafe.imp himp)).mono
        (fun σ hσ => hσ.imp hpre.le himp)
  | seq parts =>
    match parts with
    | [] =>
      simp only [stepExpr, Option.some.injEq, Prod.mk.injEq] at h
      obtain ⟨rfl, rfl⟩ := h
      exact PostLR.const (fun _ _ => rfl) hpre.good (fun v s' h => by cases h; exact hpre.wf)
    | [a] =>
      simp only [stepExpr] at h
      exact (hrec.expr_imp (Imp.of fun Q m hq => hq.seq1) h hpre hsafe).post
    | a :: b :: rest =>
      simp only [stepExpr] at h
      simp only [Spec.stepExpr]
      have himp : Imp (fun Q m => ChkE env N Q m ctx.skipWs (.seq (a :: b :: rest)))
          (fun Q m => ChkSeq env N Q m ctx.skipWs (a :: b :: rest)) := Imp.of fun Q m hq => hq.seq
      refine bindR_postLR (fk := fun _ _ x s' =>
          match project (filterRuleFields ctx.ruleFields (ownFields env (.seq (a :: b :: rest)))) x.2 with
          | .ok p => some (.ok p s')
          | .error m => some (.panic ("codegen: " ++ m))) h
        (fun rx gx hx => (Full.of hpre (LR.evalSeq_inv hrec.rinv _ _ _ _ _ _ _ hx)
          (evalSeq_postLR hrec _ _ _ _ _ _ _ hx hpre (hsafe.imp himp))).monoC
            (fun σ (hσ : Compat H σ g s.off _) => hσ.imp hpre.le himp)) ?_
      intro v s1 g1 _ hp1 _ _ h
      obtain ⟨seen, acc⟩ := v
      simp only at h
      split at h
      · rename_i p hp
        simp only [Option.some.injEq, Prod.mk.injEq] at h
        obtain ⟨rfl, rfl⟩ := h
        exact PostLR.const (fun _ _ => by simp only [hp, abs]) hp1.good
          (fun v s' h => by cases h; exact hp1.wf)
      · rename_i msg hp
        simp only [Option.some.injEq, Prod.mk.injEq] at h
        obtain ⟨rfl, rfl⟩ := h
        exact PostLR.panic (fun _ _ => by simp only [hp])
  | group b =>
    simp only [stepExpr] at h
    exact (hrec.expr_imp (Imp.of fun Q m hq => hq.group) h hpre hsafe).post
  | opt b =>
    simp only [stepExpr] at h
    have himp : Imp (fun Q m => ChkE env N Q m ctx.skipWs (.opt b))
        (fun Q m => ChkE env N Q m ctx.skipWs b) := Imp.of fun Q m hq => hq.opt
    split at h
    · cases h
    · rename_i r0 s0 g0 hx
      have hf := hrec.expr_imp himp hx hpre hsafe
      simp only [Option.some.injEq, Prod.mk.injEq] at h
      obtain ⟨rfl, rfl⟩ := h
      refine ⟨fun σ hσ => ?_, hf.good, fun v s' h => (hf.ok v s' h).1.wf⟩
      obtain ⟨m0, h0⟩ := hf.evt σ hσ
      refine ⟨m0, fun m hm => ?_⟩
      have e0 := h0 m hm
      simp only [abs] at e0
      simp only [Spec.stepExpr, e0, abs]
    · rename_i e0 g0 hx
      have hf := hrec.expr_imp himp hx hpre hsafe
      split at h
      · rename_i p hp
        simp only [Option.some.injEq, Prod.mk.injEq] at h
        obtain ⟨rfl, rfl⟩ := h
        refine ⟨fun σ hσ => ?_, fun _ => hf.good_err,
          fun v s' h => by cases h; exact wf_recordError.mpr hpre.wf⟩
        obtain ⟨m0, h0⟩ := hf.evt σ hσ
        refine ⟨m0, fun m hm => ?_⟩
        have e0 := h0 m hm
        simp only [abs] at e0
        simp only [Spec.stepExpr, e0, hp, abs, clr_recordError]
      · rename_i msg hp
        simp only [Option.some.injEq, Prod.mk.injEq] at h
        obtain ⟨rfl, rfl⟩ := h
        refine ⟨fun σ hσ => ?_, fun h => absurd rfl (h _), fun v s' h => by cases h⟩
        obtain ⟨m0, h0⟩ := hf.evt σ hσ
        refine ⟨m0, fun m hm => ?_⟩
        have e0 := h0 m hm
        simp only [abs] at e0
        simp only [Spec.stepExpr, e0, hp, abs]
    · rename_i msg g0 hx
      have hf := hrec.expr_imp himp hx hpre hsafe
      simp only [Option.some.injEq, Prod.mk.injEq] at h
      obtain ⟨rfl, rfl⟩ := h
      refine ⟨fun σ hσ => ?_, fun h => absurd rfl (h _), fun v s' h => by cases h⟩
      obtain ⟨m0, h0⟩ := hf.evt σ hσ
      refine ⟨m0, fun m hm => ?_⟩
      have e0 := h0 m hm
      simp only [abs] at e0
      simp only [Spec.stepExpr, e0, abs]
  | closure b plus =>
    simp only [stepExpr] at h
    have himp : Imp (fun Q m => ChkE env N Q m ctx.skipWs (.closure b plus))
        (fun Q m => ChkE env N Q m ctx.skipWs b) := Imp.of fun Q m hq => hq.closure
    split at h
    · rename_i msg hinit
      simp only [Option.some.injEq, Prod.mk.injEq] at h
      obtain ⟨rfl, rfl⟩ := h
      exact PostLR.panic (fun _ _ => by simp only [Spec.stepExpr, hinit])
    · rename_i init hinit
      cases hl : evalLoop (rec.expr ctx b) (filterRuleFields ctx.ruleFields (ownFields env b)) n 0 init s g with
      | none => simp [hl, bindR] at h
      | some a =>
        obtain ⟨rl, gl⟩ := a
        obtain ⟨h0', hgl, hwl⟩ :=
          evalLoop_postLR (sbody := fun σ m => (SpecLR.eval env u m σ).expr ctx b)
            (P := fun Q m => ChkE env N Q m ctx.skipWs b)
            (fun s g r g' hx hp hs => hrec.exprF hx hp hs) _ _ _ _ _ _ _ hl hpre (hsafe.imp himp)
        rw [hl] at h
        cases rl with
        | ok v sl =>
          obtain ⟨iters, acc⟩ := v
          simp only [bindR] at h
          split at h
          · rename_i hc
            simp only [Option.some.injEq, Prod.mk.injEq] at h
            obtain ⟨rfl, rfl⟩ := h
            refine ⟨fun σ hσ => ?_, fun _ => hgl (fun m hm => by cases hm), fun v s' h => by cases h⟩
            obtain ⟨m0, h0⟩ := h0' σ (hσ.imp hpre.le himp)
            refine ⟨m0, fun m hm => ?_⟩
            have e0 := h0 m m hm hm
            simp only [abs] at e0
            simp only [Spec.stepExpr, hinit, e0, bindS, hc, if_true, abs]
          · rename_i hc
            simp only [Option.some.injEq, Prod.mk.injEq] at h
            obtain ⟨rfl, rfl⟩ := h
            refine ⟨fun σ hσ => ?_, fun _ => hgl (fun m hm => by cases hm),
              fun v s' h => by cases h; exact hwl _ _ rfl⟩
            obtain ⟨m0, h0⟩ := h0' σ (hσ.imp hpre.le himp)
            refine ⟨m0, fun m hm => ?_⟩
            have e0 := h0 m m hm hm
            simp only [abs] at e0
            simp only [Spec.stepExpr, hinit, e0, bindS, hc, abs]
            rfl
        | err e =>
          simp only [bindR, Option.some.injEq, Prod.mk.injEq] at h
          obtain ⟨rfl, rfl⟩ := h
          refine ⟨fun σ hσ => ?_, fun _ => hgl (fun m hm => by cases hm), fun v s' h => by cases h⟩
          obtain ⟨m0, h0⟩ := h0' σ (hσ.imp hpre.le himp)
          refine ⟨m0, fun m hm => ?_⟩
          have e0 := h0 m m hm hm
          simp only [abs] at e0
          simp only [Spec.stepExpr, hinit, e0, bindS, abs]
        | panic msg =>
          simp only [bindR, Option.some.injEq, Prod.mk.injEq] at h
          obtain ⟨rfl, rfl⟩ := h
          refine ⟨fun σ hσ => ?_, fun h => absurd rfl (h _), fun v s' h => by cases h⟩
          obtain ⟨m0, h0⟩ := h0' σ (hσ.imp hpre.le himp)
          refine ⟨m0, fun m hm => ?_⟩
          have e0 := h0 m m hm hm
          simp only [abs] at e0
          simp only [Spec.stepExpr, hinit, e0, bindS, abs]
  | neg b =>
    simp only [stepExpr] at h
    have himp : Imp (fun Q m => ChkE env N Q m ctx.skipWs (.neg b))
        (fun Q m => ChkE env N Q m ctx.skipWs b) := Imp.of fun Q m hq => hq.neg
    split at h
    · cases h
    · rename_i r0 s0 g0 hx
      have hf := hrec.expr_imp himp hx hpre hsafe
      simp only [Option.some.injEq, Prod.mk.injEq] at h
      obtain ⟨rfl, rfl⟩ := h
      refine ⟨fun σ hσ => ?_, fun _ => (hf.ok _ _ rfl).1.good, fun v s' h => by cases h⟩
      obtain ⟨m0, h0⟩ := hf.evt σ hσ
      refine ⟨m0, fun m hm => ?_⟩
      have e0 := h0 m hm
      simp only [abs] at e0
      simp only [Spec.stepExpr, e0, abs]
    · rename_i e0 g0 hx
      have hf := hrec.expr_imp himp hx hpre hsafe
      simp only [Option.some.injEq, Prod.mk.injEq] at h
      obtain ⟨rfl, rfl⟩ := h
      refine ⟨fun σ hσ => ?_, fun _ => hf.good_err, fun v s' h => by cases h; exact hpre.wf⟩
      obtain ⟨m0, h0⟩ := hf.evt σ hσ
      refine ⟨m0, fun m hm => ?_⟩
      have e0 := h0 m hm
      simp only [abs] at e0
      simp only [Spec.stepExpr, e0, abs]
    · rename_i msg g0 hx
      have hf := hrec.expr_imp himp hx hpre hsafe
      simp only [Option.some.injEq, Prod.mk.injEq] at h
      obtain ⟨rfl, rfl⟩ := h
      refine ⟨fun σ hσ => ?_, fun h => absurd rfl (h _), fun v s' h => by cases h⟩
      obtain ⟨m0, h0⟩ := hf.evt σ hσ
      refine ⟨m0, fun m hm => ?_⟩
      have e0 := h0 m hm
      simp only [abs] at e0
      simp only [Spec.stepExpr, e0, abs]
  | pos b =>
    simp only [stepExpr] at h
    simp only [Spec.stepExpr]
    refine bindR_postLR (fk := fun _ _ _ _ => some (.ok [] (clr s))) h
      (fun rx gx hx => hrec.expr_imp (Imp.of fun Q m hq => hq.pos) hx hpre hsafe) ?_
    intro v s1 g1 _ hp1 _ _ h
    simp only [Option.some.injEq, Prod.mk.injEq] at h
    obtain ⟨rfl, rfl⟩ := h
    exact PostLR.const (fun _ _ => rfl) hp1.good (fun v s' h => by cases h; exact hpre.wf)
  | range lo hi =>
    simp only [stepExpr] at h
    simp only [Spec.stepExpr]
    split at h
    · rename_i lo' hi' hlo hhi
      simp only [hlo, hhi]
      exact terminal_postLR hrec (fun s => abs_parseCharacterRange s lo' hi')
        (fun s v s' hw h => wf_parseCharacterRange hw h) h hpre
        (fun hw => hsafe.imp (Imp.of fun Q m hq => hq.range hw))
        (fun hw σ hσ => hσ.imp hpre.le (Imp.of fun Q m hq => hq.range hw))
    · rename_i hne
      simp only [Option.some.injEq, Prod.mk.injEq] at h
      obtain ⟨rfl, rfl⟩ := h
      refine PostLR.panic (fun _ _ => ?_)
      split
      · rename_i lo' hi' hlo hhi; exact absurd hhi (hne _ _ hlo)
      · rfl
  | lit ins body =>
    simp only [stepExpr] at h
    simp only [Spec.stepExpr]
    have hs1 := fun hw : ctx.skipWs = true =>
      hsafe.imp (Imp.of fun Q m (hq : ChkE env N Q m ctx.skipWs (.lit ins body)) => hq.lit hw)
    have hc1 := fun (hw : ctx.skipWs = true) (σ : Seeds)
        (hσ : Compat H σ g s.off (fun Q m => ChkE env N Q m ctx.skipWs (.lit ins body))) =>
      hσ.imp hpre.le (Imp.of fun Q m hq => hq.lit hw)
    split at h
    · rename_i mt hmt
      simp only [hmt]
      cases mt with
      | charLit c =>
        exact terminal_postLR hrec (fun s => abs_parseCharacterLiteral s c)
          (fun s v s' hw h => wf_parseCharacterLiteral hw h) h hpre hs1 hc1
      | strLit l =>
        exact terminal_postLR hrec (fun s => abs_parseStringLiteral s l)
          (fun s v s' hw h => wf_parseStringLiteral hw h) h hpre hs1 hc1
      | charLitI c =>
        exact terminal_postLR hrec (fun s => abs_parseCharacterLiteralInsensitive s c)
          (fun s v s' hw h => wf_parseCharacterLiteralInsensitive hw h) h hpre hs1 hc1
      | strLitI l =>
        exact terminal_postLR hrec (fun s => abs_parseStringLiteralInsensitive s l)
          (fun s v s' hw h => wf_parseStringLiteralInsensitive hw h) h hpre hs1 hc1
    · rename_i hne
      simp only [Option.some.injEq, Prod.mk.injEq] at h
      obtain ⟨rfl, rfl⟩ := h
      refine PostLR.panic (fun _ _ => ?_)
      split
      · rename_i mt hmt; exact absurd hmt (hne _)
      · rfl
  | eoi =>
    simp only [stepExpr] at h
    simp only [Spec.stepExpr]
    exact terminal_postLR hrec abs_parseEndOfInput (fun s v s' hw h => wf_parseEndOfInput hw h) h hpre
      (fun hw => hsafe.imp (Imp.of fun Q m hq => hq.eoi hw))
      (fun hw σ hσ => hσ.imp hpre.le (Imp.of fun Q m hq => hq.eoi hw))
  | incl r0 =>
    simp only [stepExpr] at h
    simp only [Spec.stepExpr]
    split at h
    · rename_i hf
      simp only [Option.some.injEq, Prod.mk.injEq] at h
      obtain ⟨rfl, rfl⟩ := h
      exact PostLR.panic (fun _ _ => by simp only [hf])
    · rename_i rule hf
      simp only [hf]
      exact (hrec.expr_imp (Imp.of fun Q m hq => hq.incl hf) h hpre hsafe).post
  | field name boxed typ =>
    simp only [stepExpr] at h
    simp only [Spec.stepExpr]
    have himpT : Imp (fun Q m => ChkE env N Q m ctx.skipWs (.field name boxed typ))
        (fun Q m => ChkR env N Q m typ) := Imp.of fun Q m hq => hq.field.2
    refine withSkipWs_postLR (fk := fun σ m s =>
        bindS ((SpecLR.eval env u m σ).rule typ s) fun v s' =>
          match name with
          | none => some (.ok [] s')
          | some nm =>
            match postprocessField ctx.ruleFields nm.key typ v with
            | .ok fv => some (.ok [(nm.key, fv)] s')
            | .error m => some (.panic ("codegen: " ++ m))) hrec h hpre
      (fun hw => hsafe.imp (Imp.of fun Q m hq => hq.field.1 hw))
      (fun hw σ hσ => hσ.imp hpre.le (Imp.of fun Q m hq => hq.field.1 hw)) ?_
    intro s1 g1 hp1 ho1 hk1 h
    refine bindR_postLR (fk := fun _ _ v s' =>
          match name with
          | none => some (.ok [] s')
          | some nm =>
            match postprocessField ctx.ruleFields nm.key typ v with
            | .ok fv => some (.ok [(nm.key, fv)] s')
            | .error m => some (.panic ("codegen: " ++ m))) h
      (fun rx gx hx => (hrec.ruleF hx hp1 (hsafe.next hpre.le ho1 (fun _ => himpT))).monoC
        (fun σ hσ => hσ.next hk1 hpre.le ho1 (fun _ => himpT))) ?_
    intro v s2 g2 _ hp2 _ _ h
    cases name with
    | none =>
      simp only [Option.some.injEq, Prod.mk.injEq] at h
      obtain ⟨rfl, rfl⟩ := h
      exact PostLR.const (fun _ _ => rfl) hp2.good (fun v s' h => by cases h; exact hp2.wf)
    | some nm =>
      simp only at h
      split at h
      · rename_i fv hfv
        simp only [Option.some.injEq, Prod.mk.injEq] at h
        obtain ⟨rfl, rfl⟩ := h
        exact PostLR.const (fun _ _ => by simp only [hfv, abs]) hp2.good
          (fun v s' h => by cases h; exact hp2.wf)
      · rename_i msg hfv
        simp only [Option.some.injEq, Prod.mk.injEq] at h
        obtain ⟨rfl, rfl⟩ := h
        exact PostLR.panic (fun _ _ => by simp only [hfv])

end exprLevel

/-! ## rule level -/

section ruleLevel
variable {env : Env} {u : Nat} {inp : List UInt8} {N : String → List String}

theorem runChecks_postLR (hp : PureHooks env.hooks) {H : Heads} {C : Seeds → Prop} :
    ∀ fs v s g r g', runChecks env fs v s g = some (r, g') → WfSt inp s → GoodLR env u inp N H g →
      PostLR env u inp N H C (fun _ _ => Spec.runChecks env u fs v (clr s)) r g' := by
  intro fs
  induction fs with
  | nil =>
    intro v s g r g' h hw hg
    simp only [runChecks, Option.some.injEq, Prod.mk.injEq] at h
    obtain ⟨rfl, rfl⟩ := h
    exact PostLR.const (fun _ _ => rfl) hg (fun v s' h => by cases h; exact hw)
  | cons f fs ih =>
    intro v s g r g' h hw hg
    simp only [runChecks] at h
    have hu : (env.hooks.check ("::".intercalate f) v g.uctx).2 = g.uctx := hp.2 _ _ _
    have hgu := hg.uctx
    have hg1 : GoodLR env u inp N H
        ({ g with uctx := (env.hooks.check ("::".intercalate f) v g.uctx).2 }.emit
          (.checkCall ("::".intercalate f) v.render g.uctx)) := hg.of_cache rfl hu
    split at h
    · rename_i hb
      simp only [Option.some.injEq, Prod.mk.injEq] at h
      obtain ⟨rfl, rfl⟩ := h
      refine PostLR.const (fun _ _ => ?_) hg1 (fun v s' h => by cases h)
      simp only [Spec.runChecks, ← hgu, hb, if_true, abs]
    · rename_i hb
      have := ih _ _ _ _ _ h hw hg1
      refine this.of_eq (fun _ _ => ?_)
      simp only [Spec.runChecks, ← hgu, hb]
      rfl

theorem ruleBody_postLR {rec : Rec} (hrec : RefLR env u inp N rec) (hp : PureHooks env.hooks)
    {r0 : Rule} {H : Heads} {s g r g'} (h : ruleBody env rec r0 s g = some (r, g'))
    (hpre : PreLR env u inp N H s g)
    (hsafe : SafeH H s.off (fun Q m =>
      ChkE env N Q m (env.settings.skipWhitespace && !r0.flags.noSkipWs) r0.definition)) :
    PostLR env u inp N H (fun σ => Compat H σ g s.off (fun Q m =>
        ChkE env N Q m (env.settings.skipWhitespace && !r0.flags.noSkipWs) r0.definition))
      (fun σ m => Spec.ruleBody env u (SpecLR.eval env u m σ) r0 (clr s)) r g' := by
  unfold ruleBody at h
  unfold Spec.ruleBody
  split at h
  · rename_i fields hf
    simp only [hf]
    simp only at h
    split at h
    · rename_i hc
      simp only [if_pos hc]
      refine bindR_postLR (fk := fun _ _ _ s' =>
        Spec.runChecks env u r0.checks
          (if r0.flags.position = true then
            Val.node r0.name [("string", Val.str ((clr s).sliceUntil s'))] (some ((clr s).off, s'.off))
          else Val.str ((clr s).sliceUntil s')) s') h
        (fun rx gx hx => hrec.exprF hx hpre hsafe) ?_
      intro v s1 g1 _ hp1 _ _ h
      exact runChecks_postLR hp _ _ _ _ _ _ h hp1.wf hp1.good
    · rename_i hc
      simp only [if_neg hc]
      split at h
      · rename_i hc2
        simp only [if_pos hc2]
        refine bindR_postLR (fk := fun _ _ p s' =>
          match p.get "_override" with
          | some v => Spec.runChecks env u r0.checks v s'
          | none => some (.panic "codegen: override value missing")) h
          (fun rx gx hx => hrec.exprF hx hpre hsafe) ?_
        intro v s1 g1 _ hp1 _ _ h
        split at h
        · rename_i hv
          simp only [hv]
          exact runChecks_postLR hp _ _ _ _ _ _ h hp1.wf hp1.good
        · rename_i hv
          simp only [Option.some.injEq, Prod.mk.injEq] at h
          obtain ⟨rfl, rfl⟩ := h
          exact PostLR.panic (fun _ _ => by simp only [hv])
      · rename_i hc2
        simp only [if_neg hc2]
        split at h
        · rename_i hc3
          simp only [Option.some.injEq, Prod.mk.injEq] at h
          obtain ⟨rfl, rfl⟩ := h
          exact PostLR.panic (fun _ _ => by simp only [if_pos hc3])
        · rename_i hc3
          simp only [if_neg hc3]
          refine bindR_postLR (fk := fun _ _ p s' =>
            match project fields p with
            | .ok fs =>
              Spec.runChecks env u r0.checks
                (Val.node r0.name fs (if r0.flags.position = true then some ((clr s).off, s'.off) else none)) s'
            | .error m => some (.panic ("codegen: " ++ m))) h
            (fun rx gx hx => hrec.exprF hx hpre hsafe) ?_
          intro v s1 g1 _ hp1 _ _ h
          split at h
          · rename_i fs hfs
            simp only [hfs]
            exact runChecks_postLR hp _ _ _ _ _ _ h hp1.wf hp1.good
          · rename_i msg hfs
            simp only [Option.some.injEq, Prod.mk.injEq] at h
            obtain ⟨rfl, rfl⟩ := h
            exact PostLR.panic (fun _ _ => by simp only [hfs])
  · rename_i hne
    simp only [Option.some.injEq, Prod.mk.injEq] at h
    obtain ⟨rfl, rfl⟩ := h
    refine PostLR.panic (fun _ _ => ?_)
    split
    · rename_i fields hf; exact absurd hf (hne _)
    · rfl

/-- position predicate of the parts of a `@char` rule -/
abbrev PartsP (env : Env) (N : String → List String) (ps : List CharRulePart) : PosP :=
  fun Q m => ∀ id, CharRulePart.ident id ∈ ps → ChkR env N Q m id

theorem charParts_postLR {rec : Rec} (hrec : RefLR env u inp N rec) (name : String) {H : Heads} :
    ∀ ps s g r g', charParts rec name ps s g = some (r, g') → PreLR env u inp N H s g →
      SafeH H s.off (PartsP env N ps) →
      PostLR env u inp N H (fun σ => Compat H σ g s.off (PartsP env N ps))
        (fun σ m => Spec.charParts (SpecLR.eval env u m σ) ps (clr s)) r g' := by
  intro ps
  induction ps with
  | nil =>
    intro s g r g' h hpre hsafe
    simp only [charParts, Option.some.injEq, Prod.mk.injEq] at h
    obtain ⟨rfl, rfl⟩ := h
    exact PostLR.const (fun _ _ => rfl) hpre.good (fun v s' h => by cases h)
  | cons p ps ih =>
    intro s g r g' h hpre hsafe
    have himp2 : Imp (PartsP env N (p :: ps)) (PartsP env N ps) :=
      Imp.of (fun Q m hq id hid => hq id (List.mem_cons_of_mem _ hid))
    -- the outcome of the first part, in both worlds
    have key : ∀ (x : Out Val) (fx : Seeds → Nat → SOut Val),
        (∀ rx gx, x = some (rx, gx) →
          Full env u inp N H s g (fun σ => Compat H σ g s.off (PartsP env N (p :: ps))) fx rx gx) →
        (match x with
          | none => none
          | some (.ok v s', g') => some (.ok v s', g')
          | some (.err _, g') => charParts rec name ps s g'
          | some (.panic m, g') => some (.panic m, g')) = some (r, g') →
        PostLR env u inp N H (fun σ => Compat H σ g s.off (PartsP env N (p :: ps))) (fun σ m =>
          match fx σ m with
          | none => none
          | some (.ok v s') => some (.ok v s')
          | some (.err _) => Spec.charParts (SpecLR.eval env u m σ) ps (clr s)
          | some (.panic m) => some (.panic m)) r g' := by
      intro x fx hx h
      cases x with
      | none => simp at h
      | some a =>
        obtain ⟨rx, gx⟩ := a
        have hf := hx rx gx rfl
        cases rx with
        | ok v s1 =>
          simp only [Option.some.injEq, Prod.mk.injEq] at h
          obtain ⟨rfl, rfl⟩ := h
          refine ⟨fun σ hσ => ?_, hf.good, fun v s' h => (hf.ok v s' h).1.wf⟩
          obtain ⟨m0, h0⟩ := hf.evt σ hσ
          refine ⟨m0, fun m hm => ?_⟩
          have e0 := h0 m hm
          simp only [abs] at e0
          simp only [e0, abs]
        | err e =>
          simp only at h
          have hpre' : PreLR env u inp N H s gx := ⟨hpre.wf, hpre.within, hf.good_err, hf.cw, hpre.le⟩
          have hpost := ih _ _ _ _ h hpre' (hsafe.imp himp2)
          refine ⟨fun σ hσ => ?_, hpost.2⟩
          obtain ⟨m0, h0⟩ := hf.evt σ hσ
          obtain ⟨m1, h1⟩ := hpost.1 σ (hσ.next hf.keeps hpre.le (Nat.le_refl _) (fun _ => himp2))
          refine ⟨max m0 m1, fun m hm => ?_⟩
          have e0 := h0 m (by omega)
          simp only [abs] at e0
          simp only [e0]
          exact h1 m (by omega)
        | panic msg =>
          simp only [Option.some.injEq, Prod.mk.injEq] at h
          obtain ⟨rfl, rfl⟩ := h
          refine ⟨fun σ hσ => ?_, fun h => absurd rfl (h _), fun v s' h => by cases h⟩
          obtain ⟨m0, h0⟩ := hf.evt σ hσ
          refine ⟨m0, fun m hm => ?_⟩
          have e0 := h0 m hm
          simp only [abs] at e0
          simp only [e0, abs]
    -- a part that does not touch the global state
    have pureFull : ∀ (rx : Res Val) (gx : Global) (F : Seeds → Nat → SOut Val),
        gx = g → (∀ σ m, F σ m = some (abs rx)) → (∀ v s', rx = .ok v s' → WfSt inp s') →
        LR.Fwd inp.length s rx →
        Full env u inp N H s g (fun σ => Compat H σ g s.off (PartsP env N (p :: ps))) F rx gx := by
      intro rx gx F hgx hF hwf hfwd
      subst hgx
      exact Full.of hpre (LR.Post.refl (fun _ => hfwd)) (PostLR.const hF hpre.good hwf)
    cases p with
    | chr item =>
      simp only [charParts] at h
      simp only [Spec.charParts]
      cases hi : item.toChar with
      | ok c =>
        simp only [hi] at h ⊢
        refine key _ (fun _ _ => some (abs ((parseCharacterLiteral (clr s) c).map .chr))) ?_ h
        intro rx gx hx
        simp only [Option.some.injEq, Prod.mk.injEq] at hx
        obtain ⟨rfl, rfl⟩ := hx
        refine pureFull _ _ _ rfl (fun _ _ => by simp only [abs_map, abs_parseCharacterLiteral]) ?_
          ((LR.fwd_parseCharacterLiteral _ hpre.within).map _)
        intro v s' h
        obtain ⟨v0, hv0⟩ := map_ok h
        exact wf_parseCharacterLiteral hpre.wf hv0
      | err msg =>
        simp only [hi] at h ⊢
        simp only [Option.some.injEq, Prod.mk.injEq] at h
        obtain ⟨rfl, rfl⟩ := h
        exact PostLR.panic (fun _ _ => rfl)
      | fuel =>
        simp only [hi] at h ⊢
        simp only [Option.some.injEq, Prod.mk.injEq] at h
        obtain ⟨rfl, rfl⟩ := h
        exact PostLR.panic (fun _ _ => rfl)
    | range lo hi =>
      simp only [charParts] at h
      simp only [Spec.charParts]
      cases hlo : lo.toChar with
      | ok a =>
        cases hhi : hi.toChar with
        | ok b =>
          simp only [hlo, hhi] at h ⊢
          refine key _ (fun _ _ => some (abs ((parseCharacterRange (clr s) a b).map .chr))) ?_ h
          intro rx gx hx
          simp only [Option.some.injEq, Prod.mk.injEq] at hx
          obtain ⟨rfl, rfl⟩ := hx
          refine pureFull _ _ _ rfl (fun _ _ => by simp only [abs_map, abs_parseCharacterRange]) ?_
            ((LR.fwd_parseCharacterRange _ _ hpre.within).map _)
          intro v s' h
          obtain ⟨v0, hv0⟩ := map_ok h
          exact wf_parseCharacterRange hpre.wf hv0
        | err msg =>
          simp only [hlo, hhi] at h ⊢
          simp only [Option.some.injEq, Prod.mk.injEq] at h
          obtain ⟨rfl, rfl⟩ := h
          exact PostLR.panic (fun _ _ => rfl)
        | fuel =>
          simp only [hlo, hhi] at h ⊢
          simp only [Option.some.injEq, Prod.mk.injEq] at h
          obtain ⟨rfl, rfl⟩ := h
          exact PostLR.panic (fun _ _ => rfl)
      | err msg =>
        simp only [hlo] at h ⊢
        simp only [Option.some.injEq, Prod.mk.injEq] at h
        obtain ⟨rfl, rfl⟩ := h
        exact PostLR.panic (fun _ _ => rfl)
      | fuel =>
        simp only [hlo] at h ⊢
        simp only [Option.some.injEq, Prod.mk.injEq] at h
        obtain ⟨rfl, rfl⟩ := h
        exact PostLR.panic (fun _ _ => rfl)
    | ident id =>
      simp only [charParts] at h
      simp only [Spec.charParts]
      have himp1 : Imp (PartsP env N (.ident id :: ps)) (fun Q m => ChkR env N Q m id) :=
        Imp.of (fun Q m hq => hq id (List.mem_cons_self ..))
      exact key _ (fun σ m => (SpecLR.eval env u m σ).rule id (clr s))
        (fun rx gx hx => (hrec.ruleF hx hpre (hsafe.imp himp1)).monoC
          (fun σ hσ => hσ.imp hpre.le himp1)) h

/-! ### the grow loop -/

theorem GoodLR.insert {H : Heads} {g : Global} {key : String × Nat} {x : Res Val}
    (hg : GoodLR env u inp N H g) (hkey : key ∈ H) (hwx : ∀ v s', x = .ok v s' → WfSt inp s') :
    GoodLR env u inp N H (g.insert key x) := by
  refine ⟨hg.uctx, fun k hk => ?_, fun k r hl hk => ?_, fun k v s' hl => ?_⟩
  · by_cases he : k = key
    · subst he; exact ⟨x, LR.lookup_insert_self _ _ _⟩
    · rw [LR.lookup_insert_ne g x he]; exact hg.heads k hk
  · have he : k ≠ key := fun he => hk (he ▸ hkey)
    rw [LR.lookup_insert_ne g x he] at hl
    exact hg.valid k r hl hk
  · by_cases he : k = key
    · subst he
      rw [LR.lookup_insert_self] at hl
      exact hwx v s' (Option.some.inj hl)
    · rw [LR.lookup_insert_ne g x he] at hl
      exact hg.wf k v s' hl

/-- the skip-whitespace flag a rule body is generated with -/
abbrev ruleW (env : Env) (r : Rule) : Bool := env.settings.skipWhitespace && !r.flags.noSkipWs

/-- the seed environments for which the grow loop of `r0` at offset `p` is mirrored: heads at or
    before `p`, no seed for the rule itself, every other head at `p` is avoided by the body -/
def GrowC (env : Env) (N : String → List String) (H : Heads) (r0 : Rule) (p : Nat) (σ : Seeds) : Prop :=
  (∀ k seed, seedOf σ k = some seed → k.2 ≤ p) ∧ seedOf σ (r0.name, p) = none ∧
  (∀ Q, Q ≠ r0.name → ((Q, p) ∈ H ∨ (seedOf σ (Q, p)).isSome = true) →
    ChkE env N Q false (ruleW env r0) r0.definition)

theorem compat_grow {H : Heads} {r0 : Rule} {p : Nat} {σ : Seeds} {g : Global} {best : Res Val}
    (hσ : GrowC env N H r0 p σ) (hself : ChkE env N r0.name true (ruleW env r0) r0.definition)
    (hl : g.lookup (r0.name, p) = some best) :
    Compat ((r0.name, p) :: H) (((r0.name, p), abs best) :: σ) g p
      (fun Q m => ChkE env N Q m (ruleW env r0) r0.definition) := by
  obtain ⟨h1, h2, h3⟩ := hσ
  refine ⟨fun k seed hs => ?_, fun Q hq => ?_⟩
  · rw [seedOf_cons] at hs
    split at hs
    · rename_i hk
      have := eq_of_beq hk
      subst this
      exact Nat.le_refl _
    · exact h1 k seed hs
  · by_cases hQ : Q = r0.name
    · subst hQ
      exact Or.inr ⟨hself, List.mem_cons_self .., best, hl, seedOf_cons_self _ _ _⟩
    · have hne : (Q, p) ≠ (r0.name, p) := fun he => hQ (Prod.mk.inj he).1
      refine Or.inl (h3 Q hQ ?_)
      rcases hq with hq | hq
      · rcases List.mem_cons.1 hq with he | hm
        · exact absurd he hne
        · exact Or.inl hm
      · rw [seedOf_cons_ne _ _ hne] at hq
        exact Or.inr hq

theorem growLoop_postLR {rec : Rec} (hrec : RefLR env u inp N rec) (hp : PureHooks env.hooks)
    {r0 : Rule} {H : Heads} {s : St}
    (hself : ChkE env N r0.name true (ruleW env r0) r0.definition)
    (hothers : ∀ Q, (Q, s.off) ∈ H → ChkE env N Q false (ruleW env r0) r0.definition) :
    ∀ k best g res g', growLoop (ruleBody env rec r0) (r0.name, s.off) s k best g = some (res, g') →
      PreLR env u inp N ((r0.name, s.off) :: H) s g → g.lookup (r0.name, s.off) = some best →
      (∀ m, best ≠ .panic m) →
      (∀ σ, GrowC env N H r0 s.off σ → ∃ m0, ∀ m c, m0 ≤ m → m0 ≤ c →
        SpecLR.growLoop (fun seed =>
          Spec.ruleBody env u (SpecLR.eval env u m (((r0.name, s.off), seed) :: σ)) r0 (clr s)) c (abs best)
          = some (abs res)) ∧
      ((∀ m, res ≠ .panic m) →
        GoodLR env u inp N ((r0.name, s.off) :: H) g' ∧ g'.lookup (r0.name, s.off) = some res) ∧
      (∀ v s', res = .ok v s' → WfSt inp s') := by
  intro k
  induction k with
  | zero => intro best g res g' h; simp [growLoop] at h
  | succ k ih =>
    intro best g res g' h hpre hl hbp
    rw [growLoop_succ] at h
    have hpre0 : PreLR env u inp N ((r0.name, s.off) :: H) s (growPre (r0.name, s.off) g) :=
      hpre.of_cache rfl rfl
    have hsafe' : SafeH ((r0.name, s.off) :: H) s.off
        (fun Q m => ChkE env N Q m (ruleW env r0) r0.definition) := by
      intro Q hq
      rcases List.mem_cons.1 hq with he | hm
      · have : Q = r0.name := (Prod.mk.inj he).1
        subst this
        exact Or.inr hself
      · exact Or.inl (hothers Q hm)
    -- one body evaluation, in both worlds
    have hbody : ∀ rb gb, ruleBody env rec r0 s (growPre (r0.name, s.off) g) = some (rb, gb) →
        Full env u inp N ((r0.name, s.off) :: H) s (growPre (r0.name, s.off) g)
          (fun σ' => Compat ((r0.name, s.off) :: H) σ' (growPre (r0.name, s.off) g) s.off
            (fun Q m => ChkE env N Q m (ruleW env r0) r0.definition))
          (fun σ' m => Spec.ruleBody env u (SpecLR.eval env u m σ') r0 (clr s)) rb gb :=
      fun rb gb hb => Full.of hpre0 (LR.ruleBody_inv hrec.rinv r0 s _ _ _ hb)
        (ruleBody_postLR hrec hp hb hpre0 hsafe')
    have hcompat : ∀ σ, GrowC env N H r0 s.off σ →
        Compat ((r0.name, s.off) :: H) (((r0.name, s.off), abs best) :: σ)
          (growPre (r0.name, s.off) g) s.off (fun Q m => ChkE env N Q m (ruleW env r0) r0.definition) :=
      fun σ hσ => compat_grow hσ hself hl
    -- the recursive call after an improvement
    have hrecur : ∀ v ns gb, ruleBody env rec r0 s (growPre (r0.name, s.off) g) = some (.ok v ns, gb) →
        growLoop (ruleBody env rec r0) (r0.name, s.off) s k (.ok v ns) (gb.insert (r0.name, s.off) (.ok v ns))
          = some (res, g') →
        (∀ σ, GrowC env N H r0 s.off σ → ∃ m1, ∀ m c, m1 ≤ m → m1 ≤ c →
          SpecLR.growLoop (fun seed =>
            Spec.ruleBody env u (SpecLR.eval env u m (((r0.name, s.off), seed) :: σ)) r0 (clr s)) c
            (.ok v (clr ns)) = some (abs res)) ∧
        ((∀ m, res ≠ .panic m) →
          GoodLR env u inp N ((r0.name, s.off) :: H) g' ∧ g'.lookup (r0.name, s.off) = some res) ∧
        (∀ v s', res = .ok v s' → WfSt inp s') := by
      intro v ns gb hb h
      have hf := hbody _ _ hb
      obtain ⟨hp1, ho⟩ := hf.ok v ns rfl
      have hpre1 : PreLR env u inp N ((r0.name, s.off) :: H) s (gb.insert (r0.name, s.off) (.ok v ns)) :=
        ⟨hpre.wf, hpre.within,
          GoodLR.insert hp1.good (List.mem_cons_self ..) (fun v' s' he => by cases he; exact hp1.wf),
          LR.cacheW_insert hf.cw (fun v' s' he => by cases he; exact ⟨ho, hp1.within⟩), hpre.le⟩
      exact ih _ _ _ _ h hpre1 (LR.lookup_insert_self _ _ _) (fun m hm => by cases hm)
    -- the loop ends with the seed
    have hkeep : ∀ rb gb, ruleBody env rec r0 s (growPre (r0.name, s.off) g) = some (rb, gb) →
        (∀ m, rb ≠ .panic m) → ∀ bv bs, best = .ok bv bs →
        (GoodLR env u inp N ((r0.name, s.off) :: H) gb ∧ gb.lookup (r0.name, s.off) = some best) ∧
        WfSt inp bs := by
      intro rb gb hb hnp bv bs hbest
      have hf := hbody _ _ hb
      refine ⟨⟨hf.good hnp, hf.keeps _ _ (by simpa using hl)⟩, ?_⟩
      exact hpre.good.wf _ bv bs (hbest ▸ hl)
    split at h
    · cases h
    · -- the body panics
      rename_i msg gb hb
      simp only [Option.some.injEq, Prod.mk.injEq] at h
      obtain ⟨rfl, rfl⟩ := h
      refine ⟨fun σ hσ => ?_, fun h => absurd rfl (h _), fun v s' h => by cases h⟩
      obtain ⟨m0, h0⟩ := (hbody _ _ hb).evt _ (hcompat σ hσ)
      refine ⟨m0 + 1, fun m c hm hc => ?_⟩
      obtain ⟨c', rfl⟩ : ∃ c', c = c' + 1 := ⟨c - 1, by omega⟩
      have e0 := h0 m (by omega)
      simp only [abs] at e0
      simp only [SpecLR.growLoop, e0, abs]
    · -- the body succeeds
      rename_i v ns gb hb
      have hf := hbody _ _ hb
      cases best with
      | panic msg => exact absurd rfl (hbp msg)
      | ok bv bs =>
        simp only at h
        split at h
        · rename_i hfur
          obtain ⟨h1', hg1, hw1⟩ := hrecur v ns gb hb h
          refine ⟨fun σ hσ => ?_, hg1, hw1⟩
          obtain ⟨m0, h0⟩ := hf.evt _ (hcompat σ hσ)
          obtain ⟨m1, h1⟩ := h1' σ hσ
          refine ⟨max m0 m1 + 1, fun m c hm hc => ?_⟩
          obtain ⟨c', rfl⟩ : ∃ c', c = c' + 1 := ⟨c - 1, by omega⟩
          have e0 := h0 m (by omega)
          have e1 := h1 m c' (by omega) (by omega)
          have hfur' : (clr ns).isFurtherThan (clr bs) = true := hfur
          simp only [abs] at e0
          simp only [abs, SpecLR.growLoop, e0, hfur', if_true]
          exact e1
        · rename_i hfur
          simp only [Option.some.injEq, Prod.mk.injEq] at h
          obtain ⟨rfl, rfl⟩ := h
          obtain ⟨hg1, hwb⟩ := hkeep _ _ hb (fun m hm => by cases hm) bv bs rfl
          refine ⟨fun σ hσ => ?_, fun _ => hg1, fun v s' h => by cases h; exact hwb⟩
          obtain ⟨m0, h0⟩ := hf.evt _ (hcompat σ hσ)
          refine ⟨m0 + 1, fun m c hm hc => ?_⟩
          obtain ⟨c', rfl⟩ : ∃ c', c = c' + 1 := ⟨c - 1, by omega⟩
          have e0 := h0 m (by omega)
          have hfur' : ¬ (clr ns).isFurtherThan (clr bs) = true := hfur
          simp only [abs] at e0
          simp only [abs, SpecLR.growLoop, e0, hfur']
          rfl
      | err be =>
        simp only at h
        obtain ⟨h1', hg1, hw1⟩ := hrecur v ns gb hb h
        refine ⟨fun σ hσ => ?_, hg1, hw1⟩
        obtain ⟨m0, h0⟩ := hf.evt _ (hcompat σ hσ)
        obtain ⟨m1, h1⟩ := h1' σ hσ
        refine ⟨max m0 m1 + 1, fun m c hm hc => ?_⟩
        obtain ⟨c', rfl⟩ : ∃ c', c = c' + 1 := ⟨c - 1, by omega⟩
        have e0 := h0 m (by omega)
        have e1 := h1 m c' (by omega) (by omega)
        simp only [abs] at e0
        simp only [abs, SpecLR.growLoop, e0]
        exact e1
    · -- the body fails
      rename_i e gb hb
      have hf := hbody _ _ hb
      cases best with
      | panic msg => exact absurd rfl (hbp msg)
      | ok bv bs =>
        simp only [Option.some.injEq, Prod.mk.injEq] at h
        obtain ⟨rfl, rfl⟩ := h
        obtain ⟨hg1, hwb⟩ := hkeep _ _ hb (fun m hm => by cases hm) bv bs rfl
        refine ⟨fun σ hσ => ?_, fun _ => hg1, fun v s' h => by cases h; exact hwb⟩
        obtain ⟨m0, h0⟩ := hf.evt _ (hcompat σ hσ)
        refine ⟨m0 + 1, fun m c hm hc => ?_⟩
        obtain ⟨c', rfl⟩ : ∃ c', c = c' + 1 := ⟨c - 1, by omega⟩
        have e0 := h0 m (by omega)
        simp only [abs] at e0
        simp only [abs, SpecLR.growLoop, e0]
      | err be =>
        simp only [Option.some.injEq, Prod.mk.injEq] at h
        obtain ⟨rfl, rfl⟩ := h
        refine ⟨fun σ hσ => ?_, fun _ => ⟨GoodLR.insert hf.good_err (List.mem_cons_self ..)
          (fun v s' h => by cases h), LR.lookup_insert_self _ _ _⟩, fun v s' h => by cases h⟩
        obtain ⟨m0, h0⟩ := hf.evt _ (hcompat σ hσ)
        refine ⟨m0 + 1, fun m c hm hc => ?_⟩
        obtain ⟨c', rfl⟩ : ∃ c', c = c' + 1 := ⟨c - 1, by omega⟩
        have e0 := h0 m (by omega)
        simp only [abs] at e0
        simp only [abs, SpecLR.growLoop, e0]

/-! ### rules -/

theorem Evt.pred {α} {f : Nat → SOut α} {r} (h : Evt f r) : Evt (fun m => f (m + 1)) r := by
  obtain ⟨m0, h⟩ := h
  exact ⟨m0, fun m hm => h (m + 1) (by omega)⟩

theorem lrRule_of_find {name : String} {r0 : Rule} (hf : env.g.find name = some (.rule r0)) :
    lrRule env name = if r0.flags.leftRecursive then some r0 else none := by
  simp only [lrRule, hf]

theorem name_of_find {name : String} {r0 : Rule} (hf : env.g.find name = some (.rule r0)) :
    r0.name = name := by
  have := List.find?_some hf
  simpa [RuleEntry.name] using this

/-- the reference `stepRule` at a normal rule that is not `@leftrec` is the rule body -/
theorem specLR_stepRule_plain {name : String} {r0 : Rule} (hf : env.g.find name = some (.rule r0))
    (hlr : r0.flags.leftRecursive = false) (rec : SRecLR) (m : Nat) (σ : Seeds) (s : St) :
    SpecLR.stepRule env u rec m σ name s = Spec.ruleBody env u (rec σ) r0 s := by
  unfold SpecLR.stepRule
  rw [lrRule_of_find hf]
  simp only [hlr, Bool.false_eq_true, if_false]
  unfold Spec.stepRule
  rw [hf]

/-- the reference `stepRule` at a `@leftrec` rule without seed is the grow loop -/
theorem specLR_stepRule_grow {name : String} {r0 : Rule} (hf : env.g.find name = some (.rule r0))
    (hlr : r0.flags.leftRecursive = true) (rec : SRecLR) (m : Nat) (σ : Seeds) (s : St)
    (hseed : seedOf σ (r0.name, s.off) = none) :
    SpecLR.stepRule env u rec m σ name s =
      SpecLR.growLoop (fun seed => Spec.ruleBody env u (rec (((r0.name, s.off), seed) :: σ)) r0 s) m
        (.err noErr) := by
  unfold SpecLR.stepRule
  rw [lrRule_of_find hf]
  simp only [hlr, if_true, hseed]

theorem specLR_stepRule_seed {name : String} {r0 : Rule} (hf : env.g.find name = some (.rule r0))
    (hlr : r0.flags.leftRecursive = true) (rec : SRecLR) (m : Nat) (σ : Seeds) (s : St) {seed}
    (hseed : seedOf σ (r0.name, s.off) = some seed) :
    SpecLR.stepRule env u rec m σ name s = some seed := by
  unfold SpecLR.stepRule
  rw [lrRule_of_find hf]
  simp only [hlr, if_true, hseed]

theorem specLR_stepRule_other {name : String} (hf : ∀ r0, env.g.find name ≠ some (.rule r0))
    (rec : SRecLR) (m : Nat) (σ : Seeds) (s : St) :
    SpecLR.stepRule env u rec m σ name s = Spec.stepRule env u (rec σ) name s := by
  unfold SpecLR.stepRule
  have : lrRule env name = none := by
    unfold lrRule
    split
    · rename_i r0 h; exact absurd h (hf r0)
    · rfl
  rw [this]

/-- a valid cache entry answers the reference `stepRule` under every compatible seed environment -/
theorem valid_hit {H : Heads} {name : String} {r0 : Rule} {s : St} {g : Global} {cached : Res Val}
    (hf : env.g.find name = some (.rule r0)) (hw : WfSt inp s)
    (hv : Valid env u inp N (r0.name, s.off) cached)
    (havoid : ∀ Q, ChkR env N Q true name → (Q, s.off) ∈ H → ChkR env N Q false name)
    {σ : Seeds} (hσ : Compat H σ g s.off (fun Q m => ChkR env N Q m name)) :
    Evt (fun m => SpecLR.stepRule env u (SpecLR.eval env u m) m σ name (clr s)) (abs cached) := by
  have hname := name_of_find hf
  have := hv σ (by
    intro Q q seed hs
    have hle := hσ.1 _ _ hs
    simp only at hle
    by_cases hq : q = s.off
    · subst hq
      refine Or.inr ⟨rfl, ?_⟩
      simp only [hname]
      rcases hσ.2 Q (Or.inr (by simp [hs])) with h0 | ⟨h0, hm, _⟩
      · exact h0
      · exact havoid Q h0 hm
    · left; simp only; omega)
  simp only [hname] at this
  rw [← clr_eq_of_wf hw] at this
  exact this.pred

/-- the class, as used by the proof: the body of every `@leftrec` rule is safe for that rule -/
def LRHyp (env : Env) (N : String → List String) : Prop :=
  ∀ r0, RuleEntry.rule r0 ∈ env.g.rules → r0.flags.leftRecursive = true →
    ChkE env N r0.name true (ruleW env r0) r0.definition

theorem normalRule_postLR {rec : Rec} (hrec : RefLR env u inp N rec) (hp : PureHooks env.hooks)
    (hok : LRHyp env N) (n : Nat) {H : Heads} {name : String} {r0 : Rule} {s g r g'}
    (hfind : env.g.find name = some (.rule r0))
    (h : normalRule env rec n r0 s g = some (r, g')) (hpre : PreLR env u inp N H s g)
    (hsafe : SafeH H s.off (fun Q m => ChkR env N Q m name)) :
    PostLR env u inp N H (fun σ => Compat H σ g s.off (fun Q m => ChkR env N Q m name))
      (fun σ m => SpecLR.stepRule env u (SpecLR.eval env u m) m σ name (clr s)) r g' := by
  have hmem : RuleEntry.rule r0 ∈ env.g.rules := List.mem_of_find?_eq_some hfind
  have hname := name_of_find hfind
  unfold normalRule at h
  simp only at h
  split at h
  · cases h
  · rename_i res g1 hm
    simp only [Option.some.injEq, Prod.mk.injEq] at h
    obtain ⟨rfl, rfl⟩ := h
    have hpre0 : PreLR env u inp N H s (g.emit (.traceStart r0.name s.off)) := hpre.emit _
    suffices hpost : PostLR env u inp N H (fun σ => Compat H σ g s.off (fun Q m => ChkR env N Q m name))
        (fun σ m => SpecLR.stepRule env u (SpecLR.eval env u m) m σ name (clr s)) res g1 by
      refine ⟨hpost.1, fun hnp => ?_, hpost.2.2⟩
      cases res <;> simp only [traceResult] <;>
        first | exact (hpost.2.1 hnp).emit _ | exact hpost.2.1 hnp
    -- the position of the rule body, when the rule is not the head itself
    have hbodyImp : r0.flags.leftRecursive = false →
        Imp (fun Q m => ChkR env N Q m name) (fun Q m => ChkE env N Q m (ruleW env r0) r0.definition) := by
      intro hlr
      refine ⟨fun Q hq => (hq.avoid_ne hfind).2, fun Q hq => ?_⟩
      rcases hq.rule hfind with ⟨_, _, h3⟩ | ⟨_, h2⟩ | ⟨_, _, _, h4⟩
      · rw [hlr] at h3; cases h3
      · exact Or.inl h2
      · exact Or.inr h4
    unfold memoBody at hm
    simp only at hm
    by_cases hlr : r0.flags.leftRecursive = true
    · -- @leftrec
      simp only [hlr, if_true] at hm
      -- a reference in safe mode from another head is a reference in avoid mode
      have havoid : (r0.name, s.off) ∉ H → ∀ Q, ChkR env N Q true name → (Q, s.off) ∈ H →
          ChkR env N Q false name := by
        intro hnm Q hq hqm
        rcases hq.rule hfind with ⟨h1, _, _⟩ | ⟨h1, _⟩ | ⟨_, h2, _⟩
        · exact absurd (h1 ▸ hqm) hnm
        · exact hq.to_avoid hfind h1 (Or.inl hlr)
        · rw [hlr] at h2; cases h2
      split at hm
      · -- cache hit
        rename_i cached hl
        simp only [Option.some.injEq, Prod.mk.injEq] at hm
        obtain ⟨rfl, rfl⟩ := hm
        have hl' : g.lookup (r0.name, s.off) = some cached := hl
        refine ⟨fun σ hσ => ?_, fun _ => hpre0.good.emit _, fun v s' hr => hpre.good.wf _ v s' (hr ▸ hl')⟩
        by_cases hin : (r0.name, s.off) ∈ H
        · -- the seed of a growing head
          rcases hσ.2 r0.name (Or.inl hin) with h0 | ⟨_, _, r1, hl1, hs1⟩
          · exact absurd rfl (h0.avoid_ne hfind).1
          · rw [hl'] at hl1
            cases hl1
            exact ⟨0, fun m _ => specLR_stepRule_seed hfind hlr _ _ _ (clr s) hs1⟩
        · -- the final answer of an earlier growth
          exact valid_hit hfind hpre.wf (hpre.good.valid _ _ hl' hin) (havoid hin) hσ
      · -- cache miss: grow
        rename_i hmiss
        have hmiss' : g.lookup (r0.name, s.off) = none := hmiss
        have hin : (r0.name, s.off) ∉ H := by
          intro hin
          obtain ⟨r1, hr1⟩ := hpre.good.heads _ hin
          rw [hmiss'] at hr1; cases hr1
        have hself := hok r0 hmem hlr
        have hothers : ∀ Q, (Q, s.off) ∈ H → ChkE env N Q false (ruleW env r0) r0.definition := by
          intro Q hq
          rcases hsafe Q hq with h0 | h0
          · exact (h0.avoid_ne hfind).2
          · exact ((havoid hin Q h0 hq).avoid_ne hfind).2
        have hpre1 : PreLR env u inp N ((r0.name, s.off) :: H) s
            ((g.emit (.traceStart r0.name s.off)).insert (r0.name, s.off)
              (.err (s.reportError .leftRecursionSentinel))) := by
          refine ⟨hpre.wf, hpre.within, ⟨hpre.good.uctx, fun k hk => ?_, fun k r1 hl1 hk => ?_,
            fun k v s' hl1 => ?_⟩, LR.cacheW_insert hpre0.cw (fun v s' he => by cases he), ?_⟩
          · rcases List.mem_cons.1 hk with he | hk'
            · subst he; exact ⟨_, LR.lookup_insert_self _ _ _⟩
            · have hne : k ≠ (r0.name, s.off) := fun he => hin (he ▸ hk')
              rw [LR.lookup_insert_ne _ _ hne]
              exact hpre.good.heads k hk'
          · have hne : k ≠ (r0.name, s.off) := fun he => hk (he ▸ List.mem_cons_self ..)
            rw [LR.lookup_insert_ne _ _ hne] at hl1
            exact hpre.good.valid k r1 hl1 (fun hk' => hk (List.mem_cons_of_mem _ hk'))
          · by_cases he : k = (r0.name, s.off)
            · subst he
              rw [LR.lookup_insert_self] at hl1
              cases hl1
            · rw [LR.lookup_insert_ne _ _ he] at hl1
              exact hpre.good.wf k v s' hl1
          · intro k hk
            rcases List.mem_cons.1 hk with he | hk'
            · subst he; exact Nat.le_refl _
            · exact hpre.le k hk'
        obtain ⟨hevt, hgood, hwf⟩ := growLoop_postLR hrec hp hself hothers _ _ _ _ _ hm hpre1
          (LR.lookup_insert_self _ _ _) (fun m hm => by cases hm)
        -- every seed environment of interest is mirrored by the loop
        have hgrow : ∀ σ, GrowC env N H r0 s.off σ →
            Evt (fun m => SpecLR.stepRule env u (SpecLR.eval env u m) m σ name (clr s)) (abs res) := by
          intro σ hσ
          obtain ⟨m0, h0⟩ := hevt σ hσ
          refine ⟨m0, fun m hm => ?_⟩
          show SpecLR.stepRule env u (SpecLR.eval env u m) m σ name (clr s) = some (abs res)
          rw [specLR_stepRule_grow hfind hlr _ _ _ (clr s) hσ.2.1]
          exact h0 m m hm hm
        refine ⟨fun σ hσ => hgrow σ ⟨hσ.1, ?_, fun Q hQ hq => ?_⟩, fun hnp => ?_, hwf⟩
        · -- no seed for the rule itself
          cases hs : seedOf σ (r0.name, s.off) with
          | none => rfl
          | some seed =>
            rcases hσ.2 r0.name (Or.inr (by simp [hs])) with h0 | ⟨_, hm', _⟩
            · exact absurd rfl (h0.avoid_ne hfind).1
            · exact absurd hm' hin
        · -- the other heads at this offset are avoided by the body
          rcases hσ.2 Q hq with h0 | ⟨h0, hm', _⟩
          · exact (h0.avoid_ne hfind).2
          · exact ((havoid hin Q h0 hm').avoid_ne hfind).2
        · -- the invariant, the final answer being a valid entry now
          obtain ⟨hg1, hl1⟩ := hgood hnp
          refine ⟨hg1.uctx, fun k hk => hg1.heads k (List.mem_cons_of_mem _ hk), fun k r1 hlk hk => ?_,
            hg1.wf⟩
          by_cases he : k = (r0.name, s.off)
          · subst he
            rw [hl1] at hlk
            cases hlk
            intro σ hσ
            have hgc : GrowC env N H r0 s.off σ := by
              refine ⟨fun k seed hs => ?_, ?_, fun Q hQ hq => ?_⟩
              · rcases hσ k.1 k.2 seed hs with h1 | ⟨h1, _⟩
                · exact Nat.le_of_lt h1
                · exact Nat.le_of_eq h1
              · cases hs : seedOf σ (r0.name, s.off) with
                | none => rfl
                | some seed =>
                  rcases hσ _ _ seed hs with h1 | ⟨_, h2⟩
                  · simp only at h1; omega
                  · exact absurd rfl (h2.avoid_ne (hname.symm ▸ hfind)).1
              · rcases hq with hq | hq
                · exact hothers Q hq
                · cases hs : seedOf σ (Q, s.off) with
                  | none => simp [hs] at hq
                  | some seed =>
                    rcases hσ _ _ seed hs with h1 | ⟨_, h2⟩
                    · simp only at h1; omega
                    · exact (h2.avoid_ne (hname.symm ▸ hfind)).2
            have := (hgrow σ hgc).succ (f := fun m => (SpecLR.eval env u m σ).rule name (clr s))
            simp only [hname]
            rw [← clr_eq_of_wf hpre.wf]
            exact this
          · exact hg1.valid k r1 hlk (fun hk' => by
              rcases List.mem_cons.1 hk' with h1 | h1
              · exact he h1
              · exact hk h1)
    · -- not @leftrec
      have hlr' : r0.flags.leftRecursive = false := by simpa using hlr
      simp only [hlr', Bool.false_eq_true, if_false] at hm
      have himp := hbodyImp hlr'
      have hbodyPost : ∀ g0 rb gb, ruleBody env rec r0 s g0 = some (rb, gb) →
          PreLR env u inp N H s g0 → g0.cache = g.cache →
          PostLR env u inp N H (fun σ => Compat H σ g s.off (fun Q m => ChkR env N Q m name))
            (fun σ m => SpecLR.stepRule env u (SpecLR.eval env u m) m σ name (clr s)) rb gb := by
        intro g0 rb gb hb hp0 hc0
        have := (ruleBody_postLR hrec hp hb hp0 (hsafe.imp himp)).mono (C := fun σ =>
          Compat H σ g s.off (fun Q m => ChkR env N Q m name))
          (fun σ hσ => hσ.next (fun k x hx => by rw [LR.lookup_of_cache_eq hc0]; exact hx) hpre.le
            (Nat.le_refl _) (fun _ => himp))
        exact this.of_eq (fun σ m => (specLR_stepRule_plain hfind hlr' _ _ _ _).symm)
      split at hm
      · -- @memoize
        rename_i hmemo
        have havoid : ∀ Q, ChkR env N Q true name → (Q, s.off) ∈ H → ChkR env N Q false name := by
          intro Q hq _
          rcases hq.rule hfind with ⟨_, _, h3⟩ | ⟨h1, _⟩ | ⟨_, _, h3, _⟩
          · rw [hlr'] at h3; cases h3
          · exact hq.to_avoid hfind h1 (Or.inr hmemo)
          · rw [hmemo] at h3; cases h3
        have hin : (r0.name, s.off) ∉ H := by
          intro hin
          have hq : ChkR env N r0.name false name := by
            rcases hsafe _ hin with h0 | h0
            · exact h0
            · exact havoid _ h0 hin
          exact absurd rfl (hq.avoid_ne hfind).1
        split at hm
        · -- cache hit
          rename_i cached hl
          simp only [Option.some.injEq, Prod.mk.injEq] at hm
          obtain ⟨rfl, rfl⟩ := hm
          have hl' : g.lookup (r0.name, s.off) = some cached := hl
          refine ⟨fun σ hσ => ?_, fun _ => hpre0.good.emit _, fun v s' hr => hpre.good.wf _ v s' (hr ▸ hl')⟩
          exact valid_hit hfind hpre.wf (hpre.good.valid _ _ hl' hin) havoid hσ
        · -- cache miss
          rename_i hmiss
          split at hm
          · cases hm
          · rename_i msg g2 hb
            simp only [Option.some.injEq, Prod.mk.injEq] at hm
            obtain ⟨rfl, rfl⟩ := hm
            exact hbodyPost _ _ _ hb (hpre0.emit _) rfl
          · rename_i r2 g2 hne hb
            simp only [Option.some.injEq, Prod.mk.injEq] at hm
            obtain ⟨rfl, rfl⟩ := hm
            have hpost := hbodyPost _ _ _ hb (hpre0.emit _) rfl
            refine ⟨hpost.1, fun hnp => ?_, hpost.2.2⟩
            have hg2 := hpost.2.1 hnp
            refine ⟨hg2.uctx, fun k hk => ?_, fun k r1 hlk hk => ?_, fun k v s' hlk => ?_⟩
            · have hne' : k ≠ (r0.name, s.off) := fun he => hin (he ▸ hk)
              rw [LR.lookup_insert_ne _ _ hne']
              exact hg2.heads k hk
            · by_cases he : k = (r0.name, s.off)
              · subst he
                rw [LR.lookup_insert_self] at hlk
                cases hlk
                intro σ hσ
                have hc : Compat H σ g s.off (fun Q m => ChkR env N Q m name) := by
                  refine ⟨fun k seed hs => ?_, fun Q hq => Or.inl ?_⟩
                  · rcases hσ k.1 k.2 seed hs with h1 | ⟨h1, _⟩
                    · exact Nat.le_of_lt h1
                    · exact Nat.le_of_eq h1
                  · rcases hq with hq | hq
                    · rcases hsafe Q hq with h0 | h0
                      · exact h0
                      · exact havoid Q h0 hq
                    · cases hs : seedOf σ (Q, s.off) with
                      | none => simp [hs] at hq
                      | some seed =>
                        rcases hσ _ _ seed hs with h1 | ⟨_, h2⟩
                        · simp only at h1; omega
                        · simpa only [hname] using h2
                have := (hpost.1 σ hc).succ (f := fun m => (SpecLR.eval env u m σ).rule name (clr s))
                simp only [hname]
                rw [← clr_eq_of_wf hpre.wf]
                exact this
              · rw [LR.lookup_insert_ne _ _ he] at hlk
                exact hg2.valid k r1 hlk hk
            · by_cases he : k = (r0.name, s.off)
              · subst he
                rw [LR.lookup_insert_self] at hlk
                exact hpost.2.2 v s' (Option.some.inj hlk)
              · rw [LR.lookup_insert_ne _ _ he] at hlk
                exact hg2.wf k v s' hlk
      · exact hbodyPost _ _ _ hm hpre0 rfl

theorem stepRule_postLR {rec : Rec} (hrec : RefLR env u inp N rec) (hp : PureHooks env.hooks)
    (hok : LRHyp env N) (n : Nat) {H : Heads} {name s g r g'}
    (h : stepRule env rec n name s g = some (r, g')) (hpre : PreLR env u inp N H s g)
    (hsafe : SafeH H s.off (fun Q m => ChkR env N Q m name)) :
    PostLR env u inp N H (fun σ => Compat H σ g s.off (fun Q m => ChkR env N Q m name))
      (fun σ m => SpecLR.stepRule env u (SpecLR.eval env u m) m σ name (clr s)) r g' := by
  unfold stepRule at h
  split at h
  · -- normal rule
    rename_i r0 hfind
    exact normalRule_postLR hrec hp hok n hfind h hpre hsafe
  · -- @char rule
    rename_i cr hfind
    have hother : ∀ r0, env.g.find name ≠ some (.rule r0) := fun r0 he => by rw [hfind] at he; cases he
    have himp : Imp (fun Q m => ChkR env N Q m name) (PartsP env N cr.choices) := by
      refine ⟨fun Q hq => ?_, fun Q hq => ?_⟩
      · rcases hq.charRule hfind with h0 | h0 <;> exact h0
      · rcases hq.charRule hfind with h0 | h0
        · exact Or.inl h0
        · exact Or.inr h0
    suffices hpost : PostLR env u inp N H (fun σ => Compat H σ g s.off (fun Q m => ChkR env N Q m name))
        (fun σ m => Spec.charRule env (SpecLR.eval env u m σ) cr (clr s)) r g' by
      refine hpost.of_eq (fun σ m => ?_)
      rw [specLR_stepRule_other hother]
      unfold Spec.stepRule
      rw [hfind]
    unfold charRule at h
    unfold Spec.charRule
    split at h
    · rename_i hc
      simp only [if_pos hc]
      exact (charParts_postLR hrec _ _ _ _ _ _ h hpre (hsafe.imp himp)).mono
        (fun σ hσ => hσ.imp hpre.le himp)
    · rename_i hc
      simp only [if_neg hc]
      split at h
      · rename_i hd
        simp only [Option.some.injEq, Prod.mk.injEq] at h
        obtain ⟨rfl, rfl⟩ := h
        exact PostLR.const (fun _ _ => by simp only [clr_rest, hd]; rfl) hpre.good (fun v s' h => by cases h)
      · rename_i c hd
        simp only [clr_rest, hd]
        split at h
        · rename_i e g1 hcc
          obtain ⟨h1, h2, h3⟩ := charChecks_spec _ _ _ _ _ _ _ hcc
          simp only [Option.some.injEq, Prod.mk.injEq] at h
          obtain ⟨rfl, rfl⟩ := h
          have hck : Spec.charChecksOk env cr.directives c = false := by simpa using h1.symm
          exact PostLR.const (fun _ _ => by simp only [hck, Bool.false_eq_true, if_false]; rfl)
            (hpre.good.of_cache h2 h3) (fun v s' h => by cases h)
        · rename_i g1 hcc
          obtain ⟨h1, h2, h3⟩ := charChecks_spec _ _ _ _ _ _ _ hcc
          have hck : Spec.charChecksOk env cr.directives c = true := by simpa using h1.symm
          simp only [hck, if_true]
          exact (charParts_postLR hrec _ _ _ _ _ _ h (hpre.of_cache h2 h3) (hsafe.imp himp)).mono
            (fun σ hσ => hσ.next (fun k x hx => by rw [LR.lookup_of_cache_eq h2]; exact hx) hpre.le
              (Nat.le_refl _) (fun _ => himp))
  · -- @extern rule
    rename_i er hfind
    have hother : ∀ r0, env.g.find name ≠ some (.rule r0) := fun r0 he => by rw [hfind] at he; cases he
    suffices hpost : PostLR env u inp N H (fun σ => Compat H σ g s.off (fun Q m => ChkR env N Q m name))
        (fun _ _ => Spec.externRule env u er (clr s)) r g' by
      refine hpost.of_eq (fun σ m => ?_)
      rw [specLR_stepRule_other hother]
      unfold Spec.stepRule
      rw [hfind]
    unfold externRule at h
    unfold Spec.externRule
    simp only at h
    have hgu := hpre.good.uctx
    subst hgu
    have hu : (env.hooks.extern ("::".intercalate er.function) s.rest g.uctx).2 = g.uctx := hp.1 _ _ _
    have hg1 : GoodLR env g.uctx inp N H
        ({ g with uctx := (env.hooks.extern ("::".intercalate er.function) s.rest g.uctx).2 }.emit
          (.externCall ("::".intercalate er.function) s.off g.uctx)) := hpre.good.of_cache rfl hu
    simp only [clr_rest]
    split at h
    · rename_i v adv hres
      simp only [Option.some.injEq, Prod.mk.injEq] at h
      obtain ⟨rfl, rfl⟩ := h
      refine PostLR.const (fun _ _ => by simp only [hres, abs_advanceSafe]) hg1 ?_
      intro v' s' h
      exact wf_advanceSafe hpre.wf h
    · rename_i msg hres
      simp only [Option.some.injEq, Prod.mk.injEq] at h
      obtain ⟨rfl, rfl⟩ := h
      exact PostLR.const (fun _ _ => by simp only [hres, abs]) hg1 (fun v s' h => by cases h)
  · -- builtins
    rename_i hfind
    have hother : ∀ r0, env.g.find name ≠ some (.rule r0) := fun r0 he => by rw [hfind] at he; cases he
    suffices hpost : PostLR env u inp N H (fun σ => Compat H σ g s.off (fun Q m => ChkR env N Q m name))
        (fun _ _ => if name == "char" then some (abs ((parseChar (clr s)).map .chr))
          else if name == "Whitespace" then some (abs ((parseWhitespace (clr s)).map (fun _ => Val.unit)))
          else some (.panic ("uncompilable: undefined rule " ++ name))) r g' by
      refine hpost.of_eq (fun σ m => ?_)
      rw [specLR_stepRule_other hother]
      unfold Spec.stepRule
      rw [hfind]
    split at h
    · rename_i hc
      simp only [Option.some.injEq, Prod.mk.injEq] at h
      obtain ⟨rfl, rfl⟩ := h
      refine PostLR.const (fun _ _ => by simp only [hc, if_true, abs_map, abs_parseChar]) hpre.good ?_
      intro v s' h
      obtain ⟨v0, hv0⟩ := map_ok h
      exact wf_parseChar hpre.wf hv0
    · rename_i hc
      split at h
      · rename_i hc2
        simp only [Option.some.injEq, Prod.mk.injEq] at h
        obtain ⟨rfl, rfl⟩ := h
        refine PostLR.const (fun _ _ => by simp only [hc, hc2, if_true, abs_map, abs_parseWhitespace]; rfl)
          hpre.good ?_
        intro v s' h
        obtain ⟨v0, hv0⟩ := map_ok h
        exact wf_parseWhitespace hpre.wf hv0
      · rename_i hc2
        simp only [Option.some.injEq, Prod.mk.injEq] at h
        obtain ⟨rfl, rfl⟩ := h
        exact PostLR.panic (fun _ _ => by simp only [hc, hc2]; rfl)

/-- one unfolding of the evaluator preserves refinement -/
theorem step_refLR {rec : Rec} (hrec : RefLR env u inp N rec) (hp : PureHooks env.hooks)
    (hok : LRHyp env N) (n : Nat) : RefLR env u inp N (step env rec n) where
  rinv := LR.step_inv hrec.rinv n
  prog := LRC.step_progSound hrec.rinv hrec.prog n
  expr := fun _ _ _ _ _ _ _ h hpre hsafe => (stepExpr_postLR hrec n h hpre hsafe).succ
  rule := fun _ _ _ _ _ _ h hpre hsafe => (stepRule_postLR hrec hp hok n h hpre hsafe).succ

/-- **Refinement with left recursion**, evaluator level. -/
theorem eval_refLR_rec (hp : PureHooks env.hooks) (hok : LRHyp env N) :
    ∀ n, RefLR env u inp N (eval env n) := by
  intro n
  induction n with
  | zero =>
    exact ⟨LR.eval_inv env _ 0, LRC.eval_progSound env _ 0,
      fun _ _ _ _ _ _ _ h => by simp [eval] at h, fun _ _ _ _ _ _ h => by simp [eval] at h⟩
  | succ n ih => exact step_refLR ih hp hok n

end ruleLevel

/-! ## the theorem -/

/-- the decidable class gives the hypothesis of the proof, for the computed avoid sets -/
theorem lrHyp_of_LROkF {env : Env} {d : Nat} (h : LROkF env.g env.settings d) :
    LRHyp env (fun Q => LRC.avoidSet env.g env.settings Q d) := by
  intro r0 hmem hlr
  unfold LROkF at h
  simp only [List.all_eq_true] at h
  have := h _ hmem
  simp only [hlr, Bool.not_true, Bool.false_or, Bool.and_eq_true] at this
  exact ⟨⟨d, this.1⟩, d, this.2⟩

theorem preLR_init (env : Env) (u : Nat) (inp : List UInt8) (N : String → List String) :
    PreLR env u inp N [] (St.new inp) (Global.init u) := by
  refine ⟨wf_new inp, by simp [LR.Within, St.new], ⟨rfl, fun k hk => (by cases hk), fun k r hl => ?_,
    fun k v s' hl => ?_⟩, LR.CacheW.init _ _, fun k hk => (by cases hk)⟩
  · simp [Global.lookup, Global.init] at hl
  · simp [Global.lookup, Global.init] at hl

theorem compat_init (g : Global) (p : Nat) (P : PosP) : Compat [] [] g p P :=
  ⟨fun k seed hs => by simp [seedOf] at hs, fun Q hq => by
    rcases hq with hq | hq
    · cases hq
    · simp [seedOf] at hq⟩

/-- a finished run of the generated parser's model from a fresh state is, for every large enough
    fuel, the answer of the reference semantics with left recursion (explicit analysis fuel) -/
theorem parseAdvanced_evtLR (env : Env) (hp : PureHooks env.hooks) {d : Nat}
    (hok : LROkF env.g env.settings d) {n : Nat} {rule : String} {inp : List UInt8} {u : Nat} {r g}
    (h : parseAdvanced env n rule inp u = some (r, g)) :
    Evt (fun m => SpecLR.parse env u m rule inp) (abs r) := by
  have href := eval_refLR_rec (u := u) (inp := inp) hp (lrHyp_of_LROkF hok) n
  have hpost := href.rule [] rule (St.new inp) (Global.init u) r g h (preLR_init _ _ _ _)
    (fun Q hq => by cases hq)
  exact hpost.1 [] (compat_init _ _ _)

/-- **Refinement with left recursion.**  For a grammar in the class `LROk` and pure user functions,
    every answer of the model of the generated parser (any fuel, fresh global state) abstracts to
    the answer of the reference semantics with left recursion. -/
theorem eval_refLR (env : Env) (hp : PureHooks env.hooks) (hok : LROk env.g env.settings)
    {n : Nat} {rule : String} {inp : List UInt8} {u : Nat} {r g}
    (h : parseAdvanced env n rule inp u = some (r, g)) :
    ∃ m, SpecLR.parse env u m rule inp = some (abs r) := by
  obtain ⟨m0, h0⟩ := parseAdvanced_evtLR env hp hok h
  exact ⟨m0, h0 m0 (Nat.le_refl _)⟩

/-- … and it is *the* reference answer: whatever fuel the reference semantics answers with -/
theorem eval_refLR_eq (env : Env) (hp : PureHooks env.hooks) (hok : LROk env.g env.settings)
    {n m : Nat} {rule : String} {inp : List UInt8} {u : Nat} {r g r'}
    (h : parseAdvanced env n rule inp u = some (r, g))
    (h' : SpecLR.parse env u m rule inp = some r') : r' = abs r := by
  obtain ⟨m0, h0⟩ := eval_refLR env hp hok h
  exact SpecLR.parse_det env u h' h0

/-- the model's answer does not depend on the fuel (acceptance, tree, consumed bytes) -/
theorem parseAdvanced_detLR (env : Env) (hp : PureHooks env.hooks) (hok : LROk env.g env.settings)
    {n n' : Nat} {rule : String} {inp : List UInt8} {u : Nat} {r r' g g'}
    (h : parseAdvanced env n rule inp u = some (r, g))
    (h' : parseAdvanced env n' rule inp u = some (r', g')) : abs r = abs r' := by
  obtain ⟨m, hm⟩ := eval_refLR env hp hok h
  obtain ⟨m', hm'⟩ := eval_refLR env hp hok h'
  exact SpecLR.parse_det env u hm hm'

/-- for grammars without `@leftrec` rules the theorem is the old one (`eval_ref`): the reference
    answer is that of `Spec.eval` -/
theorem eval_refLR_noLeftrec (env : Env) (hp : PureHooks env.hooks) (hok : LROk env.g env.settings)
    (hnl : NoLeftrec env.g) {n : Nat} {rule : String} {inp : List UInt8} {u : Nat} {r g}
    (h : parseAdvanced env n rule inp u = some (r, g)) :
    ∃ m, Spec.parse env u m rule inp = some (abs r) := by
  obtain ⟨m, hm⟩ := eval_refLR env hp hok h
  exact ⟨m, by rw [← SpecLR.parse_eq_spec hnl]; exact hm⟩

/-! ## `@memoize` transparency with left recursion -/

namespace SpecLR

theorem lrRule_setMemo (env : Env) (M : String → Bool) (name : String) :
    lrRule (env.setMemo M) name = (lrRule env name).map (fun r => r.setMemo (M r.name)) := by
  unfold lrRule
  simp only [Env.setMemo_g, Grammar.find_setMemo]
  cases env.g.find name with
  | none => rfl
  | some e =>
    cases e with
    | rule r =>
      simp only [Option.map_some, RuleEntry.setMemo, Rule.setMemo_flags_leftRecursive]
      split <;> rfl
    | charRule r => rfl
    | externRule r => rfl

theorem stepRule_setMemo (env : Env) (M : String → Bool) (u : Nat) (rec : SRecLR) (n : Nat) (σ : Seeds) :
    stepRule (env.setMemo M) u rec n σ = stepRule env u rec n σ := by
  funext name s
  unfold stepRule
  rw [lrRule_setMemo]
  cases lrRule env name with
  | none => simp only [Option.map_none, Spec.stepRule_setMemo]
  | some r =>
    simp only [Option.map_some, Rule.setMemo_name]
    have : ∀ seed, Spec.ruleBody (env.setMemo M) u (rec (((r.name, s.off), seed) :: σ))
        (r.setMemo (M r.name)) s = Spec.ruleBody env u (rec (((r.name, s.off), seed) :: σ)) r s :=
      fun seed => Spec.ruleBody_setMemo env M u _ _ r s
    simp only [this]

/-- **`SpecLR.eval` does not look at `@memoize`.** -/
theorem eval_setMemo (env : Env) (M : String → Bool) (u : Nat) :
    ∀ n, SpecLR.eval (env.setMemo M) u n = SpecLR.eval env u n := by
  intro n
  induction n with
  | zero => rfl
  | succ n ih =>
    funext σ
    show step (env.setMemo M) u (eval (env.setMemo M) u n) n σ = step env u (eval env u n) n σ
    unfold step
    rw [ih, Spec.stepExpr_setMemo, stepRule_setMemo]

theorem parse_setMemo (env : Env) (M : String → Bool) (u fuel : Nat) (rule : String) (inp : List UInt8) :
    SpecLR.parse (env.setMemo M) u fuel rule inp = SpecLR.parse env u fuel rule inp := by
  simp only [parse, eval_setMemo]

end SpecLR

/-- the memoized model, with any set `M` of memoized rules for which the grammar is in the class,
    refines the reference semantics (with left recursion) of the grammar as written -/
theorem memo_refines_specLR (env : Env) (M : String → Bool) (hp : PureHooks env.hooks)
    (hok : LROk (env.g.setMemo M) env.settings)
    {rule : String} {inp : List UInt8} {u n : Nat} {r g}
    (h : parseAdvanced (env.setMemo M) n rule inp u = some (r, g)) :
    ∃ m, SpecLR.parse env u m rule inp = some (abs r) := by
  obtain ⟨m, hm⟩ := eval_refLR (env.setMemo M) hp hok h
  exact ⟨m, by rw [← SpecLR.parse_setMemo env M]; exact hm⟩

/-- **`@memoize` transparency with `@leftrec` rules** (`C05` style): two sets of memoized rules, both
    outside the cycles (`LROk`), any two fuels: the same answer – acceptance, tree, consumed bytes;
    only the error payload may differ. -/
theorem memo_transparentLR (env : Env) (M M' : String → Bool) (hp : PureHooks env.hooks)
    (hok : LROk (env.g.setMemo M) env.settings) (hok' : LROk (env.g.setMemo M') env.settings)
    {rule : String} {inp : List UInt8} {u n n' : Nat} {r r' g g'}
    (h : parseAdvanced (env.setMemo M) n rule inp u = some (r, g))
    (h' : parseAdvanced (env.setMemo M') n' rule inp u = some (r', g')) :
    abs r = abs r' := by
  obtain ⟨m, hm⟩ := memo_refines_specLR env M hp hok h
  obtain ⟨m', hm'⟩ := memo_refines_specLR env M' hp hok' h'
  exact SpecLR.parse_det env u hm hm'

/-! ## non-vacuity, and why the class excludes what it excludes (all checked by the kernel) -/

namespace LRExample
open LeftRecExample

theorem pureDefault : PureHooks (default : Hooks) := ⟨fun _ _ _ => rfl, fun _ _ _ => rfl⟩

/-- `@export @leftrec E = l:*E '+' r:Num | b:Num;  @string Num = {'0'..'9'}+;` is in the class -/
example : LROk envE.g envE.settings := by decide

/-- the reference semantics with left recursion on `"1+2+3"`: the tree nested to the left, all five
    bytes consumed -/
example :
    (match SpecLR.parse envE 0 12 "E" inp with
     | some (.ok v s) =>
       v.render == "E { l: Some(E { l: Some(E { l: None, r: None, b: Some(S\"31\") }), r: Some(S\"32\"), b: None }), r: Some(S\"33\"), b: None }"
       && s.off == 5 && s.rest == []
     | _ => false) = true := by decide +kernel

/-- the theorem applied to the run `LeftRecExample.parse_123` of the model: the reference answer is
    `E{l: E{l: E{b: "1"}, r: "2"}, r: "3"}` ending at offset 5 – obtained by `eval_refLR`, not by
    evaluating `SpecLR.parse` -/
example : ∃ m, SpecLR.parse envE 0 m "E" inp = some (.ok (extE 1 (extE 0 b0E)) (clr (stE 2))) := by
  obtain ⟨g', h⟩ := parse_123
  exact eval_refLR envE pureDefault (by decide) h

def fld (n t : String) : Expr := .field (some (.ident n)) false t
def fldB (n t : String) : Expr := .field (some (.ident n)) true t
def chr (c : Char) : Expr := .lit false [.chr c]

/-! the calculator tower
    `@export @leftrec E = l:*E '+' r:T | t:T;  @leftrec T = l:*T '*' r:F | f:F;
     F = '(' e:*E ')' | n:Num;  @string Num = {'0'..'9'}+;` -/
def calcE : Rule := ⟨[.export, .leftrec], "E",
  .choice [.seq [fldB "l" "E", chr '+', fld "r" "T"], .seq [fld "t" "T"]]⟩
def calcT : Rule := ⟨[.leftrec], "T",
  .choice [.seq [fldB "l" "T", chr '*', fld "r" "F"], .seq [fld "f" "F"]]⟩
def calcF : Rule := ⟨[], "F",
  .choice [.seq [chr '(', fldB "e" "E", chr ')'], .seq [fld "n" "Num"]]⟩
def calcEnv : Env :=
  { g := ⟨[.rule calcE, .rule calcT, .rule calcF, .rule ruleNum]⟩, settings := {}, hooks := default, nf := 20 }

/-- the tower is in the class: `T` (another `@leftrec` rule) is evaluated at the position where `E`
    grows, but `E` cannot be reached from `T` before `'('` is consumed: `T` is outside the cycle -/
example : LROk calcEnv.g calcEnv.settings := by decide

example : LRC.avoidSet calcEnv.g calcEnv.settings "E" (LRC.fuel calcEnv.g) = ["T", "F", "Num"] := by decide
example : LRC.avoidSet calcEnv.g calcEnv.settings "T" (LRC.fuel calcEnv.g) = ["F", "Num"] := by decide

/-- `(1+2)*3+4`: model and reference semantics agree (here by evaluation; in general by `eval_refLR`) -/
example :
    (match parseAdvanced calcEnv 40 "E" [40, 49, 43, 50, 41, 42, 51, 43, 52] 0,
           SpecLR.parse calcEnv 0 40 "E" [40, 49, 43, 50, 41, 42, 51, 43, 52] with
     | some (.ok v s, _), some (.ok v' s') => v.render == v'.render && s.off == 9 && s'.off == 9
     | _, _ => false) = true := by decide +kernel

/-- `@memoize` on `F` and/or `Num` (outside the cycles) keeps the grammar in the class, so
    `memo_transparentLR` applies to these sets of memoized rules -/
example : LROk (calcEnv.g.setMemo (fun n => n == "F")) calcEnv.settings := by decide
example : LROk (calcEnv.g.setMemo (fun n => n == "F" || n == "Num")) calcEnv.settings := by decide
example : LROk (calcEnv.g.setMemo (fun _ => false)) calcEnv.settings := by decide

example {inp : List UInt8} {n n' : Nat} {r r' g g'}
    (h : parseAdvanced (calcEnv.setMemo (fun n => n == "F")) n "E" inp 0 = some (r, g))
    (h' : parseAdvanced (calcEnv.setMemo (fun _ => false)) n' "E" inp 0 = some (r', g')) :
    abs r = abs r' :=
  memo_transparentLR calcEnv _ _ pureDefault (by decide) (by decide) h h'

/-- `@memoize` on a `@leftrec` rule is accepted too: for the generator `@leftrec` wins, the flag
    changes nothing (`memoBody` tests `leftRecursive` first), and neither does it for the class -/
example : LROk (calcEnv.g.setMemo (fun _ => true)) calcEnv.settings := by decide

/-! indirect left recursion through an ordinary rule: in the class -/
def indE : Rule := ⟨[.export, .leftrec], "E",
  .choice [.seq [fld "m" "M", chr '+', fld "n" "Num"], .seq [fld "n" "Num"]]⟩
def indM (ds : List Directive) : Rule := ⟨ds, "M", .choice [.seq [fldB "e" "E"]]⟩
def ind (ds : List Directive) : Env :=
  { g := ⟨[.rule indE, .rule (indM ds), .rule ruleNum]⟩, settings := {}, hooks := default, nf := 20 }

example : LROk (ind []).g (ind []).settings := by decide

/-- **why a `@memoize` rule inside the cycle is excluded.**  `@memoize M = e:*E` between `E` and itself:
    the failure of `M` at offset 0 computed while the seed of `E` was still the failing sentinel
    stays in the cache, the second iteration reads it, `E` never grows: the model answers `"1"` (one
    byte) on `"1+2+3"`, the reference semantics (and the model without the `@memoize`) all five. -/
example : ¬ LROk (ind [.memoize]).g (ind [.memoize]).settings := by decide

example :
    (match parseAdvanced (ind [.memoize]) 30 "E" inp 0, SpecLR.parse (ind [.memoize]) 0 30 "E" inp,
           parseAdvanced (ind []) 30 "E" inp 0 with
     | some (.ok _ s, _), some (.ok _ s'), some (.ok _ s'', _) => s.off == 1 && s'.off == 5 && s''.off == 5
     | _, _, _ => false) = true := by decide +kernel

/-- **why a second `@leftrec` rule inside the cycle is excluded.**
    `@leftrec A = b:*B 'x' | n:Num;  @leftrec B = a:*A 'y' | n:Num;` on `"1yxyx"`: the final answer of
    `B` at offset 0, computed under the first seed of `A`, is reused in the later iterations of `A`:
    the model answers one byte, the reference semantics all five. -/
def mutA : Rule := ⟨[.export, .leftrec], "A", .choice [.seq [fldB "b" "B", chr 'x'], .seq [fld "n" "Num"]]⟩
def mutB : Rule := ⟨[.leftrec], "B", .choice [.seq [fldB "a" "A", chr 'y'], .seq [fld "n" "Num"]]⟩
def mutEnv : Env := { g := ⟨[.rule mutA, .rule mutB, .rule ruleNum]⟩, settings := {}, hooks := default, nf := 20 }

example : ¬ LROk mutEnv.g mutEnv.settings := by decide

example :
    (match parseAdvanced mutEnv 40 "A" [49, 121, 120, 121, 120] 0, SpecLR.parse mutEnv 0 40 "A" [49, 121, 120, 121, 120] with
     | some (.ok _ s, _), some (.ok _ s') => s.off == 1 && s'.off == 5
     | _, _ => false) = true := by decide +kernel

/-- the known defect K4 is *not* excluded: on `" 1+2+3"` (leading blank, whitespace skipping on) the
    recursive reference is evaluated after the blank, at offset 1, where no seed is planted; the rule
    matches `" 1"` only.  Model and reference semantics agree on that (as `eval_refLR` says). -/
example :
    (match parseAdvanced envE 30 "E" (32 :: inp) 0, SpecLR.parse envE 0 30 "E" (32 :: inp) with
     | some (.ok v s, _), some (.ok v' s') => v.render == v'.render && s.off == 2 && s'.off == 2
     | _, _ => false) = true := by decide +kernel

end LRExample

end Peg
