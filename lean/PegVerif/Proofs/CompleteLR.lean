import PegVerif.Proofs.RefineLR
/-
  Completeness of the implementation model with respect to the reference semantics WITH left
  recursion (the converse of `eval_refLR`, RefineLR.lean): for a grammar of the class `LROk` and pure
  user functions, whenever `SpecLR.parse` answers, the model `parseAdvanced` answers too (with enough
  fuel), and its answer abstracts to the reference answer.  Hence the generated parser terminates
  with an answer exactly when the growth semantics does (`parse_iffLR`).

  GENERAL left recursion (direct, or indirect through ordinary rules: everything `LROk` admits), not
  only direct left recursion.

  Structure ("the model does not get stuck"): `Ans f` = the fuel-indexed model computation `f`
  answers, with the same answer, for every large enough fuel.  `CompAt m` = every evaluation that the
  reference evaluator `SpecLR.eval env u m σ` answers is answered by the model, from every model state
  satisfying the invariant of RefineLR.lean (`PreLR`, `SafeH`) whose growing heads / planted seeds are
  compatible with `σ` (`Compat` – the "compatible σ" quantification of RefineLR.lean, used the other
  way round: GIVEN the model state and a compatible `σ` under which the reference answers).
  What the model's answer is, and that the invariant holds afterwards, is NOT proved again: it is
  taken from the soundness theorem (`eval_refLR_rec`) applied to the run that was just shown to
  exist, plus determinism of the reference semantics (`CompAt.exprS`, `CompAt.ruleS`, `ruleBodyS`).
  One lemma per helper / construct; then induction on the fuel `m` of the reference semantics.

  The new part is the grow loop (`growLoop_a`): when `SpecLR.growLoop` runs `k` iterations from the
  seed `abs best`, `Peg.growLoop` – from a model state whose cache holds `best` under the key of the
  head – answers for every loop counter and fuel that is large enough; every body evaluation is
  answered by the induction hypothesis under `σ` extended with the current seed (`compat_grow`).
-/
namespace Peg
open Spec SpecLR
namespace CLR

/-! ## convergence of the model -/

/-- the fuel-indexed implementation computation `f` answers `(r', g')` for every large enough fuel -/
def Cv {α} (f : Nat → Out α) (r' : Res α) (g' : Global) : Prop :=
  ∃ n0, ∀ n, n0 ≤ n → f n = some (r', g')

/-- `f` answers (with one and the same answer) for every large enough fuel -/
def Ans {α} (f : Nat → Out α) : Prop := ∃ r' g', Cv f r' g'

theorem Ans.const {α} {f : Nat → Out α} {y : Res α × Global} (hf : ∀ n, f n = some y) : Ans f :=
  ⟨y.1, y.2, 0, fun n _ => hf n⟩

theorem Ans.succ {α} {f : Nat → Out α} (h : Ans (fun n => f (n + 1))) : Ans f := by
  obtain ⟨r', g', n0, h0⟩ := h
  refine ⟨r', g', n0 + 1, fun n hn => ?_⟩
  obtain ⟨n', rfl⟩ : ∃ n', n = n' + 1 := ⟨n - 1, by omega⟩
  exact h0 n' (by omega)

theorem Ans.of_eq {α} {f f' : Nat → Out α} (h : Ans f) (he : ∀ n, f n = f' n) : Ans f' := by
  obtain ⟨r', g', n0, h0⟩ := h
  exact ⟨r', g', n0, fun n hn => (he n) ▸ h0 n hn⟩

theorem abs_ok_inv {α} {r' : Res α} {v : α} {s0 : St} (h : abs r' = .ok v s0) :
    ∃ s1, r' = .ok v s1 ∧ clr s1 = s0 := by
  cases r' with
  | ok v1 s1 =>
    simp only [abs, Res.ok.injEq] at h
    obtain ⟨rfl, rfl⟩ := h
    exact ⟨s1, rfl, rfl⟩
  | err e => simp [abs] at h
  | panic m => simp [abs] at h

theorem abs_err_inv {α} {r' : Res α} {e0 : PErr} (h : abs r' = (.err e0 : Res α)) : ∃ e, r' = .err e := by
  cases r' with
  | ok v1 s1 => simp [abs] at h
  | err e => exact ⟨e, rfl⟩
  | panic m => simp [abs] at h

theorem abs_panic_inv {α} {r' : Res α} {m : String} (h : abs r' = (.panic m : Res α)) : r' = .panic m := by
  cases r' with
  | ok v1 s1 => simp [abs] at h
  | err e => simp [abs] at h
  | panic m' =>
    simp only [abs, Res.panic.injEq] at h
    subst h; rfl

/-- sequencing: the sub-computation answers with an answer that abstracts to the reference's, and
    satisfies `Q`; the continuation answers whenever the reference continuation does -/
theorem bindR_a {α β} {x : SOut α} {k : α → St → SOut β} {r : Res β}
    {fx : Nat → Out α} {fk : Nat → α → St → Global → Out β} {Q : Res α → Global → Prop}
    (h : bindS x k = some r)
    (hx : ∀ rx, x = some rx → ∃ r' g', Cv fx r' g' ∧ abs r' = rx ∧ Q r' g')
    (hk : ∀ v s1 g1 r, k v (clr s1) = some r → Q (.ok v s1) g1 → Ans (fun n => fk n v s1 g1)) :
    Ans (fun n => bindR (fx n) (fk n)) := by
  cases x with
  | none => simp [bindS] at h
  | some rx =>
    obtain ⟨r', g1, ⟨n0, h0⟩, ha, hq⟩ := hx rx rfl
    cases rx with
    | ok v s0 =>
      obtain ⟨s1, rfl, rfl⟩ := abs_ok_inv ha
      simp only [bindS] at h
      obtain ⟨r2, g2, n1, h1⟩ := hk v s1 g1 r h hq
      refine ⟨r2, g2, max n0 n1, fun n hn => ?_⟩
      simp only [h0 n (by omega), bindR]
      exact h1 n (by omega)
    | err e0 =>
      obtain ⟨e, rfl⟩ := abs_err_inv ha
      exact ⟨.err e, g1, n0, fun n hn => by simp only [h0 n hn, bindR]⟩
    | panic msg =>
      have := abs_panic_inv ha
      subst this
      exact ⟨.panic msg, g1, n0, fun n hn => by simp only [h0 n hn, bindR]⟩

/-- sequencing with a continuation that always answers (pure plumbing, `@check` calls) -/
theorem bindR_tot {α β} {fx : Nat → Out α} {fk : Nat → α → St → Global → Out β}
    (hx : Ans fx) (hk : ∀ v s1 g1, ∃ y, ∀ n, fk n v s1 g1 = some y) :
    Ans (fun n => bindR (fx n) (fk n)) := by
  obtain ⟨r', g1, n0, h0⟩ := hx
  cases r' with
  | ok v s1 =>
    obtain ⟨y, hy⟩ := hk v s1 g1
    exact ⟨y.1, y.2, n0, fun n hn => by simp only [h0 n hn, bindR, hy n]⟩
  | err e => exact ⟨.err e, g1, n0, fun n hn => by simp only [h0 n hn, bindR]⟩
  | panic m => exact ⟨.panic m, g1, n0, fun n hn => by simp only [h0 n hn, bindR]⟩

theorem bindS_some {α β} {x : SOut α} {k : α → St → SOut β} {r : Res β} (h : bindS x k = some r) :
    ∃ rx, x = some rx := by
  cases x with
  | none => simp [bindS] at h
  | some rx => exact ⟨rx, rfl⟩

/-! ## the completeness statement -/

section
variable {env : Env} {u : Nat} {inp : List UInt8} {N : String → List String}

variable (env u inp N) in
/-- what is known after a model run (the part of `Full` that does not mention the reference) -/
def Inv' {α} (H : Heads) (s : St) (g : Global) (r' : Res α) (g' : Global) : Prop :=
  LR.Keeps g g' ∧ LR.CacheW inp.length g' ∧ ((∀ m, r' ≠ .panic m) → GoodLR env u inp N H g') ∧
    ∀ v s', r' = .ok v s' → PreLR env u inp N H s' g' ∧ s.off ≤ s'.off

theorem inv'_of_full {α} {H : Heads} {s : St} {g : Global} {C : Seeds → Prop} {F : Seeds → Nat → SOut α}
    {r' : Res α} {g' : Global} (h : Full env u inp N H s g C F r' g') : Inv' env u inp N H s g r' g' :=
  ⟨h.keeps, h.cw, h.good, h.ok⟩

variable (env u inp N) in
/-- completeness of `eval` with respect to the reference evaluator at fuel `m`: from every model state
    satisfying the invariant, at a position that is safe for the growing heads, under every seed
    environment compatible with the model state -/
structure CompAt (m : Nat) : Prop where
  expr : ∀ H σ ctx e s g r, (SpecLR.eval env u m σ).expr ctx e (clr s) = some r →
    PreLR env u inp N H s g → SafeH H s.off (fun Q md => ChkE env N Q md ctx.skipWs e) →
    Compat H σ g s.off (fun Q md => ChkE env N Q md ctx.skipWs e) →
    Ans (fun n => (eval env n).expr ctx e s g)
  rule : ∀ H σ name s g r, (SpecLR.eval env u m σ).rule name (clr s) = some r →
    PreLR env u inp N H s g → SafeH H s.off (fun Q md => ChkR env N Q md name) →
    Compat H σ g s.off (fun Q md => ChkR env N Q md name) →
    Ans (fun n => (eval env n).rule name s g)

/-- an expression evaluation the reference answers: the model converges, its answer abstracts to the
    reference answer (soundness + determinism), the invariant holds afterwards (soundness) -/
theorem CompAt.exprS {m : Nat} (hc : CompAt env u inp N m) (hp : PureHooks env.hooks)
    (hok : LRHyp env N) {H : Heads} {σ : Seeds} {ctx e s g r}
    (h : (SpecLR.eval env u m σ).expr ctx e (clr s) = some r) (hpre : PreLR env u inp N H s g)
    (hsafe : SafeH H s.off (fun Q md => ChkE env N Q md ctx.skipWs e))
    (hcomp : Compat H σ g s.off (fun Q md => ChkE env N Q md ctx.skipWs e)) :
    ∃ r' g', Cv (fun n => (eval env n).expr ctx e s g) r' g' ∧ abs r' = r ∧
      (Inv' env u inp N H s g r' g' ∧ ∀ v s', r' = .ok v s' → LRC.ProgE env e → s.off < s'.off) := by
  obtain ⟨r', g', n0, h0⟩ := hc.expr H σ ctx e s g r h hpre hsafe hcomp
  have hx := h0 n0 (Nat.le_refl _)
  have hrec := eval_refLR_rec (u := u) (inp := inp) hp hok n0
  have hF := hrec.exprF hx hpre hsafe
  obtain ⟨m1, h1⟩ := hF.evt σ hcomp
  refine ⟨r', g', ⟨n0, h0⟩, (SpecLR.eval_expr_det env u h (h1 m1 (Nat.le_refl _))).symm,
    inv'_of_full hF, fun v s' hr hpr => ?_⟩
  subst hr
  exact hrec.prog.expr _ _ _ _ _ _ _ hpr hpre.within hpre.cw hx

theorem CompAt.ruleS {m : Nat} (hc : CompAt env u inp N m) (hp : PureHooks env.hooks)
    (hok : LRHyp env N) {H : Heads} {σ : Seeds} {name s g r}
    (h : (SpecLR.eval env u m σ).rule name (clr s) = some r) (hpre : PreLR env u inp N H s g)
    (hsafe : SafeH H s.off (fun Q md => ChkR env N Q md name))
    (hcomp : Compat H σ g s.off (fun Q md => ChkR env N Q md name)) :
    ∃ r' g', Cv (fun n => (eval env n).rule name s g) r' g' ∧ abs r' = r ∧
      Inv' env u inp N H s g r' g' := by
  obtain ⟨r', g', n0, h0⟩ := hc.rule H σ name s g r h hpre hsafe hcomp
  have hx := h0 n0 (Nat.le_refl _)
  have hrec := eval_refLR_rec (u := u) (inp := inp) hp hok n0
  have hF := hrec.ruleF hx hpre hsafe
  obtain ⟨m1, h1⟩ := hF.evt σ hcomp
  exact ⟨r', g', ⟨n0, h0⟩, (SpecLR.eval_rule_det env u h (h1 m1 (Nat.le_refl _))).symm, inv'_of_full hF⟩

/-! ## expression level -/

/-- `generate_skip_ws` -/
theorem withSkipWs_a {α} {m : Nat} (hc : CompAt env u inp N m) (hp : PureHooks env.hooks)
    (hok : LRHyp env N) {ctx : Ctx} {H : Heads} {σ : Seeds} {s : St} {g : Global}
    {k : St → SOut α} {fk : Nat → St → Global → Out α} {r : Res α}
    (h : Spec.withSkipWs (SpecLR.eval env u m σ) ctx (clr s) k = some r) (hpre : PreLR env u inp N H s g)
    (hsafe : ctx.skipWs = true → SafeH H s.off (fun Q md => ChkR env N Q md "Whitespace"))
    (hcomp : ctx.skipWs = true → Compat H σ g s.off (fun Q md => ChkR env N Q md "Whitespace"))
    (hk : ∀ s1 g1 r, k (clr s1) = some r → PreLR env u inp N H s1 g1 → s.off ≤ s1.off → LR.Keeps g g1 →
      Ans (fun n => fk n s1 g1)) :
    Ans (fun n => Peg.withSkipWs (eval env n) ctx s g (fk n)) := by
  unfold Spec.withSkipWs at h
  unfold Peg.withSkipWs
  split at h
  · rename_i hs
    simp only [hs, if_true]
    refine bindR_a (fk := fun n _ s' g' => fk n s' g') (Q := Inv' env u inp N H s g) h
      (fun rx hx => hc.ruleS hp hok hx hpre (hsafe hs) (hcomp hs)) ?_
    intro v s1 g1 r h hq
    obtain ⟨hp1, ho⟩ := hq.2.2.2 v s1 rfl
    exact hk s1 g1 r h hp1 ho hq.1
  · rename_i hs
    simp only [hs]
    exact hk _ _ _ h hpre (Nat.le_refl _) (LR.Keeps.refl g)

theorem evalSeq_a {m : Nat} (hc : CompAt env u inp N m) (hp : PureHooks env.hooks)
    (hok : LRHyp env N) {ctx : Ctx} {H : Heads} {σ : Seeds} :
    ∀ ps seen acc s g r, Spec.evalSeq env (SpecLR.eval env u m σ) ctx ps seen acc (clr s) = some r →
      PreLR env u inp N H s g → SafeH H s.off (fun Q md => ChkSeq env N Q md ctx.skipWs ps) →
      Compat H σ g s.off (fun Q md => ChkSeq env N Q md ctx.skipWs ps) →
      Ans (fun n => evalSeq env (eval env n) ctx ps seen acc s g) := by
  intro ps
  induction ps with
  | nil =>
    intro seen acc s g r h hpre hsafe hcomp
    exact Ans.const (fun _ => rfl)
  | cons p ps ih =>
    intro seen acc s g r h hpre hsafe hcomp
    simp only [Spec.evalSeq] at h
    simp only [evalSeq]
    have himp1 : Imp (fun Q md => ChkSeq env N Q md ctx.skipWs (p :: ps))
        (fun Q md => ChkE env N Q md ctx.skipWs p) := Imp.of (fun Q md hq => hq.cons.1)
    refine bindR_a h
      (fun rx hx => hc.exprS hp hok hx hpre (hsafe.imp himp1) (hcomp.imp hpre.le himp1)) ?_
    intro v s1 g1 r h hq
    obtain ⟨hinv, hprog⟩ := hq
    obtain ⟨hp1, ho⟩ := hinv.2.2.2 v s1 rfl
    have himp2 : s1.off = s.off → Imp (fun Q md => ChkSeq env N Q md ctx.skipWs (p :: ps))
        (fun Q md => ChkSeq env N Q md ctx.skipWs ps) := by
      intro he
      refine Imp.of (fun Q md hq => ?_)
      rcases hq.cons.2 with hpr | hq2
      · have := hprog v s1 rfl hpr
        omega
      · exact hq2
    split at h
    · rename_i msg hm
      exact Ans.const (y := (.panic ("codegen: " ++ msg), g1)) (fun _ => by simp only [hm])
    · rename_i seen' acc' hm
      simp only [hm]
      exact ih _ _ _ _ _ h hp1 (hsafe.next hpre.le ho himp2) (hcomp.next hinv.1 hpre.le ho himp2)

theorem evalAlts_a {m : Nat} (hc : CompAt env u inp N m) (hp : PureHooks env.hooks)
    (hok : LRHyp env N) {ctx : Ctx} {fields} {H : Heads} {σ : Seeds} :
    ∀ as s g r, Spec.evalAlts env (SpecLR.eval env u m σ) ctx fields as (clr s) = some r →
      PreLR env u inp N H s g → SafeH H s.off (AltsP env N ctx.skipWs as) →
      Compat H σ g s.off (AltsP env N ctx.skipWs as) →
      Ans (fun n => evalAlts env (eval env n) ctx fields as s g) := by
  intro as
  induction as with
  | nil =>
    intro s g r h hpre hsafe hcomp
    exact Ans.const (fun _ => rfl)
  | cons a as ih =>
    intro s g r h hpre hsafe hcomp
    simp only [Spec.evalAlts] at h
    have himp1 : Imp (AltsP env N ctx.skipWs (a :: as)) (fun Q md => ChkE env N Q md ctx.skipWs a) :=
      Imp.of (fun Q md hq => hq a (List.mem_cons_self ..))
    have himp2 : Imp (AltsP env N ctx.skipWs (a :: as)) (AltsP env N ctx.skipWs as) :=
      Imp.of (fun Q md hq a' ha' => hq a' (List.mem_cons_of_mem _ ha'))
    split at h
    · cases h
    · rename_i r0 s0 hx
      obtain ⟨r', g1, ⟨n0, h0⟩, ha, _⟩ :=
        hc.exprS hp hok hx hpre (hsafe.imp himp1) (hcomp.imp hpre.le himp1)
      obtain ⟨s1, rfl, rfl⟩ := abs_ok_inv ha
      cases hcv : convertArm fields (ownFields env a) r0 with
      | ok p => exact ⟨.ok p s1, g1, n0, fun n hn => by simp only [evalAlts, h0 n hn, hcv]⟩
      | error msg =>
        exact ⟨.panic ("codegen: " ++ msg), g1, n0, fun n hn => by simp only [evalAlts, h0 n hn, hcv]⟩
    · rename_i e0 hx
      obtain ⟨r', g1, ⟨n0, h0⟩, ha, hinv, _⟩ :=
        hc.exprS hp hok hx hpre (hsafe.imp himp1) (hcomp.imp hpre.le himp1)
      obtain ⟨e, rfl⟩ := abs_err_inv ha
      have hpre' := hpre.recErr (hinv.2.2.1 (fun m hm => by cases hm)) hinv.2.1 e
      have hoff : (s.recordError e).off = s.off := recordError_off s e
      have h' : Spec.evalAlts env (SpecLR.eval env u m σ) ctx fields as (clr (s.recordError e)) = some r := by
        rw [clr_recordError]; exact h
      obtain ⟨r2, g2, n1, h1⟩ := ih _ _ _ h' hpre' (by rw [hoff]; exact hsafe.imp himp2)
        (by rw [hoff]; exact hcomp.next hinv.1 hpre.le (Nat.le_refl _) (fun _ => himp2))
      refine ⟨r2, g2, max n0 n1, fun n hn => ?_⟩
      simp only [evalAlts, h0 n (by omega)]
      exact h1 n (by omega)
    · rename_i msg hx
      obtain ⟨r', g1, ⟨n0, h0⟩, ha, _⟩ :=
        hc.exprS hp hok hx hpre (hsafe.imp himp1) (hcomp.imp hpre.le himp1)
      have := abs_panic_inv ha
      subst this
      exact ⟨.panic msg, g1, n0, fun n hn => by simp only [evalAlts, h0 n hn]⟩

/-- the closure loop: the implementation's loop is stable in both the recursion fuel and the loop
    counter -/
theorem evalLoop_a {m : Nat} (hc : CompAt env u inp N m) (hp : PureHooks env.hooks)
    (hok : LRHyp env N) {ctx : Ctx} {b : Expr} {fields} {H : Heads} {σ : Seeds} :
    ∀ k iters acc s g r,
      Spec.evalLoop ((SpecLR.eval env u m σ).expr ctx b) fields k iters acc (clr s) = some r →
      PreLR env u inp N H s g → SafeH H s.off (fun Q md => ChkE env N Q md ctx.skipWs b) →
      Compat H σ g s.off (fun Q md => ChkE env N Q md ctx.skipWs b) →
      ∃ r' g' n0, ∀ n c, n0 ≤ n → n0 ≤ c →
        evalLoop ((eval env n).expr ctx b) fields c iters acc s g = some (r', g') := by
  intro k
  induction k with
  | zero => intro iters acc s g r h; simp [Spec.evalLoop] at h
  | succ k ih =>
    intro iters acc s g r h hpre hsafe hcomp
    simp only [Spec.evalLoop] at h
    split at h
    · cases h
    · rename_i r0 s0 hx
      obtain ⟨r', g1, ⟨n0, h0⟩, ha, hinv, _⟩ := hc.exprS hp hok hx hpre hsafe hcomp
      obtain ⟨s1, rfl, rfl⟩ := abs_ok_inv ha
      obtain ⟨hp1, ho⟩ := hinv.2.2.2 _ _ rfl
      split at h
      · rename_i acc' hacc
        obtain ⟨r2, g2, n1, h1⟩ := ih _ _ _ _ _ h hp1 (hsafe.next hpre.le ho (fun _ => Imp.refl _))
          (hcomp.next hinv.1 hpre.le ho (fun _ => Imp.refl _))
        refine ⟨r2, g2, max n0 n1 + 1, fun n c hn hcn => ?_⟩
        obtain ⟨c', rfl⟩ : ∃ c', c = c' + 1 := ⟨c - 1, by omega⟩
        simp only [evalLoop, h0 n (by omega), hacc]
        exact h1 n c' (by omega) (by omega)
      · rename_i msg hacc
        refine ⟨.panic ("codegen: " ++ msg), g1, n0 + 1, fun n c hn hcn => ?_⟩
        obtain ⟨c', rfl⟩ : ∃ c', c = c' + 1 := ⟨c - 1, by omega⟩
        simp only [evalLoop, h0 n (by omega), hacc]
    · rename_i e0 hx
      obtain ⟨r', g1, ⟨n0, h0⟩, ha, _⟩ := hc.exprS hp hok hx hpre hsafe hcomp
      obtain ⟨e, rfl⟩ := abs_err_inv ha
      refine ⟨.ok (iters, acc) (s.recordError e), g1, n0 + 1, fun n c hn hcn => ?_⟩
      obtain ⟨c', rfl⟩ : ∃ c', c = c' + 1 := ⟨c - 1, by omega⟩
      simp only [evalLoop, h0 n (by omega)]
    · rename_i msg hx
      obtain ⟨r', g1, ⟨n0, h0⟩, ha, _⟩ := hc.exprS hp hok hx hpre hsafe hcomp
      have := abs_panic_inv ha
      subst this
      refine ⟨.panic msg, g1, n0 + 1, fun n c hn hcn => ?_⟩
      obtain ⟨c', rfl⟩ : ∃ c', c = c' + 1 := ⟨c - 1, by omega⟩
      simp only [evalLoop, h0 n (by omega)]

/-- a terminal matcher under `generate_skip_ws` -/
theorem terminal_a {α} {m : Nat} (hc : CompAt env u inp N m) (hp : PureHooks env.hooks)
    (hok : LRHyp env N) {ctx : Ctx} {H : Heads} {σ : Seeds} {s : St} {g : Global}
    {mt : St → Res α} {r : Res Parsed}
    (h : Spec.withSkipWs (SpecLR.eval env u m σ) ctx (clr s)
      (fun s => some (abs ((mt s).map (fun _ => ([] : Parsed))))) = some r)
    (hpre : PreLR env u inp N H s g)
    (hsafe : ctx.skipWs = true → SafeH H s.off (fun Q md => ChkR env N Q md "Whitespace"))
    (hcomp : ctx.skipWs = true → Compat H σ g s.off (fun Q md => ChkR env N Q md "Whitespace")) :
    Ans (fun n => Peg.withSkipWs (eval env n) ctx s g
      (fun s g => some ((mt s).map (fun _ => ([] : Parsed)), g))) :=
  withSkipWs_a (fk := fun _ s g => some ((mt s).map (fun _ => ([] : Parsed)), g)) hc hp hok h hpre hsafe hcomp
    (fun _ _ _ _ _ _ _ => Ans.const (fun _ => rfl))

/-- a sub-expression evaluated at the same cursor, at a position that follows from the current one -/
theorem CompAt.expr_imp {m : Nat} (hc : CompAt env u inp N m) {H : Heads} {σ : Seeds} {ctx : Ctx}
    {e : Expr} {s g r} {P : PosP} (himp : Imp P (fun Q md => ChkE env N Q md ctx.skipWs e))
    (h : (SpecLR.eval env u m σ).expr ctx e (clr s) = some r) (hpre : PreLR env u inp N H s g)
    (hsafe : SafeH H s.off P) (hcomp : Compat H σ g s.off P) :
    Ans (fun n => (eval env n).expr ctx e s g) :=
  hc.expr H σ ctx e s g r h hpre (hsafe.imp himp) (hcomp.imp hpre.le himp)

theorem CompAt.exprS_imp {m : Nat} (hc : CompAt env u inp N m) (hp : PureHooks env.hooks)
    (hok : LRHyp env N) {H : Heads} {σ : Seeds} {ctx : Ctx}
    {e : Expr} {s g r} {P : PosP} (himp : Imp P (fun Q md => ChkE env N Q md ctx.skipWs e))
    (h : (SpecLR.eval env u m σ).expr ctx e (clr s) = some r) (hpre : PreLR env u inp N H s g)
    (hsafe : SafeH H s.off P) (hcomp : Compat H σ g s.off P) :
    ∃ r' g', Cv (fun n => (eval env n).expr ctx e s g) r' g' ∧ abs r' = r ∧
      (Inv' env u inp N H s g r' g' ∧ ∀ v s', r' = .ok v s' → LRC.ProgE env e → s.off < s'.off) :=
  hc.exprS hp hok h hpre (hsafe.imp himp) (hcomp.imp hpre.le himp)

theorem stepExpr_a {m : Nat} (hc : CompAt env u inp N m) (hp : PureHooks env.hooks)
    (hok : LRHyp env N) (m' : Nat) {H : Heads} {σ : Seeds} {ctx e s g r}
    (h : Spec.stepExpr env (SpecLR.eval env u m σ) m' ctx e (clr s) = some r)
    (hpre : PreLR env u inp N H s g)
    (hsafe : SafeH H s.off (fun Q md => ChkE env N Q md ctx.skipWs e))
    (hcomp : Compat H σ g s.off (fun Q md => ChkE env N Q md ctx.skipWs e)) :
    Ans (fun n => stepExpr env (eval env n) n ctx e s g) := by
  cases e with
  | choice alts =>
    match alts with
    | [] => exact Ans.const (fun _ => rfl)
    | [a] =>
      simp only [Spec.stepExpr] at h
      simp only [stepExpr]
      exact hc.expr_imp (Imp.of fun Q md hq => hq.choice a (List.mem_cons_self ..)) h hpre hsafe hcomp
    | a :: b :: rest =>
      simp only [Spec.stepExpr] at h
      simp only [stepExpr]
      have himp : Imp (fun Q md => ChkE env N Q md ctx.skipWs (.choice (a :: b :: rest)))
          (AltsP env N ctx.skipWs (a :: b :: rest)) := Imp.of fun Q md hq => hq.choice
      exact evalAlts_a hc hp hok _ _ _ _ h hpre (hsafe.imp himp) (hcomp.imp hpre.le himp)
  | seq parts =>
    match parts with
    | [] => exact Ans.const (fun _ => rfl)
    | [a] =>
      simp only [Spec.stepExpr] at h
      simp only [stepExpr]
      exact hc.expr_imp (Imp.of fun Q md hq => hq.seq1) h hpre hsafe hcomp
    | a :: b :: rest =>
      simp only [Spec.stepExpr] at h
      simp only [stepExpr]
      have himp : Imp (fun Q md => ChkE env N Q md ctx.skipWs (.seq (a :: b :: rest)))
          (fun Q md => ChkSeq env N Q md ctx.skipWs (a :: b :: rest)) := Imp.of fun Q md hq => hq.seq
      obtain ⟨rx, hx⟩ := bindS_some h
      refine bindR_tot (evalSeq_a hc hp hok _ _ _ _ _ _ hx hpre (hsafe.imp himp) (hcomp.imp hpre.le himp)) ?_
      intro v s1 g1
      obtain ⟨seen, acc⟩ := v
      simp only
      cases project (filterRuleFields ctx.ruleFields (ownFields env (.seq (a :: b :: rest)))) acc with
      | ok p => exact ⟨_, fun _ => rfl⟩
      | error msg => exact ⟨_, fun _ => rfl⟩
  | group b =>
    simp only [Spec.stepExpr] at h
    simp only [stepExpr]
    exact hc.expr_imp (Imp.of fun Q md hq => hq.group) h hpre hsafe hcomp
  | opt b =>
    simp only [Spec.stepExpr] at h
    have himp : Imp (fun Q md => ChkE env N Q md ctx.skipWs (.opt b))
        (fun Q md => ChkE env N Q md ctx.skipWs b) := Imp.of fun Q md hq => hq.opt
    split at h
    · cases h
    · rename_i r0 s0 hx
      obtain ⟨r', g1, ⟨n0, h0⟩, ha, _⟩ := hc.exprS_imp hp hok himp hx hpre hsafe hcomp
      obtain ⟨s1, rfl, rfl⟩ := abs_ok_inv ha
      exact ⟨.ok r0 s1, g1, n0, fun n hn => by simp only [stepExpr, h0 n hn]⟩
    · rename_i e0 hx
      obtain ⟨r', g1, ⟨n0, h0⟩, ha, _⟩ := hc.exprS_imp hp hok himp hx hpre hsafe hcomp
      obtain ⟨e, rfl⟩ := abs_err_inv ha
      cases hd : defaults (filterRuleFields ctx.ruleFields (ownFields env b)) with
      | ok p => exact ⟨.ok p (s.recordError e), g1, n0, fun n hn => by simp only [stepExpr, h0 n hn, hd]⟩
      | error msg =>
        exact ⟨.panic ("codegen: " ++ msg), g1, n0, fun n hn => by simp only [stepExpr, h0 n hn, hd]⟩
    · rename_i msg hx
      obtain ⟨r', g1, ⟨n0, h0⟩, ha, _⟩ := hc.exprS_imp hp hok himp hx hpre hsafe hcomp
      have := abs_panic_inv ha
      subst this
      exact ⟨.panic msg, g1, n0, fun n hn => by simp only [stepExpr, h0 n hn]⟩
  | closure b plus =>
    simp only [Spec.stepExpr] at h
    have himp : Imp (fun Q md => ChkE env N Q md ctx.skipWs (.closure b plus))
        (fun Q md => ChkE env N Q md ctx.skipWs b) := Imp.of fun Q md hq => hq.closure
    split at h
    · rename_i msg hinit
      exact Ans.const (y := (.panic ("codegen: " ++ msg), g)) (fun _ => by simp only [stepExpr, hinit])
    · rename_i init hinit
      obtain ⟨rl, hl⟩ := bindS_some h
      obtain ⟨rl', gl, n0, h0⟩ := evalLoop_a hc hp hok _ _ _ _ _ _ hl hpre (hsafe.imp himp)
        (hcomp.imp hpre.le himp)
      cases rl' with
      | ok v sl =>
        obtain ⟨iters, acc⟩ := v
        by_cases hcnd : (plus && iters == 0) = true
        · refine ⟨.err sl.reportFarthest, gl, n0, fun n hn => ?_⟩
          simp only [stepExpr, hinit, h0 n n hn hn, bindR, hcnd, if_true]
        · refine ⟨.ok acc sl, gl, n0, fun n hn => ?_⟩
          simp only [stepExpr, hinit, h0 n n hn hn, bindR, hcnd]
          rfl
      | err e =>
        exact ⟨.err e, gl, n0, fun n hn => by simp only [stepExpr, hinit, h0 n n hn hn, bindR]⟩
      | panic msg =>
        exact ⟨.panic msg, gl, n0, fun n hn => by simp only [stepExpr, hinit, h0 n n hn hn, bindR]⟩
  | neg b =>
    simp only [Spec.stepExpr] at h
    have himp : Imp (fun Q md => ChkE env N Q md ctx.skipWs (.neg b))
        (fun Q md => ChkE env N Q md ctx.skipWs b) := Imp.of fun Q md hq => hq.neg
    split at h
    · cases h
    · rename_i r0 s0 hx
      obtain ⟨r', g1, ⟨n0, h0⟩, ha, _⟩ := hc.exprS_imp hp hok himp hx hpre hsafe hcomp
      obtain ⟨s1, rfl, rfl⟩ := abs_ok_inv ha
      exact ⟨.err (s.reportError .negativeLookaheadFailed), g1, n0,
        fun n hn => by simp only [stepExpr, h0 n hn]⟩
    · rename_i e0 hx
      obtain ⟨r', g1, ⟨n0, h0⟩, ha, _⟩ := hc.exprS_imp hp hok himp hx hpre hsafe hcomp
      obtain ⟨e, rfl⟩ := abs_err_inv ha
      exact ⟨.ok [] s, g1, n0, fun n hn => by simp only [stepExpr, h0 n hn]⟩
    · rename_i msg hx
      obtain ⟨r', g1, ⟨n0, h0⟩, ha, _⟩ := hc.exprS_imp hp hok himp hx hpre hsafe hcomp
      have := abs_panic_inv ha
      subst this
      exact ⟨.panic msg, g1, n0, fun n hn => by simp only [stepExpr, h0 n hn]⟩
  | pos b =>
    simp only [Spec.stepExpr] at h
    simp only [stepExpr]
    obtain ⟨rx, hx⟩ := bindS_some h
    exact bindR_tot (fk := fun _ _ _ g' => some (.ok [] s, g'))
      (hc.expr_imp (Imp.of fun Q md hq => hq.pos) hx hpre hsafe hcomp) (fun _ _ _ => ⟨_, fun _ => rfl⟩)
  | range lo hi =>
    simp only [Spec.stepExpr] at h
    simp only [stepExpr]
    split at h
    · rename_i lo' hi' hlo hhi
      simp only [hlo, hhi]
      exact terminal_a hc hp hok h hpre
        (fun hw => hsafe.imp (Imp.of fun Q md hq => hq.range hw))
        (fun hw => hcomp.imp hpre.le (Imp.of fun Q md hq => hq.range hw))
    · rename_i hne
      refine Ans.const (y := (.panic "uncompilable: range bound", g)) (fun _ => ?_)
      split
      · rename_i lo' hi' hlo hhi; exact absurd hhi (hne _ _ hlo)
      · rfl
  | lit ins body =>
    simp only [Spec.stepExpr] at h
    simp only [stepExpr]
    have hs1 := fun hw : ctx.skipWs = true =>
      hsafe.imp (Imp.of fun Q md (hq : ChkE env N Q md ctx.skipWs (.lit ins body)) => hq.lit hw)
    have hc1 := fun hw : ctx.skipWs = true =>
      hcomp.imp hpre.le (Imp.of fun Q md (hq : ChkE env N Q md ctx.skipWs (.lit ins body)) => hq.lit hw)
    split at h
    · rename_i mt hmt
      simp only [hmt]
      cases mt with
      | charLit c => exact terminal_a hc hp hok h hpre hs1 hc1
      | strLit l => exact terminal_a hc hp hok h hpre hs1 hc1
      | charLitI c => exact terminal_a hc hp hok h hpre hs1 hc1
      | strLitI l => exact terminal_a hc hp hok h hpre hs1 hc1
    · rename_i hne
      refine Ans.const (y := (.panic "uncompilable: literal", g)) (fun _ => ?_)
      split
      · rename_i mt hmt; exact absurd hmt (hne _)
      · rfl
  | eoi =>
    simp only [Spec.stepExpr] at h
    simp only [stepExpr]
    exact terminal_a hc hp hok h hpre
      (fun hw => hsafe.imp (Imp.of fun Q md hq => hq.eoi hw))
      (fun hw => hcomp.imp hpre.le (Imp.of fun Q md hq => hq.eoi hw))
  | incl r0 =>
    simp only [Spec.stepExpr] at h
    simp only [stepExpr]
    split at h
    · rename_i hf
      exact Ans.const (y := (.panic "uncompilable: include of a missing rule", g)) (fun _ => by simp only [hf])
    · rename_i rule hf
      simp only [hf]
      exact hc.expr_imp (Imp.of fun Q md hq => hq.incl hf) h hpre hsafe hcomp
  | field name boxed typ =>
    simp only [Spec.stepExpr] at h
    simp only [stepExpr]
    have himpT : Imp (fun Q md => ChkE env N Q md ctx.skipWs (.field name boxed typ))
        (fun Q md => ChkR env N Q md typ) := Imp.of fun Q md hq => hq.field.2
    refine withSkipWs_a hc hp hok h hpre
      (fun hw => hsafe.imp (Imp.of fun Q md hq => hq.field.1 hw))
      (fun hw => hcomp.imp hpre.le (Imp.of fun Q md hq => hq.field.1 hw)) ?_
    intro s1 g1 r h hp1 ho1 hk1
    obtain ⟨rx, hx⟩ := bindS_some h
    refine bindR_tot (hc.rule H σ typ s1 g1 rx hx hp1 (hsafe.next hpre.le ho1 (fun _ => himpT))
      (hcomp.next hk1 hpre.le ho1 (fun _ => himpT))) ?_
    intro v s2 g2
    cases name with
    | none => exact ⟨_, fun _ => rfl⟩
    | some nm =>
      simp only
      cases postprocessField ctx.ruleFields nm.key typ v with
      | ok fv => exact ⟨_, fun _ => rfl⟩
      | error msg => exact ⟨_, fun _ => rfl⟩

/-! ## rule level -/

/-- `@check` calls always answer -/
theorem runChecks_tot (env : Env) : ∀ fs v s g, ∃ y, runChecks env fs v s g = some y := by
  intro fs
  induction fs with
  | nil => intro v s g; exact ⟨_, rfl⟩
  | cons f fs ih =>
    intro v s g
    simp only [runChecks]
    split
    · exact ⟨_, rfl⟩
    · exact ih _ _ _

theorem ruleBody_a {m : Nat} (hc : CompAt env u inp N m) {r0 : Rule} {H : Heads} {σ : Seeds} {s g r}
    (h : Spec.ruleBody env u (SpecLR.eval env u m σ) r0 (clr s) = some r)
    (hpre : PreLR env u inp N H s g)
    (hsafe : SafeH H s.off (fun Q md => ChkE env N Q md (ruleW env r0) r0.definition))
    (hcomp : Compat H σ g s.off (fun Q md => ChkE env N Q md (ruleW env r0) r0.definition)) :
    Ans (fun n => ruleBody env (eval env n) r0 s g) := by
  unfold Spec.ruleBody at h
  unfold ruleBody
  split at h
  · rename_i fields hf
    simp only [hf]
    simp only at h
    split at h
    · rename_i hcnd
      simp only [if_pos hcnd]
      obtain ⟨rx, hx⟩ := bindS_some h
      refine bindR_tot (hc.expr H σ _ _ s g rx hx hpre hsafe hcomp) ?_
      intro v s1 g1
      exact (runChecks_tot env _ _ _ _).imp (fun y hy _ => hy)
    · rename_i hcnd
      simp only [if_neg hcnd]
      split at h
      · rename_i hc2
        simp only [if_pos hc2]
        obtain ⟨rx, hx⟩ := bindS_some h
        refine bindR_tot (hc.expr H σ _ _ s g rx hx hpre hsafe hcomp) ?_
        intro v s1 g1
        cases v.get "_override" with
        | some ov => exact (runChecks_tot env _ _ _ _).imp (fun y hy _ => hy)
        | none => exact ⟨_, fun _ => rfl⟩
      · rename_i hc2
        simp only [if_neg hc2]
        split at h
        · rename_i hc3
          exact Ans.const
            (y := (.panic "uncompilable: Mixing simple and override fields is not allowed.", g))
            (fun _ => by simp only [if_pos hc3])
        · rename_i hc3
          simp only [if_neg hc3]
          obtain ⟨rx, hx⟩ := bindS_some h
          refine bindR_tot (hc.expr H σ _ _ s g rx hx hpre hsafe hcomp) ?_
          intro v s1 g1
          cases project fields v with
          | ok fs => exact (runChecks_tot env _ _ _ _).imp (fun y hy _ => hy)
          | error msg => exact ⟨_, fun _ => rfl⟩
  · rename_i hne
    refine Ans.const (y := (.panic "uncompilable: get_fields failed", g)) (fun _ => ?_)
    split
    · rename_i fields hf; exact absurd hf (hne _)
    · rfl

/-- a rule body the reference answers: the model converges, to an answer that abstracts to the
    reference answer, and the invariant holds afterwards -/
theorem ruleBodyS {m : Nat} (hc : CompAt env u inp N m) (hp : PureHooks env.hooks)
    (hok : LRHyp env N) {r0 : Rule} {H : Heads} {σ : Seeds} {s g r}
    (h : Spec.ruleBody env u (SpecLR.eval env u m σ) r0 (clr s) = some r)
    (hpre : PreLR env u inp N H s g)
    (hsafe : SafeH H s.off (fun Q md => ChkE env N Q md (ruleW env r0) r0.definition))
    (hcomp : Compat H σ g s.off (fun Q md => ChkE env N Q md (ruleW env r0) r0.definition)) :
    ∃ r' g', Cv (fun n => ruleBody env (eval env n) r0 s g) r' g' ∧ abs r' = r ∧
      Inv' env u inp N H s g r' g' := by
  obtain ⟨r', g', n0, h0⟩ := ruleBody_a hc h hpre hsafe hcomp
  have hx := h0 n0 (Nat.le_refl _)
  have hrec := eval_refLR_rec (u := u) (inp := inp) hp hok n0
  have hF := Full.of hpre (LR.ruleBody_inv hrec.rinv r0 s _ _ _ hx) (ruleBody_postLR hrec hp hx hpre hsafe)
  obtain ⟨m1, h1⟩ := hF.evt σ hcomp
  refine ⟨r', g', ⟨n0, h0⟩, ?_, inv'_of_full hF⟩
  have e1 := Spec.ruleBody_le (SpecLR.eval_mono env u (Nat.le_max_left m m1) σ) h
  have e2 : Spec.ruleBody env u (SpecLR.eval env u (max m m1) σ) r0 (clr s) = some (abs r') :=
    h1 (max m m1) (Nat.le_max_right m m1)
  rw [e1] at e2
  exact (Option.some.inj e2).symm

/-! ### the grow loop -/

/-- **the grow loop.**  When `SpecLR.growLoop` answers from the seed `abs best` (under a seed environment
    `σ` the loop of `r0` at this offset is mirrored for: `GrowC`), `Peg.growLoop` answers – for every
    large enough fuel and loop counter – from every model state satisfying the invariant with the head
    `(r0.name, s.off)` growing and `best` planted in the cache. -/
theorem growLoop_a {m : Nat} (hc : CompAt env u inp N m) (hp : PureHooks env.hooks)
    (hok : LRHyp env N) {r0 : Rule} {H : Heads} {s : St} {σ : Seeds}
    (hself : ChkE env N r0.name true (ruleW env r0) r0.definition)
    (hothers : ∀ Q, (Q, s.off) ∈ H → ChkE env N Q false (ruleW env r0) r0.definition)
    (hσ : GrowC env N H r0 s.off σ) :
    ∀ k best g res,
      SpecLR.growLoop (fun seed =>
        Spec.ruleBody env u (SpecLR.eval env u m (((r0.name, s.off), seed) :: σ)) r0 (clr s)) k (abs best)
        = some res →
      PreLR env u inp N ((r0.name, s.off) :: H) s g → g.lookup (r0.name, s.off) = some best →
      (∀ msg, best ≠ .panic msg) →
      ∃ res' g' n0, ∀ n c, n0 ≤ n → n0 ≤ c →
        growLoop (ruleBody env (eval env n) r0) (r0.name, s.off) s c best g = some (res', g') := by
  intro k
  induction k with
  | zero => intro best g res h; simp [SpecLR.growLoop] at h
  | succ k ih =>
    intro best g res h hpre hl hbp
    simp only [SpecLR.growLoop] at h
    have hpre0 : PreLR env u inp N ((r0.name, s.off) :: H) s (growPre (r0.name, s.off) g) :=
      hpre.of_cache rfl rfl
    have hsafe' : SafeH ((r0.name, s.off) :: H) s.off
        (fun Q md => ChkE env N Q md (ruleW env r0) r0.definition) := by
      intro Q hq
      rcases List.mem_cons.1 hq with he | hm
      · have : Q = r0.name := (Prod.mk.inj he).1
        subst this
        exact Or.inr hself
      · exact Or.inl (hothers Q hm)
    have hcompat : Compat ((r0.name, s.off) :: H) (((r0.name, s.off), abs best) :: σ)
        (growPre (r0.name, s.off) g) s.off (fun Q md => ChkE env N Q md (ruleW env r0) r0.definition) :=
      compat_grow hσ hself hl
    -- the body evaluation of this iteration
    cases hb : Spec.ruleBody env u (SpecLR.eval env u m (((r0.name, s.off), abs best) :: σ)) r0 (clr s) with
    | none => simp [hb] at h
    | some rb =>
      rw [hb] at h
      obtain ⟨rb', gb, ⟨n0, h0'⟩, ha, hinv⟩ := ruleBodyS hc hp hok hb hpre0 hsafe' hcompat
      have h0 : ∀ n, n0 ≤ n →
          ruleBody env (eval env n) r0 s (growPre (r0.name, s.off) g) = some (rb', gb) := h0'
      -- the recursive call after an improvement
      have hrecur : ∀ v ns, rb' = .ok v ns →
          SpecLR.growLoop (fun seed =>
            Spec.ruleBody env u (SpecLR.eval env u m (((r0.name, s.off), seed) :: σ)) r0 (clr s)) k
            (.ok v (clr ns)) = some res →
          ∃ res' g' n1, ∀ n c, n1 ≤ n → n1 ≤ c →
            growLoop (ruleBody env (eval env n) r0) (r0.name, s.off) s c (.ok v ns)
              (gb.insert (r0.name, s.off) (.ok v ns)) = some (res', g') := by
        intro v ns hrb h
        subst hrb
        obtain ⟨hp1, ho⟩ := hinv.2.2.2 v ns rfl
        have hpre1 : PreLR env u inp N ((r0.name, s.off) :: H) s (gb.insert (r0.name, s.off) (.ok v ns)) :=
          ⟨hpre.wf, hpre.within,
            GoodLR.insert hp1.good (List.mem_cons_self ..) (fun v' s' he => by cases he; exact hp1.wf),
            LR.cacheW_insert hinv.2.1 (fun v' s' he => by cases he; exact ⟨ho, hp1.within⟩), hpre.le⟩
        exact ih (.ok v ns) _ _ h hpre1 (LR.lookup_insert_self _ _ _) (fun msg hm => by cases hm)
      cases rb with
      | panic msg =>
        have := abs_panic_inv ha
        subst this
        refine ⟨.panic msg, gb, n0 + 1, fun n c hn hcn => ?_⟩
        obtain ⟨c', rfl⟩ : ∃ c', c = c' + 1 := ⟨c - 1, by omega⟩
        rw [growLoop_succ, h0 n (by omega)]
      | ok v ns0 =>
        obtain ⟨ns, rfl, rfl⟩ := abs_ok_inv ha
        cases best with
        | panic msg => exact absurd rfl (hbp msg)
        | ok bv bs =>
          simp only [abs] at h
          by_cases hfur : ns.isFurtherThan bs = true
          · have hfur' : (clr ns).isFurtherThan (clr bs) = true := hfur
            simp only [hfur', if_true] at h
            obtain ⟨res', g', n1, h1⟩ := hrecur v ns rfl h
            refine ⟨res', g', max n0 n1 + 1, fun n c hn hcn => ?_⟩
            obtain ⟨c', rfl⟩ : ∃ c', c = c' + 1 := ⟨c - 1, by omega⟩
            rw [growLoop_succ, h0 n (by omega)]
            simp only [hfur, if_true]
            exact h1 n c' (by omega) (by omega)
          · refine ⟨.ok bv bs, gb, n0 + 1, fun n c hn hcn => ?_⟩
            obtain ⟨c', rfl⟩ : ∃ c', c = c' + 1 := ⟨c - 1, by omega⟩
            rw [growLoop_succ, h0 n (by omega)]
            simp only [hfur]
            rfl
        | err be =>
          simp only [abs] at h
          obtain ⟨res', g', n1, h1⟩ := hrecur v ns rfl h
          refine ⟨res', g', max n0 n1 + 1, fun n c hn hcn => ?_⟩
          obtain ⟨c', rfl⟩ : ∃ c', c = c' + 1 := ⟨c - 1, by omega⟩
          rw [growLoop_succ, h0 n (by omega)]
          exact h1 n c' (by omega) (by omega)
      | err e0 =>
        obtain ⟨e, rfl⟩ := abs_err_inv ha
        cases best with
        | panic msg => exact absurd rfl (hbp msg)
        | ok bv bs =>
          refine ⟨.ok bv bs, gb, n0 + 1, fun n c hn hcn => ?_⟩
          obtain ⟨c', rfl⟩ : ∃ c', c = c' + 1 := ⟨c - 1, by omega⟩
          rw [growLoop_succ, h0 n (by omega)]
        | err be =>
          refine ⟨.err e, gb.insert (r0.name, s.off) (.err e), n0 + 1, fun n c hn hcn => ?_⟩
          obtain ⟨c', rfl⟩ : ∃ c', c = c' + 1 := ⟨c - 1, by omega⟩
          rw [growLoop_succ, h0 n (by omega)]

/-! ### rules -/

/-- the global state after a `@memoize` miss: non-panic results are inserted -/
def missGlobal (key : String × Nat) (res : Res Val) (g' : Global) : Global :=
  match res with
  | .panic _ => g'
  | _ => g'.insert key res

theorem memoBody_miss {flags : RuleFlags} {name : String} {body : St → Global → Out Val} {n : Nat}
    {s : St} {g : Global} {res : Res Val} {g' : Global}
    (hlr : flags.leftRecursive = false) (hm : flags.memoize = true)
    (hl : g.lookup (name, s.off) = none)
    (hb : body s (g.emit (.bodyEval name s.off)) = some (res, g')) :
    memoBody flags name body n s g = some (res, missGlobal (name, s.off) res g') := by
  unfold memoBody
  simp only [hlr, Bool.false_eq_true, if_false, hm, if_true, hl, hb]
  cases res <;> rfl

theorem memoBody_hit {flags : RuleFlags} {name : String} {body : St → Global → Out Val} {n : Nat}
    {s : St} {g : Global} {cached : Res Val}
    (hlr : flags.leftRecursive = false) (hm : flags.memoize = true)
    (hl : g.lookup (name, s.off) = some cached) :
    memoBody flags name body n s g = some (cached, g.emit (.info "Cache hit")) := by
  unfold memoBody
  simp only [hlr, Bool.false_eq_true, if_false, hm, if_true, hl]

theorem memoBody_plain {flags : RuleFlags} {name : String} {body : St → Global → Out Val} {n : Nat}
    {s : St} {g : Global}
    (hlr : flags.leftRecursive = false) (hm : ¬ flags.memoize = true) :
    memoBody flags name body n s g = body s g := by
  unfold memoBody
  simp only [hlr, Bool.false_eq_true, if_false, hm]

theorem memoBody_lr_hit {flags : RuleFlags} {name : String} {body : St → Global → Out Val} {n : Nat}
    {s : St} {g : Global} {cached : Res Val}
    (hlr : flags.leftRecursive = true) (hl : g.lookup (name, s.off) = some cached) :
    memoBody flags name body n s g = some (cached, g.emit (.info "Cache hit (left recursive)")) := by
  unfold memoBody
  simp only [hlr, if_true, hl]

theorem memoBody_lr_miss {flags : RuleFlags} {name : String} {body : St → Global → Out Val} {n : Nat}
    {s : St} {g : Global}
    (hlr : flags.leftRecursive = true) (hl : g.lookup (name, s.off) = none) :
    memoBody flags name body n s g =
      growLoop body (name, s.off) s n (.err (s.reportError .leftRecursionSentinel))
        (g.insert (name, s.off) (.err (s.reportError .leftRecursionSentinel))) := by
  unfold memoBody
  simp only [hlr, if_true, hl]

/-- from the memoized body to the rule: trace events around it -/
theorem normalRule_of_memo {r0 : Rule} {s : St} {g : Global}
    (h : Ans (fun n => memoBody r0.flags r0.name (ruleBody env (eval env n) r0) n s
      (g.emit (.traceStart r0.name s.off)))) :
    Ans (fun n => normalRule env (eval env n) n r0 s g) := by
  obtain ⟨res, g1, n0, h0⟩ := h
  refine ⟨res, traceResult g1 res, n0, fun n hn => ?_⟩
  have := h0 n hn
  simp only at this
  simp only [normalRule, this]

/-- a normal rule: trace; `@leftrec` (seed / earlier answer from the cache, or the grow loop);
    `@memoize` (hit, or miss: run the body and insert); plain -/
theorem normalRule_a {m : Nat} (hc : CompAt env u inp N m) (hp : PureHooks env.hooks)
    (hok : LRHyp env N) {H : Heads} {σ : Seeds} {name : String} {r0 : Rule} {s g r}
    (hfind : env.g.find name = some (.rule r0))
    (h : SpecLR.stepRule env u (SpecLR.eval env u m) m σ name (clr s) = some r)
    (hpre : PreLR env u inp N H s g)
    (hsafe : SafeH H s.off (fun Q md => ChkR env N Q md name))
    (hcomp : Compat H σ g s.off (fun Q md => ChkR env N Q md name)) :
    Ans (fun n => normalRule env (eval env n) n r0 s g) := by
  have hmem : RuleEntry.rule r0 ∈ env.g.rules := List.mem_of_find?_eq_some hfind
  have hname := name_of_find hfind
  have hpre0 : PreLR env u inp N H s (g.emit (.traceStart r0.name s.off)) := hpre.emit _
  apply normalRule_of_memo
  by_cases hlr : r0.flags.leftRecursive = true
  · -- @leftrec
    have havoid : (r0.name, s.off) ∉ H → ∀ Q, ChkR env N Q true name → (Q, s.off) ∈ H →
        ChkR env N Q false name := by
      intro hnm Q hq hqm
      rcases hq.rule hfind with ⟨h1, _, _⟩ | ⟨h1, _⟩ | ⟨_, h2, _⟩
      · exact absurd (h1 ▸ hqm) hnm
      · exact hq.to_avoid hfind h1 (Or.inl hlr)
      · rw [hlr] at h2; cases h2
    cases hl : g.lookup (r0.name, s.off) with
    | some cached =>
      exact Ans.const (fun n => memoBody_lr_hit hlr (by rw [emit_lookup]; exact hl))
    | none =>
      have hin : (r0.name, s.off) ∉ H := by
        intro hin
        obtain ⟨r1, hr1⟩ := hpre.good.heads _ hin
        rw [hl] at hr1; cases hr1
      have hseed : seedOf σ (r0.name, s.off) = none := by
        cases hs : seedOf σ (r0.name, s.off) with
        | none => rfl
        | some seed =>
          rcases hcomp.2 r0.name (Or.inr (by simp [hs])) with h0 | ⟨_, hm', _⟩
          · exact absurd rfl (h0.avoid_ne hfind).1
          · exact absurd hm' hin
      have hgc : GrowC env N H r0 s.off σ := by
        refine ⟨hcomp.1, hseed, fun Q hQ hq => ?_⟩
        rcases hcomp.2 Q hq with h0 | ⟨h0, hm', _⟩
        · exact (h0.avoid_ne hfind).2
        · exact ((havoid hin Q h0 hm').avoid_ne hfind).2
      have hself := hok r0 hmem hlr
      have hothers : ∀ Q, (Q, s.off) ∈ H → ChkE env N Q false (ruleW env r0) r0.definition := by
        intro Q hq
        rcases hsafe Q hq with h0 | h0
        · exact (h0.avoid_ne hfind).2
        · exact ((havoid hin Q h0 hq).avoid_ne hfind).2
      have hpre1 : PreLR env u inp N ((r0.name, s.off) :: H) s
          ((g.emit (.traceStart r0.name s.off)).insert (r0.name, s.off)
            (.err (s.reportError .leftRecursionSentinel))) := by
        refine ⟨hpre.wf, hpre.within, ⟨hpre.good.uctx, fun k hk => ?_, fun k r1 hl1 hk => ?_,
          fun k v s' hl1 => ?_⟩, LR.cacheW_insert hpre0.cw (fun v s' he => by cases he), ?_⟩
        · rcases List.mem_cons.1 hk with he | hk'
          · subst he; exact ⟨_, LR.lookup_insert_self _ _ _⟩
          · have hne : k ≠ (r0.name, s.off) := fun he => hin (he ▸ hk')
            rw [LR.lookup_insert_ne _ _ hne]
            exact hpre.good.heads k hk'
        · have hne : k ≠ (r0.name, s.off) := fun he => hk (he ▸ List.mem_cons_self ..)
          rw [LR.lookup_insert_ne _ _ hne] at hl1
          exact hpre.good.valid k r1 hl1 (fun hk' => hk (List.mem_cons_of_mem _ hk'))
        · by_cases he : k = (r0.name, s.off)
          · subst he
            rw [LR.lookup_insert_self] at hl1
            cases hl1
          · rw [LR.lookup_insert_ne _ _ he] at hl1
            exact hpre.good.wf k v s' hl1
        · intro k hk
          rcases List.mem_cons.1 hk with he | hk'
          · subst he; exact Nat.le_refl _
          · exact hpre.le k hk'
      rw [specLR_stepRule_grow hfind hlr _ _ _ (clr s) hseed] at h
      obtain ⟨res', g', n0, h0⟩ := growLoop_a hc hp hok hself hothers hgc m
        (.err (s.reportError .leftRecursionSentinel)) _ r h hpre1 (LR.lookup_insert_self _ _ _)
        (fun msg hm => by cases hm)
      refine ⟨res', g', n0, fun n hn => ?_⟩
      show memoBody r0.flags r0.name (ruleBody env (eval env n) r0) n s
        (g.emit (.traceStart r0.name s.off)) = some (res', g')
      rw [memoBody_lr_miss hlr (by rw [emit_lookup]; exact hl)]
      exact h0 n n hn hn
  · -- not @leftrec
    have hlr' : r0.flags.leftRecursive = false := by simpa using hlr
    rw [specLR_stepRule_plain hfind hlr'] at h
    have himp : Imp (fun Q md => ChkR env N Q md name)
        (fun Q md => ChkE env N Q md (ruleW env r0) r0.definition) := by
      refine ⟨fun Q hq => (hq.avoid_ne hfind).2, fun Q hq => ?_⟩
      rcases hq.rule hfind with ⟨_, _, h3⟩ | ⟨_, h2⟩ | ⟨_, _, _, h4⟩
      · rw [hlr'] at h3; cases h3
      · exact Or.inl h2
      · exact Or.inr h4
    have hbody : ∀ g0 : Global, g0.cache = g.cache → g0.uctx = g.uctx →
        Ans (fun n => ruleBody env (eval env n) r0 s g0) := fun g0 hc0 hu0 =>
      ruleBody_a hc h (hpre.of_cache hc0 hu0) (hsafe.imp himp)
        (hcomp.next (fun k x hx => by rw [LR.lookup_of_cache_eq hc0]; exact hx) hpre.le
          (Nat.le_refl _) (fun _ => himp))
    by_cases hmemo : r0.flags.memoize = true
    · cases hl : g.lookup (r0.name, s.off) with
      | some cached =>
        exact Ans.const (fun n => memoBody_hit hlr' hmemo (by rw [emit_lookup]; exact hl))
      | none =>
        obtain ⟨res, g1, n0, h0⟩ :=
          hbody ((g.emit (.traceStart r0.name s.off)).emit (.bodyEval r0.name s.off)) rfl rfl
        exact ⟨res, missGlobal (r0.name, s.off) res g1, n0, fun n hn =>
          memoBody_miss hlr' hmemo (by rw [emit_lookup]; exact hl) (h0 n hn)⟩
    · obtain ⟨res, g1, n0, h0⟩ := hbody (g.emit (.traceStart r0.name s.off)) rfl rfl
      exact ⟨res, g1, n0, fun n hn => by
        show memoBody r0.flags r0.name (ruleBody env (eval env n) r0) n s
          (g.emit (.traceStart r0.name s.off)) = some (res, g1)
        rw [memoBody_plain hlr' hmemo]; exact h0 n hn⟩

theorem charParts_a {m : Nat} (hc : CompAt env u inp N m) (hp : PureHooks env.hooks)
    (hok : LRHyp env N) (name : String) {H : Heads} {σ : Seeds} :
    ∀ ps s g r, Spec.charParts (SpecLR.eval env u m σ) ps (clr s) = some r →
      PreLR env u inp N H s g → SafeH H s.off (PartsP env N ps) →
      Compat H σ g s.off (PartsP env N ps) →
      Ans (fun n => charParts (eval env n) name ps s g) := by
  intro ps
  induction ps with
  | nil =>
    intro s g r h hpre hsafe hcomp
    exact Ans.const (fun _ => rfl)
  | cons p ps ih =>
    intro s g r h hpre hsafe hcomp
    have himp2 : Imp (PartsP env N (p :: ps)) (PartsP env N ps) :=
      Imp.of (fun Q md hq id hid => hq id (List.mem_cons_of_mem _ hid))
    -- a part that does not touch the global state
    have pureKey : ∀ (x : SOut Val) (rx : Res Val), x = some (abs rx) →
        (match x with
          | none => none
          | some (.ok v s') => some (.ok v s')
          | some (.err _) => Spec.charParts (SpecLR.eval env u m σ) ps (clr s)
          | some (.panic m) => some (.panic m)) = some r →
        Ans (fun n =>
          match (some (rx, g) : Out Val) with
          | none => none
          | some (.ok v s', g') => some (.ok v s', g')
          | some (.err _, g') => charParts (eval env n) name ps s g'
          | some (.panic m, g') => some (.panic m, g')) := by
      intro x rx hx h
      subst hx
      cases rx with
      | ok v s1 => exact Ans.const (fun _ => rfl)
      | err e =>
        simp only [abs] at h
        exact ih _ _ _ h hpre (hsafe.imp himp2) (hcomp.imp hpre.le himp2)
      | panic msg => exact Ans.const (fun _ => rfl)
    cases p with
    | chr item =>
      simp only [Spec.charParts] at h
      simp only [charParts]
      cases hi : item.toChar with
      | ok c =>
        simp only [hi] at h
        exact pureKey _ ((parseCharacterLiteral s c).map .chr)
          (by simp only [abs_map, abs_parseCharacterLiteral]) h
      | err msg => exact Ans.const (fun _ => rfl)
      | fuel => exact Ans.const (fun _ => rfl)
    | range lo hi =>
      simp only [Spec.charParts] at h
      simp only [charParts]
      cases hlo : lo.toChar with
      | ok a =>
        cases hhi : hi.toChar with
        | ok b =>
          simp only [hlo, hhi] at h
          exact pureKey _ ((parseCharacterRange s a b).map .chr)
            (by simp only [abs_map, abs_parseCharacterRange]) h
        | err msg => exact Ans.const (fun _ => rfl)
        | fuel => exact Ans.const (fun _ => rfl)
      | err msg => exact Ans.const (fun _ => rfl)
      | fuel => exact Ans.const (fun _ => rfl)
    | ident id =>
      simp only [Spec.charParts] at h
      simp only [charParts]
      have himp1 : Imp (PartsP env N (.ident id :: ps)) (fun Q md => ChkR env N Q md id) :=
        Imp.of (fun Q md hq => hq id (List.mem_cons_self ..))
      cases hx : (SpecLR.eval env u m σ).rule id (clr s) with
      | none => simp [hx] at h
      | some rx =>
        rw [hx] at h
        obtain ⟨r', g1, ⟨n0, h0⟩, ha, hinv⟩ :=
          hc.ruleS hp hok hx hpre (hsafe.imp himp1) (hcomp.imp hpre.le himp1)
        cases rx with
        | ok v s0 =>
          obtain ⟨s1, rfl, rfl⟩ := abs_ok_inv ha
          exact ⟨.ok v s1, g1, n0, fun n hn => by simp only [h0 n hn]⟩
        | err e0 =>
          obtain ⟨e, rfl⟩ := abs_err_inv ha
          simp only at h
          have hpre' : PreLR env u inp N H s g1 :=
            ⟨hpre.wf, hpre.within, hinv.2.2.1 (fun m hm => by cases hm), hinv.2.1, hpre.le⟩
          obtain ⟨r2, g2, n1, h1⟩ := ih _ _ _ h hpre' (hsafe.imp himp2)
            (hcomp.next hinv.1 hpre.le (Nat.le_refl _) (fun _ => himp2))
          refine ⟨r2, g2, max n0 n1, fun n hn => ?_⟩
          simp only [h0 n (by omega)]
          exact h1 n (by omega)
        | panic msg =>
          have := abs_panic_inv ha
          subst this
          exact ⟨.panic msg, g1, n0, fun n hn => by simp only [h0 n hn]⟩

theorem stepRule_a {m : Nat} (hc : CompAt env u inp N m) (hp : PureHooks env.hooks)
    (hok : LRHyp env N) {H : Heads} {σ : Seeds} {name s g r}
    (h : SpecLR.stepRule env u (SpecLR.eval env u m) m σ name (clr s) = some r)
    (hpre : PreLR env u inp N H s g)
    (hsafe : SafeH H s.off (fun Q md => ChkR env N Q md name))
    (hcomp : Compat H σ g s.off (fun Q md => ChkR env N Q md name)) :
    Ans (fun n => stepRule env (eval env n) n name s g) := by
  unfold stepRule
  cases hfind : env.g.find name with
  | none =>
    simp only
    by_cases hc1 : (name == "char") = true
    · exact Ans.const (y := ((parseChar s).map .chr, g)) (fun _ => by simp only [hc1, if_true])
    · by_cases hc2 : (name == "Whitespace") = true
      · exact Ans.const (y := ((parseWhitespace s).map (fun _ => Val.unit), g))
          (fun _ => by simp only [hc1, hc2, if_true]; rfl)
      · exact Ans.const (y := (.panic ("uncompilable: undefined rule " ++ name), g))
          (fun _ => by simp only [hc1, hc2]; rfl)
  | some entry =>
    cases entry with
    | rule r0 =>
      simp only
      exact normalRule_a hc hp hok hfind h hpre hsafe hcomp
    | charRule cr =>
      simp only
      have hother : ∀ r0, env.g.find name ≠ some (.rule r0) := fun r0 he => by rw [hfind] at he; cases he
      rw [specLR_stepRule_other hother] at h
      unfold Spec.stepRule at h
      rw [hfind] at h
      simp only at h
      have himp : Imp (fun Q md => ChkR env N Q md name) (PartsP env N cr.choices) := by
        refine ⟨fun Q hq => ?_, fun Q hq => ?_⟩
        · rcases hq.charRule hfind with h0 | h0 <;> exact h0
        · rcases hq.charRule hfind with h0 | h0
          · exact Or.inl h0
          · exact Or.inr h0
      unfold Spec.charRule at h
      unfold charRule
      split at h
      · rename_i hcnd
        simp only [if_pos hcnd]
        exact charParts_a hc hp hok _ _ _ _ _ h hpre (hsafe.imp himp) (hcomp.imp hpre.le himp)
      · rename_i hcnd
        simp only [if_neg hcnd]
        simp only [clr_rest] at h
        split at h
        · rename_i hd
          simp only [hd]
          exact Ans.const (fun _ => rfl)
        · rename_i c hd
          simp only [hd]
          cases hcc : charChecks env cr.name cr.directives c s g with
          | mk o g1 =>
            obtain ⟨h1, h2, h3⟩ := charChecks_spec _ _ _ _ _ _ _ hcc
            split at h
            · rename_i hck
              rw [hck] at h1
              cases o with
              | some e => simp at h1
              | none =>
                simp only
                exact charParts_a hc hp hok _ _ _ _ _ h (hpre.of_cache h2 h3) (hsafe.imp himp)
                  (hcomp.next (fun k x hx => by rw [LR.lookup_of_cache_eq h2]; exact hx) hpre.le
                    (Nat.le_refl _) (fun _ => himp))
            · rename_i hck
              cases o with
              | none => simp at h1; exact absurd h1 hck
              | some e => exact Ans.const (fun _ => rfl)
    | externRule er =>
      simp only
      unfold externRule
      simp only
      cases (env.hooks.extern ("::".intercalate er.function) s.rest g.uctx).1 with
      | ok p => exact Ans.const (fun _ => rfl)
      | error msg => exact Ans.const (fun _ => rfl)

/-- one unfolding of the reference evaluator preserves completeness -/
theorem step_comp {m : Nat} (hc : CompAt env u inp N m) (hp : PureHooks env.hooks)
    (hok : LRHyp env N) : CompAt env u inp N (m + 1) := by
  constructor
  · intro H σ ctx e s g r h hpre hsafe hcomp
    exact (stepExpr_a hc hp hok m (e := e) h hpre hsafe hcomp).succ
  · intro H σ name s g r h hpre hsafe hcomp
    exact (stepRule_a hc hp hok h hpre hsafe hcomp).succ

/-- **Completeness with left recursion, evaluator level**: every evaluation the reference semantics
    answers (at any fuel `m`, under any seed environment compatible with the model state) is
    answered by the model for every large enough fuel. -/
theorem eval_compLR (hp : PureHooks env.hooks) (hok : LRHyp env N) :
    ∀ m, CompAt env u inp N m := by
  intro m
  induction m with
  | zero =>
    exact ⟨fun _ _ _ _ _ _ _ h => by simp [SpecLR.eval] at h,
      fun _ _ _ _ _ _ h => by simp [SpecLR.eval] at h⟩
  | succ m ih => exact step_comp ih hp hok

end
end CLR

/-! ## the theorems -/

open CLR in
/-- completeness for an explicit analysis fuel (`LROkF`), in the strong form "for every large enough
    fuel" -/
theorem parse_completeLR_cv (env : Env) (hp : PureHooks env.hooks) {d : Nat}
    (hok : LROkF env.g env.settings d) (rule : String) (inp : List UInt8) (u m : Nat) {r}
    (h : SpecLR.parse env u m rule inp = some r) :
    ∃ r' g', (∃ n0, ∀ n, n0 ≤ n → parseAdvanced env n rule inp u = some (r', g')) ∧ abs r' = r := by
  have hc := eval_compLR (u := u) (inp := inp) hp (lrHyp_of_LROkF hok) m
  obtain ⟨r', g', hcv, ha, _⟩ := hc.ruleS hp (lrHyp_of_LROkF hok) (H := []) (σ := [])
    (name := rule) (s := St.new inp) (g := Global.init u) h (preLR_init _ _ _ _)
    (fun Q hq => by cases hq) (compat_init _ _ _)
  exact ⟨r', g', hcv, ha⟩

/-- **Completeness with left recursion** (the converse of `eval_refLR`).  For a grammar in the class
    `LROk` and pure user functions: whenever the reference semantics with left recursion answers, the
    model of the generated parser answers too, with enough fuel, and its answer abstracts to the
    reference answer. -/
theorem parse_completeLR (env : Env) (hp : PureHooks env.hooks) (hok : LROk env.g env.settings)
    (rule : String) (inp : List UInt8) (u m : Nat) {r}
    (h : SpecLR.parse env u m rule inp = some r) :
    ∃ n r' g', parseAdvanced env n rule inp u = some (r', g') ∧ abs r' = r := by
  obtain ⟨r', g', ⟨n0, h0⟩, ha⟩ := parse_completeLR_cv env hp hok rule inp u m h
  exact ⟨n0, r', g', h0 n0 (Nat.le_refl _), ha⟩

/-- **The generated parser answers exactly when the growth semantics does, with the same answer**
    (`eval_refLR` + `parse_completeLR`) -/
theorem parse_iffLR (env : Env) (hp : PureHooks env.hooks) (hok : LROk env.g env.settings)
    (rule : String) (inp : List UInt8) (u : Nat) (r : Res Val) :
    (∃ n r' g', parseAdvanced env n rule inp u = some (r', g') ∧ abs r' = r) ↔
      (∃ m, SpecLR.parse env u m rule inp = some r) := by
  constructor
  · rintro ⟨n, r', g', h, rfl⟩
    exact eval_refLR env hp hok h
  · rintro ⟨m, h⟩
    exact parse_completeLR env hp hok rule inp u m h

/-- termination: the model answers (for some fuel) iff the reference semantics does -/
theorem parse_terminates_iffLR (env : Env) (hp : PureHooks env.hooks) (hok : LROk env.g env.settings)
    (rule : String) (inp : List UInt8) (u : Nat) :
    (∃ n, parseAdvanced env n rule inp u ≠ none) ↔ (∃ m, SpecLR.parse env u m rule inp ≠ none) := by
  constructor
  · rintro ⟨n, h⟩
    cases hx : parseAdvanced env n rule inp u with
    | none => exact absurd hx h
    | some a =>
      obtain ⟨r', g'⟩ := a
      obtain ⟨m, hm⟩ := eval_refLR env hp hok hx
      exact ⟨m, by rw [hm]; exact fun h => by cases h⟩
  · rintro ⟨m, h⟩
    cases hx : SpecLR.parse env u m rule inp with
    | none => exact absurd hx h
    | some r =>
      obtain ⟨n, r', g', hn, _⟩ := parse_completeLR env hp hok rule inp u m hx
      exact ⟨n, by rw [hn]; exact fun h => by cases h⟩

/-- … and once it answers it answers the same at every larger fuel (with `eval_mono`), so the model
    *converges* to the reference answer -/
theorem parse_convergesLR (env : Env) (hp : PureHooks env.hooks) (hok : LROk env.g env.settings)
    (rule : String) (inp : List UInt8) (u m : Nat) {r}
    (h : SpecLR.parse env u m rule inp = some r) :
    ∃ r' g' n0, (∀ n, n0 ≤ n → parseAdvanced env n rule inp u = some (r', g')) ∧ abs r' = r := by
  obtain ⟨r', g', ⟨n0, h0⟩, ha⟩ := parse_completeLR_cv env hp hok rule inp u m h
  exact ⟨r', g', n0, h0, ha⟩

/-! ## non-vacuity -/

namespace CompleteLRExample
open LeftRecExample LRExample

/-- the hypotheses hold for `@export @leftrec E = l:*E '+' r:Num | b:Num; @string Num = {'0'..'9'}+;` -/
example : PureHooks envE.hooks ∧ LROk envE.g envE.settings := ⟨pureDefault, by decide⟩

/-- from the evaluation of the REFERENCE semantics on `"1+2+3"` (by `decide`) the theorem gives a run of
    the MODEL whose answer abstracts to it: all five bytes consumed -/
example : ∃ n v s' g', parseAdvanced envE n "E" inp 0 = some (.ok v s', g') ∧ s'.off = 5 := by
  have hs : (SpecLR.parse envE 0 12 "E" inp).isSome = true := by decide +kernel
  obtain ⟨r, hr⟩ := Option.isSome_iff_exists.1 hs
  obtain ⟨n, r', g', hn, ha⟩ := parse_completeLR envE pureDefault (by decide) "E" inp 0 12 hr
  have hoff : (match SpecLR.parse envE 0 12 "E" inp with
      | some (.ok _ s) => s.off == 5 | _ => false) = true := by decide +kernel
  rw [hr] at hoff
  cases r with
  | ok v s0 =>
    obtain ⟨s1, rfl, rfl⟩ := CLR.abs_ok_inv ha
    exact ⟨n, v, s1, g', hn, by simpa using hoff⟩
  | err e => simp at hoff
  | panic msg => simp at hoff

/-- the calculator tower (two `@leftrec` rules, indirect recursion through `F`) and the indirect
    left recursion through an ordinary rule are instances too -/
example {inp : List UInt8} {m : Nat} {r} (h : SpecLR.parse calcEnv 0 m "E" inp = some r) :
    ∃ n r' g', parseAdvanced calcEnv n "E" inp 0 = some (r', g') ∧ abs r' = r :=
  parse_completeLR calcEnv pureDefault (by decide) "E" inp 0 m h

example {inp : List UInt8} {m : Nat} {r} (h : SpecLR.parse (ind []) 0 m "E" inp = some r) :
    ∃ n r' g', parseAdvanced (ind []) n "E" inp 0 = some (r', g') ∧ abs r' = r :=
  parse_completeLR (ind []) pureDefault (by decide) "E" inp 0 m h

end CompleteLRExample

end Peg
