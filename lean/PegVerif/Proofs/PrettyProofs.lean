import PegVerif.Pretty
/-
  Property C11: the pretty form of a parse error (`PrettyParseError::from_parse_error`, after fix F2).

  For every text and every error position on a character boundary of it (0 … length inclusive), the
  conversion never panics (`Pretty.locate` / `Pretty.render` are total functions; the slicing of the real
  code is safe because of the clamping modelled by `Pretty.splitAtByte`), reports the 1-based line containing
  the position (number of newlines before it, plus one) and the 1-based column counted in characters from
  the start of that line, prints that line, and puts the caret under that column.

  * `splitAtByte_*`        – the split at a boundary is exact; in general it is the largest boundary ≤ pos
  * `afterLastNewline_*`   – independent characterisation of "the part after the last newline"
  * `C11_linecol`, `C11_line_is_line`, `C11_offboundary` – line number, column, line
  * `C11_render`, `C11_caret`, `C11` – the rendered string
  * `trimEnd_*`            – `str::trim_end`
  * `example`s             – non-vacuity and the fixed defects
-/
namespace Peg
namespace Pretty

/-! ### generic list helpers (suffix scans) -/

theorem mem_takeWhile_pos {α} (p : α → Bool) (l : List α) : ∀ x ∈ l.takeWhile p, p x = true := by
  induction l with
  | nil => intro x hx; simp at hx
  | cons a r ih =>
    intro x hx
    rw [List.takeWhile_cons] at hx
    split at hx
    · rename_i hp
      rcases List.mem_cons.1 hx with h | h
      · rw [h]; exact hp
      · exact ih x h
    · simp at hx

theorem dropWhile_head_neg {α} (p : α → Bool) (l : List α) :
    l.dropWhile p = [] ∨ ∃ x r, l.dropWhile p = x :: r ∧ p x = false := by
  induction l with
  | nil => left; rfl
  | cons a r ih =>
    rw [List.dropWhile_cons]
    split
    · exact ih
    · rename_i hp
      right; exact ⟨a, r, rfl, by simpa using hp⟩

theorem takeWhile_all {α} (p : α → Bool) (l : List α) (h : ∀ x ∈ l, p x = true) : l.takeWhile p = l := by
  induction l with
  | nil => rfl
  | cons a r ih =>
    rw [List.takeWhile_cons, if_pos (h a (List.mem_cons_self ..)), ih (fun x hx => h x (List.mem_cons_of_mem _ hx))]

theorem dropWhile_all {α} (p : α → Bool) (l : List α) (h : ∀ x ∈ l, p x = true) : l.dropWhile p = [] := by
  induction l with
  | nil => rfl
  | cons a r ih =>
    rw [List.dropWhile_cons, if_pos (h a (List.mem_cons_self ..)), ih (fun x hx => h x (List.mem_cons_of_mem _ hx))]

/-- splitting a list by scanning from the end -/
theorem rev_scan_split {α} (p : α → Bool) (l : List α) :
    l = (l.reverse.dropWhile p).reverse ++ (l.reverse.takeWhile p).reverse := by
  rw [← List.reverse_append, List.takeWhile_append_dropWhile, List.reverse_reverse]

/-- a reversed list is empty or the original ended with the reversed list's head -/
theorem reverse_cons_eq {α} (x : α) (r : List α) : (x :: r).reverse = r.reverse ++ [x] := by simp

/-! ### `enc` lengths (local copies, this file imports only the model) -/

theorem encLen_nil : (enc []).length = 0 := rfl

theorem encLen_cons (c : Char) (cs : List Char) : (enc (c :: cs)).length = c.utf8Size + (enc cs).length := by
  simp [enc, String.length_utf8EncodeChar]

theorem encLen_append (a b : List Char) : (enc (a ++ b)).length = (enc a).length + (enc b).length := by
  simp [enc]

/-! ### 1. `splitAtByte` -/

theorem splitAtByte_nil (pos : Nat) : splitAtByte [] pos = ([], []) := by
  simp [splitAtByte]

theorem splitAtByte_cons_le (c : Char) (cs : List Char) (pos : Nat) (h : c.utf8Size ≤ pos) :
    splitAtByte (c :: cs) pos = (c :: (splitAtByte cs (pos - c.utf8Size)).1, (splitAtByte cs (pos - c.utf8Size)).2) := by
  rw [splitAtByte, if_pos h]

theorem splitAtByte_cons_gt (c : Char) (cs : List Char) (pos : Nat) (h : pos < c.utf8Size) :
    splitAtByte (c :: cs) pos = ([], c :: cs) := by
  rw [splitAtByte, if_neg (by omega)]

/-- at a character boundary the split is exact -/
theorem splitAtByte_boundary (pre post : List Char) :
    splitAtByte (pre ++ post) (enc pre).length = (pre, post) := by
  induction pre with
  | nil =>
    cases post with
    | nil => exact splitAtByte_nil _
    | cons c cs => exact splitAtByte_cons_gt c cs _ (by rw [encLen_nil]; exact Char.utf8Size_pos c)
  | cons c pre ih =>
    rw [List.cons_append, splitAtByte_cons_le _ _ _ (by rw [encLen_cons]; omega), encLen_cons,
      Nat.add_sub_cancel_left, ih]

/-- clamping: the two parts always make up the text -/
theorem splitAtByte_append (text : List Char) (pos : Nat) :
    (splitAtByte text pos).1 ++ (splitAtByte text pos).2 = text := by
  induction text generalizing pos with
  | nil => rw [splitAtByte_nil]; rfl
  | cons c cs ih =>
    by_cases h : c.utf8Size ≤ pos
    · rw [splitAtByte_cons_le _ _ _ h]; simp only [List.cons_append, ih]
    · rw [splitAtByte_cons_gt _ _ _ (by omega)]; rfl

/-- clamping: the split point is a boundary not after `pos` -/
theorem splitAtByte_le (text : List Char) (pos : Nat) : (enc (splitAtByte text pos).1).length ≤ pos := by
  induction text generalizing pos with
  | nil => rw [splitAtByte_nil, encLen_nil]; omega
  | cons c cs ih =>
    by_cases h : c.utf8Size ≤ pos
    · rw [splitAtByte_cons_le _ _ _ h]
      simp only [encLen_cons]
      have := ih (pos - c.utf8Size)
      omega
    · rw [splitAtByte_cons_gt _ _ _ (by omega), encLen_nil]; omega

/-- clamping: the split point is the *largest* boundary ≤ `pos`: the next boundary is beyond `pos` -/
theorem splitAtByte_maximal (text : List Char) (pos : Nat) :
    (splitAtByte text pos).2 = [] ∨
    ∃ c r, (splitAtByte text pos).2 = c :: r ∧ pos < (enc (splitAtByte text pos).1).length + c.utf8Size := by
  induction text generalizing pos with
  | nil => left; rw [splitAtByte_nil]
  | cons c cs ih =>
    by_cases h : c.utf8Size ≤ pos
    · rw [splitAtByte_cons_le _ _ _ h]
      simp only [encLen_cons]
      rcases ih (pos - c.utf8Size) with h1 | ⟨d, r, h1, h2⟩
      · left; exact h1
      · right; exact ⟨d, r, h1, by omega⟩
    · rw [splitAtByte_cons_gt _ _ _ (by omega)]
      right; exact ⟨c, cs, rfl, by rw [encLen_nil]; omega⟩

/-- the three clamping facts determine the split (so they are a complete specification) -/
theorem splitAtByte_unique (a b : List Char) (pos : Nat) (hle : (enc a).length ≤ pos)
    (hmax : b = [] ∨ ∃ c r, b = c :: r ∧ pos < (enc a).length + c.utf8Size) :
    splitAtByte (a ++ b) pos = (a, b) := by
  induction a generalizing pos with
  | nil =>
    rcases hmax with h | ⟨c, r, h, h2⟩
    · rw [h]; exact splitAtByte_nil _
    · rw [h, List.nil_append]; exact splitAtByte_cons_gt _ _ _ (by rw [encLen_nil] at h2; omega)
  | cons x a ih =>
    rw [encLen_cons] at hle
    rw [List.cons_append, splitAtByte_cons_le _ _ _ (by omega),
      ih (pos - x.utf8Size) (by omega)
        (by
          rcases hmax with h | ⟨c, r, h, h2⟩
          · left; exact h
          · right; rw [encLen_cons] at h2; exact ⟨c, r, h, by omega⟩)]

/-- a position at or beyond the end of the text is clamped to the end -/
theorem splitAtByte_ge (text : List Char) (pos : Nat) (h : (enc text).length ≤ pos) :
    splitAtByte text pos = (text, []) := by
  have := splitAtByte_unique text [] pos h (Or.inl rfl)
  rwa [List.append_nil] at this

/-- all clamping facts in one statement, with the destructured pair -/
theorem splitAtByte_clamp (text : List Char) (pos : Nat) (a b : List Char) (h : splitAtByte text pos = (a, b)) :
    a ++ b = text ∧ (enc a).length ≤ pos ∧
    (b = [] ∨ ∃ c r, b = c :: r ∧ pos < (enc a).length + c.utf8Size) := by
  have h1 := splitAtByte_append text pos
  have h2 := splitAtByte_le text pos
  have h3 := splitAtByte_maximal text pos
  rw [h] at h1 h2 h3
  exact ⟨h1, h2, h3⟩

/-! ### 2. `afterLastNewline`, line number, column, line -/

/-- any decomposition at a newline with a newline-free tail identifies `afterLastNewline` -/
theorem afterLastNewline_of_decomp (a l : List Char) (hl : '\n' ∉ l) :
    afterLastNewline (a ++ '\n' :: l) = l := by
  unfold afterLastNewline
  rw [List.reverse_append, List.reverse_cons, List.append_assoc,
    List.takeWhile_append_of_pos (by
      intro c hc
      rw [List.mem_reverse] at hc
      simp only [bne_iff_ne, ne_eq]
      intro h; rw [h] at hc; exact hl hc)]
  simp

/-- a text without newline is its own last line -/
theorem afterLastNewline_of_not_mem (pre : List Char) (h : '\n' ∉ pre) : afterLastNewline pre = pre := by
  unfold afterLastNewline
  rw [takeWhile_all, List.reverse_reverse]
  intro c hc
  rw [List.mem_reverse] at hc
  simp only [bne_iff_ne, ne_eq]
  intro h'; rw [h'] at hc; exact h hc

theorem afterLastNewline_no_newline (pre : List Char) : '\n' ∉ afterLastNewline pre := by
  unfold afterLastNewline
  intro h
  rw [List.mem_reverse] at h
  have := mem_takeWhile_pos _ _ _ h
  simp at this

/-- `afterLastNewline pre` really is the part of `pre` after its last newline -/
theorem afterLastNewline_spec (pre : List Char) :
    ∃ before, pre = before ++ afterLastNewline pre ∧ '\n' ∉ afterLastNewline pre ∧
      (before = [] ∨ ∃ b, before = b ++ ['\n']) := by
  refine ⟨(pre.reverse.dropWhile (· != '\n')).reverse, rev_scan_split _ pre, afterLastNewline_no_newline pre, ?_⟩
  rcases dropWhile_head_neg (· != '\n') pre.reverse with h | ⟨x, r, h, hx⟩
  · left; rw [h]; rfl
  · right
    have hx' : x = '\n' := by simpa using hx
    rw [h, hx', reverse_cons_eq]
    exact ⟨r.reverse, rfl⟩

/-- the characterisation is unique: whatever satisfies it is `afterLastNewline pre` -/
theorem afterLastNewline_unique (pre before l : List Char) (h : pre = before ++ l) (hl : '\n' ∉ l)
    (hb : before = [] ∨ ∃ b, before = b ++ ['\n']) : afterLastNewline pre = l := by
  rcases hb with hb | ⟨b, hb⟩
  · rw [hb, List.nil_append] at h
    rw [h]; exact afterLastNewline_of_not_mem l hl
  · rw [h, hb, List.append_assoc]
    exact afterLastNewline_of_decomp b l hl

/-- the model writes the predicate as `· != '\n'`; this is the same function as `· ≠ '\n'` -/
theorem bne_newline_eq : (fun c : Char => c != '\n') = (fun c : Char => decide (c ≠ '\n')) := by
  funext c; by_cases h : c = '\n' <;> simp [h]

/-- at a boundary, `locate` is computed from the exact split -/
theorem locate_boundary (pre post : List Char) :
    locate (pre ++ post) (enc pre).length =
      { lineno := pre.count '\n', col := (afterLastNewline pre).length,
        line := afterLastNewline pre ++ post.takeWhile (· != '\n') } := by
  simp only [locate, splitAtByte_boundary]

/-- C11, line number / column / line: for `text = pre ++ post` and the position at the boundary after `pre`:
    the 0-based line number is the number of newlines before the position, the 0-based column is the number of
    characters after the last newline before the position, the line is that part plus what follows up to the
    next newline. -/
theorem C11_linecol (pre post : List Char) :
    (locate (pre ++ post) (enc pre).length).lineno = pre.count '\n' ∧
    (locate (pre ++ post) (enc pre).length).col = (afterLastNewline pre).length ∧
    (locate (pre ++ post) (enc pre).length).line = afterLastNewline pre ++ post.takeWhile (· ≠ '\n') := by
  rw [locate_boundary, ← bne_newline_eq]
  exact ⟨rfl, rfl, rfl⟩

/-- C11, "the line containing the position": the reported line is the maximal newline-free segment around the
    split point, and the column is the distance (in characters) of the split point from the start of that
    segment. -/
theorem C11_line_is_line (pre post : List Char) :
    ∃ before rest,
      pre ++ post = before ++ (locate (pre ++ post) (enc pre).length).line ++ rest ∧
      pre = before ++ afterLastNewline pre ∧
      (locate (pre ++ post) (enc pre).length).line = afterLastNewline pre ++ post.takeWhile (· != '\n') ∧
      post = post.takeWhile (· != '\n') ++ rest ∧
      (locate (pre ++ post) (enc pre).length).col = pre.length - before.length ∧
      '\n' ∉ (locate (pre ++ post) (enc pre).length).line ∧
      (before = [] ∨ ∃ b, before = b ++ ['\n']) ∧
      (rest = [] ∨ ∃ r, rest = '\n' :: r) := by
  obtain ⟨before, h1, h2, h3⟩ := afterLastNewline_spec pre
  rw [locate_boundary]
  refine ⟨before, post.dropWhile (· != '\n'), ?_, h1, rfl, List.takeWhile_append_dropWhile.symm, ?_, ?_, h3, ?_⟩
  · simp only
    rw [List.append_assoc, List.append_assoc, List.takeWhile_append_dropWhile, ← List.append_assoc, ← h1]
  · simp only
    have := congrArg List.length h1
    rw [List.length_append] at this
    omega
  · simp only
    intro h
    rcases List.mem_append.1 h with h | h
    · exact h2 h
    · have := mem_takeWhile_pos _ _ _ h
      simp at this
  · rcases dropWhile_head_neg (· != '\n') post with h | ⟨x, r, h, hx⟩
    · left; exact h
    · right
      have hx' : x = '\n' := by simpa using hx
      exact ⟨r, by rw [h, hx']⟩

/-- For a position that is *not* on a boundary (or beyond the end) the result is that of the largest boundary
    not after it – `locate` never fails. -/
theorem C11_offboundary (text : List Char) (pos : Nat) :
    ∃ pre post, text = pre ++ post ∧ (enc pre).length ≤ pos ∧
      (post = [] ∨ ∃ c r, post = c :: r ∧ pos < (enc pre).length + c.utf8Size) ∧
      locate text pos = locate text (enc pre).length := by
  refine ⟨(splitAtByte text pos).1, (splitAtByte text pos).2, (splitAtByte_append text pos).symm,
    splitAtByte_le text pos, splitAtByte_maximal text pos, ?_⟩
  have h : splitAtByte text (enc (splitAtByte text pos).1).length = splitAtByte text pos := by
    conv => lhs; arg 1; rw [← splitAtByte_append text pos]
    rw [splitAtByte_boundary]
  simp only [locate, h]

/-! ### 3. the rendered string -/

/-- `render` in terms of `locate`; the `+ 1`s are the 1-basedness of line and column. -/
theorem C11_render (e : PErr) (text : List Char) (file : Option String) :
    render e text file =
      message e.spec ++ "\n--> " ++
      (match file with
        | some f => f ++ ":" ++ toString ((locate text e.pos).lineno + 1) ++ ":" ++ toString ((locate text e.pos).col + 1)
        | none => "Line " ++ toString ((locate text e.pos).lineno + 1) ++ " character " ++
            toString ((locate text e.pos).col + 1)) ++
      "\n |  \n |  " ++ String.ofList (trimEnd (locate text e.pos).line) ++ "\n |  " ++
      String.ofList (List.replicate (locate text e.pos).col ' ') ++ "^\n" := rfl

/-- the rendered string ends with the caret line: ` |  `, then `col` spaces, then `^` and a newline; before it
    the (right-trimmed) line is printed after the same 4-character gutter ` |  `, so the caret is under
    character number `col` (0-based) of the printed line. -/
theorem C11_caret (e : PErr) (text : List Char) (file : Option String) :
    ∃ head, render e text file =
      head ++ "\n |  " ++ String.ofList (trimEnd (locate text e.pos).line) ++ "\n" ++
      (" |  " ++ String.ofList (List.replicate (locate text e.pos).col ' ') ++ "^\n") := by
  refine ⟨message e.spec ++ "\n--> " ++
      (match file with
        | some f => f ++ ":" ++ toString ((locate text e.pos).lineno + 1) ++ ":" ++ toString ((locate text e.pos).col + 1)
        | none => "Line " ++ toString ((locate text e.pos).lineno + 1) ++ " character " ++
            toString ((locate text e.pos).col + 1)) ++ "\n |  ", ?_⟩
  rw [C11_render]
  have e1 : ("\n |  \n |  " : String) = "\n |  " ++ "\n |  " := by decide
  have e2 : ("\n |  " : String) = "\n" ++ " |  " := by decide
  rw [e1]
  conv => lhs; rw [e2]
  conv => rhs; rw [e2]
  simp only [String.append_assoc]

/-- C11 assembled: for `text = pre ++ post` and an error at the boundary after `pre`, the pretty form is
    message, location (`Line L character C` resp. `file:L:C` with `L = 1 + newlines in pre`,
    `C = 1 + characters after the last newline of pre`), an empty gutter line, the line containing the
    position (right-trimmed), and the caret under column `C`. -/
theorem C11 (e : PErr) (pre post : List Char) (file : Option String) (hpos : e.pos = (enc pre).length) :
    render e (pre ++ post) file =
      message e.spec ++ "\n--> " ++
      (match file with
        | some f => f ++ ":" ++ toString (pre.count '\n' + 1) ++ ":" ++ toString ((afterLastNewline pre).length + 1)
        | none => "Line " ++ toString (pre.count '\n' + 1) ++ " character " ++
            toString ((afterLastNewline pre).length + 1)) ++
      "\n |  \n |  " ++ String.ofList (trimEnd (afterLastNewline pre ++ post.takeWhile (· != '\n'))) ++ "\n |  " ++
      String.ofList (List.replicate (afterLastNewline pre).length ' ') ++ "^\n" := by
  rw [C11_render, hpos, locate_boundary]

/-! ### 4. `trimEnd` -/

/-- `trimEnd l` is a prefix of `l`, the removed suffix is whitespace only, and what remains is empty or ends
    with a non-whitespace character -/
theorem trimEnd_spec (l : List Char) :
    ∃ suf, l = trimEnd l ++ suf ∧ (∀ c ∈ suf, isRustWhitespace c = true) ∧
      (trimEnd l = [] ∨ ∃ init c, trimEnd l = init ++ [c] ∧ isRustWhitespace c = false) := by
  refine ⟨(l.reverse.takeWhile isRustWhitespace).reverse, rev_scan_split _ l, ?_, ?_⟩
  · intro c hc
    rw [List.mem_reverse] at hc
    exact mem_takeWhile_pos _ _ _ hc
  · unfold trimEnd
    rcases dropWhile_head_neg isRustWhitespace l.reverse with h | ⟨x, r, h, hx⟩
    · left; rw [h]; rfl
    · right; rw [h, reverse_cons_eq]; exact ⟨r.reverse, x, rfl, hx⟩

theorem trimEnd_prefix (l : List Char) : trimEnd l <+: l := by
  obtain ⟨suf, h, _⟩ := trimEnd_spec l
  exact ⟨suf, h.symm⟩

/-- the specification determines the result -/
theorem trimEnd_unique (a suf : List Char) (hs : ∀ c ∈ suf, isRustWhitespace c = true)
    (ha : a = [] ∨ ∃ init c, a = init ++ [c] ∧ isRustWhitespace c = false) :
    trimEnd (a ++ suf) = a := by
  unfold trimEnd
  rw [List.reverse_append]
  have h1 : ∀ (r : List Char), (suf.reverse ++ r).dropWhile isRustWhitespace = r.dropWhile isRustWhitespace := by
    intro r
    rw [List.dropWhile_append, dropWhile_all _ _ (by intro c hc; exact hs c (List.mem_reverse.1 hc))]
    simp
  rw [h1]
  rcases ha with ha | ⟨init, c, ha, hc⟩
  · rw [ha]; rfl
  · rw [ha, List.reverse_append, List.reverse_singleton, List.singleton_append, List.dropWhile_cons,
      if_neg (by rw [hc]; exact Bool.false_ne_true)]
    simp

/-- no trailing whitespace: nothing to trim -/
theorem trimEnd_idem (l : List Char) : trimEnd (trimEnd l) = trimEnd l := by
  obtain ⟨_, _, _, h⟩ := trimEnd_spec l
  have := trimEnd_unique (trimEnd l) [] (by intro c hc; simp at hc) h
  rwa [List.append_nil] at this

/-! ### 5. non-vacuity and the fixed defects -/

/-- empty text: no panic (F2), line 1 column 1, empty line -/
example : locate [] 0 = ⟨0, 0, []⟩ := by decide
example : locate "abc".toList 3 = ⟨0, 3, "abc".toList⟩ := by decide
/-- error at the final newline: still on line 1 -/
example : locate "abc\n".toList 3 = ⟨0, 3, "abc".toList⟩ := by decide
/-- error at end of input after a final newline: line 2, column 1, empty line (F2: used to panic) -/
example : locate "abc\n".toList 4 = ⟨1, 0, []⟩ := by decide
example : locate "a\nb".toList 2 = ⟨1, 0, ['b']⟩ := by decide
/-- multi-byte: `é` has 2 bytes, `€` has 3; the position after `€` is byte 7: line 2, column 3 (characters!) -/
example : (enc "é\nx€".toList).length = 7 := by decide
example : locate "é\nx€y".toList 7 = ⟨1, 2, "x€y".toList⟩ := by decide
/-- off-boundary positions (inside `€`) are clamped down, beyond-the-end positions are clamped to the end -/
example : locate "é\nx€y".toList 6 = ⟨1, 1, "x€y".toList⟩ := by decide
example : locate "é\nx€y".toList 100 = ⟨1, 3, "x€y".toList⟩ := by decide
example : splitAtByte "é\nx€y".toList 1 = ([], "é\nx€y".toList) := by decide
/-- the hypotheses of `C11` are satisfiable, and the caret sits where it should -/
example : render ⟨7, .expectedEoi⟩ "é\nx€y  ".toList none =
    "expected end of input\n--> Line 2 character 3\n |  \n |  x€y\n |    ^\n" := by decide
example : render ⟨4, .expectedEoi⟩ "abc\n".toList (some "f.txt") =
    "expected end of input\n--> f.txt:2:1\n |  \n |  \n |  ^\n" := by decide
example : trimEnd "x y \t \n".toList = "x y".toList := by decide

end Pretty
end Peg
