import PegVerif.Eval
import PegVerif.Proofs.Basics
import PegVerif.Proofs.EvalMono
/-
  C07 – `@leftrec` rules terminate and build the left-nested tree of the longest growth.

  The model of the generated seed-and-grow loop is `growLoop` / `memoBody` (left-recursive branch).
-/
namespace Peg

/-! ### the loop, one iteration at a time -/

/-- what the loop does to the global object before it calls the body -/
def growPre (key : String × Nat) (g : Global) : Global :=
  (g.emit (.info "Starting new left recursive loop")).emit (.bodyEval key.1 key.2)

@[simp] theorem growPre_lookup (key k : String × Nat) (g : Global) :
    (growPre key g).lookup k = g.lookup k := rfl
@[simp] theorem growPre_cache (key : String × Nat) (g : Global) : (growPre key g).cache = g.cache := rfl
@[simp] theorem growPre_uctx (key : String × Nat) (g : Global) : (growPre key g).uctx = g.uctx := rfl

/- generic helpers of this file live in `Peg.LR` (other proof files use similar names) -/
namespace LR

theorem isFurtherThan_iff (a b : St) : a.isFurtherThan b = true ↔ b.off < a.off := by
  simp [St.isFurtherThan]

theorem lookup_insert_self (g : Global) (k : String × Nat) (v : Res Val) :
    (g.insert k v).lookup k = some v := by
  rw [lookup_insert]; simp

end LR
open LR

/-- a run of the grow loop, as a relation.
    `GrowRun body key s best g chain r g'`: started with `best` and global `g`, the loop evaluates the
    body `chain.length + 1` times; `chain` lists the successive *improved* results (each of them was
    inserted into the cache under `key` and became the new `best`), the last evaluation ends the loop
    with result `r` and global `g'`. -/
inductive GrowRun (body : St → Global → Out Val) (key : String × Nat) (s : St) :
    Res Val → Global → List (Val × St) → Res Val → Global → Prop
  /-- the body panics -/
  | panic {best g m g'} (hb : body s (growPre key g) = some (.panic m, g')) :
      GrowRun body key s best g [] (.panic m) g'
  /-- the body succeeds but not further than `best`: `best` is the answer -/
  | stopOk {bv bs g v ns g'} (hb : body s (growPre key g) = some (.ok v ns, g'))
      (hle : ns.off ≤ bs.off) : GrowRun body key s (.ok bv bs) g [] (.ok bv bs) g'
  /-- the body fails after a success: `best` is the answer -/
  | stopErr {bv bs g e g'} (hb : body s (growPre key g) = some (.err e, g')) :
      GrowRun body key s (.ok bv bs) g [] (.ok bv bs) g'
  /-- the body fails and there is no success yet: its error is the answer, and is cached -/
  | fail {best g e g'} (hb : body s (growPre key g) = some (.err e, g'))
      (hbest : ∀ bv bs, best ≠ .ok bv bs) :
      GrowRun body key s best g [] (.err e) (g'.insert key (.err e))
  /-- the body succeeds, strictly further than `best` (or `best` is no success): cache, continue -/
  | grow {best g v ns g' chain r g''} (hb : body s (growPre key g) = some (.ok v ns, g'))
      (hfar : ∀ bv bs, best = .ok bv bs → bs.off < ns.off)
      (hrest : GrowRun body key s (.ok v ns) (g'.insert key (.ok v ns)) chain r g'') :
      GrowRun body key s best g ((v, ns) :: chain) r g''

theorem growLoop_run {body : St → Global → Out Val} {key : String × Nat} {s : St} :
    ∀ k best g r g', growLoop body key s k best g = some (r, g') →
      ∃ chain, chain.length < k ∧ GrowRun body key s best g chain r g' := by
  intro k
  induction k with
  | zero => intro best g r g' h; simp [growLoop] at h
  | succ k ih =>
    intro best g r g' h
    simp only [growLoop] at h
    split at h
    · cases h
    · rename_i m g1 hb
      cases h
      exact ⟨[], by simp, .panic hb⟩
    · rename_i v ns g1 hb
      split at h
      · rename_i bv bs
        split at h
        · rename_i hc
          obtain ⟨chain, hl, hr⟩ := ih _ _ _ _ h
          refine ⟨(v, ns) :: chain, by simp; omega, .grow hb ?_ hr⟩
          intro bv' bs' he
          cases he
          exact (isFurtherThan_iff _ _).1 hc
        · rename_i hc
          cases h
          refine ⟨[], by simp, .stopOk hb ?_⟩
          have : ¬ bs.off < ns.off := fun h' => hc ((isFurtherThan_iff ns bs).2 h')
          omega
      · rename_i hbest
        obtain ⟨chain, hl, hr⟩ := ih _ _ _ _ h
        refine ⟨(v, ns) :: chain, by simp; omega, .grow hb ?_ hr⟩
        intro bv bs he
        exact absurd he (hbest bv bs)
    · rename_i e g1 hb
      split at h
      · cases h
        exact ⟨[], by simp, .stopErr hb⟩
      · rename_i hbest
        cases h
        exact ⟨[], by simp, .fail hb (fun bv bs he => hbest bv bs he)⟩

theorem growLoop_succ (body : St → Global → Out Val) (key : String × Nat) (s : St) (k : Nat)
    (best : Res Val) (g : Global) :
    growLoop body key s (k + 1) best g =
      match body s (growPre key g) with
      | none => none
      | some (.panic m, g') => some (.panic m, g')
      | some (.ok v ns, g') =>
        (match best with
         | .ok _ bs =>
           if ns.isFurtherThan bs then growLoop body key s k (.ok v ns) (g'.insert key (.ok v ns))
           else some (best, g')
         | _ => growLoop body key s k (.ok v ns) (g'.insert key (.ok v ns)))
      | some (.err e, g') =>
        (match best with
         | .ok _ _ => some (best, g')
         | _ => some (.err e, g'.insert key (.err e))) := rfl

theorem GrowRun.toLoop {body : St → Global → Out Val} {key : String × Nat} {s : St}
    {best g chain r g'} (h : GrowRun body key s best g chain r g') :
    ∀ k, chain.length < k → growLoop body key s k best g = some (r, g') := by
  induction h with
  | panic hb =>
    intro k hk
    obtain ⟨k, rfl⟩ : ∃ k', k = k' + 1 := ⟨k - 1, by omega⟩
    rw [growLoop_succ, hb]
  | @stopOk bv bs g v ns g' hb hle =>
    intro k hk
    obtain ⟨k, rfl⟩ : ∃ k', k = k' + 1 := ⟨k - 1, by omega⟩
    rw [growLoop_succ, hb]
    have : ¬ ns.isFurtherThan bs = true := fun h' => by
      have := (isFurtherThan_iff _ _).1 h'; omega
    simp only [if_neg this]
  | stopErr hb =>
    intro k hk
    obtain ⟨k, rfl⟩ : ∃ k', k = k' + 1 := ⟨k - 1, by omega⟩
    rw [growLoop_succ, hb]
  | @fail best g e g' hb hbest =>
    intro k hk
    obtain ⟨k, rfl⟩ : ∃ k', k = k' + 1 := ⟨k - 1, by omega⟩
    rw [growLoop_succ, hb]
    cases best with
    | ok bv bs => exact absurd rfl (hbest bv bs)
    | err _ => rfl
    | panic _ => rfl
  | @grow best g v ns g' chain r g'' hb hfar hrest ih =>
    intro k hk
    obtain ⟨k, rfl⟩ : ∃ k', k = k' + 1 := ⟨k - 1, by omega⟩
    simp only [List.length_cons] at hk
    rw [growLoop_succ, hb]
    cases best with
    | ok bv bs =>
      simp only [if_pos ((isFurtherThan_iff _ _).2 (hfar bv bs rfl))]
      exact ih k (by omega)
    | err _ => exact ih k (by omega)
    | panic _ => exact ih k (by omega)

/-- the loop function and the run relation describe the same thing; the fuel needed is exactly the
    number of body evaluations `chain.length + 1` -/
theorem growLoop_iff {body : St → Global → Out Val} {key : String × Nat} {s : St} {k best g r g'} :
    growLoop body key s k best g = some (r, g') ↔
      ∃ chain, chain.length < k ∧ GrowRun body key s best g chain r g' :=
  ⟨growLoop_run k best g r g', fun ⟨_, hl, hr⟩ => hr.toLoop k hl⟩

/-- with less fuel than body evaluations the loop function runs out of fuel -/
theorem GrowRun.toLoop_none {body : St → Global → Out Val} {key : String × Nat} {s : St}
    {best g chain r g'} (h : GrowRun body key s best g chain r g') :
    ∀ k, k ≤ chain.length → growLoop body key s k best g = none := by
  induction h with
  | panic hb => intro k hk; simp only [List.length_nil] at hk; obtain rfl : k = 0 := by omega
                rfl
  | stopOk hb hle => intro k hk; simp only [List.length_nil] at hk; obtain rfl : k = 0 := by omega
                     rfl
  | stopErr hb => intro k hk; simp only [List.length_nil] at hk; obtain rfl : k = 0 := by omega
                  rfl
  | fail hb hbest => intro k hk; simp only [List.length_nil] at hk; obtain rfl : k = 0 := by omega
                     rfl
  | @grow best g v ns g' chain r g'' hb hfar hrest ih =>
    intro k hk
    simp only [List.length_cons] at hk
    cases k with
    | zero => rfl
    | succ k =>
      rw [growLoop_succ, hb]
      cases best with
      | ok bv bs =>
        simp only [if_pos ((isFurtherThan_iff _ _).2 (hfar bv bs rfl))]
        exact ih k (by omega)
      | err _ => exact ih k (by omega)
      | panic _ => exact ih k (by omega)

/-- a run is determined by its start: result, final global and number of iterations -/
theorem GrowRun.det {body : St → Global → Out Val} {key : String × Nat} {s : St}
    {best g chain r g' chain2 r2 g2} (h : GrowRun body key s best g chain r g')
    (h2 : GrowRun body key s best g chain2 r2 g2) :
    chain.length = chain2.length ∧ r = r2 ∧ g' = g2 := by
  have e1 := h.toLoop (max chain.length chain2.length + 1) (by omega)
  have e2 := h2.toLoop (max chain.length chain2.length + 1) (by omega)
  rw [e1] at e2
  simp only [Option.some.injEq, Prod.mk.injEq] at e2
  refine ⟨?_, e2.1, e2.2⟩
  rcases Nat.lt_trichotomy chain.length chain2.length with hlt | heq | hgt
  · have a := h.toLoop chain2.length hlt
    rw [h2.toLoop_none chain2.length (Nat.le_refl _)] at a
    cases a
  · exact heq
  · have a := h2.toLoop chain.length hgt
    rw [h.toLoop_none chain.length (Nat.le_refl _)] at a
    cases a

/-! ### 1. progress and the iteration bound -/

/-- end offset of a successful result -/
def Res.endOff {α} : Res α → Option Nat
  | .ok _ s => some s.off
  | _ => none

/-- the end offsets of the chain increase strictly, starting strictly above `lo` (if any) -/
def ChainFrom : Option Nat → List (Val × St) → Prop
  | _, [] => True
  | lo, (_, ns) :: rest => (∀ b, lo = some b → b < ns.off) ∧ ChainFrom (some ns.off) rest

/-- **progress**: every iteration that continues the loop has produced a result strictly further than
    the previous `best` (the very first one is exempt when `best` is the failing seed) -/
theorem GrowRun.increasing {body : St → Global → Out Val} {key : String × Nat} {s : St}
    {best g chain r g'} (h : GrowRun body key s best g chain r g') :
    ChainFrom best.endOff chain := by
  induction h with
  | panic hb => trivial
  | stopOk hb hle => trivial
  | stopErr hb => trivial
  | fail hb hbest => trivial
  | @grow best g v ns g' chain r g'' hb hfar hrest ih =>
    refine ⟨?_, ih⟩
    intro b hb'
    cases best with
    | ok bv bs => simp only [Res.endOff, Option.some.injEq] at hb'; subst hb'; exact hfar bv bs rfl
    | err _ => simp [Res.endOff] at hb'
    | panic _ => simp [Res.endOff] at hb'

theorem ChainFrom.lt_all {b : Nat} : ∀ {chain : List (Val × St)}, ChainFrom (some b) chain →
    ∀ x ∈ chain, b < x.2.off := by
  intro chain
  induction chain generalizing b with
  | nil => intro _ x hx; cases hx
  | cons y rest ih =>
    intro h x hx
    obtain ⟨h1, h2⟩ := h
    have hy := h1 b rfl
    rcases List.mem_cons.1 hx with rfl | hx
    · exact hy
    · exact Nat.lt_trans hy (ih h2 x hx)

/-- the same, in the standard form -/
theorem ChainFrom.pairwise : ∀ {lo} {chain : List (Val × St)}, ChainFrom lo chain →
    chain.Pairwise (fun a b => a.2.off < b.2.off) := by
  intro lo chain
  induction chain generalizing lo with
  | nil => intro _; exact List.Pairwise.nil
  | cons y rest ih =>
    intro h
    exact List.Pairwise.cons (fun x hx => h.2.lt_all x hx) (ih h.2)

/-- every element of the chain is a successful result of the body on the start state -/
theorem GrowRun.chain_body {body : St → Global → Out Val} {key : String × Nat} {s : St}
    {best g chain r g'} (h : GrowRun body key s best g chain r g') :
    ∀ x ∈ chain, ∃ g0 g1, body s g0 = some (.ok x.1 x.2, g1) := by
  induction h with
  | panic hb => intro x hx; cases hx
  | stopOk hb hle => intro x hx; cases hx
  | stopErr hb => intro x hx; cases hx
  | fail hb hbest => intro x hx; cases hx
  | @grow best g v ns g' chain r g'' hb hfar hrest ih =>
    intro x hx
    rcases List.mem_cons.1 hx with rfl | hx
    · exact ⟨_, _, hb⟩
    · exact ih x hx

theorem ChainFrom.length_le {L : Nat} : ∀ {chain : List (Val × St)} {lo : Option Nat} {lb : Nat},
    ChainFrom lo chain → (∀ x ∈ chain, x.2.off ≤ L) → (∀ b, lo = some b → lb ≤ b + 1) →
    (lo = none → ∀ x ∈ chain, lb ≤ x.2.off) → chain.length ≤ L + 1 - lb := by
  intro chain
  induction chain with
  | nil => intro lo lb _ _ _ _; simp
  | cons y rest ih =>
    intro lo lb h hL hlo hnone
    obtain ⟨h1, h2⟩ := h
    have hyL := hL y List.mem_cons_self
    have hylb : lb ≤ y.2.off := by
      cases lo with
      | none => exact hnone rfl y List.mem_cons_self
      | some b => have := h1 b rfl; have := hlo b rfl; omega
    have := ih (lo := some y.2.off) (lb := y.2.off + 1) h2
      (fun x hx => hL x (List.mem_cons_of_mem _ hx)) (fun b hb => by cases hb; omega)
      (fun hn => by cases hn)
    simp only [List.length_cons]
    omega

/-- the body only returns end states between the start offset and the end of the input -/
def BodyWithin (body : St → Global → Out Val) (s : St) : Prop :=
  ∀ g v ns g', body s g = some (.ok v ns, g') → s.off ≤ ns.off ∧ ns.off ≤ s.off + s.rest.length

/-- the count, from bounds on the chain elements -/
theorem GrowRun.length_le_of_bounds {body : St → Global → Out Val} {key : String × Nat} {s : St}
    {best g chain r g'} (h : GrowRun body key s best g chain r g')
    (hchain : ∀ x ∈ chain, s.off ≤ x.2.off ∧ x.2.off ≤ s.off + s.rest.length)
    (hbest : ∀ bv bs, best = .ok bv bs → s.off ≤ bs.off + 1) :
    chain.length ≤ s.rest.length + 1 := by
  have := ChainFrom.length_le (L := s.off + s.rest.length) (lb := s.off) h.increasing
    (fun x hx => (hchain x hx).2)
    (fun b hb => by
      cases best with
      | ok bv bs => simp only [Res.endOff, Option.some.injEq] at hb; subst hb; exact hbest bv bs rfl
      | err _ => simp [Res.endOff] at hb
      | panic _ => simp [Res.endOff] at hb)
    (fun _ x hx => (hchain x hx).1)
  omega

theorem GrowRun.length_le {body : St → Global → Out Val} {key : String × Nat} {s : St}
    (hB : BodyWithin body s) {best g chain r g'} (h : GrowRun body key s best g chain r g')
    (hbest : ∀ bv bs, best = .ok bv bs → s.off ≤ bs.off + 1) :
    chain.length ≤ s.rest.length + 1 :=
  h.length_le_of_bounds
    (fun x hx => by obtain ⟨g0, g1, hb⟩ := h.chain_body x hx; exact hB _ _ _ _ hb) hbest

/-- sharper count when the loop is entered with a success `bs` already: at most one iteration per
    remaining byte after `bs`, plus the final one -/
theorem GrowRun.length_le_ok {body : St → Global → Out Val} {key : String × Nat} {s : St}
    (hB : BodyWithin body s) {bv bs g chain r g'} (h : GrowRun body key s (.ok bv bs) g chain r g') :
    chain.length ≤ s.off + s.rest.length - bs.off := by
  have := ChainFrom.length_le (L := s.off + s.rest.length) (lb := bs.off + 1) h.increasing
    (fun x hx => by obtain ⟨g0, g1, hb⟩ := h.chain_body x hx; exact (hB _ _ _ _ hb).2)
    (fun b hb => by simp only [Res.endOff, Option.some.injEq] at hb; omega)
    (fun hn => by simp [Res.endOff] at hn)
  omega

/-- **C07, termination half** (relative to termination of the body): if the loop answers at all, it
    answers with loop fuel `remaining input length + 2` – the body is evaluated at most that often.
    `hbest` covers the two ways the loop is entered: with the failing seed, or with a success that
    lies at/after the start offset. -/
theorem growLoop_progress {body : St → Global → Out Val} {key : String × Nat} {s : St}
    (hB : BodyWithin body s) {k : Nat} {best : Res Val} {g : Global} {x : Res Val × Global}
    (hbest : ∀ bv bs, best = .ok bv bs → s.off ≤ bs.off + 1)
    (h : growLoop body key s k best g = some x) :
    ∃ k0, k0 ≤ s.rest.length + 2 ∧ ∀ k', k0 ≤ k' → growLoop body key s k' best g = some x := by
  obtain ⟨r, g'⟩ := x
  obtain ⟨chain, _, hr⟩ := growLoop_run k best g r g' h
  refine ⟨chain.length + 1, ?_, fun k' hk' => hr.toLoop k' (by omega)⟩
  have := hr.length_le hB hbest
  omega

/-- the same for the whole wrapper: the `n` of `memoBody` is only used as loop fuel -/
theorem memoBody_leftrec_fuel {flags : RuleFlags} {name : String} {body : St → Global → Out Val}
    {n : Nat} {s : St} {g : Global} {x : Res Val × Global} (hlr : flags.leftRecursive = true)
    (hB : BodyWithin body s) (h : memoBody flags name body n s g = some x) :
    ∃ k0, k0 ≤ s.rest.length + 2 ∧ ∀ k', k0 ≤ k' → memoBody flags name body k' s g = some x := by
  unfold memoBody at h ⊢
  simp only [hlr, if_true] at h ⊢
  split at h
  · exact ⟨0, by omega, fun _ _ => h⟩
  · exact growLoop_progress hB (fun bv bs he => by cases he) h

/-! ### 2. the result: the last element of the strictly increasing chain -/

def Res.okPair {α} : Res α → Option (α × St)
  | .ok v s => some (v, s)
  | _ => none

/-- the last success: the last element of the chain, or `best` itself if the chain is empty -/
def lastOk (best : Res Val) (chain : List (Val × St)) : Option (Val × St) :=
  match chain.getLast? with
  | some x => some x
  | none => best.okPair

theorem lastOk_cons (best : Res Val) (x : Val × St) (chain : List (Val × St)) :
    lastOk best (x :: chain) = lastOk (.ok x.1 x.2) chain := by
  cases chain with
  | nil => simp [lastOk, Res.okPair]
  | cons y rest =>
    have : (y :: rest).getLast? = some ((y :: rest).getLast (by simp)) := List.getLast?_eq_some_getLast _
    simp only [lastOk, List.getLast?_cons_cons, this]

/-- `body` never changes an existing cache entry for `key` (for the generated code: while the seed
    for `key` is in the cache every call of the rule at that offset is a cache hit, which does not
    insert) -/
def KeepsKey (body : St → Global → Out Val) (key : String × Nat) (s : St) : Prop :=
  ∀ g r g', body s g = some (r, g') → ∀ x, g.lookup key = some x → g'.lookup key = some x

/-- what the loop returns -/
inductive GrowResult (body : St → Global → Out Val) (key : String × Nat) (s : St) (best : Res Val)
    (g : Global) (chain : List (Val × St)) (r : Res Val) (g' : Global) : Prop
  /-- some body evaluation panicked -/
  | panic (m : String) (hr : r = .panic m)
  /-- the longest growth: the last success of the chain (`best` if the chain is empty) -/
  | longest (v : Val) (ns : St) (hl : lastOk best chain = some (v, ns)) (hr : r = .ok v ns)
  /-- no success at all: the very first body evaluation failed; its error is returned and cached -/
  | failed (e : PErr) (gb : Global) (hc : chain = []) (hbest : ∀ bv bs, best ≠ .ok bv bs)
      (hb : body s (growPre key g) = some (.err e, gb)) (hr : r = .err e)
      (hg : g' = gb.insert key (.err e))

theorem GrowRun.result {body : St → Global → Out Val} {key : String × Nat} {s : St}
    {best g chain r g'} (h : GrowRun body key s best g chain r g') :
    GrowResult body key s best g chain r g' := by
  induction h with
  | panic hb => exact .panic _ rfl
  | stopOk hb hle => exact .longest _ _ rfl rfl
  | stopErr hb => exact .longest _ _ rfl rfl
  | fail hb hbest => exact .failed _ _ rfl hbest hb rfl rfl
  | @grow best g v ns g' chain r g'' hb hfar hrest ih =>
    cases ih with
    | panic m hr => exact .panic m hr
    | longest v' ns' hl hr => exact .longest v' ns' (by rw [lastOk_cons]; exact hl) hr
    | failed e gb hc hbest _ _ _ => exact absurd rfl (hbest v ns)

/-- the cache entry for `key` at the end is the returned result -/
theorem GrowRun.cache {body : St → Global → Out Val} {key : String × Nat} {s : St}
    (hk : KeepsKey body key s) {best g chain r g'} (h : GrowRun body key s best g chain r g')
    (hg : g.lookup key = some best) (hnp : ∀ m, r ≠ .panic m) : g'.lookup key = some r := by
  induction h with
  | panic hb => exact absurd rfl (hnp _)
  | stopOk hb hle => exact hk _ _ _ hb _ (by simpa using hg)
  | stopErr hb => exact hk _ _ _ hb _ (by simpa using hg)
  | fail hb hbest => exact lookup_insert_self _ _ _
  | grow hb hfar hrest ih => exact ih (lookup_insert_self _ _ _) hnp

/-- **C07, result half.**  A run of the loop that answers `(r, g')` consists of a chain of body
    results with strictly increasing end offsets (each strictly further than the previous `best`);
    `r` is the last of them – the longest growth – (or `best`, if the chain is empty and `best` is a
    success), or the error of the body if the very first evaluation fails; a panic of the body is
    passed on.  If the body leaves the entry of `key` alone, the cache entry for `key` at the end is
    the returned result. -/
theorem growLoop_result {body : St → Global → Out Val} {key : String × Nat} {s : St} {k : Nat}
    {best : Res Val} {g : Global} {r : Res Val} {g' : Global}
    (h : growLoop body key s k best g = some (r, g')) :
    ∃ chain : List (Val × St), chain.length < k ∧
      ChainFrom best.endOff chain ∧
      chain.Pairwise (fun a b => a.2.off < b.2.off) ∧
      (∀ x ∈ chain, ∃ g0 g1, body s g0 = some (.ok x.1 x.2, g1)) ∧
      GrowResult body key s best g chain r g' ∧
      (KeepsKey body key s → g.lookup key = some best → (∀ m, r ≠ .panic m) →
        g'.lookup key = some r) := by
  obtain ⟨chain, hl, hr⟩ := growLoop_run k best g r g' h
  exact ⟨chain, hl, hr.increasing, hr.increasing.pairwise, hr.chain_body, hr.result,
    fun hk hg hnp => hr.cache hk hg hnp⟩

/-- corollary: a successful answer of the loop entered with the failing seed is a result of the body
    and it is the furthest one of the run -/
theorem growLoop_ok_is_longest {body : St → Global → Out Val} {key : String × Nat} {s : St} {k : Nat}
    {e0 : PErr} {g : Global} {v : Val} {ns : St} {g' : Global}
    (h : growLoop body key s k (.err e0) g = some (.ok v ns, g')) :
    ∃ chain : List (Val × St), chain.getLast? = some (v, ns) ∧
      (∀ x ∈ chain, x.2.off ≤ ns.off) ∧ (∃ g0 g1, body s g0 = some (.ok v ns, g1)) := by
  obtain ⟨chain, _, hr⟩ := growLoop_run k _ g _ g' h
  have hres := hr.result
  cases hres with
  | panic m hr' => cases hr'
  | failed e gb hc hbest hb hr' hg => cases hr'
  | longest v' ns' hl hr' =>
    cases hr'
    have hlast : chain.getLast? = some (v, ns) := by
      unfold lastOk at hl
      split at hl
      · rename_i x hx; rw [hx, hl]
      · simp [Res.okPair] at hl
    have hmem : (v, ns) ∈ chain := List.mem_of_getLast? hlast
    refine ⟨chain, hlast, ?_, hr.chain_body _ hmem⟩
    intro x hx
    have hp := hr.increasing.pairwise
    obtain ⟨init, hi⟩ : ∃ init, chain = init ++ [(v, ns)] := by
      have := List.getLast?_eq_some_iff.1 hlast
      exact this
    subst hi
    rw [List.pairwise_append] at hp
    rcases List.mem_append.1 hx with hx | hx
    · exact Nat.le_of_lt (hp.2.2 x hx (v, ns) (List.mem_singleton.2 rfl))
    · rw [List.mem_singleton.1 hx]; exact Nat.le_refl _

/-! ### 3. the usual shape `A = A x | b`, semantically -/

/-- `b0` extended `i` times: `ext (i-1) (… (ext 1 (ext 0 b0)))`, the tree nested to the left
    (`ext j` is the extension built in growth step `j`: "a node holding the previous result as its
    left child and the `j`-th `x`") -/
def nestL (ext : Nat → Val → Val) (b0 : Val) : Nat → Val
  | 0 => b0
  | i + 1 => ext i (nestL ext b0 i)

/-- the successive improved results `(v_i, s_i), …, (v_{i+d-1}, s_{i+d-1})` -/
def growChain (ext : Nat → Val → Val) (b0 : Val) (st : Nat → St) : Nat → Nat → List (Val × St)
  | _, 0 => []
  | i, d + 1 => (nestL ext b0 i, st i) :: growChain ext b0 st (i + 1) d

@[simp] theorem growChain_length (ext : Nat → Val → Val) (b0 : Val) (st : Nat → St) (i d : Nat) :
    (growChain ext b0 st i d).length = d := by
  induction d generalizing i with
  | zero => rfl
  | succ d ih => simp [growChain, ih]

/-- the global state the loop hands to the body when the current seed is `seed`: the seed has just
    been inserted under `key`, then the two ghost events are logged -/
def seeded (key : String × Nat) (seed : Res Val) (g : Global) : Global :=
  growPre key (g.insert key seed)

@[simp] theorem seeded_lookup (key : String × Nat) (seed : Res Val) (g : Global) :
    (seeded key seed g).lookup key = some seed := lookup_insert_self _ _ _

/-- The behaviour of the body of a directly left-recursive rule `A = A x | b` on the start state `s`,
    as a function of the seed it finds in the cache under `key`.  The clauses quantify over every
    global state `seeded key seed g` (arbitrary `g`: rest of the cache, log, user context), i.e. over
    all global states the loop can hand to the body with that seed; nothing is assumed about the
    global state the body returns.
    * `base`: with the failing seed `e0` the body succeeds with `b0`, ending in `st 0` (the base
      alternative `b`; the recursive alternative fails on the failing seed);
    * `step`: with the seed `ok v_i (st i)`, `i < m`, the body succeeds with `ext i v_i`, ending in
      `st (i+1)`, strictly further (the recursive alternative consumes the seed and one more `x`);
    * `stop`: with the seed `ok v_m (st m)` the body fails or does not get further than `st m`
      (there is no further `x`; the base alternative ends in `st 0`).
    `DirectLeftRec.of_lookup` derives this from the more natural formulation "whenever
    `g.lookup key = some seed` …" (the body depends on the global state only through `lookup key`). -/
structure DirectLeftRec (body : St → Global → Out Val) (key : String × Nat) (s : St) (e0 : PErr)
    (b0 : Val) (ext : Nat → Val → Val) (st : Nat → St) (m : Nat) : Prop where
  base : ∀ g, ∃ g', body s (seeded key (.err e0) g) = some (.ok b0 (st 0), g')
  step : ∀ i, i < m → ∀ g, ∃ g', body s (seeded key (.ok (nestL ext b0 i) (st i)) g) =
    some (.ok (ext i (nestL ext b0 i)) (st (i + 1)), g')
  mono : ∀ i, i < m → (st i).off < (st (i + 1)).off
  stop : ∀ g,
    (∃ e g', body s (seeded key (.ok (nestL ext b0 m) (st m)) g) = some (.err e, g')) ∨
    (∃ v' ns g', body s (seeded key (.ok (nestL ext b0 m) (st m)) g) = some (.ok v' ns, g') ∧
      ns.off ≤ (st m).off)

/-- the formulation through `lookup`: result value and end state of the body depend on the global
    state only through the seed found under `key` -/
theorem DirectLeftRec.of_lookup {body : St → Global → Out Val} {key : String × Nat} {s : St} {e0 : PErr}
    {b0 : Val} {ext : Nat → Val → Val} {st : Nat → St} {m : Nat}
    (base : ∀ g, g.lookup key = some (.err e0) → ∃ g', body s g = some (.ok b0 (st 0), g'))
    (step : ∀ i, i < m → ∀ g v, g.lookup key = some (.ok v (st i)) →
      ∃ g', body s g = some (.ok (ext i v) (st (i + 1)), g'))
    (mono : ∀ i, i < m → (st i).off < (st (i + 1)).off)
    (stop : ∀ g v, g.lookup key = some (.ok v (st m)) →
      (∃ e g', body s g = some (.err e, g')) ∨
      (∃ v' ns g', body s g = some (.ok v' ns, g') ∧ ns.off ≤ (st m).off)) :
    DirectLeftRec body key s e0 b0 ext st m :=
  ⟨fun g => base _ (seeded_lookup _ _ g), fun i hi g => step i hi _ _ (seeded_lookup _ _ g), mono,
   fun g => stop _ _ (seeded_lookup _ _ g)⟩

theorem DirectLeftRec.run_from {body : St → Global → Out Val} {key : String × Nat} {s : St} {e0 : PErr}
    {b0 : Val} {ext : Nat → Val → Val} {st : Nat → St} {m : Nat}
    (H : DirectLeftRec body key s e0 b0 ext st m) :
    ∀ d i, i + d = m → ∀ g : Global,
      ∃ g', GrowRun body key s (.ok (nestL ext b0 i) (st i))
        (g.insert key (.ok (nestL ext b0 i) (st i))) (growChain ext b0 st (i + 1) d)
        (.ok (nestL ext b0 m) (st m)) g' := by
  intro d
  induction d with
  | zero =>
    intro i hi g
    obtain rfl : i = m := by omega
    rcases H.stop g with ⟨e, g', hb⟩ | ⟨v', ns, g', hb, hle⟩
    · exact ⟨g', .stopErr hb⟩
    · exact ⟨g', .stopOk hb hle⟩
  | succ d ih =>
    intro i hi g
    obtain ⟨g1, hb⟩ := H.step i (by omega) g
    obtain ⟨g', hr⟩ := ih (i + 1) (by omega) g1
    refine ⟨g', ?_⟩
    show GrowRun body key s _ _ ((nestL ext b0 (i + 1), st (i + 1)) :: growChain ext b0 st (i + 1 + 1) d) _ g'
    refine .grow hb ?_ hr
    intro bv bs he
    cases he
    exact H.mono i (by omega)

/-- the run of the loop for a directly left-recursive body: exactly `m + 2` body evaluations, the
    successive cached results are `(b0, st 0), (ext 0 b0, st 1), …`, the answer is the last one -/
theorem DirectLeftRec.run {body : St → Global → Out Val} {key : String × Nat} {s : St} {e0 : PErr}
    {b0 : Val} {ext : Nat → Val → Val} {st : Nat → St} {m : Nat}
    (H : DirectLeftRec body key s e0 b0 ext st m) (g : Global) :
    ∃ g', GrowRun body key s (.err e0) (g.insert key (.err e0)) (growChain ext b0 st 0 (m + 1))
      (.ok (nestL ext b0 m) (st m)) g' := by
  obtain ⟨g1, hb⟩ := H.base g
  obtain ⟨g', hr⟩ := H.run_from m 0 (by omega) g1
  exact ⟨g', .grow hb (fun bv bs he => by cases he) hr⟩

/-- **C07_direct** (loop level).  For a body behaving like `A = A x | b` with `m` extensions
    available, the loop entered with the failing seed (just inserted under `key`, as `memoBody` does)
    returns `ok v_m s_m` with `v_m = ext (m-1) (… (ext 0 b0))`: the tree nested to the left, each
    extension holding the previous result.  It evaluates the body exactly `m + 2` times: any loop fuel
    `≥ m + 2` gives this answer, any smaller one runs out; the successive improved (and cached) results
    are `(v_0, s_0), …, (v_m, s_m)`.  If moreover the body leaves the entry of `key` alone, that
    entry is the returned result at the end. -/
theorem C07_direct {body : St → Global → Out Val} {key : String × Nat} {s : St} {e0 : PErr}
    {b0 : Val} {ext : Nat → Val → Val} {st : Nat → St} {m : Nat}
    (H : DirectLeftRec body key s e0 b0 ext st m) (g : Global) :
    ∃ g', (∀ k, m + 2 ≤ k → growLoop body key s k (.err e0) (g.insert key (.err e0)) =
              some (.ok (nestL ext b0 m) (st m), g')) ∧
          (∀ k, k ≤ m + 1 → growLoop body key s k (.err e0) (g.insert key (.err e0)) = none) ∧
          GrowRun body key s (.err e0) (g.insert key (.err e0)) (growChain ext b0 st 0 (m + 1))
            (.ok (nestL ext b0 m) (st m)) g' ∧
          (KeepsKey body key s → g'.lookup key = some (.ok (nestL ext b0 m) (st m))) := by
  obtain ⟨g', hr⟩ := H.run g
  refine ⟨g', fun k hk => hr.toLoop k (by simp; omega), fun k hk => hr.toLoop_none k (by simp; omega), hr,
    fun hk => hr.cache hk (lookup_insert_self _ _ _) (fun m' he => by cases he)⟩

/-- **C07_direct** for the rule wrapper: on a cache miss the left-recursive `memoBody` seeds the cache
    with the failing sentinel and grows; with a body of the shape `A = A x | b` it returns the
    left-nested tree `v_m`, ending in `s_m`, after exactly `m + 2` body evaluations. -/
theorem C07_direct_memoBody {flags : RuleFlags} {name : String} {body : St → Global → Out Val} {s : St}
    {b0 : Val} {ext : Nat → Val → Val} {st : Nat → St} {m : Nat} (hlr : flags.leftRecursive = true)
    (H : DirectLeftRec body (name, s.off) s (s.reportError .leftRecursionSentinel) b0 ext st m)
    {g : Global} (hmiss : g.lookup (name, s.off) = none) :
    ∃ g', (∀ n, m + 2 ≤ n →
            memoBody flags name body n s g = some (.ok (nestL ext b0 m) (st m), g')) ∧
          (∀ n, n ≤ m + 1 → memoBody flags name body n s g = none) ∧
          (KeepsKey body (name, s.off) s →
            g'.lookup (name, s.off) = some (.ok (nestL ext b0 m) (st m))) := by
  obtain ⟨g', h1, h2, _, h4⟩ := C07_direct H g
  refine ⟨g', fun n hn => ?_, fun n hn => ?_, h4⟩
  · unfold memoBody; simp only [hlr, if_true, hmiss]; exact h1 n hn
  · unfold memoBody; simp only [hlr, if_true, hmiss]; exact h2 n hn

/-! ### the sentinel does not stay in the cache -/

/-- **C07_sentinel_replaced.**  Let the left-recursive wrapper miss the cache and answer `(r, g')`,
    and let `g0` be the global state of the first body evaluation (the failing sentinel has just been
    inserted under `key`).
    * If that first evaluation fails with `e`, then `r = err e`, `g'` is the body's final state with
      `err e` inserted under `key`, so the entry of `key` is `err e` – the body's own error, which
      replaced the seed.  (Caveat, see the example `A = l:*A 'x'` below: the body's error can itself be
      the sentinel error propagated from the seed; it is then cached *as the result*.)
    * If it succeeds (ending in `ns`), the answer is a panic of a later evaluation or a success ending
      at/after `ns`, and – for a body that leaves the entry of `key` alone – the entry of `key` is that
      success.
    * For a body that leaves the entry of `key` alone: in every non-panic case the entry of `key` at the
      end is the returned result.
    (`C07_cache_final` below discharges `KeepsKey` for the real rule body.) -/
theorem C07_sentinel_replaced {flags : RuleFlags} {name : String} {body : St → Global → Out Val}
    {n : Nat} {s : St} {g : Global} {r : Res Val} {g' : Global} (hlr : flags.leftRecursive = true)
    (hmiss : g.lookup (name, s.off) = none)
    (h : memoBody flags name body n s g = some (r, g')) :
    let key := (name, s.off)
    let g0 := growPre key (g.insert key (.err (s.reportError .leftRecursionSentinel)))
    (∀ e gb, body s g0 = some (.err e, gb) →
        r = .err e ∧ g' = gb.insert key (.err e) ∧ g'.lookup key = some (.err e)) ∧
    (∀ v ns gb, body s g0 = some (.ok v ns, gb) →
        (∃ m, r = .panic m) ∨
        (∃ v' ns', r = .ok v' ns' ∧ ns.off ≤ ns'.off ∧
          (KeepsKey body key s → g'.lookup key = some (.ok v' ns')))) ∧
    (KeepsKey body key s → (∀ m, r ≠ .panic m) → g'.lookup key = some r) := by
  intro key g0
  unfold memoBody at h
  simp only [hlr, if_true, hmiss] at h
  obtain ⟨chain, _, hr⟩ := growLoop_run _ _ _ _ _ h
  have hg : (g.insert key (.err (s.reportError .leftRecursionSentinel))).lookup key = some _ :=
    lookup_insert_self _ _ _
  have hcache : KeepsKey body key s → (∀ m, r ≠ .panic m) → g'.lookup key = some r :=
    fun hk hnp => hr.cache hk hg hnp
  refine ⟨?_, ?_, hcache⟩
  · intro e gb hb
    cases hr with
    | panic hb' => rw [show body s g0 = _ from hb'] at hb; cases hb
    | fail hb' _ =>
      rw [show body s g0 = _ from hb'] at hb; cases hb
      exact ⟨rfl, rfl, lookup_insert_self _ _ _⟩
    | grow hb' _ _ => rw [show body s g0 = _ from hb'] at hb; cases hb
  · intro v ns gb hb
    cases hr with
    | panic hb' => rw [show body s g0 = _ from hb'] at hb; cases hb
    | fail hb' _ => rw [show body s g0 = _ from hb'] at hb; cases hb
    | @grow _ _ v1 ns1 g1 chain1 _ _ hb' _ hrest =>
      rw [show body s g0 = _ from hb'] at hb; cases hb
      have hres := hrest.result
      cases hres with
      | panic m hr' => exact .inl ⟨m, hr'⟩
      | failed e gb' hc hbest _ _ _ => exact absurd rfl (hbest v ns)
      | longest v' ns' hl hr' =>
        refine .inr ⟨v', ns', hr', ?_, fun hk => ?_⟩
        · have hinc := hrest.increasing
          unfold lastOk at hl
          split at hl
          · rename_i x hx
            cases hl
            exact Nat.le_of_lt (hinc.lt_all _ (List.mem_of_getLast? hx))
          · simp only [Res.okPair, Option.some.injEq, Prod.mk.injEq] at hl
            rw [hl.2]; exact Nat.le_refl _
        · rw [← hr']
          exact hcache hk (fun m he => by rw [hr'] at he; cases he)

/-! ### 4. the evaluator stays inside the input and never overwrites a cache entry

  An invariant of the whole evaluator (same scheme as `EvalMono`/`Trace`): for every evaluation
  `f s g = some (r, g')`
  * `Keeps g g'`: every cache entry present in `g` is still there, unchanged, in `g'` (entries are
    only inserted on a miss; the grow loop only rewrites the entry it created itself);
  * if the start state lies within an input of total length `L` (`off + rest.length = L`) and every
    cached success does (and ends at/after the offset of its key), then the same holds for `g'`, and a
    successful result ends at/after the start offset, within the input.
  This discharges `BodyWithin`-style and `KeepsKey` hypotheses for the real rule body. -/

namespace LR

/-- the state is a cursor into an input of total length `L` -/
def Within (L : Nat) (s : St) : Prop := s.off + s.rest.length = L

/-- every cached success ends within the input, at/after the offset it is cached for -/
def CacheW (L : Nat) (g : Global) : Prop :=
  ∀ k v s', g.lookup k = some (.ok v s') → k.2 ≤ s'.off ∧ Within L s'

/-- cache entries of `g` survive unchanged in `g'` -/
def Keeps (g g' : Global) : Prop := ∀ k x, g.lookup k = some x → g'.lookup k = some x

/-- a success ends at/after the start offset, within the input -/
def Fwd (L : Nat) (s : St) {α} (r : Res α) : Prop :=
  ∀ v s', r = .ok v s' → s.off ≤ s'.off ∧ Within L s'

def Post (L : Nat) (s : St) (g : Global) {α} (r : Res α) (g' : Global) : Prop :=
  Keeps g g' ∧ (Within L s → CacheW L g → CacheW L g' ∧ Fwd L s r)

def Inv (L : Nat) (s : St) {α} (f : Global → Out α) : Prop :=
  ∀ g r g', f g = some (r, g') → Post L s g r g'

structure RInv (L : Nat) (rec : Rec) : Prop where
  expr : ∀ ctx e s, Inv L s (rec.expr ctx e s)
  rule : ∀ name s, Inv L s (rec.rule name s)

theorem lookup_of_cache_eq {g g' : Global} (h : g'.cache = g.cache) (k : String × Nat) :
    g'.lookup k = g.lookup k := by
  unfold Global.lookup; rw [h]

theorem Keeps.refl (g : Global) : Keeps g g := fun _ _ h => h
theorem Keeps.trans {a b c : Global} (h1 : Keeps a b) (h2 : Keeps b c) : Keeps a c :=
  fun k x h => h2 k x (h1 k x h)
theorem Keeps.of_cache {g g' : Global} (h : g'.cache = g.cache) : Keeps g g' :=
  fun k x hx => by rw [lookup_of_cache_eq h]; exact hx
theorem CacheW.of_cache {L} {g g' : Global} (h : g'.cache = g.cache) (hc : CacheW L g) : CacheW L g' :=
  fun k v s' hx => hc k v s' (by rw [← lookup_of_cache_eq h]; exact hx)

theorem CacheW.init (L u : Nat) : CacheW L (Global.init u) := by
  intro k v s' h; simp [Global.init, Global.lookup] at h

theorem Fwd.err {L s α} (e : PErr) : Fwd L s (.err e : Res α) := fun _ _ h => by cases h
theorem Fwd.panic {L s α} (m : String) : Fwd L s (.panic m : Res α) := fun _ _ h => by cases h
theorem Fwd.same {L s α} (v : α) (hs : Within L s) : Fwd L s (.ok v s) :=
  fun _ _ h => by cases h; exact ⟨Nat.le_refl _, hs⟩
theorem Fwd.ok_iff {L s α} {v : α} {s1 : St} : Fwd L s (.ok v s1) ↔ (s.off ≤ s1.off ∧ Within L s1) :=
  ⟨fun h => h v s1 rfl, fun h _ _ he => by cases he; exact h⟩
theorem Fwd.trans {L s s1 α} {r : Res α} (h1 : s.off ≤ s1.off) (h : Fwd L s1 r) : Fwd L s r :=
  fun v s' he => ⟨Nat.le_trans h1 (h v s' he).1, (h v s' he).2⟩
theorem Fwd.map {L s α β} {r : Res α} (f : α → β) (h : Fwd L s r) : Fwd L s (r.map f) := by
  intro v s' he
  obtain ⟨v0, h0⟩ := map_ok he
  exact h v0 s' h0

theorem within_recordError {L s e} : Within L (s.recordError e) ↔ Within L s := by
  unfold Within; simp

theorem Post.refl {L s g α} {r : Res α} (hr : Within L s → Fwd L s r) : Post L s g r g :=
  ⟨Keeps.refl g, fun hs hc => ⟨hc, hr hs⟩⟩

theorem Post.ok_trans {L s s1 g g1 g' α β} {v : α} {r : Res β} (h1 : Post L s g (.ok v s1) g1)
    (h2 : Post L s1 g1 r g') : Post L s g r g' := by
  refine ⟨h1.1.trans h2.1, fun hs hc => ?_⟩
  obtain ⟨hc1, hf1⟩ := h1.2 hs hc
  obtain ⟨ho, hw⟩ := Fwd.ok_iff.1 hf1
  obtain ⟨hc2, hf2⟩ := h2.2 hw hc1
  exact ⟨hc2, hf2.trans ho⟩

theorem Post.then_same {L s g g1 g' α β} {r1 : Res α} {r : Res β} (h1 : Post L s g r1 g1)
    (h2 : Post L s g1 r g') : Post L s g r g' := by
  refine ⟨h1.1.trans h2.1, fun hs hc => ?_⟩
  obtain ⟨hc1, _⟩ := h1.2 hs hc
  exact h2.2 hs hc1

theorem Post.congr_state {L s s2 g g' α} {r : Res α} (hoff : s2.off = s.off)
    (hrest : s2.rest = s.rest) (h : Post L s2 g r g') : Post L s g r g' := by
  refine ⟨h.1, fun hs hc => ?_⟩
  have hs2 : Within L s2 := by unfold Within at hs ⊢; rw [hoff, hrest]; exact hs
  obtain ⟨hc', hf⟩ := h.2 hs2 hc
  exact ⟨hc', fun v s' he => by have := hf v s' he; rw [hoff] at this; exact this⟩

theorem Post.of_recordError {L s e g g' α} {r : Res α} (h : Post L (s.recordError e) g r g') :
    Post L s g r g' := h.congr_state (recordError_off s e) (recordError_rest s e)

theorem Post.mono_res {L s g g' α β} {r : Res α} {r' : Res β} (h : Post L s g r g')
    (hr : Within L s → Fwd L s r → Fwd L s r') : Post L s g r' g' :=
  ⟨h.1, fun hs hc => ⟨(h.2 hs hc).1, hr hs (h.2 hs hc).2⟩⟩

theorem Post.cache_l {L s g0 g g' α} {r : Res α} (hc : g0.cache = g.cache) (h : Post L s g0 r g') :
    Post L s g r g' :=
  ⟨(Keeps.of_cache hc).trans h.1, fun hs hw => h.2 hs (hw.of_cache hc)⟩

theorem Post.cache_r {L s g g' g'' α} {r : Res α} (hc : g''.cache = g'.cache) (h : Post L s g r g') :
    Post L s g r g'' :=
  ⟨h.1.trans (Keeps.of_cache hc), fun hs hw => ⟨(h.2 hs hw).1.of_cache hc, (h.2 hs hw).2⟩⟩

theorem Inv.pure {L s α} {r : Res α} (hr : Within L s → Fwd L s r) : Inv L s (fun g => some (r, g)) := by
  intro g r' g' h; cases h; exact Post.refl hr

theorem Inv.panic {L s α} (m : String) : Inv L s (fun g => some ((.panic m : Res α), g)) :=
  Inv.pure (fun _ => Fwd.panic m)
theorem Inv.err {L s α} (e : PErr) : Inv L s (fun g => some ((.err e : Res α), g)) :=
  Inv.pure (fun _ => Fwd.err e)
theorem Inv.okSame {L s α} (v : α) : Inv L s (fun g => some (.ok v s, g)) :=
  Inv.pure (fun hs => Fwd.same v hs)

theorem Inv.congr {L s α} {f f' : Global → Out α} (he : ∀ g, f g = f' g) (h : Inv L s f') : Inv L s f := by
  have : f = f' := funext he
  rw [this]; exact h

theorem Inv.ite {L s α} {c : Prop} [Decidable c] {f f' : Global → Out α} (h1 : Inv L s f) (h2 : Inv L s f') :
    Inv L s (fun g => if c then f g else f' g) := by
  by_cases hc : c
  · simp only [hc, if_true]; exact h1
  · simp only [hc, if_false]; exact h2

theorem Inv.of_recordError {L s e α} {f : Global → Out α} (h : Inv L (s.recordError e) f) : Inv L s f :=
  fun g r g' hx => (h g r g' hx).of_recordError

theorem bindR_inv {L s α β} {f : Global → Out α} {k : α → St → Global → Out β}
    (hf : Inv L s f) (hk : ∀ v s1, Inv L s1 (k v s1)) : Inv L s (fun g => bindR (f g) k) := by
  intro g r g' h
  simp only [bindR] at h
  split at h
  · cases h
  · rename_i v s1 g1 heq
    exact (hf _ _ _ heq).ok_trans (hk _ _ _ _ _ h)
  · rename_i e g1 heq
    cases h
    exact (hf _ _ _ heq).mono_res (fun _ _ => Fwd.err e)
  · rename_i m g1 heq
    cases h
    exact (hf _ _ _ heq).mono_res (fun _ _ => Fwd.panic m)

/-- continuation whose result is relative to the *original* state (lookaheads) -/
theorem bindR_inv_same {L s α β} {f : Global → Out α} {k : α → St → Global → Out β}
    (hf : Inv L s f) (hk : ∀ v s1, Inv L s (k v s1)) : Inv L s (fun g => bindR (f g) k) := by
  intro g r g' h
  simp only [bindR] at h
  split at h
  · cases h
  · rename_i v s1 g1 heq
    exact (hf _ _ _ heq).then_same (hk _ _ _ _ _ h)
  · rename_i e g1 heq
    cases h
    exact (hf _ _ _ heq).mono_res (fun _ _ => Fwd.err e)
  · rename_i m g1 heq
    cases h
    exact (hf _ _ _ heq).mono_res (fun _ _ => Fwd.panic m)

theorem withSkipWs_inv {L α} {rec : Rec} (hrec : RInv L rec) {ctx : Ctx} {s : St}
    {k : St → Global → Out α} (hk : ∀ s, Inv L s (k s)) : Inv L s (fun g => withSkipWs rec ctx s g k) := by
  unfold withSkipWs
  split
  · exact bindR_inv (hrec.rule _ _) (fun _ s => hk s)
  · exact hk s

/-! #### the matchers -/

theorem fwd_advance {L s α} (n : Nat) (v : α) (hs : Within L s) : Fwd L s (s.advance n v) := by
  unfold St.advance
  split
  · exact Fwd.panic _
  · rename_i hn
    refine Fwd.ok_iff.2 ⟨Nat.le_add_right _ _, ?_⟩
    unfold Within at hs ⊢
    simp only [List.length_drop]
    omega

theorem fwd_advanceSafe {L s α} (n : Nat) (v : α) (hs : Within L s) : Fwd L s (s.advanceSafe n v) := by
  unfold St.advanceSafe
  split
  · exact Fwd.panic _
  · split
    · exact Fwd.panic _
    · rename_i hn _
      refine Fwd.ok_iff.2 ⟨Nat.le_add_right _ _, ?_⟩
      unfold Within at hs ⊢
      simp only [List.length_drop]
      omega

theorem fwd_parseChar {L s} (hs : Within L s) : Fwd L s (parseChar s) := by
  unfold parseChar; split
  · exact Fwd.err _
  · exact fwd_advance _ _ hs

theorem wsPrefixLen_le : ∀ bs : List UInt8, wsPrefixLen bs ≤ bs.length := by
  intro bs
  induction bs with
  | nil => simp [wsPrefixLen]
  | cons b bs ih => simp only [wsPrefixLen]; split <;> simp <;> omega

theorem fwd_parseWhitespace {L s} (hs : Within L s) : Fwd L s (parseWhitespace s) := by
  unfold parseWhitespace
  refine Fwd.ok_iff.2 ⟨Nat.le_add_right _ _, ?_⟩
  have := wsPrefixLen_le s.rest
  unfold Within at hs ⊢
  simp only [List.length_drop]
  omega

theorem fwd_parseStringLiteral {L s} (l) (hs : Within L s) : Fwd L s (parseStringLiteral s l) := by
  unfold parseStringLiteral; simp only; split
  · exact Fwd.err _
  · exact fwd_advance _ _ hs

theorem fwd_parseCharacterLiteral {L s} (c) (hs : Within L s) : Fwd L s (parseCharacterLiteral s c) := by
  unfold parseCharacterLiteral
  split
  · split
    · exact Fwd.err _
    · split
      · exact Fwd.err _
      · exact fwd_advance _ _ hs
  · split
    · exact Fwd.err _
    · exact fwd_advance _ _ hs

theorem fwd_parseCharacterRange {L s} (lo hi) (hs : Within L s) : Fwd L s (parseCharacterRange s lo hi) := by
  unfold parseCharacterRange
  split
  · split
    · exact Fwd.err _
    · split
      · exact Fwd.err _
      · exact fwd_advance _ _ hs
  · split
    · exact Fwd.err _
    · split
      · exact Fwd.err _
      · exact fwd_advance _ _ hs

theorem fwd_parseStringLiteralInsensitive {L s} (l) (hs : Within L s) :
    Fwd L s (parseStringLiteralInsensitive s l) := by
  unfold parseStringLiteralInsensitive; simp only; split
  · exact Fwd.err _
  · exact fwd_advance _ _ hs

theorem fwd_parseCharacterLiteralInsensitive {L s} (c) (hs : Within L s) :
    Fwd L s (parseCharacterLiteralInsensitive s c) := by
  unfold parseCharacterLiteralInsensitive
  split
  · exact Fwd.err _
  · split
    · exact Fwd.err _
    · exact fwd_advance _ _ hs

theorem fwd_parseEndOfInput {L s} (hs : Within L s) : Fwd L s (parseEndOfInput s) := by
  unfold parseEndOfInput; split
  · exact Fwd.same _ hs
  · exact Fwd.err _

/-! #### expression level -/

section
variable {env : Env} {rec : Rec} {L : Nat}

theorem evalSeq_inv (hrec : RInv L rec) {ctx : Ctx} :
    ∀ ps seen acc s, Inv L s (evalSeq env rec ctx ps seen acc s) := by
  intro ps
  induction ps with
  | nil => intro seen acc s; exact Inv.okSame _
  | cons p ps ih =>
    intro seen acc s
    refine Inv.congr (fun g => by rw [evalSeq]) (bindR_inv (hrec.expr ctx p s) (fun r s' => ?_))
    cases hm : mergePart (filterRuleFields ctx.ruleFields (ownFields env p)) seen acc r with
    | error m => simp only [hm]; exact Inv.panic _
    | ok v => simp only [hm]; exact ih _ _ _

theorem evalAlts_inv (hrec : RInv L rec) {ctx : Ctx} {fields} :
    ∀ as s, Inv L s (evalAlts env rec ctx fields as s) := by
  intro as
  induction as with
  | nil => intro s; exact Inv.err _
  | cons a as ih =>
    intro s g r g' h
    simp only [evalAlts] at h
    split at h
    · cases h
    · rename_i r0 s0 g0 hx
      have h1 := hrec.expr _ _ _ _ _ _ hx
      split at h
      · cases h; exact h1.mono_res (fun _ hf => Fwd.ok_iff.2 (Fwd.ok_iff.1 hf))
      · cases h; exact h1.mono_res (fun _ _ => Fwd.panic _)
    · rename_i e0 g0 hx
      have h1 := hrec.expr _ _ _ _ _ _ hx
      exact h1.then_same (ih _ _ _ _ h).of_recordError
    · rename_i m g0 hx
      cases h
      exact (hrec.expr _ _ _ _ _ _ hx).mono_res (fun _ _ => Fwd.panic _)

theorem evalLoop_inv {body : St → Global → Out Parsed} (hbody : ∀ s, Inv L s (body s)) {fields} :
    ∀ k iters acc s, Inv L s (evalLoop body fields k iters acc s) := by
  intro k
  induction k with
  | zero => intro iters acc s g r g' h; simp [evalLoop] at h
  | succ k ih =>
    intro iters acc s g r g' h
    simp only [evalLoop] at h
    split at h
    · cases h
    · rename_i r0 s0 g0 hx
      have h1 := hbody _ _ _ _ hx
      split at h
      · exact h1.ok_trans (ih _ _ _ _ _ _ h)
      · cases h; exact h1.mono_res (fun _ _ => Fwd.panic _)
    · rename_i e0 g0 hx
      cases h
      refine (hbody _ _ _ _ hx).mono_res (fun hs _ => ?_)
      exact Fwd.ok_iff.2 ⟨by simp, within_recordError.2 hs⟩
    · rename_i m g0 hx
      cases h
      exact (hbody _ _ _ _ hx).mono_res (fun _ _ => Fwd.panic _)

theorem stepExpr_inv (hrec : RInv L rec) (n : Nat) (ctx : Ctx) (e : Expr) (s : St) :
    Inv L s (stepExpr env rec n ctx e s) := by
  cases e with
  | choice alts =>
    match alts with
    | [] => exact Inv.panic _
    | [a] => exact hrec.expr ctx a s
    | a :: b :: rest => exact evalAlts_inv hrec _ _
  | seq parts =>
    match parts with
    | [] => exact Inv.okSame _
    | [a] => exact hrec.expr ctx a s
    | a :: b :: rest =>
      refine bindR_inv (evalSeq_inv hrec _ _ _ _) (fun v s' => ?_)
      obtain ⟨seen, acc⟩ := v
      cases hp : project (filterRuleFields ctx.ruleFields (ownFields env (.seq (a :: b :: rest)))) acc with
      | error m => simp only [hp]; exact Inv.panic _
      | ok v => simp only [hp]; exact Inv.okSame _
  | group b => exact hrec.expr ctx b s
  | opt b =>
    intro g r g' h
    simp only [stepExpr] at h
    split at h
    · cases h
    · rename_i r0 s0 g0 hx
      cases h
      exact hrec.expr _ _ _ _ _ _ hx
    · rename_i e0 g0 hx
      have h1 := hrec.expr _ _ _ _ _ _ hx
      split at h
      · cases h
        exact h1.mono_res (fun hs _ => Fwd.ok_iff.2 ⟨by simp, within_recordError.2 hs⟩)
      · cases h; exact h1.mono_res (fun _ _ => Fwd.panic _)
    · rename_i m g0 hx
      cases h
      exact hrec.expr _ _ _ _ _ _ hx
  | closure b plus =>
    show Inv L s (fun g => stepExpr env rec n ctx (.closure b plus) s g)
    simp only [stepExpr]
    cases hinit : closureInit (filterRuleFields ctx.ruleFields (ownFields env b)) with
    | error m => simp only []; exact Inv.panic _
    | ok init =>
      simp only []
      exact bindR_inv (evalLoop_inv (hrec.expr ctx b) _ _ _ _)
        (fun v s' => Inv.ite (Inv.err _) (Inv.okSame _))
  | neg b =>
    intro g r g' h
    simp only [stepExpr] at h
    split at h
    · cases h
    · rename_i r0 s0 g0 hx
      cases h
      exact (hrec.expr _ _ _ _ _ _ hx).mono_res (fun _ _ => Fwd.err _)
    · rename_i e0 g0 hx
      cases h
      exact (hrec.expr _ _ _ _ _ _ hx).mono_res (fun hs _ => Fwd.same _ hs)
    · rename_i m g0 hx
      cases h
      exact (hrec.expr _ _ _ _ _ _ hx).mono_res (fun _ _ => Fwd.panic _)
  | pos b => exact bindR_inv_same (hrec.expr ctx b s) (fun _ _ => Inv.okSame _)
  | range lo hi =>
    show Inv L s (fun g => stepExpr env rec n ctx (.range lo hi) s g)
    simp only [stepExpr]
    cases hlo : lo.toChar <;> cases hhi : hi.toChar <;> simp only []
    all_goals first
      | exact Inv.panic _
      | exact withSkipWs_inv hrec (fun s => Inv.pure (fun hs => (fwd_parseCharacterRange _ _ hs).map _))
  | lit ins body =>
    show Inv L s (fun g => stepExpr env rec n ctx (.lit ins body) s g)
    simp only [stepExpr]
    cases hm : compileLit ins body with
    | err m => simp only []; exact Inv.panic _
    | fuel => simp only []; exact Inv.panic _
    | ok m =>
      simp only []
      refine withSkipWs_inv hrec (fun s => ?_)
      cases m
      · exact Inv.pure (fun hs => (fwd_parseCharacterLiteral _ hs).map _)
      · exact Inv.pure (fun hs => (fwd_parseStringLiteral _ hs).map _)
      · exact Inv.pure (fun hs => (fwd_parseCharacterLiteralInsensitive _ hs).map _)
      · exact Inv.pure (fun hs => (fwd_parseStringLiteralInsensitive _ hs).map _)
  | eoi => exact withSkipWs_inv hrec (fun s => Inv.pure (fun hs => (fwd_parseEndOfInput hs).map _))
  | incl r =>
    show Inv L s (fun g => stepExpr env rec n ctx (.incl r) s g)
    simp only [stepExpr]
    cases hf : env.g.findRule r with
    | none => simp only []; exact Inv.panic _
    | some rule => simp only []; exact hrec.expr ctx _ s
  | field name boxed typ =>
    show Inv L s (fun g => stepExpr env rec n ctx (.field name boxed typ) s g)
    simp only [stepExpr]
    refine withSkipWs_inv hrec (fun s => bindR_inv (hrec.rule typ s) (fun v s' => ?_))
    cases name with
    | none => exact Inv.okSame _
    | some nm =>
      simp only []
      cases hp : postprocessField ctx.ruleFields nm.key typ v with
      | error m => simp only []; exact Inv.panic _
      | ok fv => simp only []; exact Inv.okSame _

end

/-! #### rule level -/

section
variable {env : Env} {rec : Rec} {L : Nat}

theorem runChecks_inv : ∀ fs v s, Inv L s (runChecks env fs v s) := by
  intro fs
  induction fs with
  | nil => intro v s; exact Inv.okSame _
  | cons f fs ih =>
    intro v s g r g' h
    simp only [runChecks] at h
    split at h
    · cases h
      exact (Post.refl (fun _ => Fwd.err _)).cache_r rfl
    · exact (ih _ _ _ _ _ h).cache_l rfl

theorem ruleBody_inv (hrec : RInv L rec) (r : Rule) (s : St) : Inv L s (ruleBody env rec r s) := by
  show Inv L s (fun g => ruleBody env rec r s g)
  simp only [ruleBody]
  cases hf : getFields env.g env.nf r.definition with
  | ok fields =>
    simp only []
    refine Inv.ite (bindR_inv (hrec.expr _ _ _) (fun _ s' => runChecks_inv _ _ _))
      (Inv.ite (bindR_inv (hrec.expr _ _ _) (fun p s' => ?_))
        (Inv.ite (Inv.panic _) (bindR_inv (hrec.expr _ _ _) (fun p s' => ?_))))
    · cases hv : p.get "_override" with
      | none => simp only []; exact Inv.panic _
      | some v => simp only []; exact runChecks_inv _ _ _
    · cases hp : project fields p with
      | error m => simp only []; exact Inv.panic _
      | ok fs => simp only []; exact runChecks_inv _ _ _
  | err m => simp only []; exact Inv.panic _
  | fuel => simp only []; exact Inv.panic _

/-- entries other than `key` survive -/
def KeepsExcept (key : String × Nat) (g g' : Global) : Prop :=
  ∀ k x, k ≠ key → g.lookup k = some x → g'.lookup k = some x

theorem Keeps.except {g g' : Global} (h : Keeps g g') (key : String × Nat) : KeepsExcept key g g' :=
  fun k x _ hx => h k x hx

theorem KeepsExcept.trans {key : String × Nat} {a b c : Global} (h1 : KeepsExcept key a b)
    (h2 : KeepsExcept key b c) : KeepsExcept key a c :=
  fun k x hk hx => h2 k x hk (h1 k x hk hx)

theorem lookup_insert_ne (g : Global) {k key : String × Nat} (x : Res Val) (h : k ≠ key) :
    (g.insert key x).lookup k = g.lookup k := by
  rw [lookup_insert]
  have : (key == k) = false := by
    apply Bool.eq_false_iff.2
    intro hb
    exact h (eq_of_beq hb).symm
  simp [this]

theorem keepsExcept_insert (g : Global) (key : String × Nat) (x : Res Val) :
    KeepsExcept key g (g.insert key x) :=
  fun k y hk hy => by rw [lookup_insert_ne g x hk]; exact hy

theorem cacheW_insert {g : Global} {key : String × Nat} {x : Res Val} (hc : CacheW L g)
    (hx : ∀ v s', x = .ok v s' → key.2 ≤ s'.off ∧ Within L s') : CacheW L (g.insert key x) := by
  intro k v s' hl
  by_cases hk : k = key
  · subst hk
    rw [lookup_insert_self] at hl
    exact hx v s' (Option.some.inj hl)
  · rw [lookup_insert_ne g x hk] at hl
    exact hc k v s' hl

theorem growLoop_inv {body : St → Global → Out Val} (hbody : ∀ s, Inv L s (body s))
    (key : String × Nat) (s : St) (hkey : key.2 ≤ s.off) :
    ∀ k best g r g', growLoop body key s k best g = some (r, g') →
      KeepsExcept key g g' ∧
      (Within L s → CacheW L g → Fwd L s best → CacheW L g' ∧ Fwd L s r) := by
  intro k
  induction k with
  | zero => intro best g r g' h; simp [growLoop] at h
  | succ k ih =>
    intro best g r g' h
    rw [growLoop_succ] at h
    have hins : ∀ {g0 : Global} {v : Val} {ns : St}, Post L s (growPre key g) (.ok v ns) g0 →
        KeepsExcept key g (g0.insert key (.ok v ns)) ∧
        (Within L s → CacheW L g → CacheW L (g0.insert key (.ok v ns)) ∧ Fwd L s (.ok v ns)) := by
      intro g0 v ns hp
      have hp' : Post L s g (.ok v ns) g0 := hp.cache_l rfl
      refine ⟨(hp'.1.except key).trans (keepsExcept_insert _ _ _), fun hs hc => ?_⟩
      obtain ⟨hc0, hf⟩ := hp'.2 hs hc
      refine ⟨cacheW_insert hc0 (fun v' s' he => ?_), hf⟩
      cases he
      obtain ⟨ho, hw⟩ := Fwd.ok_iff.1 hf
      exact ⟨Nat.le_trans hkey ho, hw⟩
    split at h
    · cases h
    · rename_i m g0 hx
      have hp : Post L s g (.panic m) g0 := (hbody _ _ _ _ hx).cache_l rfl
      cases h
      exact ⟨hp.1.except key, fun hs hc _ => hp.2 hs hc⟩
    · rename_i v ns g0 hx
      obtain ⟨hk1, hc1⟩ := hins (hbody _ _ _ _ hx)
      have hp : Post L s g (.ok v ns) g0 := (hbody _ _ _ _ hx).cache_l rfl
      split at h
      · rename_i bv bs
        split at h
        · obtain ⟨hk2, hc2⟩ := ih _ _ _ _ h
          exact ⟨hk1.trans hk2, fun hs hc _ => hc2 hs (hc1 hs hc).1 (hc1 hs hc).2⟩
        · cases h
          exact ⟨hp.1.except key, fun hs hc hb => ⟨(hp.2 hs hc).1, hb⟩⟩
      · obtain ⟨hk2, hc2⟩ := ih _ _ _ _ h
        exact ⟨hk1.trans hk2, fun hs hc _ => hc2 hs (hc1 hs hc).1 (hc1 hs hc).2⟩
    · rename_i e g0 hx
      have hp : Post L s g (.err e) g0 := (hbody _ _ _ _ hx).cache_l rfl
      split at h
      · cases h
        exact ⟨hp.1.except key, fun hs hc hb => ⟨(hp.2 hs hc).1, hb⟩⟩
      · cases h
        refine ⟨(hp.1.except key).trans (keepsExcept_insert _ _ _), fun hs hc _ => ?_⟩
        exact ⟨cacheW_insert (hp.2 hs hc).1 (fun v' s' he => by cases he), Fwd.err _⟩

theorem keeps_of_except_miss {g g' : Global} {key : String × Nat} (hmiss : g.lookup key = none)
    (h : KeepsExcept key g g') : Keeps g g' := by
  intro k x hx
  refine h k x ?_ hx
  intro hk
  subst hk
  rw [hmiss] at hx
  cases hx

theorem memoBody_inv {body : St → Global → Out Val} (hbody : ∀ s, Inv L s (body s)) (flags : RuleFlags)
    (name : String) (n : Nat) (s : St) : Inv L s (memoBody flags name body n s) := by
  intro g r g' h
  have hit : ∀ cached, g.lookup (name, s.off) = some cached → ∀ ev, Post L s g cached (g.emit ev) := by
    intro cached hl ev
    refine ⟨Keeps.of_cache rfl, fun _ hc => ⟨hc.of_cache rfl, fun v s' he => ?_⟩⟩
    subst he
    exact hc _ _ _ hl
  unfold memoBody at h
  simp only at h
  split at h
  · split at h
    · rename_i cached hl
      cases h
      exact hit _ hl _
    · rename_i hmiss
      obtain ⟨hk, hc⟩ := growLoop_inv hbody (name, s.off) s (Nat.le_refl _) _ _ _ _ _ h
      refine ⟨keeps_of_except_miss hmiss ((keepsExcept_insert _ _ _).trans hk), fun hs hw => ?_⟩
      exact hc hs (cacheW_insert hw (fun v s' he => by cases he)) (Fwd.err _)
  · split at h
    · split at h
      · rename_i cached hl
        cases h
        exact hit _ hl _
      · rename_i hmiss
        split at h
        · cases h
        · rename_i m g0 hx
          cases h
          exact (hbody _ _ _ _ hx).cache_l rfl
        · rename_i r0 g0 _ hx
          have hp : Post L s g r0 g0 := (hbody _ _ _ _ hx).cache_l rfl
          cases h
          refine ⟨keeps_of_except_miss hmiss ((hp.1.except _).trans (keepsExcept_insert _ _ _)),
            fun hs hw => ?_⟩
          obtain ⟨hc0, hf⟩ := hp.2 hs hw
          exact ⟨cacheW_insert hc0 (fun v s' he => hf v s' he), hf⟩
    · exact hbody _ _ _ _ h

theorem traceResult_cache (g : Global) (r : Res Val) : (traceResult g r).cache = g.cache := by
  cases r <;> rfl

theorem normalRule_inv (hrec : RInv L rec) (n : Nat) (r : Rule) (s : St) :
    Inv L s (normalRule env rec n r s) := by
  intro g res g' h
  unfold normalRule at h
  simp only at h
  split at h
  · cases h
  · rename_i res0 g0 hx
    cases h
    exact ((memoBody_inv (ruleBody_inv hrec r) _ _ _ _ _ _ _ hx).cache_l rfl).cache_r
      (traceResult_cache _ _)

theorem charChecks_cache (name : String) :
    ∀ fs c s g, (charChecks env name fs c s g).2.cache = g.cache := by
  intro fs
  induction fs with
  | nil => intro c s g; rfl
  | cons f fs ih =>
    intro c s g
    simp only [charChecks]
    split
    · rfl
    · rw [ih]; rfl

theorem charParts_inv (hrec : RInv L rec) (name : String) : ∀ ps s, Inv L s (charParts rec name ps s) := by
  intro ps
  induction ps with
  | nil => intro s; exact Inv.err _
  | cons p ps ih =>
    intro s g r g' h
    have key : ∀ x : Out Val, (∀ r1 g1, x = some (r1, g1) → Post L s g r1 g1) →
        (match x with
         | none => none
         | some (.ok v s', g') => some (.ok v s', g')
         | some (.err _, g') => charParts rec name ps s g'
         | some (.panic m, g') => some (.panic m, g')) = some (r, g') → Post L s g r g' := by
      intro x hx h
      split at h
      · cases h
      · cases h; exact hx _ _ rfl
      · exact (hx _ _ rfl).then_same (ih _ _ _ _ h)
      · cases h; exact hx _ _ rfl
    cases p with
    | chr item =>
      simp only [charParts] at h
      refine key _ ?_ h
      intro r1 g1 hx
      split at hx
      · cases hx; exact Post.refl (fun hs => (fwd_parseCharacterLiteral _ hs).map _)
      · cases hx; exact Post.refl (fun _ => Fwd.panic _)
    | range lo hi =>
      simp only [charParts] at h
      refine key _ ?_ h
      intro r1 g1 hx
      split at hx
      · cases hx; exact Post.refl (fun hs => (fwd_parseCharacterRange _ _ hs).map _)
      · cases hx; exact Post.refl (fun _ => Fwd.panic _)
    | ident id =>
      simp only [charParts] at h
      exact key _ (fun r1 g1 hx => hrec.rule _ _ _ _ _ hx) h

theorem charRule_inv (hrec : RInv L rec) (r : CharRule) (s : St) : Inv L s (charRule env rec r s) := by
  intro g res g' h
  unfold charRule at h
  split at h
  · exact charParts_inv hrec _ _ _ _ _ _ h
  · split at h
    · cases h; exact Post.refl (fun _ => Fwd.err _)
    · rename_i c hc
      split at h
      · rename_i e g1 hcc
        have : g1.cache = g.cache := by
          have := charChecks_cache (env := env) r.name r.directives c s g
          rw [hcc] at this; exact this
        cases h
        exact (Post.refl (fun _ => Fwd.err _)).cache_r this
      · rename_i g1 hcc
        have : g1.cache = g.cache := by
          have := charChecks_cache (env := env) r.name r.directives c s g
          rw [hcc] at this; exact this
        exact (charParts_inv hrec _ _ _ _ _ _ h).cache_l this

theorem externRule_inv (r : ExternRule) (s : St) : Inv L s (externRule env r s) := by
  intro g res g' h
  unfold externRule at h
  simp only at h
  split at h
  · cases h
    exact (Post.refl (fun hs => fwd_advanceSafe _ _ hs)).cache_r rfl
  · cases h
    exact (Post.refl (fun _ => Fwd.err _)).cache_r rfl

theorem stepRule_inv (hrec : RInv L rec) (n : Nat) (name : String) (s : St) :
    Inv L s (stepRule env rec n name s) := by
  intro g res g' h
  unfold stepRule at h
  split at h
  · exact normalRule_inv hrec _ _ _ _ _ _ h
  · exact charRule_inv hrec _ _ _ _ _ h
  · exact externRule_inv _ _ _ _ _ h
  · split at h
    · cases h; exact Post.refl (fun hs => (fwd_parseChar hs).map _)
    · split at h
      · cases h; exact Post.refl (fun hs => (fwd_parseWhitespace hs).map _)
      · cases h; exact Post.refl (fun _ => Fwd.panic _)

theorem step_inv (hrec : RInv L rec) (n : Nat) : RInv L (step env rec n) :=
  ⟨fun ctx e s => stepExpr_inv hrec n ctx e s, fun name s => stepRule_inv hrec n name s⟩

end

theorem eval_inv (env : Env) (L : Nat) : ∀ n, RInv L (eval env n) := by
  intro n
  induction n with
  | zero => exact ⟨fun _ _ _ _ _ _ h => by simp [eval] at h, fun _ _ _ _ _ h => by simp [eval] at h⟩
  | succ n ih => exact step_inv ih n

end LR

/-! #### consequences for the real rule body: `C07` without side conditions on the body -/

/-- the real rule body never changes an existing cache entry -/
theorem ruleBody_keepsKey (env : Env) (n : Nat) (r : Rule) (key : String × Nat) (s : St) :
    KeepsKey (ruleBody env (eval env n) r) key s :=
  fun g res g' h x hx => (ruleBody_inv (L := 0) (eval_inv env 0 n) r s g res g' h).1 key x hx

theorem GrowRun.chain_within {L : Nat} {body : St → Global → Out Val} (hbody : ∀ s, Inv L s (body s))
    {key : String × Nat} {s : St} (hkey : key.2 ≤ s.off) (hs : Within L s)
    {best g chain r g'} (h : GrowRun body key s best g chain r g') (hc : CacheW L g) :
    ∀ x ∈ chain, s.off ≤ x.2.off ∧ Within L x.2 := by
  induction h with
  | panic hb => intro x hx; cases hx
  | stopOk hb hle => intro x hx; cases hx
  | stopErr hb => intro x hx; cases hx
  | fail hb hbest => intro x hx; cases hx
  | @grow best g v ns g' chain r g'' hb hfar hrest ih =>
    have hp : Post L s g (.ok v ns) g' := (hbody _ _ _ _ hb).cache_l rfl
    obtain ⟨hc', hf⟩ := hp.2 hs hc
    obtain ⟨ho, hw⟩ := Fwd.ok_iff.1 hf
    intro x hx
    rcases List.mem_cons.1 hx with rfl | hx
    · exact ⟨ho, hw⟩
    · refine ih (cacheW_insert hc' (fun v' s' he => ?_)) x hx
      cases he
      exact ⟨Nat.le_trans hkey ho, hw⟩

/-- loop-fuel bound for any body satisfying the evaluator invariant -/
theorem growLoop_progress_inv {L : Nat} {body : St → Global → Out Val} (hbody : ∀ s, Inv L s (body s))
    {key : String × Nat} {s : St} (hkey : key.2 ≤ s.off) (hs : Within L s) {k : Nat} {best : Res Val}
    {g : Global} {x : Res Val × Global} (hc : CacheW L g)
    (hbest : ∀ bv bs, best = .ok bv bs → s.off ≤ bs.off + 1)
    (h : growLoop body key s k best g = some x) :
    ∃ k0, k0 ≤ s.rest.length + 2 ∧ ∀ k', k0 ≤ k' → growLoop body key s k' best g = some x := by
  obtain ⟨r, g'⟩ := x
  obtain ⟨chain, _, hr⟩ := growLoop_run k best g r g' h
  refine ⟨chain.length + 1, ?_, fun k' hk' => hr.toLoop k' (by omega)⟩
  have := hr.length_le_of_bounds (fun x hx => by
    obtain ⟨h1, h2⟩ := hr.chain_within hbody hkey hs hc x hx
    unfold Within at h2 hs
    exact ⟨h1, by omega⟩) hbest
  omega

/-- **C07, termination half, for the model of the generated code.**  Let `r` be a `@leftrec` rule,
    `s` a cursor into an input of length `L`, `g` a global state whose cached successes lie within that
    input (true for the fresh state of `parse_advanced` and preserved by every evaluation:
    `eval_inv`).  If the wrapper answers at all (its body evaluations, run with recursion fuel `n`,
    terminate), then it answers with loop fuel `remaining input + 2`: the grow loop evaluates the body
    at most `s.rest.length + 2` times. -/
theorem C07_terminates (env : Env) (n : Nat) (r : Rule) (hlr : r.flags.leftRecursive = true) {L : Nat}
    {s : St} {g : Global} (hs : Within L s) (hc : CacheW L g) {k : Nat} {x : Res Val × Global}
    (h : memoBody r.flags r.name (ruleBody env (eval env n) r) k s g = some x) :
    ∃ k0, k0 ≤ s.rest.length + 2 ∧
      ∀ k', k0 ≤ k' → memoBody r.flags r.name (ruleBody env (eval env n) r) k' s g = some x := by
  unfold memoBody at h ⊢
  simp only [hlr, if_true] at h ⊢
  split at h
  · exact ⟨0, by omega, fun _ _ => h⟩
  · exact growLoop_progress_inv (ruleBody_inv (eval_inv env L n) r) (Nat.le_refl _) hs
      (cacheW_insert hc (fun v s' he => by cases he)) (fun bv bs he => by cases he) h

/-- the same one level up (`parse_<rule>`): the third argument of `normalRule` is only loop fuel -/
theorem C07_terminates_rule (env : Env) (n : Nat) (r : Rule) (hlr : r.flags.leftRecursive = true) {L : Nat}
    {s : St} {g : Global} (hs : Within L s) (hc : CacheW L g) {k : Nat} {x : Res Val × Global}
    (h : normalRule env (eval env n) k r s g = some x) :
    ∃ k0, k0 ≤ s.rest.length + 2 ∧ ∀ k', k0 ≤ k' → normalRule env (eval env n) k' r s g = some x := by
  unfold normalRule at h ⊢
  simp only at h ⊢
  split at h
  · cases h
  · rename_i res g1 hx
    obtain ⟨k0, hk0, hk⟩ := C07_terminates env n r hlr hs
      (CacheW.of_cache (g' := g.emit (.traceStart r.name s.off)) rfl hc) hx
    exact ⟨k0, hk0, fun k' hk' => by rw [hk k' hk']; exact h⟩

/-- instance: a `@leftrec` rule called on the fresh state of `parse_advanced` (the hypotheses
    `Within`/`CacheW` of `C07_terminates` hold there; every state reached later satisfies them by
    `LR.eval_inv`) -/
theorem C07_terminates_top (env : Env) (n : Nat) (r : Rule) (hlr : r.flags.leftRecursive = true)
    (inp : List UInt8) (u : Nat) {k : Nat} {x : Res Val × Global}
    (h : normalRule env (eval env n) k r (St.new inp) (Global.init u) = some x) :
    ∃ k0, k0 ≤ inp.length + 2 ∧
      ∀ k', k0 ≤ k' → normalRule env (eval env n) k' r (St.new inp) (Global.init u) = some x :=
  C07_terminates_rule env n r hlr (L := inp.length) (by simp [Within, St.new]) (CacheW.init _ _) h

/-- **the sentinel never stays, for the model of the generated code**: when the left-recursive
    wrapper misses the cache and returns a non-panic result, that result is what the cache holds for
    `(rule, offset)` afterwards -/
theorem C07_cache_final (env : Env) (n : Nat) (r : Rule) (hlr : r.flags.leftRecursive = true)
    {s : St} {g : Global} (hmiss : g.lookup (r.name, s.off) = none) {k : Nat} {res : Res Val} {g' : Global}
    (h : memoBody r.flags r.name (ruleBody env (eval env n) r) k s g = some (res, g'))
    (hnp : ∀ m, res ≠ .panic m) : g'.lookup (r.name, s.off) = some res :=
  (C07_sentinel_replaced hlr hmiss h).2.2 (ruleBody_keepsKey env n r _ s) hnp

/-- every state and cache entry produced by a parse lies within the input; results end at/after the
    start -/
theorem parseAdvanced_within (env : Env) (n : Nat) (rule : String) (inp : List UInt8) (u : Nat)
    {r : Res Val} {g' : Global} (h : parseAdvanced env n rule inp u = some (r, g')) :
    CacheW inp.length g' ∧ ∀ v s', r = .ok v s' → s'.off + s'.rest.length = inp.length := by
  have hs : Within inp.length (St.new inp) := by simp [Within, St.new]
  obtain ⟨hc, hf⟩ := ((eval_inv env inp.length n).rule rule _ _ _ _ h).2 hs (CacheW.init _ _)
  exact ⟨hc, fun v s' he => (hf v s' he).2⟩

/-! ### 5. non-vacuity: `@export @leftrec E = l:*E '+' r:Num | b:Num;  @string Num = {'0'..'9'}+;` -/

namespace LeftRecExample

def ruleE : Rule := ⟨[.export, .leftrec], "E",
  .choice [.seq [.field (some (.ident "l")) true "E", .lit false [.chr '+'],
                 .field (some (.ident "r")) false "Num"],
           .seq [.field (some (.ident "b")) false "Num"]]⟩
def ruleNum : Rule := ⟨[.string], "Num",
  .choice [.seq [.closure (.choice [.seq [.range (.chr '0') (.chr '9')]]) true]]⟩
def envE : Env := { g := ⟨[.rule ruleE, .rule ruleNum]⟩, settings := {}, hooks := default, nf := 10 }

/-- the bytes of `"1+2+3"` -/
def inp : List UInt8 := [49, 43, 50, 43, 51]

/-- end to end: the generated parser's model on `"1+2+3"` returns the tree nested to the left,
    consumes the whole input, and evaluated the body of `E` at offset 0 exactly 4 = m + 2 times
    (ghost event `bodyEval`) -/
example :
    (match parseAdvanced envE 50 "E" inp 0 with
     | some (.ok v s, g) =>
       v.render == "E { l: Some(E { l: Some(E { l: None, r: None, b: Some(S\"31\") }), r: Some(S\"32\"), b: None }), r: Some(S\"33\"), b: None }"
       && s.off == 5 && s.rest == []
       && (g.log.filter (fun e => match e with | .bodyEval "E" 0 => true | _ => false)).length == 4
     | _ => false) = true := by decide

/-- the same on `"1+2"` -/
example :
    (match parseAdvanced envE 50 "E" [49, 43, 50] 0 with
     | some (.ok v s, _) =>
       v.render == "E { l: Some(E { l: None, r: None, b: Some(S\"31\") }), r: Some(S\"32\"), b: None }"
       && s.off == 3
     | _ => false) = true := by decide

/-- a failing first iteration (`"+"`): the rule fails, and what is cached for `("E", 0)` afterwards is
    the body's error, not the `leftRecursionSentinel` seed -/
example :
    (match parseAdvanced envE 50 "E" [43] 0 with
     | some (.err e, g) =>
       (match g.lookup ("E", 0) with
        | some (.err e') => e' == e && e'.spec != .leftRecursionSentinel
        | _ => false)
     | _ => false) = true := by decide

/-- `@export @leftrec A = l:*A 'x';` (no base alternative): the body fails with the error it reads from
    the seed, so the error returned (and cached) carries `leftRecursionSentinel` – the sentinel entry is
    replaced by the body's result, but that result is the sentinel error itself -/
example :
    let a : Rule := ⟨[.export, .leftrec], "A",
      .choice [.seq [.field (some (.ident "l")) true "A", .lit false [.chr 'x']]]⟩
    let env : Env := { g := ⟨[.rule a]⟩, settings := {}, hooks := default, nf := 10 }
    (match parseAdvanced env 20 "A" [120] 0 with
     | some (.err e, g) =>
       e.spec == .leftRecursionSentinel &&
       (match g.lookup ("A", 0) with
        | some (.err e') => e' == e
        | _ => false)
     | _ => false) = true := by decide

/-- `BodyWithin` is satisfiable (any body built from the matchers; here: one byte) -/
example (s : St) : BodyWithin (fun s g => some (s.advance 1 Val.unit, g)) s := by
  intro g v ns g' h
  simp only [Option.some.injEq, Prod.mk.injEq] at h
  have := fwd_advance (L := s.off + s.rest.length) 1 Val.unit (s := s) rfl v ns h.1
  unfold Within at this
  omega

/-! The hypotheses of `C07_direct` hold for the *real* body of `E` (the model of the generated
    `E_impl::parse`, with recursion fuel 11) on `"1+2+3"`, with `m = 2` extensions. -/

def s0 : St := St.new inp
def b0E : Val := .node "E" [("l", .none), ("r", .none), ("b", .some (.str [49]))] none
/-- growth step `i` wraps the previous tree: `E { l: Some(Box(prev)), r: Some(<i-th number>), b: None }` -/
def extE (i : Nat) (v : Val) : Val :=
  .node "E" [("l", .some (.boxed v)), ("r", .some (.str [50 + i.toUInt8])), ("b", .none)] none
/-- the end states: after `1`, `1+2`, `1+2+3` -/
def stE (i : Nat) : St :=
  ⟨inp.drop (2 * i + 1), 2 * i + 1, some ⟨2 * i + 1, .expectedCharacterRange '0' '9'⟩⟩

theorem direct : DirectLeftRec (ruleBody envE (eval envE 11) ruleE) ("E", s0.off) s0
    (s0.reportError .leftRecursionSentinel) b0E extE stE 2 where
  base := fun _ => ⟨_, rfl⟩
  step := fun i hi g =>
    match i, hi with
    | 0, _ => ⟨_, rfl⟩
    | 1, _ => ⟨_, rfl⟩
  mono := fun i hi =>
    match i, hi with
    | 0, _ => by decide
    | 1, _ => by decide
  stop := fun _ => .inr ⟨_, _, _, rfl, by decide⟩

/-- hence, by `C07_direct_memoBody` (not by evaluation): the parser returns `ext 1 (ext 0 b0)`, i.e.
    `E{l: E{l: E{b: "1"}, r: "2"}, r: "3"}`, ending at offset 5 -/
theorem parse_123 : ∃ g', parseAdvanced envE 12 "E" inp 0 =
    some (.ok (extE 1 (extE 0 b0E)) (stE 2), g') := by
  obtain ⟨g', h1, _, _⟩ := C07_direct_memoBody (flags := ruleE.flags) (name := "E") rfl direct
    (g := (Global.init 0).emit (.traceStart "E" 0)) rfl
  have h := h1 11 (by omega)
  have hp : parseAdvanced envE 12 "E" inp 0 =
      (match memoBody ruleE.flags "E" (ruleBody envE (eval envE 11) ruleE) 11 s0
          ((Global.init 0).emit (.traceStart "E" 0)) with
       | none => none
       | some (res, g') => some (res, traceResult g' res)) := rfl
  rw [hp, h]
  exact ⟨_, rfl⟩

end LeftRecExample

end Peg
