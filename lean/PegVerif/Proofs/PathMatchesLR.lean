import PegVerif.Proofs.PathMatches
import PegVerif.Proofs.CompleteLR
/-
  C02 ("the returned tree holds exactly the matches on the successful path, in order") for grammars
  WITH `@leftrec` rules of the class `LROk`.

  `PMLR.eval` is to `PM.eval` (PathMatches.lean: the reference evaluator without field plumbing – every
  construct returns the list of field matches on its successful path, a rule shapes the list once)
  what `SpecLR.eval` is to `Spec.eval`: the same evaluator, with a seed environment `σ` and the grow
  loop for `@leftrec` rules (`SpecLR.growLoop`, literally).  The recursive field of an extension step of a
  growth holds the seed, i.e. the tree of the previous step: the left-nested tree is, node by node, the
  shaping of the matches on the successful path of the LAST body evaluation that improved.

  * `PMLR.eval_sim`   : `SpecLR.eval` and `PMLR.eval` are in simulation (`PM.Sim`), fuel by fuel, for every
                        seed environment – no hypothesis on the grammar (the open-recursion lemmas
                        `PM.stepExpr_sim`, `PM.ruleBody_sim`, `PM.stepRule_sim` of PathMatches.lean are
                        reused as they are; the grow loop is `SpecLR.growLoop_le`);
  * `C02_treeLR`, `C02_ruleLR`, `C02_parse_specLR`;
  * `PMLR.eval_mono`, `PMLR.eval_rule_det` : the `PMLR` answer is unique;
  * `C02_parseLR`, `C02_parse_resLR`, `C02_parse_uniqueLR` : the model of the generated parser
    (`PureHooks`, `LROk`) answers what `PMLR` answers (via `eval_refLR`), and conversely
    `C02_parse_completeLR` (via `parse_completeLR`).
-/
namespace Peg
open Spec SpecLR

namespace PMLR

/-- a path-match evaluator for every seed environment -/
abbrev PRecLR := Seeds → PM.PRec

def stepRule (env : Env) (u : Nat) (rec : PRecLR) (n : Nat) (σ : Seeds) (name : String) (s : St) :
    SOut Val :=
  match lrRule env name with
  | some r =>
    (match seedOf σ (r.name, s.off) with
     | some seed => some seed
     | none =>
       SpecLR.growLoop (fun seed => PM.ruleBody env u (rec (((r.name, s.off), seed) :: σ)) r s) n
         (.err noErr))
  | none => PM.stepRule env u (rec σ) name s

def step (env : Env) (u : Nat) (rec : PRecLR) (n : Nat) : PRecLR := fun σ =>
  { expr := PM.stepExpr env (rec σ) n, rule := stepRule env u rec n σ }

def eval (env : Env) (u : Nat) : Nat → PRecLR
  | 0 => fun _ => { expr := fun _ _ _ => none, rule := fun _ _ => none }
  | n+1 => step env u (eval env u n) n

/-- the path-match answer for an exported rule on an input: no head is growing -/
def parse (env : Env) (u : Nat) (fuel : Nat) (rule : String) (inp : List UInt8) : SOut Val :=
  (eval env u fuel []).rule rule (St.new inp)

/-! ### simulation -/

theorem stepRule_sim {env : Env} {u : Nat} {srec : SRecLR} {prec : PRecLR}
    (hsim : ∀ σ, PM.Sim env (srec σ) (prec σ)) (n : Nat) (σ : Seeds) :
    PM.SimR (SpecLR.stepRule env u srec n σ) (stepRule env u prec n σ) := by
  intro name s r h
  unfold SpecLR.stepRule at h
  unfold stepRule
  cases hlr : lrRule env name with
  | some r0 =>
    simp only [hlr] at h ⊢
    cases hs : seedOf σ (r0.name, s.off) with
    | some seed => simp only [hs] at h ⊢; exact h
    | none =>
      simp only [hs] at h ⊢
      exact SpecLR.growLoop_le (fun seed r hx => PM.ruleBody_sim (hsim _) hx) _ _ _ _ (Nat.le_refl n) h
  | none =>
    simp only [hlr] at h ⊢
    exact PM.stepRule_sim (hsim σ) _ _ _ h

theorem eval_pgood (env : Env) (u : Nat) : ∀ n σ, PM.PGoodE env (eval env u n σ).expr := by
  intro n
  induction n with
  | zero => intro σ _ _ _ _ _ _ _ h; simp [eval] at h
  | succ n ih => intro σ; exact PM.stepExpr_pgood (ih σ) n

/-- **the two reference semantics with left recursion are in simulation**, fuel by fuel, under every
    seed environment; no hypothesis on the grammar -/
theorem eval_sim (env : Env) (u : Nat) : ∀ n σ, PM.Sim env (SpecLR.eval env u n σ) (eval env u n σ) := by
  intro n
  induction n with
  | zero =>
    intro σ
    exact ⟨fun _ _ _ _ _ _ _ _ h => by simp [SpecLR.eval] at h, fun _ _ _ h => by simp [SpecLR.eval] at h⟩
  | succ n ih =>
    intro σ
    exact ⟨PM.stepExpr_sim (ih σ) (eval_pgood env u n σ) n, stepRule_sim ih n σ⟩

/-! ### fuel monotonicity, uniqueness -/

def LeLR (a b : PRecLR) : Prop := ∀ σ, PM.Le (a σ) (b σ)

theorem stepRule_le {env u} {rec rec' : PRecLR} (hle : LeLR rec rec') {n m : Nat} (hnm : n ≤ m)
    (σ : Seeds) : Spec.LeR (stepRule env u rec n σ) (stepRule env u rec' m σ) := by
  intro name s r h
  unfold stepRule at h ⊢
  split at h
  · split at h
    · exact h
    · exact SpecLR.growLoop_le (fun seed r hx => PM.ruleBody_le (hle _) hx) _ _ _ _ hnm h
  · exact PM.stepRule_le (hle σ) _ _ _ h

theorem step_le {env u} {rec rec' : PRecLR} (hle : LeLR rec rec') {n m : Nat} (hnm : n ≤ m) :
    LeLR (step env u rec n) (step env u rec' m) :=
  fun σ => ⟨PM.stepExpr_le (hle σ) hnm, stepRule_le hle hnm σ⟩

theorem eval_le_succ (env : Env) (u : Nat) : ∀ n, LeLR (eval env u n) (eval env u (n + 1)) := by
  intro n
  induction n with
  | zero => exact fun σ => ⟨fun _ _ _ _ h => by simp [eval] at h, fun _ _ _ h => by simp [eval] at h⟩
  | succ n ih => exact step_le ih (Nat.le_succ n)

/-- fuel monotonicity of `PMLR.eval` -/
theorem eval_mono (env : Env) (u : Nat) {n m : Nat} (h : n ≤ m) : LeLR (eval env u n) (eval env u m) := by
  induction m with
  | zero => have : n = 0 := by omega
            subst this; exact fun σ => PM.Le.refl _
  | succ m ih =>
    by_cases hnm : n ≤ m
    · exact fun σ => PM.Le.trans (ih hnm σ) (eval_le_succ env u m σ)
    · have : n = m + 1 := by omega
      subst this; exact fun σ => PM.Le.refl _

/-- the `PMLR` answer is unique -/
theorem eval_rule_det (env : Env) (u : Nat) {n m : Nat} {σ name s r r'}
    (h : (eval env u n σ).rule name s = some r) (h' : (eval env u m σ).rule name s = some r') : r = r' := by
  have h1 := (eval_mono env u (Nat.le_max_left n m) σ).rule _ _ _ h
  have h2 := (eval_mono env u (Nat.le_max_right n m) σ).rule _ _ _ h'
  rw [h1] at h2
  exact Option.some.inj h2

/-- conservativity: without `@leftrec` rules, `PMLR.eval` is `PM.eval` -/
theorem eval_eq_pm {env : Env} (hnl : NoLeftrec env.g) (u : Nat) :
    ∀ n σ, eval env u n σ = PM.eval env u n := by
  intro n
  induction n with
  | zero => intro σ; rfl
  | succ n ih =>
    intro σ
    show step env u (eval env u n) n σ = PM.step env u (PM.eval env u n) n
    unfold step PM.step
    congr 1
    · rw [ih]
    · funext name s
      unfold stepRule
      rw [SpecLR.lrRule_none_of_noLeftrec hnl, ih]

end PMLR

/-! ## C02 with left recursion -/

/-- **C02, expression level, with left recursion.**  Under every seed environment: a successful
    evaluation of `e` by the reference semantics with the generated field plumbing returns exactly the
    shaping of the field matches `PMLR.eval` collects along the successful path (a recursive reference
    answered by a seed contributes ONE match: the seed's tree). -/
theorem C02_treeLR (env : Env) (u n : Nat) (σ : Seeds) {ctx : Ctx} {e : Expr} {own : List FieldDesc}
    {s s' : St} {p : Parsed}
    (hn : (ctx.ruleFields.map (·.name)).Nodup)
    (hget : getFields env.g env.nf e = .ok own)
    (hsub : SubFields own ctx.ruleFields)
    (h : (SpecLR.eval env u n σ).expr ctx e s = some (.ok p s')) :
    ∃ ms, (PMLR.eval env u n σ).expr ctx e s = some (.ok ms s') ∧
      shapeParsed ctx.ruleFields (filterRuleFields ctx.ruleFields own) ms = some p ∧
      PathOk own ms := by
  obtain ⟨ms, hms, hv⟩ := (PMLR.eval_sim env u n σ).expr ctx e own s _ hn hget hsub h
  exact ⟨ms, hms, hv, PMLR.eval_pgood env u n σ _ _ _ _ _ _ hget hms⟩

/-- **C02, rule level, with left recursion.**  No hypothesis on the grammar. -/
theorem C02_ruleLR (env : Env) (u n : Nat) (σ : Seeds) {name : String} {s : St} {r : Res Val}
    (h : (SpecLR.eval env u n σ).rule name s = some r) : (PMLR.eval env u n σ).rule name s = some r :=
  (PMLR.eval_sim env u n σ).rule name s r h

theorem C02_parse_specLR (env : Env) (u n : Nat) {rule : String} {inp : List UInt8} {r : Res Val}
    (h : SpecLR.parse env u n rule inp = some r) : PMLR.parse env u n rule inp = some r :=
  C02_ruleLR env u n [] h

/-- **C02 for the model of the generated parser, with `@leftrec` rules.**  Whatever `parse_advanced`
    answers (grammar in the class `LROk`, any set of memoized rules outside the cycles, pure user
    functions) is the answer of `PMLR.eval`. -/
theorem C02_parse_resLR (env : Env) (hp : PureHooks env.hooks) (hok : LROk env.g env.settings)
    (rule : String) (inp : List UInt8) (u n : Nat) {r : Res Val} {g : Global}
    (h : parseAdvanced env n rule inp u = some (r, g)) :
    ∃ m, PMLR.parse env u m rule inp = some (abs r) := by
  obtain ⟨m, hm⟩ := eval_refLR env hp hok h
  exact ⟨m, C02_parse_specLR env u m hm⟩

/-- … in particular a returned tree is, node by node, the shaping of the field matches on the
    successful path -/
theorem C02_parseLR (env : Env) (hp : PureHooks env.hooks) (hok : LROk env.g env.settings)
    (rule : String) (inp : List UInt8) (u n : Nat) {v : Val} {s : St} {g : Global}
    (h : parseAdvanced env n rule inp u = some (.ok v s, g)) :
    ∃ m, PMLR.parse env u m rule inp = some (.ok v (clr s)) :=
  C02_parse_resLR env hp hok rule inp u n h

/-- since the `PMLR` answer is unique, *every* answer of `PMLR` is the answer of the generated parser -/
theorem C02_parse_uniqueLR (env : Env) (hp : PureHooks env.hooks) (hok : LROk env.g env.settings)
    (rule : String) (inp : List UInt8) (u n m : Nat) {r r' : Res Val} {g : Global}
    (h : parseAdvanced env n rule inp u = some (r, g))
    (h' : PMLR.parse env u m rule inp = some r') : r' = abs r := by
  obtain ⟨m0, h0⟩ := C02_parse_resLR env hp hok rule inp u n h
  exact PMLR.eval_rule_det env u h' h0

/-- the converse through `parse_completeLR`: whenever the reference semantics with left recursion
    answers, the generated parser answers, and `PMLR` answers the same -/
theorem C02_parse_completeLR (env : Env) (hp : PureHooks env.hooks) (hok : LROk env.g env.settings)
    (rule : String) (inp : List UInt8) (u m : Nat) {r : Res Val}
    (h : SpecLR.parse env u m rule inp = some r) :
    PMLR.parse env u m rule inp = some r ∧
      ∃ n r' g', parseAdvanced env n rule inp u = some (r', g') ∧ abs r' = r :=
  ⟨C02_parse_specLR env u m h, parse_completeLR env hp hok rule inp u m h⟩

/-! ## non-vacuity -/

namespace PathLRExample
open LeftRecExample LRExample

/-- `@export @leftrec E = l:*E '+' r:Num | b:Num; @string Num = {'0'..'9'}+;` on `"1+2+3"`: the theorem
    applied to the run `LeftRecExample.parse_123` of the model -/
example : ∃ m, PMLR.parse envE 0 m "E" inp = some (.ok (extE 1 (extE 0 b0E)) (clr (stE 2))) := by
  obtain ⟨g', h⟩ := parse_123
  exact C02_parseLR envE pureDefault (by decide) "E" inp 0 12 h

/-- what `PMLR` computes, by evaluation: the same tree as `SpecLR` -/
example :
    (match PMLR.parse envE 0 12 "E" inp, SpecLR.parse envE 0 12 "E" inp with
     | some (.ok v s), some (.ok v' s') => v.render == v'.render && s.off == 5 && s'.off == 5
     | _, _ => false) = true := by decide +kernel

/-- the matches on the successful path of the body of `E` at offset 0 under the seed `E{b:"1"}` ending at
    offset 1 (second iteration of the growth): `l` ↦ the seed's tree, `r` ↦ `"2"` – two matches, the
    abandoned alternative `b:Num` leaves none -/
example :
    (match (PMLR.eval envE 0 14 [(("E", 0), .ok b0E ⟨[43, 50, 43, 51], 1, none⟩)]).expr
        ⟨true, ownFields envE (.incl "E")⟩ ruleE.definition (St.new inp) with
     | some (.ok ms s) => ms.map (fun (m : FMatch) => (m.key, m.typ, m.val.render)) ==
          [("l", "E", b0E.render), ("r", "Num", "S\"32\"")] && s.off == 3
     | _ => false) = true := by decide +kernel

end PathLRExample

end Peg
