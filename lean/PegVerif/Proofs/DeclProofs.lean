import PegVerif.Compile
import PegVerif.Runtime
import PegVerif.Extracted.Tables
import PegVerif.Proofs.Arity
/-
  Property C03 (the documented type mapping) and C16 (the declared types and their order are a
  function of the grammar AST, not of any traversal/insertion order).

  1. the tables extracted from the Rust sources on every run equal the tables of the model
     (these statements are the tie between the source and the model: if the source changes, they break)
  2. the keyword list covers the Rust reference
  3. the type mapping of `Compile.fieldTypeText` / `enumText` / `structText` / `ruleDecls`
  4. `insertType` / `combineTypes` build a canonical (sorted, duplicate-free) list that does not
     depend on the order of insertion
  5. declarations come out in rule order
-/
namespace Peg
open Compile

/-! ## 1. extracted tables = model -/

/-- reading of the Rust `Arity` variant names -/
def arityOfString : String → Option Arity
  | "One" => some .one
  | "Optional" => some .optional
  | "Multiple" => some .multiple
  | _ => none

/-- the Rust name of an arity -/
def Arity.rustName : Arity → String
  | .one => "One"
  | .optional => "Optional"
  | .multiple => "Multiple"

theorem arityOfString_rustName (a : Arity) : arityOfString a.rustName = some a := by
  cases a <;> decide

def allArities : List Arity := [.one, .optional, .multiple]

theorem mem_allArities (a : Arity) : a ∈ allArities := by cases a <;> decide

/-- `combine_arities_for_choice` (choice.rs) has exactly nine arms, one for every pair of arities in
    lexicographic order, and every arm agrees with the model's `combineChoice` -/
theorem combineChoiceArms_eq :
    Extracted.combineChoiceArms.map (fun t => (arityOfString t.1, arityOfString t.2.1, arityOfString t.2.2)) =
      allArities.flatMap fun a => allArities.map fun b => (some a, some b, some (combineChoice a b)) := by
  decide

theorem combineChoiceArms_length : Extracted.combineChoiceArms.length = 9 := by decide

/-- every arm agrees with `combineChoice` under the reading `arityOfString` -/
theorem combineChoiceArms_check :
    Extracted.combineChoiceArms.all (fun t =>
      match arityOfString t.1, arityOfString t.2.1, arityOfString t.2.2 with
      | some a, some b, some c => combineChoice a b == c
      | _, _, _ => false) = true := by decide

theorem combineChoiceArms_agree :
    ∀ t ∈ Extracted.combineChoiceArms, ∃ a b c, arityOfString t.1 = some a ∧ arityOfString t.2.1 = some b ∧
      arityOfString t.2.2 = some c ∧ combineChoice a b = c := by
  intro t ht
  have h := List.all_eq_true.1 combineChoiceArms_check t ht
  revert h
  cases arityOfString t.1 <;> cases arityOfString t.2.1 <;> cases arityOfString t.2.2 <;> simp

/-- all nine pairs occur -/
theorem combineChoiceArms_complete (a b : Arity) :
    (a.rustName, b.rustName, (combineChoice a b).rustName) ∈ Extracted.combineChoiceArms := by
  cases a <;> cases b <;> decide

/-- the arms are a function (no pair occurs twice) -/
theorem combineChoiceArms_functional :
    (Extracted.combineChoiceArms.map fun t => (t.1, t.2.1)).Nodup := by decide

/-- `set_arity_to_optional` (optional.rs) -/
theorem toOptionalArms_eq :
    Extracted.toOptionalArms.map (fun t => (arityOfString t.1, arityOfString t.2)) =
      allArities.map fun a => (some a, some (toOptional a)) := by decide

theorem toOptionalArms_check :
    Extracted.toOptionalArms.all (fun t =>
      match arityOfString t.1, arityOfString t.2 with
      | some a, some c => toOptional a == c
      | _, _ => false) = true := by decide

theorem toOptionalArms_agree :
    ∀ t ∈ Extracted.toOptionalArms, ∃ a c, arityOfString t.1 = some a ∧ arityOfString t.2 = some c ∧
      toOptional a = c := by
  intro t ht
  have h := List.all_eq_true.1 toOptionalArms_check t ht
  revert h
  cases arityOfString t.1 <;> cases arityOfString t.2 <;> simp

theorem toOptionalArms_complete (a : Arity) :
    (a.rustName, (toOptional a).rustName) ∈ Extracted.toOptionalArms := by cases a <;> decide

/-- closure.rs sets every field of a closure body to `Multiple` (model: `getFields … (.closure …)`) -/
theorem closureArity_eq : Extracted.closureArity = "Multiple" := by decide
theorem closureArity_model : arityOfString Extracted.closureArity = some .multiple := by decide

/-- sequence.rs sets a field occurring twice in a sequence to `Multiple` (model: `seqMerge`) -/
theorem sequenceRepeatArity_eq : Extracted.sequenceRepeatArity = "Multiple" := by decide
theorem sequenceRepeatArity_model : arityOfString Extracted.sequenceRepeatArity = some .multiple := by decide

theorem getFields_closure_multiple {g : Grammar} {n : Nat} {b : Expr} {al : Bool} {fs : List FieldDesc}
    (h : getFields g (n+1) (.closure b al) = .ok fs) : ∀ f ∈ fs, f.arity = .multiple := by
  simp only [getFields] at h
  split at h
  · simp only [CR.ok.injEq] at h
    subst h
    intro f hf
    obtain ⟨f0, _, rfl⟩ := List.mem_map.1 hf
    rfl
  · rename_i hne
    exact absurd h (hne _)

/-- the keyword list of `safe_ident` (common.rs) is the model's -/
theorem rustKeywords_eq : Extracted.rustKeywords = Compile.rustKeywordsModel := by decide

theorem safeIdentUsesKeywords : Extracted.safeIdentUsesKeywords = true := by decide

/-- `record_error` keeps the *newer* error on ties (`<=`), `is_further_than` is strict (`>`) -/
theorem recordErrorCmp_eq : Extracted.recordErrorCmp = "<=" := by decide
theorem isFurtherThanCmp_eq : Extracted.isFurtherThanCmp = ">" := by decide

/-- … and this is what the model does -/
theorem recordError_model (s : St) (f e : PErr) (h : s.far = some f) :
    (s.recordError e).far = if f.pos ≤ e.pos then some e else some f := by
  unfold St.recordError
  simp only [h]
  split <;> simp [h]

theorem isFurtherThan_model (s o : St) : s.isFurtherThan o = decide (s.off > o.off) := rfl

/-- the Rust names of the grammar's `SimpleEscape*` variants -/
def SimpleEsc.rustName : SimpleEsc → String
  | .newline => "SimpleEscapeNewline"
  | .cr => "SimpleEscapeCarriageReturn"
  | .tab => "SimpleEscapeTab"
  | .backslash => "SimpleEscapeBackslash"
  | .quote => "SimpleEscapeQuote"
  | .dquote => "SimpleEscapeDQuote"

/-- `From<&SimpleEscape> for char` (string.rs): six arms, in the order of the extraction (sorted by name) -/
theorem simpleEscapes_eq :
    Extracted.simpleEscapes =
      [SimpleEsc.backslash, .cr, .dquote, .newline, .quote, .tab].map fun e => (e.rustName, e.toChar.toNat) := by
  decide

theorem simpleEscapes_complete (e : SimpleEsc) : (e.rustName, e.toChar.toNat) ∈ Extracted.simpleEscapes := by
  cases e <;> decide

theorem simpleEscapes_length : Extracted.simpleEscapes.length = 6 := by decide

theorem simpleEscapes_values :
    SimpleEsc.newline.toChar.toNat = 10 ∧ SimpleEsc.cr.toChar.toNat = 13 ∧ SimpleEsc.tab.toChar.toNat = 9 ∧
    SimpleEsc.backslash.toChar.toNat = 92 ∧ SimpleEsc.quote.toChar.toNat = 39 ∧
    SimpleEsc.dquote.toChar.toNat = 34 := by decide

/-- the Rust name of a `ParseErrorSpecifics` variant -/
def Spec.rustName : Spec → String
  | .expectedAnyCharacter => "ExpectedAnyCharacter"
  | .expectedCharacter _ => "ExpectedCharacter"
  | .expectedCharacterRange _ _ => "ExpectedCharacterRange"
  | .expectedString _ => "ExpectedString"
  | .expectedCharacterClass _ => "ExpectedCharacterClass"
  | .expectedEoi => "ExpectedEoi"
  | .negativeLookaheadFailed => "NegativeLookaheadFailed"
  | .checkFunctionFailed _ => "CheckFunctionFailed"
  | .externRuleFailed _ => "ExternRuleFailed"
  | .leftRecursionSentinel => "LeftRecursionSentinel"
  | .other => "Other"

/-- `ParseErrorSpecifics` (runtime/src/error.rs) has exactly these eleven variants, in this order -/
theorem specificsCtors_eq :
    Extracted.specificsCtors =
      ["ExpectedAnyCharacter", "ExpectedCharacter", "ExpectedCharacterRange", "ExpectedString",
       "ExpectedCharacterClass", "ExpectedEoi", "NegativeLookaheadFailed", "CheckFunctionFailed",
       "ExternRuleFailed", "LeftRecursionSentinel", "Other"] := by decide

theorem specificsCtors_length : Extracted.specificsCtors.length = 11 := by decide

/-- … and they are the constructors of the model's `Spec`, in declaration order -/
theorem specificsCtors_model (s : Spec) : Extracted.specificsCtors[s.ctorIdx]? = some s.rustName := by
  cases s <;> rfl

theorem specificsCtors_onto : ∀ i, i < 11 → ∃ s : Spec, s.ctorIdx = i := by
  intro i hi
  match i, hi with
  | 0, _ => exact ⟨.expectedAnyCharacter, rfl⟩
  | 1, _ => exact ⟨.expectedCharacter 'a', rfl⟩
  | 2, _ => exact ⟨.expectedCharacterRange 'a' 'a', rfl⟩
  | 3, _ => exact ⟨.expectedString [], rfl⟩
  | 4, _ => exact ⟨.expectedCharacterClass "", rfl⟩
  | 5, _ => exact ⟨.expectedEoi, rfl⟩
  | 6, _ => exact ⟨.negativeLookaheadFailed, rfl⟩
  | 7, _ => exact ⟨.checkFunctionFailed "", rfl⟩
  | 8, _ => exact ⟨.externRuleFailed "", rfl⟩
  | 9, _ => exact ⟨.leftRecursionSentinel, rfl⟩
  | 10, _ => exact ⟨.other, rfl⟩
  | n+11, h => omega

theorem headerCrcAlgo_eq : Extracted.headerCrcAlgo = "CRC_32_ISO_HDLC" := by decide

/-- the three fixed line prefixes of the generated file's header -/
def headerLinePrefixes : List String :=
  ["// This file was generated by Peginator v", "// CRC-32/ISO-HDLC of the grammar file: ",
   "// Any changes to it will be lost on regeneration"]

/-- split a character list at newlines -/
def splitLines : List Char → List (List Char)
  | [] => [[]]
  | c :: cs =>
    match splitLines cs with
    | [] => [[]]
    | l :: ls => if c = '\n' then [] :: l :: ls else (c :: l) :: ls

set_option maxRecDepth 8000 in
/-- the header template consists of exactly three lines (each terminated by a newline), and they start
    with the three fixed prefixes, in order -/
theorem headerTemplate_lines :
    (splitLines Extracted.headerTemplate.toList).length = 4 ∧
    (splitLines Extracted.headerTemplate.toList)[3]? = some [] ∧
    (List.zipWith (fun p l => p.toList.isPrefixOf l) headerLinePrefixes
      (splitLines Extracted.headerTemplate.toList)) = [true, true, true] := by decide

set_option maxRecDepth 8000 in
/-- the template as a whole -/
theorem headerTemplate_eq :
    Extracted.headerTemplate =
      "// This file was generated by Peginator v{VERSION} built at {BUILD_TIME}\n" ++
      "// CRC-32/ISO-HDLC of the grammar file: {crc32:08x}\n" ++
      "// Any changes to it will be lost on regeneration\n" := by decide

/-! ## 2. the keyword list covers the Rust reference -/

/-- strict, reserved and weak keywords of the Rust reference (2018+ editions) that can be written as
    raw identifiers -/
def referenceKeywords : List String :=
  ["as", "break", "const", "continue", "else", "enum", "extern", "false", "fn", "for", "if", "impl", "in",
   "let", "loop", "match", "mod", "move", "mut", "pub", "ref", "return", "static", "struct", "trait", "true",
   "type", "unsafe", "use", "where", "while", "async", "await", "dyn", "abstract", "become", "box", "do",
   "final", "macro", "override", "priv", "typeof", "unsized", "virtual", "yield", "try"]

/-- every keyword that can be a raw identifier is escaped by `safe_ident` -/
theorem keywords_cover_reference : ∀ k ∈ referenceKeywords, k ∈ Extracted.rustKeywords := by decide

/-- `self`, `Self`, `super` are in the list too, but cannot be raw identifiers: `identOk` rejects them -/
theorem keywords_nonraw :
    (∀ k ∈ ["self", "Self", "super"], k ∈ Extracted.rustKeywords ∧ identOk k = false) := by decide

/-- `crate` is not in the list (`r#crate` is not legal either), and `identOk` lets it through –
    the generated `crate` identifier is then rejected by rustc, not by the generator -/
theorem keywords_crate : "crate" ∉ Extracted.rustKeywords ∧ identOk "crate" = true := by decide

/-- the list is exactly the reference list plus the three non-raw ones -/
theorem keywords_exact :
    ∀ k ∈ Extracted.rustKeywords, k ∈ referenceKeywords ∨ k ∈ ["self", "Self", "super"] := by decide

/-- every keyword that passes `identOk` is written raw -/
theorem safeIdent_keyword {k : String} (h : k ∈ Extracted.rustKeywords) :
    safeIdent Extracted.rustKeywords k = "r#" ++ k := by
  unfold safeIdent
  rw [if_pos (List.contains_iff_mem.2 h)]

theorem safeIdent_nonkeyword {k : String} (h : k ∉ Extracted.rustKeywords) :
    safeIdent Extracted.rustKeywords k = k := by
  unfold safeIdent
  have : Extracted.rustKeywords.contains k = false := by
    cases hc : Extracted.rustKeywords.contains k
    · rfl
    · exact absurd (List.contains_iff_mem.1 hc) h
  rw [this]; rfl

/-! ## 3. the type mapping -/

section mapping
variable (kws : List String)

/-- the element type of a field (the `let inner` of `fieldTypeText`) -/
def innerTypeText (parent : String) (f : FieldDesc) : String :=
  if f.types.length > 1 then parent ++ "_" ++ f.name
  else match f.types.head? with
    | some (t, boxed) =>
      let raw := if t == "char" then "char" else safeIdent kws t
      if boxed then "Box<" ++ raw ++ ">" else raw
    | none => "?"

theorem fieldTypeText_eq (parent : String) (f : FieldDesc) :
    fieldTypeText kws parent f =
      match f.arity with
      | .one => innerTypeText kws parent f
      | .optional => "Option<" ++ innerTypeText kws parent f ++ ">"
      | .multiple => "Vec<" ++ innerTypeText kws parent f ++ ">" := rfl

/-- arity `one` ↦ the inner type itself -/
theorem fieldTypeText_one {parent : String} {f : FieldDesc} (h : f.arity = .one) :
    fieldTypeText kws parent f = innerTypeText kws parent f := by
  rw [fieldTypeText_eq, h]

/-- arity `optional` ↦ `Option<inner>` -/
theorem fieldTypeText_optional {parent : String} {f : FieldDesc} (h : f.arity = .optional) :
    fieldTypeText kws parent f = "Option<" ++ innerTypeText kws parent f ++ ">" := by
  rw [fieldTypeText_eq, h]

/-- arity `multiple` ↦ `Vec<inner>` -/
theorem fieldTypeText_multiple {parent : String} {f : FieldDesc} (h : f.arity = .multiple) :
    fieldTypeText kws parent f = "Vec<" ++ innerTypeText kws parent f ++ ">" := by
  rw [fieldTypeText_eq, h]

/-- a single, unboxed, non-`char` type: the (keyword-safe) type name itself -/
theorem innerTypeText_plain {parent : String} {f : FieldDesc} {t : String} (h : f.types = [(t, false)])
    (hc : t ≠ "char") : innerTypeText kws parent f = safeIdent kws t := by
  simp [innerTypeText, h, hc]

/-- a single type marked boxed (`*`): `Box<T>` -/
theorem innerTypeText_boxed {parent : String} {f : FieldDesc} {t : String} (h : f.types = [(t, true)])
    (hc : t ≠ "char") : innerTypeText kws parent f = "Box<" ++ safeIdent kws t ++ ">" := by
  simp [innerTypeText, h, hc]

/-- `char` stays `char` (never escaped, whatever the keyword list) -/
theorem innerTypeText_char {parent : String} {f : FieldDesc} (h : f.types = [("char", false)]) :
    innerTypeText kws parent f = "char" := by
  simp [innerTypeText, h]

theorem innerTypeText_char_boxed {parent : String} {f : FieldDesc} (h : f.types = [("char", true)]) :
    innerTypeText kws parent f = "Box<char>" := by
  simp [innerTypeText, h]

/-- `Box` appears exactly when the single type is marked boxed -/
theorem innerTypeText_single {parent : String} {f : FieldDesc} {t : String} {boxed : Bool}
    (h : f.types = [(t, boxed)]) :
    innerTypeText kws parent f =
      (if boxed then "Box<" ++ (if t == "char" then "char" else safeIdent kws t) ++ ">"
       else (if t == "char" then "char" else safeIdent kws t)) := by
  simp [innerTypeText, h]

/-- more than one type: the generated enum `Parent_field` -/
theorem innerTypeText_enum {parent : String} {f : FieldDesc} (h : f.types.length > 1) :
    innerTypeText kws parent f = parent ++ "_" ++ f.name := by
  simp [innerTypeText, h]

/-- one variant of a generated enum -/
def variantText (tb : String × Bool) : String :=
  if tb.2 then safeIdent kws tb.1 ++ "(Box<" ++ safeIdent kws tb.1 ++ ">),"
  else safeIdent kws tb.1 ++ "(" ++ safeIdent kws tb.1 ++ "),"

theorem enumText_eq (st : Settings) (name : String) (f : FieldDesc) :
    enumText kws st name f =
      "#[allow(non_camel_case_types)]" ++ derivesText st ++ "pubenum" ++ safeIdent kws name ++ "{" ++
        String.join (f.types.map (variantText kws)) ++ "}" := by
  unfold enumText variantText
  congr 3

/-- one variant per type, in the (sorted) order of the type list -/
theorem enumText_variants_length (f : FieldDesc) : (f.types.map (variantText kws)).length = f.types.length :=
  List.length_map _

/-- `Box` around exactly the marked types -/
theorem variantText_boxed (t : String) :
    variantText kws (t, true) = safeIdent kws t ++ "(Box<" ++ safeIdent kws t ++ ">)," := rfl
theorem variantText_plain (t : String) :
    variantText kws (t, false) = safeIdent kws t ++ "(" ++ safeIdent kws t ++ ")," := rfl

/-- no fields and no `@position`: a unit struct -/
theorem structText_unit (st : Settings) (name : String) :
    structText kws st name [] false = derivesText st ++ "pubstruct" ++ safeIdent kws name ++ ";" := rfl

/-- one text per field of a struct -/
def fieldText (parent : String) (f : FieldDesc) : String :=
  "pub" ++ safeIdent kws f.name ++ ":" ++ fieldTypeText kws parent f ++ ","

/-- fields without `@position` -/
theorem structText_fields (st : Settings) (name : String) {fields : List FieldDesc} (h : fields ≠ []) :
    structText kws st name fields false =
      derivesText st ++ "pubstruct" ++ safeIdent kws name ++ "{" ++
        String.join (fields.map (fieldText kws name)) ++ "" ++ "}" := by
  cases fields with
  | nil => exact absurd rfl h
  | cons f fs => rfl

/-- `@position` adds the range field after the fields (also to an otherwise empty struct) -/
theorem structText_position (st : Settings) (name : String) (fields : List FieldDesc) :
    structText kws st name fields true =
      derivesText st ++ "pubstruct" ++ safeIdent kws name ++ "{" ++
        String.join (fields.map (fieldText kws name)) ++ "pubposition:std::ops::Range<usize>," ++ "}" := by
  unfold structText
  simp only [Bool.not_true, Bool.and_false, Bool.false_eq_true, if_false, if_true]
  rfl

/-- one struct member per field, in field order -/
theorem structText_members_length (name : String) (fields : List FieldDesc) :
    (fields.map (fieldText kws name)).length = fields.length := List.length_map _

variable (g : Grammar) (st : Settings) (fuel : Nat) (r : Rule)

/-- `@string` ↦ an alias of `String` -/
theorem ruleDecls_string {fields : List FieldDesc} (hf : getFields g fuel r.definition = .ok fields)
    (hs : r.flags.string = true) (hp : r.flags.position = false) :
    ruleDecls kws g st fuel r = ["pubtype" ++ safeIdent kws r.name ++ "=String;"] := by
  simp [ruleDecls, hf, hs, hp]

/-- `@string @position` ↦ a struct with `string` and `position` -/
theorem ruleDecls_string_position {fields : List FieldDesc} (hf : getFields g fuel r.definition = .ok fields)
    (hs : r.flags.string = true) (hp : r.flags.position = true) :
    ruleDecls kws g st fuel r =
      [derivesText st ++ "pubstruct" ++ safeIdent kws r.name ++
        "{pubstring:String,pubposition:std::ops::Range<usize>}"] := by
  simp [ruleDecls, hf, hs, hp]

/-- single-type override ↦ a type alias of the field's type -/
theorem ruleDecls_override_alias {f : FieldDesc} (hf : getFields g fuel r.definition = .ok [f])
    (hn : f.name = "_override") (hs : r.flags.string = false) (ht : f.types.length ≤ 1) :
    ruleDecls kws g st fuel r = ["pubtype" ++ safeIdent kws r.name ++ "=" ++ fieldTypeText kws r.name f ++ ";"] := by
  simp [ruleDecls, hf, hs, hn, ht]

/-- multi-type override ↦ an enum named after the rule -/
theorem ruleDecls_override_enum {f : FieldDesc} (hf : getFields g fuel r.definition = .ok [f])
    (hn : f.name = "_override") (hs : r.flags.string = false) (ht : f.types.length > 1) :
    ruleDecls kws g st fuel r = [enumText kws st r.name f] := by
  have : ¬ f.types.length ≤ 1 := by omega
  simp [ruleDecls, hf, hs, hn, this]

/-- everything else ↦ a struct followed by one enum `Rule_field` per multi-type field, in field order -/
theorem ruleDecls_struct {fields : List FieldDesc} (hf : getFields g fuel r.definition = .ok fields)
    (hs : r.flags.string = false)
    (hno : ¬ ((fields.length == 1 && fields.head?.map (·.name) == some "_override") = true)) :
    ruleDecls kws g st fuel r =
      structText kws st r.name fields r.flags.position ::
        (fields.filter (fun f => f.types.length > 1)).map
          (fun f => enumText kws st (r.name ++ "_" ++ f.name) f) := by
  simp only [ruleDecls, hf, hs, Bool.false_eq_true, if_false, if_neg hno]

/-- a rule the field analysis rejects declares nothing (and the grammar is rejected: C15) -/
theorem ruleDecls_err {m : String} (hf : getFields g fuel r.definition = .err m) :
    ruleDecls kws g st fuel r = [] := by
  simp [ruleDecls, hf]

/-- the enum declared for a multi-type field has the name the struct member refers to -/
theorem struct_enum_names_agree {f : FieldDesc} (h : f.types.length > 1) :
    innerTypeText kws r.name f = r.name ++ "_" ++ f.name ∧
    enumText kws st (r.name ++ "_" ++ f.name) f =
      "#[allow(non_camel_case_types)]" ++ derivesText st ++ "pubenum" ++
        safeIdent kws (r.name ++ "_" ++ f.name) ++ "{" ++ String.join (f.types.map (variantText kws)) ++ "}" :=
  ⟨innerTypeText_enum kws h, enumText_eq kws st _ f⟩

end mapping

/-! ## 4. order independence of the type sets (C16) -/

/-! ### `strLt` is a strict total order -/

theorem ByteArray.toList_loop_eq (bs : ByteArray) : ∀ (k i : Nat) (r : List UInt8), bs.size - i = k →
    ByteArray.toList.loop bs i r = r.reverse ++ bs.data.toList.drop i := by
  intro k
  induction k with
  | zero =>
    intro i r hk
    rw [ByteArray.toList.loop]
    have : ¬ i < bs.size := by omega
    rw [if_neg this]
    have h2 : bs.data.toList.drop i = [] := by
      apply List.drop_of_length_le
      simp only [Array.length_toList]
      have : bs.size = bs.data.size := rfl
      omega
    rw [h2, List.append_nil]
  | succ k ih =>
    intro i r hk
    rw [ByteArray.toList.loop]
    have hlt : i < bs.size := by omega
    rw [if_pos hlt, ih (i+1) _ (by omega)]
    have hsz : bs.size = bs.data.size := rfl
    have hd : bs.data.toList.drop i = bs.data[i]'(by omega) :: bs.data.toList.drop (i+1) := by
      rw [← Array.getElem_toList (h := by simp only [Array.length_toList]; omega)]
      exact List.drop_eq_getElem_cons (by simp only [Array.length_toList]; omega)
    rw [hd]
    have hg : bs.get! i = bs.data[i]'(by omega) := by
      simp only [ByteArray.get!]
      exact getElem!_pos bs.data i (by omega)
    rw [hg]
    simp only [List.reverse_cons, List.append_assoc, List.cons_append, List.nil_append]

/-- `ByteArray.toList` (defined by a well-founded loop) is the list of the underlying array -/
theorem ByteArray.toList_eq_data (bs : ByteArray) : bs.toList = bs.data.toList := by
  unfold ByteArray.toList
  rw [ByteArray.toList_loop_eq bs _ 0 [] rfl]
  simp

/-- the UTF-8 bytes of a string, as a list -/
def utf8Bytes (s : String) : List UInt8 := s.toUTF8.toList

theorem utf8Bytes_eq (s : String) : utf8Bytes s = s.toByteArray.data.toList := by
  unfold utf8Bytes String.toUTF8
  exact ByteArray.toList_eq_data _

theorem strLt_iff {a b : String} : strLt a b = true ↔ utf8Bytes a < utf8Bytes b := by
  unfold strLt utf8Bytes
  exact decide_eq_true_iff

/-- kernel-evaluable form (`ByteArray.toList` itself does not reduce) -/
theorem strLt_eq (a b : String) :
    strLt a b = decide (a.toByteArray.data.toList < b.toByteArray.data.toList) := by
  unfold strLt String.toUTF8
  rw [ByteArray.toList_eq_data, ByteArray.toList_eq_data]

/-- a string is determined by its UTF-8 bytes -/
theorem toUTF8_inj {a b : String} (h : a.toUTF8 = b.toUTF8) : a = b :=
  String.toByteArray_inj.1 h

theorem utf8Bytes_inj {a b : String} (h : utf8Bytes a = utf8Bytes b) : a = b := by
  rw [utf8Bytes_eq, utf8Bytes_eq] at h
  apply toUTF8_inj
  unfold String.toUTF8
  have h2 : a.toByteArray.data = b.toByteArray.data := Array.toList_inj.1 h
  cases ha : a.toByteArray
  cases hb : b.toByteArray
  rw [ha, hb] at h2
  simp only at h2
  rw [h2]

theorem strLt_irrefl (a : String) : strLt a a = false := by
  cases h : strLt a a
  · rfl
  · exact absurd (strLt_iff.1 h) (List.lt_irrefl _)

theorem strLt_trans {a b c : String} (h1 : strLt a b = true) (h2 : strLt b c = true) : strLt a c = true :=
  strLt_iff.2 (List.lt_trans (strLt_iff.1 h1) (strLt_iff.1 h2))

theorem strLt_asymm {a b : String} (h : strLt a b = true) : strLt b a = false := by
  cases h2 : strLt b a
  · rfl
  · exact absurd (strLt_iff.1 h2) (List.lt_asymm (strLt_iff.1 h))

theorem strLt_trichotomy (a b : String) : strLt a b = true ∨ a = b ∨ strLt b a = true := by
  cases h1 : strLt a b
  · cases h2 : strLt b a
    · right; left
      apply utf8Bytes_inj
      have n1 : ¬ utf8Bytes a < utf8Bytes b := fun h => by rw [strLt_iff.2 h] at h1; cases h1
      have n2 : ¬ utf8Bytes b < utf8Bytes a := fun h => by rw [strLt_iff.2 h] at h2; cases h2
      exact List.le_antisymm (List.not_lt.1 n2) (List.not_lt.1 n1)
    · right; right; rfl
  · left; rfl

theorem strLt_ne {a b : String} (h : strLt a b = true) : a ≠ b := by
  rintro rfl
  rw [strLt_irrefl] at h
  cases h

/-- exactly one of the three holds -/
theorem strLt_of_not {a b : String} (hne : a ≠ b) (h : strLt b a = false) : strLt a b = true := by
  rcases strLt_trichotomy a b with h1 | h1 | h1
  · exact h1
  · exact absurd h1 hne
  · rw [h] at h1; cases h1

example : strLt "A" "B" = true := by rw [strLt_eq]; decide
example : strLt "B" "A" = false := by rw [strLt_eq]; decide
example : strLt "A" "AB" = true := by rw [strLt_eq]; decide
example : strLt "Z" "a" = true := by rw [strLt_eq]; decide
/-- byte order, not code point count: 'é' (C3 A9) sorts after 'z' (7A) -/
example : strLt "z" "é" = true := by rw [strLt_eq]; decide

/-! ### sorted, duplicate-free type lists -/

/-- `BTreeMap` iteration order: strictly increasing keys (hence duplicate-free) -/
def SortedKeys (l : List (String × Bool)) : Prop := l.Pairwise (fun a b => strLt a.1 b.1 = true)

def keys (l : List (String × Bool)) : List String := l.map (·.1)

/-- is some occurrence of key `x` marked boxed -/
def boxedFlag (l : List (String × Bool)) (x : String) : Bool := l.any (fun kv => kv.1 == x && kv.2)

theorem SortedKeys.nil : SortedKeys [] := List.Pairwise.nil

theorem SortedKeys.singleton (kv : String × Bool) : SortedKeys [kv] := List.pairwise_singleton _ _

theorem sortedKeys_cons {kv : String × Bool} {l : List (String × Bool)} :
    SortedKeys (kv :: l) ↔ (∀ x ∈ keys l, strLt kv.1 x = true) ∧ SortedKeys l := by
  unfold SortedKeys keys
  rw [List.pairwise_cons]
  constructor
  · rintro ⟨h1, h2⟩
    refine ⟨fun x hx => ?_, h2⟩
    obtain ⟨a, ha, rfl⟩ := List.mem_map.1 hx
    exact h1 a ha
  · rintro ⟨h1, h2⟩
    exact ⟨fun a ha => h1 _ (List.mem_map.2 ⟨a, ha, rfl⟩), h2⟩

/-- strictly sorted keys are duplicate-free -/
theorem SortedKeys.nodup {l : List (String × Bool)} (h : SortedKeys l) : (keys l).Nodup := by
  induction l with
  | nil => exact List.nodup_nil
  | cons kv l ih =>
    obtain ⟨h1, h2⟩ := sortedKeys_cons.1 h
    unfold keys
    rw [List.map_cons, List.nodup_cons]
    refine ⟨fun hmem => ?_, ih h2⟩
    have := h1 _ hmem
    rw [strLt_irrefl] at this
    cases this

theorem keys_insertType (l : List (String × Bool)) (kv : String × Bool) (x : String) :
    x ∈ keys (insertType l kv) ↔ x ∈ keys l ∨ x = kv.1 := by
  obtain ⟨k', b'⟩ := kv
  induction l with
  | nil => simp [insertType, keys]
  | cons hd rest ih =>
    obtain ⟨k, b⟩ := hd
    simp only [insertType]
    split
    · rename_i hk
      have hk : k = k' := by simpa using hk
      subst hk
      simp only [keys, List.map_cons, List.mem_cons]
      constructor
      · rintro (h | h)
        · exact Or.inl (Or.inl h)
        · exact Or.inl (Or.inr h)
      · rintro ((h | h) | h)
        · exact Or.inl h
        · exact Or.inr h
        · exact Or.inl h
    · split
      · simp only [keys, List.map_cons, List.mem_cons]
        constructor
        · rintro (h | h | h)
          · exact Or.inr h
          · exact Or.inl (Or.inl h)
          · exact Or.inl (Or.inr h)
        · rintro ((h | h) | h)
          · exact Or.inr (Or.inl h)
          · exact Or.inr (Or.inr h)
          · exact Or.inl h
      · have ih' : x ∈ keys (insertType rest (k', b')) ↔ x ∈ keys rest ∨ x = k' := ih
        simp only [keys, List.map_cons, List.mem_cons] at ih' ⊢
        rw [ih']
        constructor
        · rintro (h | h | h)
          · exact Or.inl (Or.inl h)
          · exact Or.inl (Or.inr h)
          · exact Or.inr h
        · rintro ((h | h) | h)
          · exact Or.inl h
          · exact Or.inr (Or.inl h)
          · exact Or.inr (Or.inr h)

/-- the boxed flag of a key after an insertion: `boxed ||= v.boxed` -/
theorem boxedFlag_insertType (l : List (String × Bool)) (kv : String × Bool) (x : String) :
    boxedFlag (insertType l kv) x = (boxedFlag l x || (kv.1 == x && kv.2)) := by
  obtain ⟨k', b'⟩ := kv
  induction l with
  | nil => simp [insertType, boxedFlag]
  | cons hd rest ih =>
    obtain ⟨k, b⟩ := hd
    simp only [insertType]
    split
    · rename_i hk
      have hk : k = k' := by simpa using hk
      subst hk
      simp only [boxedFlag, List.any_cons]
      cases (k == x) <;> cases b <;> cases b' <;> simp
    · split
      · simp only [boxedFlag, List.any_cons]
        cases (k' == x && b') <;> simp
      · have ih' : boxedFlag (insertType rest (k', b')) x = (boxedFlag rest x || (k' == x && b')) := ih
        simp only [boxedFlag, List.any_cons] at ih' ⊢
        rw [ih', Bool.or_assoc]

/-- `insertType` keeps the list sorted and duplicate-free -/
theorem insertType_sorted {l : List (String × Bool)} (hs : SortedKeys l) (kv : String × Bool) :
    SortedKeys (insertType l kv) := by
  obtain ⟨k', b'⟩ := kv
  induction l with
  | nil => exact SortedKeys.singleton _
  | cons hd rest ih =>
    obtain ⟨k, b⟩ := hd
    obtain ⟨h1, h2⟩ := sortedKeys_cons.1 hs
    simp only [insertType]
    split
    · exact sortedKeys_cons.2 ⟨h1, h2⟩
    · rename_i hk
      have hk : k ≠ k' := by simpa using hk
      split
      · rename_i hlt
        refine sortedKeys_cons.2 ⟨?_, hs⟩
        intro x hx
        simp only [keys, List.map_cons, List.mem_cons] at hx
        rcases hx with rfl | hx
        · exact hlt
        · exact strLt_trans hlt (h1 x hx)
      · rename_i hlt
        have hlt : strLt k' k = false := by simpa using hlt
        refine sortedKeys_cons.2 ⟨?_, ih h2⟩
        intro x hx
        rcases (keys_insertType rest (k', b') x).1 hx with hx | hx
        · exact h1 x hx
        · subst hx
          exact strLt_of_not hk hlt

theorem foldl_insertType_sorted (r : List (String × Bool)) {l : List (String × Bool)} (hs : SortedKeys l) :
    SortedKeys (r.foldl insertType l) := by
  induction r generalizing l with
  | nil => exact hs
  | cons kv r ih => exact ih (insertType_sorted hs kv)

/-- `combine_field_types` keeps the list sorted and duplicate-free -/
theorem combineTypes_sorted {l : List (String × Bool)} (hs : SortedKeys l) (r : List (String × Bool)) :
    SortedKeys (combineTypes l r) := foldl_insertType_sorted r hs

/-- key set of the result = union of the key sets -/
theorem keys_combineTypes (l r : List (String × Bool)) (x : String) :
    x ∈ keys (combineTypes l r) ↔ x ∈ keys l ∨ x ∈ keys r := by
  unfold combineTypes
  induction r generalizing l with
  | nil => simp [keys]
  | cons kv r ih =>
    rw [List.foldl_cons, ih, keys_insertType]
    simp only [keys, List.map_cons, List.mem_cons]
    constructor
    · rintro ((h | h) | h)
      · exact Or.inl h
      · exact Or.inr (Or.inl h)
      · exact Or.inr (Or.inr h)
    · rintro (h | h | h)
      · exact Or.inl (Or.inl h)
      · exact Or.inl (Or.inr h)
      · exact Or.inr h

/-- boxed flag of the result = or of the flags (boxed = some occurrence is marked boxed) -/
theorem boxedFlag_combineTypes (l r : List (String × Bool)) (x : String) :
    boxedFlag (combineTypes l r) x = (boxedFlag l x || boxedFlag r x) := by
  unfold combineTypes
  induction r generalizing l with
  | nil => simp [boxedFlag]
  | cons kv r ih =>
    rw [List.foldl_cons, ih, boxedFlag_insertType]
    simp only [boxedFlag, List.any_cons, Bool.or_assoc]

/-- in a sorted list the flag of a key is the flag stored with it -/
theorem boxedFlag_of_mem {l : List (String × Bool)} (hs : SortedKeys l) {k : String} {b : Bool}
    (h : (k, b) ∈ l) : boxedFlag l k = b := by
  induction l with
  | nil => cases h
  | cons hd rest ih =>
    obtain ⟨h1, h2⟩ := sortedKeys_cons.1 hs
    obtain ⟨k0, b0⟩ := hd
    simp only [boxedFlag, List.any_cons]
    rcases List.mem_cons.1 h with heq | hmem
    · simp only [Prod.mk.injEq] at heq
      obtain ⟨rfl, rfl⟩ := heq
      have hrest : rest.any (fun kv => kv.1 == k && kv.2) = false := by
        rw [List.any_eq_false]
        intro kv hkv
        have hlt := h1 kv.1 (List.mem_map.2 ⟨kv, hkv, rfl⟩)
        have hne := strLt_ne hlt
        have : (kv.1 == k) = false := by simpa using fun h => hne h.symm
        simp [this]
      rw [hrest]; simp
    · have hlt := h1 k (List.mem_map.2 ⟨(k, b), hmem, rfl⟩)
      have hne := strLt_ne hlt
      have : (k0 == k) = false := by simpa using hne
      have ih' := ih h2 hmem
      simp only [boxedFlag] at ih'
      rw [this, ih']; simp

theorem boxedFlag_of_not_mem {l : List (String × Bool)} {x : String} (h : x ∉ keys l) : boxedFlag l x = false := by
  unfold boxedFlag
  rw [List.any_eq_false]
  intro kv hkv
  have : (kv.1 == x) = false := by
    have hne : kv.1 ≠ x := fun he => h (he ▸ List.mem_map.2 ⟨kv, hkv, rfl⟩)
    simpa using hne
  simp [this]

/-- **canonicity**: a sorted duplicate-free list is determined by its key set and the flag of every key -/
theorem sorted_ext {l₁ l₂ : List (String × Bool)} (h₁ : SortedKeys l₁) (h₂ : SortedKeys l₂)
    (hk : ∀ x, x ∈ keys l₁ ↔ x ∈ keys l₂) (hb : ∀ x, boxedFlag l₁ x = boxedFlag l₂ x) : l₁ = l₂ := by
  induction l₁ generalizing l₂ with
  | nil =>
    cases l₂ with
    | nil => rfl
    | cons kv l₂ =>
      have := (hk kv.1).2 (by simp [keys])
      simp [keys] at this
  | cons kv₁ t₁ ih =>
    cases l₂ with
    | nil =>
      have := (hk kv₁.1).1 (by simp [keys])
      simp [keys] at this
    | cons kv₂ t₂ =>
      obtain ⟨k₁, b₁⟩ := kv₁
      obtain ⟨k₂, b₂⟩ := kv₂
      obtain ⟨a1, a2⟩ := sortedKeys_cons.1 h₁
      obtain ⟨c1, c2⟩ := sortedKeys_cons.1 h₂
      have hkeq : k₁ = k₂ := by
        have m1 : k₁ ∈ keys ((k₂, b₂) :: t₂) := (hk k₁).1 (by simp [keys])
        have m2 : k₂ ∈ keys ((k₁, b₁) :: t₁) := (hk k₂).2 (by simp [keys])
        simp only [keys, List.map_cons, List.mem_cons] at m1 m2
        rcases m1 with m1 | m1
        · exact m1
        · rcases m2 with m2 | m2
          · exact m2.symm
          · have l1 := c1 k₁ m1
            have l2 := a1 k₂ m2
            rw [strLt_asymm l1] at l2
            cases l2
      subst hkeq
      have hn1 : k₁ ∉ keys t₁ := fun hm => by
        have := a1 _ hm; rw [strLt_irrefl] at this; cases this
      have hn2 : k₁ ∉ keys t₂ := fun hm => by
        have := c1 _ hm; rw [strLt_irrefl] at this; cases this
      have hbeq : b₁ = b₂ := by
        have := hb k₁
        rw [boxedFlag_of_mem h₁ (List.mem_cons_self), boxedFlag_of_mem h₂ (List.mem_cons_self)] at this
        exact this
      subst hbeq
      have htail : t₁ = t₂ := by
        apply ih a2 c2
        · intro x
          have := hk x
          simp only [keys, List.map_cons, List.mem_cons] at this
          constructor
          · intro hx
            rcases this.1 (Or.inr hx) with h | h
            · subst h; exact absurd hx hn1
            · exact h
          · intro hx
            rcases this.2 (Or.inr hx) with h | h
            · subst h; exact absurd hx hn2
            · exact h
        · intro x
          by_cases hx : k₁ = x
          · subst hx
            rw [boxedFlag_of_not_mem hn1, boxedFlag_of_not_mem hn2]
          · have := hb x
            have hf : (k₁ == x) = false := by simpa using hx
            simp only [boxedFlag, List.any_cons, hf, Bool.false_and, Bool.false_or] at this
            exact this
      rw [htail]

/-- **order independence** (C16): the combined type set does not depend on the order in which the
    types are inserted -/
theorem combineTypes_perm {l r r' : List (String × Bool)} (hs : SortedKeys l) (hp : r.Perm r') :
    combineTypes l r = combineTypes l r' := by
  apply sorted_ext (combineTypes_sorted hs r) (combineTypes_sorted hs r')
  · intro x
    rw [keys_combineTypes, keys_combineTypes]
    unfold keys
    rw [(hp.map _).mem_iff]
  · intro x
    rw [boxedFlag_combineTypes, boxedFlag_combineTypes]
    unfold boxedFlag
    rw [hp.any_eq]

/-- the same, spelled with `foldl` as in the task statement -/
theorem foldl_insertType_perm {l r r' : List (String × Bool)} (hs : SortedKeys l) (hp : r.Perm r') :
    r.foldl insertType l = r'.foldl insertType l := combineTypes_perm hs hp

theorem combineTypes_append (l a b : List (String × Bool)) :
    combineTypes (combineTypes l a) b = combineTypes l (a ++ b) := by
  unfold combineTypes
  rw [List.foldl_append]

/-- combining with `a` then `b` is the same as with `b` then `a` -/
theorem combineTypes_comm_right {l : List (String × Bool)} (hs : SortedKeys l) (a b : List (String × Bool)) :
    combineTypes (combineTypes l a) b = combineTypes (combineTypes l b) a := by
  rw [combineTypes_append, combineTypes_append]
  exact combineTypes_perm hs List.perm_append_comm

/-- the two operands can be swapped when both are sorted (merging arm 1 into arm 2 or arm 2 into arm 1) -/
theorem combineTypes_comm {a b : List (String × Bool)} (ha : SortedKeys a) (hb : SortedKeys b) :
    combineTypes a b = combineTypes b a := by
  apply sorted_ext (combineTypes_sorted ha b) (combineTypes_sorted hb a)
  · intro x; rw [keys_combineTypes, keys_combineTypes]; exact Or.comm
  · intro x; rw [boxedFlag_combineTypes, boxedFlag_combineTypes, Bool.or_comm]

/-- inserting the same types again changes nothing -/
theorem combineTypes_idem {a : List (String × Bool)} (ha : SortedKeys a) : combineTypes a a = a := by
  apply sorted_ext (combineTypes_sorted ha a) ha
  · intro x; rw [keys_combineTypes]; exact or_self_iff
  · intro x; rw [boxedFlag_combineTypes, Bool.or_self]

/-- starting from the empty map, the result is the canonical form of `r` whatever its order -/
theorem combineTypes_nil_perm {r r' : List (String × Bool)} (hp : r.Perm r') :
    combineTypes [] r = combineTypes [] r' := combineTypes_perm SortedKeys.nil hp

theorem strLt_A_B : strLt "A" "B" = true := by rw [strLt_eq]; decide
theorem strLt_B_A : strLt "B" "A" = false := by rw [strLt_eq]; decide
/-- concrete instance: `B*`, `A`, `B` in any order gives `[A, B*]` -/
example : combineTypes [] [("B", true), ("A", false), ("B", false)] = [("A", false), ("B", true)] := by
  simp [combineTypes, insertType, strLt_A_B, strLt_B_A]
example : combineTypes [] [("B", false), ("B", true), ("A", false)] = [("A", false), ("B", true)] := by
  simp [combineTypes, insertType, strLt_A_B]

/-! ### every type list produced by `getFields` is canonical -/

def TypesSorted (fs : List FieldDesc) : Prop := ∀ f ∈ fs, SortedKeys f.types

theorem typesSorted_seqMerge {all new : List FieldDesc} (ha : TypesSorted all) (hn : TypesSorted new) :
    TypesSorted (seqMerge all new) := by
  unfold seqMerge
  induction new generalizing all with
  | nil => exact ha
  | cons nf new ih =>
    rw [List.foldl_cons]
    apply ih
    · split
      · intro f hf
        obtain ⟨o, ho, rfl⟩ := List.mem_map.1 hf
        split
        · exact combineTypes_sorted (ha o ho) _
        · exact ha o ho
      · intro f hf
        rcases List.mem_append.1 hf with h | h
        · exact ha f h
        · rw [List.mem_singleton.1 h]; exact hn nf List.mem_cons_self
    · exact fun f hf => hn f (List.mem_cons_of_mem _ hf)

theorem typesSorted_choiceMerge {first : Bool} {all new : List FieldDesc} (ha : TypesSorted all)
    (hn : TypesSorted new) : TypesSorted (choiceMerge first all new) := by
  unfold choiceMerge
  have ha' : TypesSorted (if first then all else
      all.map fun f => if f.arity == .one && !hasField new f.name then { f with arity := .optional } else f) := by
    split
    · exact ha
    · intro f hf
      obtain ⟨o, ho, rfl⟩ := List.mem_map.1 hf
      split
      · exact ha o ho
      · exact ha o ho
  generalize (if first then all else
      all.map fun f => if f.arity == .one && !hasField new f.name then { f with arity := .optional } else f) = all'
    at ha'
  simp only []
  clear ha
  suffices h : ∀ (news : List FieldDesc), TypesSorted news → ∀ acc, TypesSorted acc →
      TypesSorted (news.foldl (fun all nf =>
        if hasField all nf.name then
          all.map fun o => if o.name == nf.name then
            { o with arity := combineChoice o.arity nf.arity, types := combineTypes o.types nf.types } else o
        else if first || nf.arity != .one then all ++ [nf]
        else all ++ [{ nf with arity := .optional }]) acc) from h new hn all' ha'
  intro news
  induction news with
  | nil => intro _ acc hacc; exact hacc
  | cons nf news ih =>
    intro hn acc hacc
    rw [List.foldl_cons]
    apply ih (fun f hf => hn f (List.mem_cons_of_mem _ hf))
    split
    · intro f hf
      obtain ⟨o, ho, rfl⟩ := List.mem_map.1 hf
      split
      · exact combineTypes_sorted (hacc o ho) _
      · exact hacc o ho
    · split
      · intro f hf
        rcases List.mem_append.1 hf with h | h
        · exact hacc f h
        · rw [List.mem_singleton.1 h]; exact hn nf List.mem_cons_self
      · intro f hf
        rcases List.mem_append.1 hf with h | h
        · exact hacc f h
        · rw [List.mem_singleton.1 h]; exact hn nf List.mem_cons_self

theorem typesSorted_choiceFields {first : Bool} {all : List FieldDesc} {fss : List (List FieldDesc)}
    (ha : TypesSorted all) (hf : ∀ fs ∈ fss, TypesSorted fs) : TypesSorted (choiceFields first all fss) := by
  induction fss generalizing first all with
  | nil => exact ha
  | cons new rest ih =>
    simp only [choiceFields]
    exact ih (typesSorted_choiceMerge ha (hf new List.mem_cons_self))
      (fun fs h => hf fs (List.mem_cons_of_mem _ h))

theorem typesSorted_foldl_seqMerge {all : List FieldDesc} {fss : List (List FieldDesc)}
    (ha : TypesSorted all) (hf : ∀ fs ∈ fss, TypesSorted fs) : TypesSorted (fss.foldl seqMerge all) := by
  induction fss generalizing all with
  | nil => exact ha
  | cons new rest ih =>
    rw [List.foldl_cons]
    exact ih (typesSorted_seqMerge ha (hf new List.mem_cons_self))
      (fun fs h => hf fs (List.mem_cons_of_mem _ h))

/-- **C16 for the field analysis**: every type list the generator computes is in canonical
    (sorted, duplicate-free) form – the `BTreeMap` iteration order of the real generator – so the enum
    variants and their order are a function of the set of types, not of the order of occurrence -/
theorem getFields_types_sorted {g : Grammar} : ∀ {n : Nat} {e : Expr} {fs : List FieldDesc},
    getFields g n e = .ok fs → TypesSorted fs := by
  intro n
  induction n with
  | zero => intro e fs h; simp [getFields] at h
  | succ n ih =>
    intro e fs h
    cases e with
    | choice alts =>
      simp only [getFields] at h
      split at h
      · rename_i fss hfss
        simp only [CR.ok.injEq] at h
        subst h
        exact typesSorted_choiceFields (fun f hf => by cases hf)
          (mapMCR_forall (fun a b hb => ih hb) hfss)
      · cases h
      · cases h
    | seq parts =>
      simp only [getFields] at h
      split at h
      · rename_i fss hfss
        simp only [CR.ok.injEq] at h
        subst h
        exact typesSorted_foldl_seqMerge (fun f hf => by cases hf)
          (mapMCR_forall (fun a b hb => ih hb) hfss)
      · cases h
      · cases h
    | group b => simp only [getFields] at h; exact ih h
    | opt b =>
      simp only [getFields] at h
      split at h
      · rename_i fs0 h0
        simp only [CR.ok.injEq] at h
        subst h
        intro f hf
        obtain ⟨o, ho, rfl⟩ := List.mem_map.1 hf
        exact ih h0 o ho
      · rename_i hne
        exact absurd h (hne _)
    | closure b al =>
      simp only [getFields] at h
      split at h
      · rename_i fs0 h0
        simp only [CR.ok.injEq] at h
        subst h
        intro f hf
        obtain ⟨o, ho, rfl⟩ := List.mem_map.1 hf
        exact ih h0 o ho
      · rename_i hne
        exact absurd h (hne _)
    | neg b =>
      simp only [getFields] at h
      split at h
      · simp only [CR.ok.injEq] at h; subst h; intro f hf; cases hf
      · cases h
      · rename_i h1 h2
        exact absurd h (by intro hh; cases fs with
          | nil => exact h1 hh
          | cons a as => exact h2 _ hh)
    | pos b =>
      simp only [getFields] at h
      split at h
      · simp only [CR.ok.injEq] at h; subst h; intro f hf; cases hf
      · cases h
      · rename_i h1 h2
        exact absurd h (by intro hh; cases fs with
          | nil => exact h1 hh
          | cons a as => exact h2 _ hh)
    | range lo hi => simp only [getFields, CR.ok.injEq] at h; subst h; intro f hf; cases hf
    | lit ins body => simp only [getFields, CR.ok.injEq] at h; subst h; intro f hf; cases hf
    | eoi => simp only [getFields, CR.ok.injEq] at h; subst h; intro f hf; cases hf
    | incl name =>
      simp only [getFields] at h
      split at h
      · cases h
      · exact ih h
    | field name boxed typ =>
      cases name with
      | none => simp only [getFields, CR.ok.injEq] at h; subst h; intro f hf; cases hf
      | some nm =>
        simp only [getFields, CR.ok.injEq] at h
        subst h
        intro f hf
        rw [List.mem_singleton.1 hf]
        exact SortedKeys.singleton _

/-- the variants of every generated enum are in strictly increasing byte order of their type names,
    without duplicates -/
theorem getFields_types_nodup {g : Grammar} {n : Nat} {e : Expr} {fs : List FieldDesc}
    (h : getFields g n e = .ok fs) : ∀ f ∈ fs, (keys f.types).Nodup :=
  fun f hf => (getFields_types_sorted h f hf).nodup

/-! ## 5. declarations come out in rule order -/

/-- the declarations of one entry -/
def entryDecls (kws : List String) (g : Grammar) (st : Settings) (fuel : Nat) : RuleEntry → List String
  | .rule r => ruleDecls kws g st fuel r
  | .charRule r => ["pubtype" ++ safeIdent kws r.name ++ "=char;"]
  | .externRule r =>
    ["pubtype" ++ safeIdent kws r.name ++ "=" ++
      (match r.returnType with
       | some p => "::".intercalate (p.map (safeIdent kws))
       | none => "String") ++ ";"]

theorem decls_eq (kws : List String) (g : Grammar) (st : Settings) (fuel : Nat) :
    decls kws g st fuel = g.rules.flatMap (entryDecls kws g st fuel) := by
  unfold decls
  congr 1

/-- the declarations of the entries come in grammar order: everything declared for the entries of a
    prefix of the rule list precedes everything declared for the rest -/
theorem decls_rule_order (kws : List String) (g : Grammar) (st : Settings) (fuel : Nat)
    (rs₁ rs₂ : List RuleEntry) (h : g.rules = rs₁ ++ rs₂) :
    decls kws g st fuel = rs₁.flatMap (entryDecls kws g st fuel) ++ rs₂.flatMap (entryDecls kws g st fuel) := by
  rw [decls_eq, h, List.flatMap_append]

/-- in particular around any single entry -/
theorem decls_rule_order' (kws : List String) (g : Grammar) (st : Settings) (fuel : Nat)
    (rs₁ rs₂ : List RuleEntry) (e : RuleEntry) (h : g.rules = rs₁ ++ e :: rs₂) :
    decls kws g st fuel =
      rs₁.flatMap (entryDecls kws g st fuel) ++ entryDecls kws g st fuel e ++
        rs₂.flatMap (entryDecls kws g st fuel) := by
  rw [decls_rule_order kws g st fuel rs₁ (e :: rs₂) h, List.flatMap_cons, List.append_assoc]

theorem decls_length (kws : List String) (g : Grammar) (st : Settings) (fuel : Nat) :
    (decls kws g st fuel).length = (g.rules.map fun e => (entryDecls kws g st fuel e).length).sum := by
  rw [decls_eq, List.length_flatMap]

/-- `@char` and `@extern` entries declare exactly one alias each -/
theorem entryDecls_char_length (kws : List String) (g : Grammar) (st : Settings) (fuel : Nat) (r : CharRule) :
    (entryDecls kws g st fuel (.charRule r)).length = 1 := rfl
theorem entryDecls_extern_length (kws : List String) (g : Grammar) (st : Settings) (fuel : Nat) (r : ExternRule) :
    (entryDecls kws g st fuel (.externRule r)).length = 1 := rfl

/-- the declarations are a function of the AST alone (no ambient state): trivially, `decls` is a
    closed Lean function; what matters is that the *model* is tied to the generator by `gendiff` -/
theorem decls_deterministic (kws : List String) (g g' : Grammar) (st : Settings) (fuel : Nat) (h : g = g') :
    decls kws g st fuel = decls kws g' st fuel := by rw [h]

end Peg
