import PegVerif.Eval
/-
  C20 "parsing is a pure function of grammar and input, also across threads".

  The model of the generated `parse_advanced` is `parseAdvanced env fuel rule inp uctx`, which
  builds its own `Global.init` (fresh `ParseGlobal` / `ParseCache`) for every call.

  1. `C20_history`: in any history of calls every result is the result of that call alone;
  2. `C20_fresh_cache_needed`: why the per-call cache matters – a concrete grammar where reusing
     the cache left by a previous call gives a wrong answer;
  3. `C20_schedule`: n threads, any interleaving: every thread observes the results of the
     sequential run of its own calls (a general lemma on independent state machines,
     instantiated with the parser).
-/
namespace Peg

/-- one call of `parse_advanced`: (rule, input, user context) -/
abbrev Call := String × List UInt8 × Nat

/-- the model of one whole `parse_advanced` call -/
def runCall (env : Env) (fuel : Nat) (c : Call) : Out Val := parseAdvanced env fuel c.1 c.2.1 c.2.2

/-! ## 1. Histories -/

/-- a parser "process": whatever is left over from earlier calls (`last`: the `ParseGlobal` of
    the previous call, dropped by the real code at the end of `parse_advanced`) is *not an input*
    of the next call – the step function ignores it. -/
def procStep (env : Env) (fuel : Nat) (_last : Option Global) (c : Call) : Option Global × Out Val :=
  let r := runCall env fuel c
  (r.map (·.2), r)

/-- results of a history of calls, in order -/
def procRun (env : Env) (fuel : Nat) : Option Global → List Call → List (Out Val)
  | _, [] => []
  | last, c :: cs => (procStep env fuel last c).2 :: procRun env fuel (procStep env fuel last c).1 cs

theorem procRun_eq_map (env : Env) (fuel : Nat) (last : Option Global) (calls : List Call) :
    procRun env fuel last calls = calls.map (runCall env fuel) := by
  induction calls generalizing last with
  | nil => rfl
  | cons c cs ih => simp only [procRun, procStep, ih, List.map_cons]

/-- **C20, histories.**  For any history of calls, the result at every index is the result of
    that call alone, whatever was parsed before.

    This is immediate from the shape of the model, and that is the point: the *content* of the
    property is that `parse_advanced` creates its `ParseGlobal`/`ParseCache` per call
    (`Global.init` in `parseAdvanced`), which the model transcribes from
    `codegen/src/grammar/mod.rs`; that the real code has this shape is what the history / thread
    runs of the correspondence check test. -/
theorem C20_history (env : Env) (fuel : Nat) (calls : List Call) (i : Nat) (h : i < calls.length) :
    (procRun env fuel none calls)[i]? = some (parseAdvanced env fuel calls[i].1 calls[i].2.1 calls[i].2.2) := by
  rw [procRun_eq_map]
  simp [h, runCall]

/-- the same for the plain list of results -/
theorem C20_history_map (env : Env) (fuel : Nat) (calls : List Call) (i : Nat) (h : i < calls.length) :
    (calls.map (fun c => parseAdvanced env fuel c.1 c.2.1 c.2.2))[i]? =
      some (parseAdvanced env fuel calls[i].1 calls[i].2.1 calls[i].2.2) := by
  simp [h]

/-- parsing `c` after any calls `pre` (and before any `post`) gives the result of `c` alone -/
theorem C20_history_at (env : Env) (fuel : Nat) (pre post : List Call) (c : Call) :
    (procRun env fuel none (pre ++ c :: post))[pre.length]? =
      some (parseAdvanced env fuel c.1 c.2.1 c.2.2) := by
  rw [procRun_eq_map]
  simp [runCall]

/-- parsing the same input again after any other inputs returns the same result -/
theorem C20_history_again (env : Env) (fuel : Nat) (pre mid post : List Call) (c : Call) :
    (procRun env fuel none (pre ++ c :: (mid ++ c :: post)))[pre.length]? =
      (procRun env fuel none (pre ++ c :: (mid ++ c :: post)))[pre.length + 1 + mid.length]? := by
  rw [procRun_eq_map]
  have h1 : pre.length + 1 + mid.length = (pre ++ c :: mid).length := by simp; omega
  have h2 : pre ++ c :: (mid ++ c :: post) = (pre ++ c :: mid) ++ c :: post := by simp
  rw [h1]
  conv => rhs; rw [h2]
  simp only [List.map_append, List.map_cons]
  rw [List.getElem?_append_right (by simp), List.getElem?_append_right (by simp)]
  simp

/-! ## 2. Why the per-call cache matters -/

namespace CacheDemo

/-- `@export S = a:A; @memoize @string A = 'x' | 'y';` -/
def g : Grammar := ⟨[
  .rule ⟨[.export], "S", .choice [.seq [.field (some (.ident "a")) false "A"]]⟩,
  .rule ⟨[.memoize, .string], "A",
    .choice [.seq [.lit false [.chr 'x']], .seq [.lit false [.chr 'y']]]⟩]⟩

def env : Env := { g := g, settings := {}, hooks := default, nf := 16 }

def inp1 : List UInt8 := [120]   -- "x"
def inp2 : List UInt8 := [121]   -- "y"

/-- the `ParseGlobal` left by the first call (`parse_advanced` drops it) -/
def g1 : Global :=
  match parseAdvanced env 16 "S" inp1 0 with
  | some (_, g) => g
  | none => Global.init 0

/-- a hypothetical second call that reuses the cache of the first -/
def reused : Out Val := (eval env 16).rule "S" (St.new inp2) { g1 with log := [] }

/-- the real second call -/
def fresh : Out Val := parseAdvanced env 16 "S" inp2 0

/-- observation: the result is `S { a: <the one byte b> }` -/
def fieldAIs (b : UInt8) : Out Val → Bool
  | some (.ok (.node "S" [("a", .str [b'])] none) _, _) => b' == b
  | _ => false

theorem first_call : fieldAIs 120 (parseAdvanced env 16 "S" inp1 0) = true := by decide +kernel
theorem fresh_is_y : fieldAIs 121 fresh = true := by decide +kernel
/-- the stale entry for ("A", 0) answers "x" on the input "y" -/
theorem reused_is_x : fieldAIs 120 reused = true := by decide +kernel
theorem g1_has_entry : (g1.lookup ("A", 0)).isSome = true := by decide +kernel

end CacheDemo

/-- **C20, the fresh cache is needed.**  There are a grammar with a `@memoize` rule and two
    inputs such that running the second parse in the global state left by the first (cache kept,
    log cleared) differs from `parseAdvanced` on the second input: the cache is keyed by
    (rule, offset) only, so it is only valid for one input. -/
theorem C20_fresh_cache_needed :
    ∃ (env : Env) (fuel : Nat) (rule : String) (inp1 inp2 : List UInt8) (r1 : Res Val) (g1 : Global),
      parseAdvanced env fuel rule inp1 0 = some (r1, g1) ∧
      (eval env fuel).rule rule (St.new inp2) { g1 with log := [] } ≠ parseAdvanced env fuel rule inp2 0 := by
  have hsome : (parseAdvanced CacheDemo.env 16 "S" CacheDemo.inp1 0).isSome = true := by decide +kernel
  obtain ⟨⟨r1, gl⟩, h1⟩ := Option.isSome_iff_exists.mp hsome
  refine ⟨CacheDemo.env, 16, "S", CacheDemo.inp1, CacheDemo.inp2, r1, gl, h1, ?_⟩
  have hg : CacheDemo.g1 = gl := by simp only [CacheDemo.g1, h1]
  intro heq
  have hx := CacheDemo.reused_is_x
  have hy := CacheDemo.fresh_is_y
  unfold CacheDemo.reused at hx
  unfold CacheDemo.fresh at hy
  rw [hg, heq] at hx
  have : CacheDemo.fieldAIs 120 (parseAdvanced CacheDemo.env 16 "S" CacheDemo.inp2 0) = false := by
    decide +kernel
  rw [this] at hx
  cases hx

/-! ## 3. Interleavings: independent state machines -/

section Independent
variable {σ κ ρ : Type}

/-- the events of thread `i` in a global sequence of (thread, payload) events -/
def proj {α : Type} (i : Nat) : List (Nat × α) → List α
  | [] => []
  | e :: es => if e.1 = i then e.2 :: proj i es else proj i es

/-- replace the component of thread `i` -/
def upd (st : Nat → σ) (i : Nat) (s : σ) : Nat → σ := fun j => if j = i then s else st j

/-- a thread alone: run its calls one after the other -/
def seqRun (f : σ → κ → σ × ρ) : σ → List κ → σ × List ρ
  | s, [] => (s, [])
  | s, c :: cs => ((seqRun f (f s c).1 cs).1, (f s c).2 :: (seqRun f (f s c).1 cs).2)

/-- the system: the state is one component per thread; an event `(i, c)` performs one whole step
    of thread `i`, reading and writing only component `i` (there is no shared mutable state);
    the result is tagged with the thread that observes it -/
def sysRun (step : Nat → σ → κ → σ × ρ) : (Nat → σ) → List (Nat × κ) → (Nat → σ) × List (Nat × ρ)
  | st, [] => (st, [])
  | st, e :: es =>
    ((sysRun step (upd st e.1 (step e.1 (st e.1) e.2).1) es).1,
     (e.1, (step e.1 (st e.1) e.2).2) :: (sysRun step (upd st e.1 (step e.1 (st e.1) e.2).1) es).2)

/-- **independence lemma**: under any global sequence of events, thread `i` ends in the state, and
    observes the results, of the sequential run of its own events -/
theorem sysRun_proj (step : Nat → σ → κ → σ × ρ) (i : Nat) (es : List (Nat × κ)) :
    ∀ st : Nat → σ,
      (sysRun step st es).1 i = (seqRun (step i) (st i) (proj i es)).1 ∧
      proj i (sysRun step st es).2 = (seqRun (step i) (st i) (proj i es)).2 := by
  induction es with
  | nil => intro st; exact ⟨rfl, rfl⟩
  | cons e es ih =>
    intro st
    obtain ⟨j, c⟩ := e
    have ih' := ih (upd st j (step j (st j) c).1)
    by_cases hj : j = i
    · subst hj
      have hu : upd st j (step j (st j) c).1 j = (step j (st j) c).1 := by simp [upd]
      simp only [sysRun, proj, if_true, seqRun]
      rw [hu] at ih'
      exact ⟨ih'.1, by rw [ih'.2]⟩
    · have hu : upd st j (step j (st j) c).1 i = st i := by
        simp only [upd]; rw [if_neg (fun h => hj h.symm)]
      simp only [sysRun, proj, if_neg hj]
      rw [hu] at ih'
      exact ih'

/-- two global sequences that are interleavings of the same per-thread programs give every thread
    the same final state and the same observed results -/
theorem sysRun_schedule_indep (step : Nat → σ → κ → σ × ρ) (st : Nat → σ)
    (es es' : List (Nat × κ)) (h : ∀ i, proj i es = proj i es') (i : Nat) :
    (sysRun step st es).1 i = (sysRun step st es').1 i ∧
    proj i (sysRun step st es).2 = proj i (sysRun step st es').2 := by
  have a := sysRun_proj step i es st
  have b := sysRun_proj step i es' st
  rw [h i] at a
  exact ⟨a.1.trans b.1.symm, a.2.trans b.2.symm⟩

/-! ### schedules as lists of thread indices, consumed left to right -/

/-- `progs i` = the calls thread `i` still has to make.  A schedule is a list of thread indices;
    picking thread `i` makes it perform its next call (a no-op when it has none left).
    Returns the global event sequence and the calls left over. -/
def attach (progs : Nat → List κ) : List Nat → List (Nat × κ) × (Nat → List κ)
  | [] => ([], progs)
  | i :: is =>
    match progs i with
    | [] => attach progs is
    | c :: cs => ((i, c) :: (attach (upd progs i cs) is).1, (attach (upd progs i cs) is).2)

/-- every schedule is an interleaving: per thread, the events performed followed by the calls
    left over are the thread's program -/
theorem attach_proj (is : List Nat) : ∀ (progs : Nat → List κ) (i : Nat),
    proj i (attach progs is).1 ++ (attach progs is).2 i = progs i := by
  induction is with
  | nil => intro progs i; rfl
  | cons j is ih =>
    intro progs i
    simp only [attach]
    split
    · exact ih progs i
    · rename_i c cs hc
      have ih' := ih (upd progs j cs) i
      by_cases hj : j = i
      · subst hj
        simp only [proj, if_true, List.cons_append]
        rw [ih']
        simp [upd, hc]
      · simp only [proj, if_neg hj]
        rw [ih']
        simp only [upd]; rw [if_neg (fun h => hj h.symm)]

/-- a schedule is complete when it lets every thread finish -/
def Complete (progs : Nat → List κ) (is : List Nat) : Prop := ∀ i, (attach progs is).2 i = []

theorem attach_complete {progs : Nat → List κ} {is : List Nat} (h : Complete progs is) (i : Nat) :
    proj i (attach progs is).1 = progs i := by
  have := attach_proj is progs i
  rwa [h i, List.append_nil] at this

/-- running a schedule of thread indices -/
def runSchedule (step : Nat → σ → κ → σ × ρ) (st : Nat → σ) (progs : Nat → List κ) (is : List Nat) :
    (Nat → σ) × List (Nat × ρ) :=
  sysRun step st (attach progs is).1

/-- under every complete schedule each thread ends in the state, and observes the results, of the
    sequential run of its own program -/
theorem runSchedule_complete (step : Nat → σ → κ → σ × ρ) (st : Nat → σ) (progs : Nat → List κ)
    (is : List Nat) (h : Complete progs is) (i : Nat) :
    (runSchedule step st progs is).1 i = (seqRun (step i) (st i) (progs i)).1 ∧
    proj i (runSchedule step st progs is).2 = (seqRun (step i) (st i) (progs i)).2 := by
  have := sysRun_proj step i (attach progs is).1 st
  rwa [attach_complete h i] at this

end Independent

/-! ### the parser instance -/

/-- one step of a parser thread: the per-thread state is the list of results it has seen so far;
    the step performs one whole `parse_advanced` call.  It does not depend on the thread index
    nor on anything but the call. -/
def parserStep (env : Env) (fuel : Nat) (_thread : Nat) (seen : List (Out Val)) (c : Call) :
    List (Out Val) × Out Val :=
  (seen ++ [runCall env fuel c], runCall env fuel c)

theorem seqRun_parserStep (env : Env) (fuel : Nat) (i : Nat) (calls : List Call) :
    ∀ seen, seqRun (parserStep env fuel i) seen calls =
      (seen ++ calls.map (runCall env fuel), calls.map (runCall env fuel)) := by
  induction calls with
  | nil => intro seen; simp [seqRun]
  | cons c cs ih => intro seen; simp [seqRun, ih, parserStep]

/-- **C20, schedules (event form).**  For any global interleaving `sched` of calls tagged with
    the calling thread, the sequence of results thread `i` observes is the sequential run of its
    own calls, each being `parseAdvanced` on that call alone. -/
theorem C20_schedule_events (env : Env) (fuel : Nat) (sched : List (Nat × Call)) (i : Nat) :
    proj i (sysRun (parserStep env fuel) (fun _ => []) sched).2 =
      (proj i sched).map (fun c => parseAdvanced env fuel c.1 c.2.1 c.2.2) ∧
    (sysRun (parserStep env fuel) (fun _ => []) sched).1 i =
      (proj i sched).map (fun c => parseAdvanced env fuel c.1 c.2.1 c.2.2) := by
  have h := sysRun_proj (parserStep env fuel) i sched (fun _ => [])
  rw [seqRun_parserStep] at h
  simp only [List.nil_append] at h
  exact ⟨h.2, h.1⟩

/-- **C20, schedules.**  `progs i` is the fixed list of calls of thread `i`.  For every two
    complete schedules (any interleavings whatsoever) every thread observes the same sequence of
    results, namely the results of its calls run sequentially and alone. -/
theorem C20_schedule (env : Env) (fuel : Nat) (progs : Nat → List Call) (is is' : List Nat)
    (h : Complete progs is) (h' : Complete progs is') (i : Nat) :
    proj i (runSchedule (parserStep env fuel) (fun _ => []) progs is).2 =
      (progs i).map (fun c => parseAdvanced env fuel c.1 c.2.1 c.2.2) ∧
    proj i (runSchedule (parserStep env fuel) (fun _ => []) progs is).2 =
      proj i (runSchedule (parserStep env fuel) (fun _ => []) progs is').2 := by
  have a := (runSchedule_complete (parserStep env fuel) (fun _ => []) progs is h i).2
  have b := (runSchedule_complete (parserStep env fuel) (fun _ => []) progs is' h' i).2
  rw [seqRun_parserStep] at a b
  exact ⟨a, a.trans b.symm⟩

/-! ### the hypotheses are satisfiable -/

/-- two threads with two calls / one call; two different complete schedules -/
def demoProgs : Nat → List Call
  | 0 => [("S", [120], 0), ("S", [121], 0)]
  | 1 => [("S", [122], 0)]
  | _ => []

example : (attach demoProgs [0, 1, 0]).1 = [(0, ("S", [120], 0)), (1, ("S", [122], 0)), (0, ("S", [121], 0))] := by
  decide
example : (attach demoProgs [1, 0, 0, 1]).1 = [(1, ("S", [122], 0)), (0, ("S", [120], 0)), (0, ("S", [121], 0))] := by
  decide

theorem attach_untouched {κ : Type} (is : List Nat) : ∀ (progs : Nat → List κ) (i : Nat),
    progs i = [] → (attach progs is).2 i = [] := by
  induction is with
  | nil => intro progs i h; exact h
  | cons j is ih =>
    intro progs i h
    simp only [attach]
    split
    · exact ih progs i h
    · rename_i c cs hc
      apply ih
      by_cases hj : i = j
      · subst hj; rw [h] at hc; cases hc
      · simp [upd, hj, h]

example : Complete demoProgs [0, 1, 0] ∧ Complete demoProgs [1, 0, 0, 1] := by
  constructor <;> intro i <;>
  · match i with
    | 0 => decide
    | 1 => decide
    | n+2 => exact attach_untouched _ _ _ rfl

end Peg
