import PegVerif.Extracted.Tables
/-
  Property C20: no hidden state.

  `Extracted.sharedState` is the result of scanning `runtime/src/*.rs` and `codegen/src/*.rs` (the
  latter contain the templates of the generated code) on every run for `static`, `thread_local!`,
  `lazy_static!`, `Once*`, `Lazy*`, `Mutex`, `RwLock`, `Atomic*`, `RefCell`, `Cell<`, `unsafe`,
  `extern "C"`; every entry is `"<file>: <source line>"`.

  We prove that every hit is one of the known `unsafe` uses around `ParseState::advance` (the unchecked
  slice whose safety is property C04), located in the runtime, and that none of them introduces
  process-wide or thread-wide state.  Hence two parses share nothing but their arguments: the model's
  `eval`, a pure function of (grammar, input, user context), loses nothing.

  Evaluation notes: `String.splitOn` does not reduce in the kernel (`decide` gets stuck on it), and
  `String.toList` of a 90-character literal is very slow to reduce (UTF-8 decoding with proofs), so
  the Bool-valued checker works on the UTF-8 bytes of the strings (`String.toByteArray`, as `Nat`s) with
  structurally recursive list functions.  `no_shared_state'` transfers the negative part (no state
  word occurs) to the character level.
-/
namespace Peg

/-- the UTF-8 bytes of a string, as numbers -/
def byteCodes (s : String) : List Nat := s.toByteArray.data.toList.map UInt8.toNat

/-- does `pat` occur in `s` as a contiguous sub-list -/
def containsSub (pat : List Nat) : List Nat → Bool
  | [] => pat.isEmpty
  | c :: cs => pat.isPrefixOf (c :: cs) || containsSub pat cs

/-- substring test on strings (on their UTF-8 bytes) -/
def hasSub (s pat : String) : Bool := containsSub (byteCodes pat) (byteCodes s)

/-- prefix test on strings (on their UTF-8 bytes) -/
def hasPrefix (s pat : String) : Bool := (byteCodes pat).isPrefixOf (byteCodes s)

/-- `containsSub` is the usual infix relation -/
theorem containsSub_iff (pat s : List Nat) : containsSub pat s = true ↔ pat <:+: s := by
  induction s with
  | nil =>
    simp only [containsSub, List.isEmpty_iff, List.infix_nil]
  | cons c cs ih =>
    simp only [containsSub, Bool.or_eq_true, ih, List.isPrefixOf_iff_prefix]
    constructor
    · rintro (h | h)
      · exact h.isInfix
      · exact h.trans (List.suffix_cons c cs).isInfix
    · intro h
      rcases List.infix_cons_iff.1 h with h | h
      · exact Or.inl h
      · exact Or.inr h

/-- the words that would indicate state shared between parses (or between threads) -/
def stateWords : List String :=
  ["static", "thread_local", "Mutex", "RwLock", "Atomic", "RefCell", "Cell<", "Once", "Lazy", "extern \"C\""]

/-- the files in which the known `unsafe` uses live -/
def advanceFiles : List String := ["runtime/src/state.rs: ", "runtime/src/builtin_parsers.rs: "]

/-- an entry of the scan is one of the known `unsafe` uses around `ParseState::advance`: it is located
    in `runtime/src/state.rs` or `runtime/src/builtin_parsers.rs`, contains the word `unsafe`, and
    mentions none of the state words -/
def isKnownUnsafeAdvance (s : String) : Bool :=
  advanceFiles.any (fun p => hasPrefix s p) &&
  hasSub s "unsafe" &&
  stateWords.all (fun w => !hasSub s w)

/-- more precisely: the definition of `advance`, the unchecked slice inside it, or a call of it -/
def isAdvanceUse (s : String) : Bool :=
  hasSub s "unsafe { state.advance(" || hasSub s "pub unsafe fn advance(" ||
  hasSub s "unsafe { self.partial_string.get_unchecked(length..) }"

set_option maxRecDepth 20000 in
/-- **C20**: every hit of the shared-state scan is a known `unsafe` use around `ParseState::advance`;
    there is no `static`, `thread_local!`, `lazy_static!`, `Once*`, `Lazy*`, `Mutex`, `RwLock`,
    `Atomic*`, `RefCell`, `Cell<` or `extern "C"` anywhere in the runtime or in the generator's templates -/
theorem no_shared_state : Extracted.sharedState.all isKnownUnsafeAdvance = true := by decide

set_option maxRecDepth 20000 in
/-- each hit is literally the definition of `advance`, its unchecked slice, or a call `state.advance(…)` -/
theorem shared_state_is_advance : Extracted.sharedState.all isAdvanceUse = true := by decide

set_option maxRecDepth 20000 in
/-- the generator (whose sources contain the templates of the generated code) has no hit at all: the
    generated parsers contain no `unsafe` block and define no statics -/
theorem codegen_has_no_unsafe :
    Extracted.sharedState.all (fun s => !hasPrefix s "codegen/src") = true ∧
    Extracted.sharedState.all (fun s => !hasSub s "codegen/") = true := by decide

/-- the number of hits (five calls in `builtin_parsers.rs`, the definition and the slice in `state.rs`) -/
theorem sharedState_length : Extracted.sharedState.length = 7 := by decide

/-! ### reading at the character level -/

theorem byteCodes_eq (s : String) :
    byteCodes s = (s.toList.flatMap String.utf8EncodeChar).map UInt8.toNat := by
  unfold byteCodes
  rw [← String.utf8Encode_toList]
  simp [List.utf8Encode]

/-- an occurrence as characters is an occurrence as bytes -/
theorem byteCodes_infix {p s : String} (h : p.toList <:+: s.toList) : byteCodes p <:+: byteCodes s := by
  obtain ⟨a, b, hab⟩ := h
  rw [byteCodes_eq, byteCodes_eq, ← hab]
  simp only [List.flatMap_append, List.map_append]
  exact ⟨_, _, rfl⟩

theorem byteCodes_prefix {p s : String} (h : p.toList <+: s.toList) : byteCodes p <+: byteCodes s := by
  obtain ⟨b, hab⟩ := h
  rw [byteCodes_eq, byteCodes_eq, ← hab]
  simp only [List.flatMap_append, List.map_append]
  exact ⟨_, rfl⟩

/-- Prop-level reading of `no_shared_state`: no entry of the scan contains any of the state words (as
    a sequence of characters); every entry contains the bytes of `unsafe` and starts with the bytes of
    one of the two runtime file names -/
theorem no_shared_state' :
    ∀ s ∈ Extracted.sharedState,
      (∀ w ∈ stateWords, ¬ w.toList <:+: s.toList) ∧
      (∃ p ∈ advanceFiles, byteCodes p <+: byteCodes s) ∧ byteCodes "unsafe" <:+: byteCodes s := by
  intro s hs
  have h := List.all_eq_true.1 no_shared_state s hs
  simp only [isKnownUnsafeAdvance, Bool.and_eq_true, List.any_eq_true, List.all_eq_true,
    Bool.not_eq_true', hasSub, hasPrefix] at h
  obtain ⟨⟨⟨p, hp, hpre⟩, hu⟩, hw⟩ := h
  refine ⟨?_, ⟨p, hp, List.isPrefixOf_iff_prefix.1 hpre⟩, (containsSub_iff _ _).1 hu⟩
  intro w hw' hin
  have := hw w hw'
  rw [(containsSub_iff _ _).2 (byteCodes_infix hin)] at this
  cases this

/-- no entry is located under `codegen/src` (character level) -/
theorem codegen_has_no_unsafe' :
    ∀ s ∈ Extracted.sharedState, ¬ "codegen/src".toList <+: s.toList := by
  intro s hs hpre
  have h := List.all_eq_true.1 codegen_has_no_unsafe.1 s hs
  simp only [hasPrefix, Bool.not_eq_true'] at h
  rw [List.isPrefixOf_iff_prefix.2 (byteCodes_prefix hpre)] at h
  cases h

/-- sanity of the checker: it does reject lines with state, and lines outside the two files -/
example : isKnownUnsafeAdvance "runtime/src/state.rs: static mut COUNTER: usize = 0;" = false := by decide
example : isKnownUnsafeAdvance "runtime/src/state.rs: thread_local! { static X: Cell<u8> = Cell::new(0) }" = false := by
  decide
example : isKnownUnsafeAdvance "codegen/src/rule.rs: let state = unsafe { state.advance(1) };" = false := by decide
example : isKnownUnsafeAdvance "runtime/src/builtin_parsers.rs: let state = unsafe { state.advance(1) };" = true := by
  decide

end Peg
