import PegVerif.Proofs.Refine
/-
  Refinement, expression level: one lemma per list/loop helper, then one case per construct.
-/
namespace Peg
open Spec

section
variable {env : Env} {u : Nat} {inp : List UInt8}

theorem evalSeq_post {rec : Rec} (hrec : Ref env u inp rec) {ctx : Ctx} :
    ∀ ps seen acc s g r g', evalSeq env rec ctx ps seen acc s g = some (r, g') →
      WfSt inp s → Good env u inp g →
      Post env u inp (fun m => Spec.evalSeq env (Spec.eval env u m) ctx ps seen acc (clr s)) r g' := by
  intro ps
  induction ps with
  | nil =>
    intro seen acc s g r g' h hw hg
    simp only [evalSeq, Option.some.injEq, Prod.mk.injEq] at h
    obtain ⟨rfl, rfl⟩ := h
    exact Post.const (fun _ => rfl) hg (fun v s' h => by cases h; exact hw)
  | cons p ps ih =>
    intro seen acc s g r g' h hw hg
    simp only [evalSeq] at h
    simp only [Spec.evalSeq]
    refine bindR_post h (fun rx gx hx => hrec.expr _ _ _ _ _ _ hx hw hg) ?_
    intro v s1 g1 r g' h hw1 hg1
    split at h
    · rename_i hm
      simp only [Option.some.injEq, Prod.mk.injEq] at h
      obtain ⟨rfl, rfl⟩ := h
      exact Post.panic (fun _ => by simp only [hm]) hg1
    · rename_i hm
      simp only [hm]
      exact ih _ _ _ _ _ _ h hw1 hg1

theorem evalAlts_post {rec : Rec} (hrec : Ref env u inp rec) {ctx : Ctx} {fields} :
    ∀ as s g r g', evalAlts env rec ctx fields as s g = some (r, g') →
      WfSt inp s → Good env u inp g →
      Post env u inp (fun m => Spec.evalAlts env (Spec.eval env u m) ctx fields as (clr s)) r g' := by
  intro as
  induction as with
  | nil =>
    intro s g r g' h hw hg
    simp only [evalAlts, Option.some.injEq, Prod.mk.injEq] at h
    obtain ⟨rfl, rfl⟩ := h
    exact Post.const (fun _ => rfl) hg (fun v s' h => by cases h)
  | cons a as ih =>
    intro s g r g' h hw hg
    simp only [evalAlts] at h
    split at h
    · cases h
    · rename_i r0 s0 g0 hx
      obtain ⟨⟨m0, h0⟩, hg0, hw0⟩ := hrec.expr _ _ _ _ _ _ hx hw hg
      split at h
      · rename_i p hp
        simp only [Option.some.injEq, Prod.mk.injEq] at h
        obtain ⟨rfl, rfl⟩ := h
        refine ⟨⟨m0, fun m hm => ?_⟩, hg0, fun v s' h => by cases h; exact hw0 _ _ rfl⟩
        have e0 := h0 m hm
        simp only [abs] at e0
        simp only [Spec.evalAlts, e0, hp, abs]
      · rename_i msg hp
        simp only [Option.some.injEq, Prod.mk.injEq] at h
        obtain ⟨rfl, rfl⟩ := h
        refine ⟨⟨m0, fun m hm => ?_⟩, hg0, fun v s' h => by cases h⟩
        have e0 := h0 m hm
        simp only [abs] at e0
        simp only [Spec.evalAlts, e0, hp, abs]
    · rename_i e0 g0 hx
      obtain ⟨⟨m0, h0⟩, hg0, _⟩ := hrec.expr _ _ _ _ _ _ hx hw hg
      obtain ⟨⟨m1, h1⟩, hg1, hw1⟩ := ih _ _ _ _ h (wf_recordError.mpr hw) hg0
      refine ⟨⟨max m0 m1, fun m hm => ?_⟩, hg1, hw1⟩
      have e0 := h0 m (by omega)
      have e1 := h1 m (by omega)
      simp only [abs] at e0
      simp only [clr_recordError] at e1
      simp only [Spec.evalAlts, e0]
      exact e1
    · rename_i msg g0 hx
      obtain ⟨⟨m0, h0⟩, hg0, _⟩ := hrec.expr _ _ _ _ _ _ hx hw hg
      simp only [Option.some.injEq, Prod.mk.injEq] at h
      obtain ⟨rfl, rfl⟩ := h
      refine ⟨⟨m0, fun m hm => ?_⟩, hg0, fun v s' h => by cases h⟩
      have e0 := h0 m hm
      simp only [abs] at e0
      simp only [Spec.evalAlts, e0, abs]

/-- the closure loop: stable in both the recursion fuel and the loop counter of the reference -/
theorem evalLoop_post {body : St → Global → Out Parsed} {sbody : Nat → St → SOut Parsed} {fields}
    (hbody : ∀ s g r g', body s g = some (r, g') → WfSt inp s → Good env u inp g →
      Post env u inp (fun m => sbody m (clr s)) r g') :
    ∀ k iters acc s g r g', evalLoop body fields k iters acc s g = some (r, g') →
      WfSt inp s → Good env u inp g →
      (∃ m0, ∀ m c, m0 ≤ m → m0 ≤ c →
        Spec.evalLoop (sbody m) fields c iters acc (clr s) = some (abs r)) ∧
      Good env u inp g' ∧ (∀ v s', r = .ok v s' → WfSt inp s') := by
  intro k
  induction k with
  | zero => intro iters acc s g r g' h; simp [evalLoop] at h
  | succ k ih =>
    intro iters acc s g r g' h hw hg
    simp only [evalLoop] at h
    split at h
    · cases h
    · rename_i r0 s0 g0 hx
      obtain ⟨⟨m0, h0⟩, hg0, hw0⟩ := hbody _ _ _ _ hx hw hg
      split at h
      · rename_i acc' hacc
        obtain ⟨⟨m1, h1⟩, hg1, hw1⟩ := ih _ _ _ _ _ _ h (hw0 _ _ rfl) hg0
        refine ⟨⟨max m0 m1 + 1, fun m c hm hc => ?_⟩, hg1, hw1⟩
        obtain ⟨c', rfl⟩ : ∃ c', c = c' + 1 := ⟨c - 1, by omega⟩
        have e0 := h0 m (by omega)
        have e1 := h1 m c' (by omega) (by omega)
        simp only [abs] at e0
        simp only [Spec.evalLoop, e0, hacc]
        exact e1
      · rename_i msg hacc
        simp only [Option.some.injEq, Prod.mk.injEq] at h
        obtain ⟨rfl, rfl⟩ := h
        refine ⟨⟨m0 + 1, fun m c hm hc => ?_⟩, hg0, fun v s' h => by cases h⟩
        obtain ⟨c', rfl⟩ : ∃ c', c = c' + 1 := ⟨c - 1, by omega⟩
        have e0 := h0 m (by omega)
        simp only [abs] at e0
        simp only [Spec.evalLoop, e0, hacc, abs]
    · rename_i e0 g0 hx
      obtain ⟨⟨m0, h0⟩, hg0, _⟩ := hbody _ _ _ _ hx hw hg
      simp only [Option.some.injEq, Prod.mk.injEq] at h
      obtain ⟨rfl, rfl⟩ := h
      refine ⟨⟨m0 + 1, fun m c hm hc => ?_⟩, hg0,
        fun v s' h => by cases h; exact wf_recordError.mpr hw⟩
      obtain ⟨c', rfl⟩ : ∃ c', c = c' + 1 := ⟨c - 1, by omega⟩
      have e0 := h0 m (by omega)
      simp only [abs] at e0
      simp only [Spec.evalLoop, e0, abs, clr_recordError]
    · rename_i msg g0 hx
      obtain ⟨⟨m0, h0⟩, hg0, _⟩ := hbody _ _ _ _ hx hw hg
      simp only [Option.some.injEq, Prod.mk.injEq] at h
      obtain ⟨rfl, rfl⟩ := h
      refine ⟨⟨m0 + 1, fun m c hm hc => ?_⟩, hg0, fun v s' h => by cases h⟩
      obtain ⟨c', rfl⟩ : ∃ c', c = c' + 1 := ⟨c - 1, by omega⟩
      have e0 := h0 m (by omega)
      simp only [abs] at e0
      simp only [Spec.evalLoop, e0, abs]

/-- a terminal matcher under `generate_skip_ws` -/
theorem terminal_post {α} {rec : Rec} (hrec : Ref env u inp rec) {ctx : Ctx} {s : St} {g : Global}
    {mt : St → Res α} {r : Res Parsed} {g' : Global}
    (habs : ∀ s, abs (mt (clr s)) = abs (mt s))
    (hwf : ∀ s v s', WfSt inp s → mt s = .ok v s' → WfSt inp s')
    (h : Peg.withSkipWs rec ctx s g (fun s g => some ((mt s).map (fun _ => ([] : Parsed)), g)) = some (r, g'))
    (hw : WfSt inp s) (hg : Good env u inp g) :
    Post env u inp (fun m => Spec.withSkipWs (Spec.eval env u m) ctx (clr s)
      (fun s => some (abs ((mt s).map (fun _ => ([] : Parsed)))))) r g' := by
  refine withSkipWs_post (fk := fun _ s => some (abs ((mt s).map (fun _ => ([] : Parsed))))) hrec h hw hg ?_
  intro s1 g1 r g' h hw1 hg1
  simp only [Option.some.injEq, Prod.mk.injEq] at h
  obtain ⟨rfl, rfl⟩ := h
  refine Post.const (fun _ => ?_) hg1 ?_
  · simp only [abs_map, habs]
  · intro v s' h
    obtain ⟨v0, hv0⟩ := map_ok h
    exact hwf _ _ _ hw1 hv0

theorem stepExpr_post {rec : Rec} (hrec : Ref env u inp rec) (n : Nat) {ctx e s g r g'}
    (h : stepExpr env rec n ctx e s g = some (r, g')) (hw : WfSt inp s) (hg : Good env u inp g) :
    Post env u inp (fun m => Spec.stepExpr env (Spec.eval env u m) m ctx e (clr s)) r g' := by
  cases e with
  | choice alts =>
    match alts with
    | [] =>
      simp only [stepExpr, Option.some.injEq, Prod.mk.injEq] at h
      obtain ⟨rfl, rfl⟩ := h
      exact Post.panic (fun _ => rfl) hg
    | [a] =>
      simp only [stepExpr] at h
      exact hrec.expr _ _ _ _ _ _ h hw hg
    | a :: b :: rest =>
      simp only [stepExpr] at h
      exact evalAlts_post hrec _ _ _ _ _ h hw hg
  | seq parts =>
    match parts with
    | [] =>
      simp only [stepExpr, Option.some.injEq, Prod.mk.injEq] at h
      obtain ⟨rfl, rfl⟩ := h
      exact Post.const (fun _ => rfl) hg (fun v s' h => by cases h; exact hw)
    | [a] =>
      simp only [stepExpr] at h
      exact hrec.expr _ _ _ _ _ _ h hw hg
    | a :: b :: rest =>
      simp only [stepExpr] at h
      simp only [Spec.stepExpr]
      refine bindR_post (fk := fun _ x s' =>
          match project (filterRuleFields ctx.ruleFields (ownFields env (.seq (a :: b :: rest)))) x.2 with
          | .ok p => some (.ok p s')
          | .error m => some (.panic ("codegen: " ++ m))) h
        (fun rx gx hx => evalSeq_post hrec _ _ _ _ _ _ _ hx hw hg) ?_
      intro v s1 g1 r g' h hw1 hg1
      obtain ⟨seen, acc⟩ := v
      simp only at h
      split at h
      · rename_i p hp
        simp only [Option.some.injEq, Prod.mk.injEq] at h
        obtain ⟨rfl, rfl⟩ := h
        exact Post.const (fun _ => by simp only [hp, abs]) hg1 (fun v s' h => by cases h; exact hw1)
      · rename_i msg hp
        simp only [Option.some.injEq, Prod.mk.injEq] at h
        obtain ⟨rfl, rfl⟩ := h
        exact Post.panic (fun _ => by simp only [hp]) hg1
  | group b =>
    simp only [stepExpr] at h
    exact hrec.expr _ _ _ _ _ _ h hw hg
  | opt b =>
    simp only [stepExpr] at h
    split at h
    · cases h
    · rename_i r0 s0 g0 hx
      obtain ⟨⟨m0, h0⟩, hg0, hw0⟩ := hrec.expr _ _ _ _ _ _ hx hw hg
      simp only [Option.some.injEq, Prod.mk.injEq] at h
      obtain ⟨rfl, rfl⟩ := h
      refine ⟨⟨m0, fun m hm => ?_⟩, hg0, hw0⟩
      have e0 := h0 m hm
      simp only [abs] at e0
      simp only [Spec.stepExpr, e0, abs]
    · rename_i e0 g0 hx
      obtain ⟨⟨m0, h0⟩, hg0, _⟩ := hrec.expr _ _ _ _ _ _ hx hw hg
      split at h
      · rename_i p hp
        simp only [Option.some.injEq, Prod.mk.injEq] at h
        obtain ⟨rfl, rfl⟩ := h
        refine ⟨⟨m0, fun m hm => ?_⟩, hg0, fun v s' h => by cases h; exact wf_recordError.mpr hw⟩
        have e0 := h0 m hm
        simp only [abs] at e0
        simp only [Spec.stepExpr, e0, hp, abs, clr_recordError]
      · rename_i msg hp
        simp only [Option.some.injEq, Prod.mk.injEq] at h
        obtain ⟨rfl, rfl⟩ := h
        refine ⟨⟨m0, fun m hm => ?_⟩, hg0, fun v s' h => by cases h⟩
        have e0 := h0 m hm
        simp only [abs] at e0
        simp only [Spec.stepExpr, e0, hp, abs]
    · rename_i msg g0 hx
      obtain ⟨⟨m0, h0⟩, hg0, _⟩ := hrec.expr _ _ _ _ _ _ hx hw hg
      simp only [Option.some.injEq, Prod.mk.injEq] at h
      obtain ⟨rfl, rfl⟩ := h
      refine ⟨⟨m0, fun m hm => ?_⟩, hg0, fun v s' h => by cases h⟩
      have e0 := h0 m hm
      simp only [abs] at e0
      simp only [Spec.stepExpr, e0, abs]
  | closure b plus =>
    simp only [stepExpr] at h
    split at h
    · rename_i msg hinit
      simp only [Option.some.injEq, Prod.mk.injEq] at h
      obtain ⟨rfl, rfl⟩ := h
      exact Post.panic (fun _ => by simp only [Spec.stepExpr, hinit]) hg
    · rename_i init hinit
      cases hl : evalLoop (rec.expr ctx b) (filterRuleFields ctx.ruleFields (ownFields env b)) n 0 init s g with
      | none => simp [hl, bindR] at h
      | some a =>
        obtain ⟨rl, gl⟩ := a
        obtain ⟨⟨m0, h0⟩, hgl, hwl⟩ :=
          evalLoop_post (sbody := fun m => (Spec.eval env u m).expr ctx b)
            (fun s g r g' hx hw hg => hrec.expr _ _ _ _ _ _ hx hw hg) _ _ _ _ _ _ _ hl hw hg
        rw [hl] at h
        cases rl with
        | ok v sl =>
          obtain ⟨iters, acc⟩ := v
          simp only [bindR] at h
          split at h
          · rename_i hc
            simp only [Option.some.injEq, Prod.mk.injEq] at h
            obtain ⟨rfl, rfl⟩ := h
            refine ⟨⟨m0, fun m hm => ?_⟩, hgl, fun v s' h => by cases h⟩
            have e0 := h0 m m hm hm
            simp only [abs] at e0
            simp only [Spec.stepExpr, hinit, e0, bindS, hc, if_true, abs]
          · rename_i hc
            simp only [Option.some.injEq, Prod.mk.injEq] at h
            obtain ⟨rfl, rfl⟩ := h
            refine ⟨⟨m0, fun m hm => ?_⟩, hgl, fun v s' h => by cases h; exact hwl _ _ rfl⟩
            have e0 := h0 m m hm hm
            simp only [abs] at e0
            simp only [Spec.stepExpr, hinit, e0, bindS, hc, abs]
            rfl
        | err e =>
          simp only [bindR, Option.some.injEq, Prod.mk.injEq] at h
          obtain ⟨rfl, rfl⟩ := h
          refine ⟨⟨m0, fun m hm => ?_⟩, hgl, fun v s' h => by cases h⟩
          have e0 := h0 m m hm hm
          simp only [abs] at e0
          simp only [Spec.stepExpr, hinit, e0, bindS, abs]
        | panic msg =>
          simp only [bindR, Option.some.injEq, Prod.mk.injEq] at h
          obtain ⟨rfl, rfl⟩ := h
          refine ⟨⟨m0, fun m hm => ?_⟩, hgl, fun v s' h => by cases h⟩
          have e0 := h0 m m hm hm
          simp only [abs] at e0
          simp only [Spec.stepExpr, hinit, e0, bindS, abs]
  | neg b =>
    simp only [stepExpr] at h
    split at h
    · cases h
    · rename_i r0 s0 g0 hx
      obtain ⟨⟨m0, h0⟩, hg0, _⟩ := hrec.expr _ _ _ _ _ _ hx hw hg
      simp only [Option.some.injEq, Prod.mk.injEq] at h
      obtain ⟨rfl, rfl⟩ := h
      refine ⟨⟨m0, fun m hm => ?_⟩, hg0, fun v s' h => by cases h⟩
      have e0 := h0 m hm
      simp only [abs] at e0
      simp only [Spec.stepExpr, e0, abs]
    · rename_i e0 g0 hx
      obtain ⟨⟨m0, h0⟩, hg0, _⟩ := hrec.expr _ _ _ _ _ _ hx hw hg
      simp only [Option.some.injEq, Prod.mk.injEq] at h
      obtain ⟨rfl, rfl⟩ := h
      refine ⟨⟨m0, fun m hm => ?_⟩, hg0, fun v s' h => by cases h; exact hw⟩
      have e0 := h0 m hm
      simp only [abs] at e0
      simp only [Spec.stepExpr, e0, abs]
    · rename_i msg g0 hx
      obtain ⟨⟨m0, h0⟩, hg0, _⟩ := hrec.expr _ _ _ _ _ _ hx hw hg
      simp only [Option.some.injEq, Prod.mk.injEq] at h
      obtain ⟨rfl, rfl⟩ := h
      refine ⟨⟨m0, fun m hm => ?_⟩, hg0, fun v s' h => by cases h⟩
      have e0 := h0 m hm
      simp only [abs] at e0
      simp only [Spec.stepExpr, e0, abs]
  | pos b =>
    simp only [stepExpr] at h
    simp only [Spec.stepExpr]
    refine bindR_post (fk := fun _ _ _ => some (.ok [] (clr s))) h
      (fun rx gx hx => hrec.expr _ _ _ _ _ _ hx hw hg) ?_
    intro v s1 g1 r g' h hw1 hg1
    simp only [Option.some.injEq, Prod.mk.injEq] at h
    obtain ⟨rfl, rfl⟩ := h
    exact Post.const (fun _ => rfl) hg1 (fun v s' h => by cases h; exact hw)
  | range lo hi =>
    simp only [stepExpr] at h
    simp only [Spec.stepExpr]
    split at h
    · rename_i lo' hi' hlo hhi
      simp only [hlo, hhi]
      exact terminal_post hrec (fun s => abs_parseCharacterRange s lo' hi')
        (fun s v s' hw h => wf_parseCharacterRange hw h) h hw hg
    · rename_i hne
      simp only [Option.some.injEq, Prod.mk.injEq] at h
      obtain ⟨rfl, rfl⟩ := h
      refine Post.panic (fun _ => ?_) hg
      split
      · rename_i lo' hi' hlo hhi; exact absurd hhi (hne _ _ hlo)
      · rfl
  | lit ins body =>
    simp only [stepExpr] at h
    simp only [Spec.stepExpr]
    split at h
    · rename_i mt hmt
      simp only [hmt]
      cases mt with
      | charLit c =>
        exact terminal_post hrec (fun s => abs_parseCharacterLiteral s c)
          (fun s v s' hw h => wf_parseCharacterLiteral hw h) h hw hg
      | strLit l =>
        exact terminal_post hrec (fun s => abs_parseStringLiteral s l)
          (fun s v s' hw h => wf_parseStringLiteral hw h) h hw hg
      | charLitI c =>
        exact terminal_post hrec (fun s => abs_parseCharacterLiteralInsensitive s c)
          (fun s v s' hw h => wf_parseCharacterLiteralInsensitive hw h) h hw hg
      | strLitI l =>
        exact terminal_post hrec (fun s => abs_parseStringLiteralInsensitive s l)
          (fun s v s' hw h => wf_parseStringLiteralInsensitive hw h) h hw hg
    · rename_i hne
      simp only [Option.some.injEq, Prod.mk.injEq] at h
      obtain ⟨rfl, rfl⟩ := h
      refine Post.panic (fun _ => ?_) hg
      split
      · rename_i mt hmt; exact absurd hmt (hne _)
      · rfl
  | eoi =>
    simp only [stepExpr] at h
    simp only [Spec.stepExpr]
    exact terminal_post hrec abs_parseEndOfInput (fun s v s' hw h => wf_parseEndOfInput hw h) h hw hg
  | incl r0 =>
    simp only [stepExpr] at h
    simp only [Spec.stepExpr]
    split at h
    · rename_i hf
      simp only [Option.some.injEq, Prod.mk.injEq] at h
      obtain ⟨rfl, rfl⟩ := h
      exact Post.panic (fun _ => by simp only [hf]) hg
    · rename_i hf
      simp only [hf]
      exact hrec.expr _ _ _ _ _ _ h hw hg
  | field name boxed typ =>
    simp only [stepExpr] at h
    simp only [Spec.stepExpr]
    refine withSkipWs_post (fk := fun m s =>
        bindS ((Spec.eval env u m).rule typ s) fun v s' =>
          match name with
          | none => some (.ok [] s')
          | some nm =>
            match postprocessField ctx.ruleFields nm.key typ v with
            | .ok fv => some (.ok [(nm.key, fv)] s')
            | .error m => some (.panic ("codegen: " ++ m))) hrec h hw hg ?_
    intro s1 g1 r g' h hw1 hg1
    refine bindR_post (fk := fun _ v s' =>
          match name with
          | none => some (.ok [] s')
          | some nm =>
            match postprocessField ctx.ruleFields nm.key typ v with
            | .ok fv => some (.ok [(nm.key, fv)] s')
            | .error m => some (.panic ("codegen: " ++ m))) h
      (fun rx gx hx => hrec.rule _ _ _ _ _ hx hw1 hg1) ?_
    intro v s2 g2 r g' h hw2 hg2
    cases name with
    | none =>
      simp only [Option.some.injEq, Prod.mk.injEq] at h
      obtain ⟨rfl, rfl⟩ := h
      exact Post.const (fun _ => rfl) hg2 (fun v s' h => by cases h; exact hw2)
    | some nm =>
      simp only at h
      split at h
      · rename_i fv hfv
        simp only [Option.some.injEq, Prod.mk.injEq] at h
        obtain ⟨rfl, rfl⟩ := h
        exact Post.const (fun _ => by simp only [hfv, abs]) hg2 (fun v s' h => by cases h; exact hw2)
      · rename_i msg hfv
        simp only [Option.some.injEq, Prod.mk.injEq] at h
        obtain ⟨rfl, rfl⟩ := h
        exact Post.panic (fun _ => by simp only [hfv]) hg2

end
end Peg
