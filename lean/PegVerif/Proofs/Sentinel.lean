import PegVerif.Eval
import PegVerif.Proofs.Basics
import PegVerif.Proofs.Attempts
import PegVerif.Proofs.LeftRec
import PegVerif.Proofs.Termination
/-
  C10, last clause – "the reported detail is never the internal left-recursion sentinel when
  left-recursive rules list their recursive alternatives first" – for grammars WITH `@leftrec`
  (and `@memoize`) rules.  (`Attempts.lean` proves it for grammars without either.)

  * Part 1: the decidable syntactic condition `RecFirst g settings lvl fuel` (`SN.chk`, `SN.prog`).
  * Part 2: the semantic invariant (`GoodSt`, `CInv`, `Act`, `Pre`, `Post`, `Tri`).
  * Part 3: the invariant is preserved by every construct (`SInv`, `step_sinv`, `eval_sinv`;
    the grow loop: `growLoop_sn`, `memoBody_leftrec_sn`; `@memoize`: `memoBody_memo_sn`).
  * Part 4: `C10_no_sentinel` (main theorem), `C10_no_sentinel_flat`, `C10_no_sentinel_success`,
    `C10_no_sentinel_cache`; `RecFirst.of_shape` (the shape "recursive alternatives, then base
    alternatives" passes the check).
  * Part 5: examples, all kernel-checked by `decide`: four grammars that satisfy the hypotheses, with
    failing inputs; and grammars showing that each side condition is necessary – base alternative
    first, no base alternative, recursion behind a lookahead, mutual recursion ending in the other
    rule, and a `@memoize` rule inside the recursion (the sentinel IS reported in all of them).

  How the argument goes.  The sentinel failure `⟨p, leftRecursionSentinel⟩` exists only as the seed
  planted in the cache under `(R, p)` before the first body evaluation of the grow loop of `R` at `p`
  (`Act g (R, p)`), and in copies of it.  Invariants (under the side condition):
  * seeds lie at or before the cursor (`ActLe`); evaluation never adds sentinel entries to the cache
    (`SentSub`); when a grow loop ends its seed has been replaced by a non-sentinel answer;
  * a failure that is the sentinel lies exactly at the offset the construct started from, and a seed
    is planted there (`ErrOK`) – so after consuming input no failure is the sentinel;
  * a stored `farthest_error` that is the sentinel lies at or before the cursor (`GoodSt`), hence
    every later real failure (recorded at the cursor or beyond) replaces it (`record_error` uses `≤`);
  * the only failure of a choice that can be the sentinel is that of its *last* alternative (an
    earlier sentinel at the start offset is replaced by any later failure).
  The side condition makes the last alternative of a `@leftrec` body a *base* alternative: it cannot
  hit a planted seed (level discipline `Pre`), so the body never fails with the sentinel, so no
  sentinel is ever cached as a final answer.  No purity assumption on the hooks is needed.
-/
namespace Peg

/-! ## Part 1: the syntactic condition -/

namespace SN

/-- "every successful match consumes at least one byte" – conservative (`false` when the fuel runs
    out, for references to `@leftrec` / `@memoize` / `@extern` rules, lookaheads, `?`, `*`, `$`). -/
def progRule (g : Grammar) (pe : Expr → Bool) (name : String) : Bool :=
  match g.find name with
  | some (.rule r) => !r.flags.leftRecursive && !r.flags.memoize && pe r.definition
  | some (.charRule cr) => cr.choices.all fun p => match p with
      | .ident n => pe (.field none false n)
      | _ => true
  | some (.externRule _) => false
  | none => name == "char"

def prog (g : Grammar) : Nat → Expr → Bool
  | 0, _ => false
  | d+1, e =>
    match e with
    | .choice alts => alts.all (prog g d)
    | .seq parts => parts.any (prog g d)
    | .group b => prog g d b
    | .closure b plus => plus && prog g d b
    | .range _ _ => true
    | .lit ins body =>
      (match compileLit ins body with
       | .ok m => !m.nullable
       | _ => true)
    | .incl r =>
      (match g.findRule r with
       | some rule => prog g d rule.definition
       | none => true)
    | .field _ _ typ => progRule g (prog g d) typ
    | _ => false

/-- the check of a rule reference.  `m` bounds the levels of the `@leftrec` rules whose seed may be
    planted at the current offset (all of them have level `< m`); `b` ("strict"): a failure of this
    reference may become the failure of the enclosing `@leftrec` body. -/
def chkRule (g : Grammar) (st : Settings) (lvl : String → Nat) (m : Nat) (b : Bool)
    (ce : Bool → Bool → Expr → Bool) (name : String) : Bool :=
  match g.find name with
  | some (.rule r) =>
    if r.flags.leftRecursive then
      (if b then decide (m ≤ lvl r.name) else decide (m ≤ lvl r.name + 1))
    else if r.flags.memoize then
      decide (m ≤ lvl r.name) && ce (st.skipWhitespace && !r.flags.noSkipWs) true r.definition
    else ce (st.skipWhitespace && !r.flags.noSkipWs) b r.definition
  | some (.charRule cr) => cr.choices.all fun p => match p with
      | .ident n => ce false false (.field none false n)
      | _ => true
  | _ => true

/-- alternatives: only the failure of the last one can become the failure of the choice -/
def chkAlts (ce : Bool → Expr → Bool) (b : Bool) : List Expr → Bool
  | [] => true
  | [a] => ce b a
  | a :: a' :: as => ce false a && chkAlts ce b (a' :: as)

/-- sequence parts: everything after a part that certainly consumes input is unconstrained -/
def chkSeq (ce : Bool → Expr → Bool) (pr : Expr → Bool) (b : Bool) : List Expr → Bool
  | [] => true
  | p :: ps => ce b p && (pr p || chkSeq ce pr b ps)

/-- `chk g st lvl d m w b e`: fuel `d` (AST depth + rule unfoldings), level bound `m`, `w`: the
    enclosing rule skips whitespace, `b`: strict. -/
def chk (g : Grammar) (st : Settings) (lvl : String → Nat) : Nat → Nat → Bool → Bool → Expr → Bool
  | 0, _, _, _, _ => false
  | d+1, m, w, b, e =>
    match e with
    | .choice alts => chkAlts (chk g st lvl d m w) b alts
    | .seq parts => chkSeq (chk g st lvl d m w) (prog g d) b parts
    | .group x => chk g st lvl d m w b x
    | .opt x => chk g st lvl d m w false x
    | .closure x plus => chk g st lvl d m w (b && plus) x
    | .neg x => chk g st lvl d m w false x
    | .pos x => chk g st lvl d m w b x
    | .range _ _ => !w || chkRule g st lvl m b (chk g st lvl d m) "Whitespace"
    | .lit _ _ => !w || chkRule g st lvl m b (chk g st lvl d m) "Whitespace"
    | .eoi => !w || chkRule g st lvl m b (chk g st lvl d m) "Whitespace"
    | .incl r =>
      (match g.findRule r with
       | some rule => chk g st lvl d m w b rule.definition
       | none => true)
    | .field _ _ typ =>
      (!w || chkRule g st lvl m b (chk g st lvl d m) "Whitespace")
        && chkRule g st lvl m b (chk g st lvl d m) typ

end SN

/-- **the side condition** (decidable).  The body of every `@leftrec` rule `R` passes the check
    `chk` in strict mode at bound `lvl R + 1`, where `lvl` assigns precedence levels to rule names and
    `fuel` bounds AST depth + rule unfoldings of the analysis.

    `chk … m w b e` walks the positions of `e` that can be reached *before input is consumed*
    (through rule references and includes; everything after a sequence part that certainly consumes
    input – `prog` – is unconstrained).  *Strict* positions (`b = true`) are those whose failure can
    become the failure of the body: the last alternative of a choice, the parts of a sequence, the body
    of `+`, of a positive lookahead, of a group, of an include, of a referenced ordinary rule.  The
    other alternatives of a choice and the bodies of `?`, `*`, `!` are non-strict.  The requirements:
    * a reference to a `@leftrec` rule `R'`: `m ≤ lvl R'` in a strict position (for the body of `R`:
      `lvl R < lvl R'`), `m ≤ lvl R' + 1` in a non-strict one (`lvl R ≤ lvl R'`);
    * a reference to a `@memoize` rule `M`: `m ≤ lvl M`, and the body of `M` passes the strict check;
    * `@char` rules: their identifier parts are checked non-strictly; `@extern` rules, builtins and
      terminals pass (after the `Whitespace` rule, if the enclosing rule skips whitespace and the
      grammar defines one, passed the check).

    For `lvl = fun _ => 0` and a body `R = a₁ | … | aₙ` this says: the last alternative `aₙ` reaches
    no `@leftrec` rule (and no `@memoize` rule) in a strict position before consuming input – it is a
    *base* alternative, "the recursive alternatives come first"; the other alternatives may start
    with any `@leftrec` reference (`RecFirst.of_shape`).  A non-constant `lvl` admits precedence towers
    `E = E '+' T | T;  T = T '*' F | F` (`lvl E < lvl T`). -/
def RecFirst (g : Grammar) (st : Settings) (lvl : String → Nat) (fuel : Nat) : Bool :=
  g.rules.all fun e => match e with
    | .rule r => !r.flags.leftRecursive ||
        SN.chk g st lvl fuel (lvl r.name + 1) (st.skipWhitespace && !r.flags.noSkipWs) true r.definition
    | _ => true

/-! ## Part 2: the semantic invariant -/

namespace SN

/-- the error is the left-recursion sentinel -/
def IsSent (e : PErr) : Prop := e.spec = .leftRecursionSentinel

/-- a stored sentinel lies at or before the cursor: the next real failure replaces it -/
def GoodSt (s : St) : Prop := ∀ f, s.far = some f → IsSent f → f.pos ≤ s.off

/-- the cache answers `k` with a sentinel failure (a planted seed that has not been replaced yet) -/
def Act (g : Global) (k : String × Nat) : Prop := ∃ e, g.lookup k = some (.err e) ∧ IsSent e

def ActAt (g : Global) (q : Nat) : Prop := ∃ R, Act g (R, q)

/-- planted seeds lie at or before `q` -/
def ActLe (g : Global) (q : Nat) : Prop := ∀ k, Act g k → k.2 ≤ q

/-- no new sentinel entries -/
def SentSub (g' g : Global) : Prop := ∀ k, Act g' k → Act g k

structure CInv (g : Global) : Prop where
  ok : ∀ k v ns, g.lookup k = some (.ok v ns) → k.2 ≤ ns.off ∧ GoodSt ns
  err : ∀ k e, g.lookup k = some (.err e) → k.2 ≤ e.pos ∧ (IsSent e → e.pos = k.2)

/-- the rules whose seed is planted at offset `q` all have a level below `m` -/
def Pre (lvl : String → Nat) (m : Nat) (q : Nat) (g : Global) : Prop := ∀ R, Act g (R, q) → lvl R < m

structure Hyp (s : St) (g : Global) : Prop where
  good : GoodSt s
  cinv : CInv g
  le : ActLe g s.off

/-- a failure lies at/after the start offset; if it is the sentinel, it lies *at* the start offset and
    some seed is planted there -/
def ErrOK (g : Global) (q : Nat) (e : PErr) : Prop := q ≤ e.pos ∧ (IsSent e → e.pos = q ∧ ActAt g q)

def Post (s : St) (g : Global) {α} (res : Res α) (g' : Global) : Prop :=
  match res with
  | .ok _ s' => s.off ≤ s'.off ∧ GoodSt s' ∧ SentSub g' g ∧ CInv g'
  | .err e => ErrOK g s.off e ∧ SentSub g' g ∧ CInv g'
  | .panic _ => True

/-- the triple: under `Hyp` and `Pre m`, the result satisfies `Post`; if `b`, a failure is not the
    sentinel; if `p`, a success consumes input -/
def Tri (lvl : String → Nat) (m : Nat) (b : Bool) (p : Prop) (s : St) {α} (f : Global → Out α) : Prop :=
  ∀ g res g', f g = some (res, g') → Hyp s g → Pre lvl m s.off g →
    Post s g res g' ∧ (b = true → ∀ e, res = .err e → ¬ IsSent e) ∧
      (p → ∀ v s', res = .ok v s' → s.off < s'.off)

/-! ### basic facts -/

theorem SentSub.refl (g : Global) : SentSub g g := fun _ h => h
theorem SentSub.trans {a b c : Global} (h1 : SentSub a b) (h2 : SentSub b c) : SentSub a c :=
  fun k h => h2 k (h1 k h)

theorem act_of_cache {g g' : Global} (h : g'.cache = g.cache) {k} : Act g' k ↔ Act g k := by
  unfold Act; rw [LR.lookup_of_cache_eq h]

theorem sentSub_of_cache {g g' : Global} (h : g'.cache = g.cache) : SentSub g' g :=
  fun _ hk => (act_of_cache h).1 hk

theorem sentSub_of_cache' {g g' : Global} (h : g'.cache = g.cache) : SentSub g g' :=
  fun _ hk => (act_of_cache h).2 hk

theorem cinv_of_cache {g g' : Global} (hc : CInv g) (h : g'.cache = g.cache) : CInv g' :=
  ⟨fun k v ns hl => hc.ok k v ns (by rw [← LR.lookup_of_cache_eq h]; exact hl),
   fun k e hl => hc.err k e (by rw [← LR.lookup_of_cache_eq h]; exact hl)⟩

theorem hyp_of_cache {s : St} {g g' : Global} (hh : Hyp s g) (h : g'.cache = g.cache) : Hyp s g' :=
  ⟨hh.good, cinv_of_cache hh.cinv h, fun k hk => hh.le k ((act_of_cache h).1 hk)⟩

theorem pre_of_cache {lvl m q} {g g' : Global} (hp : Pre lvl m q g) (h : g'.cache = g.cache) :
    Pre lvl m q g' := fun R hk => hp R ((act_of_cache h).1 hk)

theorem Pre.mono {lvl m m' q} {g : Global} (hp : Pre lvl m q g) (hm : m ≤ m') : Pre lvl m' q g :=
  fun R hk => Nat.lt_of_lt_of_le (hp R hk) hm

theorem actAt_of_cache {g g' : Global} (h : g'.cache = g.cache) {q} (ha : ActAt g q) : ActAt g' q := by
  obtain ⟨R, hR⟩ := ha
  exact ⟨R, (act_of_cache h).2 hR⟩

theorem ErrOK.sub {g g1 : Global} {q e} (h : ErrOK g1 q e) (hs : SentSub g1 g) : ErrOK g q e :=
  ⟨h.1, fun he => ⟨(h.2 he).1, by obtain ⟨R, hR⟩ := (h.2 he).2; exact ⟨R, hs _ hR⟩⟩⟩

/-- the cursor may move on, the cache may lose seeds -/
theorem pre_next {lvl m} {s : St} {g g1 : Global} {q1 : Nat} (hh : Hyp s g) (hp : Pre lvl m s.off g)
    (hs : SentSub g1 g) (hq : s.off ≤ q1) : Pre lvl m q1 g1 := by
  intro R hR
  have h1 := hs _ hR
  have h2 : q1 ≤ s.off := hh.le _ h1
  have h3 : q1 = s.off := Nat.le_antisymm h2 hq
  rw [h3] at h1
  exact hp R h1

/-- after consuming input no seed is planted at the cursor -/
theorem pre_zero {lvl} {s : St} {g g1 : Global} {q1 : Nat} (hh : Hyp s g)
    (hs : SentSub g1 g) (hq : s.off < q1) : Pre lvl 0 q1 g1 := by
  intro R hR
  have h2 : q1 ≤ s.off := hh.le _ (hs _ hR)
  omega

theorem hyp_next {s s1 : St} {g g1 : Global} (hh : Hyp s g) (ho : s.off ≤ s1.off) (hg : GoodSt s1)
    (hs : SentSub g1 g) (hc : CInv g1) : Hyp s1 g1 :=
  ⟨hg, hc, fun k hk => Nat.le_trans (hh.le k (hs k hk)) ho⟩

theorem Post.hyp {α} {s s1 : St} {g g1 : Global} {v : α} (hh : Hyp s g) (h : Post s g (.ok v s1) g1) :
    Hyp s1 g1 := hyp_next hh h.1 h.2.1 h.2.2.1 h.2.2.2

/-- composition: a success followed by anything -/
theorem Post.trans {α β} {s s1 : St} {g g1 g' : Global} {v : α} {res : Res β} (hh : Hyp s g)
    (h1 : Post s g (.ok v s1) g1) (h2 : Post s1 g1 res g') : Post s g res g' := by
  obtain ⟨ho, _, hs, _⟩ := h1
  cases res with
  | ok v' s' =>
    obtain ⟨ho2, hg2, hs2, hc2⟩ := h2
    exact ⟨Nat.le_trans ho ho2, hg2, hs2.trans hs, hc2⟩
  | err e =>
    obtain ⟨⟨hp, hse⟩, hs2, hc2⟩ := h2
    refine ⟨⟨Nat.le_trans ho hp, fun he => ?_⟩, hs2.trans hs, hc2⟩
    obtain ⟨hpos, R, hR⟩ := hse he
    have h3 : s1.off ≤ s.off := hh.le _ (hs _ hR)
    have h4 : s1.off = s.off := Nat.le_antisymm h3 ho
    rw [h4] at hpos hR
    exact ⟨hpos, R, hs _ hR⟩
  | panic m => trivial

/-- the result is relative to the original state (lookaheads, failed alternatives) -/
theorem Post.then_same {β} {s : St} {g g1 g' : Global} {res : Res β}
    (hs : SentSub g1 g) (h2 : Post s g1 res g') : Post s g res g' := by
  cases res with
  | ok v' s' =>
    obtain ⟨ho2, hg2, hs2, hc2⟩ := h2
    exact ⟨ho2, hg2, hs2.trans hs, hc2⟩
  | err e =>
    obtain ⟨he, hs2, hc2⟩ := h2
    exact ⟨he.sub hs, hs2.trans hs, hc2⟩
  | panic m => trivial

theorem Post.cache_l {α} {s : St} {g0 g g' : Global} {res : Res α} (hc : g0.cache = g.cache)
    (h : Post s g0 res g') : Post s g res g' :=
  Post.then_same (sentSub_of_cache hc) h

theorem Post.cache_r {α} {s : St} {g g' g'' : Global} {res : Res α} (hc : g''.cache = g'.cache)
    (h : Post s g res g') : Post s g res g'' := by
  cases res with
  | ok v' s' =>
    obtain ⟨ho2, hg2, hs2, hc2⟩ := h
    exact ⟨ho2, hg2, (sentSub_of_cache hc).trans hs2, cinv_of_cache hc2 hc⟩
  | err e =>
    obtain ⟨he, hs2, hc2⟩ := h
    exact ⟨he, (sentSub_of_cache hc).trans hs2, cinv_of_cache hc2 hc⟩
  | panic m => trivial

/-! ### `record_error` / `report_error` on good states -/

theorem goodSt_of_far {s s' : St} (hf : s'.far = s.far) (ho : s.off ≤ s'.off) (h : GoodSt s) : GoodSt s' :=
  fun f hf' hs => Nat.le_trans (h f (by rw [← hf]; exact hf') hs) ho

theorem goodSt_new (inp : List UInt8) : GoodSt (St.new inp) := fun f hf => by cases hf

/-- a real `report_error` on a good state is not the sentinel, and lies at/after the cursor -/
theorem reportError_real {s : St} (hg : GoodSt s) {sp : Spec} (hsp : sp ≠ .leftRecursionSentinel) :
    s.off ≤ (s.reportError sp).pos ∧ ¬ IsSent (s.reportError sp) := by
  obtain ⟨rest, off, far⟩ := s
  cases far with
  | none => exact ⟨Nat.le_refl _, hsp⟩
  | some f =>
    simp only [St.reportError, St.recordError]
    split
    · exact ⟨Nat.le_refl _, hsp⟩
    · rename_i hlt
      simp only [St.reportFarthest]
      refine ⟨by omega, fun hs => ?_⟩
      have : f.pos ≤ off := hg f rfl hs
      omega

/-- the seed -/
theorem reportError_seed {s : St} (hg : GoodSt s) :
    s.off ≤ (s.reportError .leftRecursionSentinel).pos ∧
      (IsSent (s.reportError .leftRecursionSentinel) → (s.reportError .leftRecursionSentinel).pos = s.off) := by
  obtain ⟨rest, off, far⟩ := s
  cases far with
  | none => exact ⟨Nat.le_refl _, fun _ => rfl⟩
  | some f =>
    simp only [St.reportError, St.recordError]
    split
    · exact ⟨Nat.le_refl _, fun _ => rfl⟩
    · rename_i hlt
      simp only [St.reportFarthest]
      refine ⟨by omega, fun hs => ?_⟩
      have : f.pos ≤ off := hg f rfl hs
      omega

theorem errOK_real {g : Global} {s : St} (hg : GoodSt s) {sp : Spec} (hsp : sp ≠ .leftRecursionSentinel) :
    ErrOK g s.off (s.reportError sp) :=
  ⟨(reportError_real hg hsp).1, fun h => absurd h (reportError_real hg hsp).2⟩

/-- folding a failure into the state it started from -/
theorem recordError_good {g : Global} {cur : St} {e : PErr} (hg : GoodSt cur) (he : ErrOK g cur.off e) :
    GoodSt (cur.recordError e) ∧
    ∃ f, (cur.recordError e).far = some f ∧ ErrOK g cur.off f ∧ (¬ IsSent e → ¬ IsSent f) := by
  obtain ⟨rest, off, far⟩ := cur
  cases far with
  | none =>
    refine ⟨fun f hf hs => ?_, e, rfl, he, id⟩
    simp only [St.recordError, Option.some.injEq] at hf
    subst hf
    exact Nat.le_of_eq (he.2 hs).1
  | some f0 =>
    simp only [St.recordError]
    split
    · refine ⟨fun f hf hs => ?_, e, rfl, he, id⟩
      simp only [Option.some.injEq] at hf
      subst hf
      exact Nat.le_of_eq (he.2 hs).1
    · rename_i hlt
      refine ⟨hg, f0, rfl, ⟨?_, fun hs => ?_⟩, fun _ hs => ?_⟩
      · have : off ≤ e.pos := he.1
        show off ≤ f0.pos
        omega
      · have h1 : f0.pos ≤ off := hg f0 rfl hs
        have h2 : off ≤ e.pos := he.1
        omega
      · have h1 : f0.pos ≤ off := hg f0 rfl hs
        have h2 : off ≤ e.pos := he.1
        omega

/-! ### cache insertion -/

theorem act_insert_ne {g : Global} {key k : String × Nat} {x : Res Val} (hk : k ≠ key) :
    Act (g.insert key x) k ↔ Act g k := by
  unfold Act; rw [LR.lookup_insert_ne g x hk]

theorem cinv_insert {g : Global} {key : String × Nat} {x : Res Val} (hc : CInv g)
    (hok : ∀ v ns, x = .ok v ns → key.2 ≤ ns.off ∧ GoodSt ns)
    (herr : ∀ e, x = .err e → key.2 ≤ e.pos ∧ (IsSent e → e.pos = key.2)) : CInv (g.insert key x) := by
  constructor
  · intro k v ns hl
    by_cases hk : k = key
    · subst hk
      rw [LR.lookup_insert_self] at hl
      exact hok v ns (Option.some.inj hl)
    · rw [LR.lookup_insert_ne g x hk] at hl
      exact hc.ok k v ns hl
  · intro k e hl
    by_cases hk : k = key
    · subst hk
      rw [LR.lookup_insert_self] at hl
      exact herr e (Option.some.inj hl)
    · rw [LR.lookup_insert_ne g x hk] at hl
      exact hc.err k e hl

/-- replacing an entry by a non-sentinel one removes it from the active set -/
theorem not_act_insert {g : Global} {key : String × Nat} {x : Res Val}
    (hx : ∀ e, x = .err e → ¬ IsSent e) : ¬ Act (g.insert key x) key := by
  rintro ⟨e, hl, hs⟩
  rw [LR.lookup_insert_self] at hl
  exact hx e (Option.some.inj hl) hs

/-! ## Part 3: the invariant is preserved -/

section
variable {lvl : String → Nat}

theorem Tri.congr {m b p s α} {f f' : Global → Out α} (he : ∀ g, f g = f' g) (h : Tri lvl m b p s f') :
    Tri lvl m b p s f := by
  have : f = f' := funext he
  rw [this]; exact h

theorem Tri.weaken {m b b' p p' s α} {f : Global → Out α} (h : Tri lvl m b p s f)
    (hb : b' = true → b = true) (hp : p' → p) : Tri lvl m b' p' s f := by
  intro g res g' hx hh hpre
  obtain ⟨h1, h2, h3⟩ := h g res g' hx hh hpre
  exact ⟨h1, fun hb' => h2 (hb hb'), fun hp' => h3 (hp hp')⟩

/-- at bound `0` no seed is planted at the cursor: no failure is the sentinel -/
theorem Tri.zero_strict {b b' p s α} {f : Global → Out α} (h : Tri lvl 0 b p s f) : Tri lvl 0 b' p s f := by
  intro g res g' hx hh hpre
  obtain ⟨h1, _, h3⟩ := h g res g' hx hh hpre
  refine ⟨h1, fun _ e he hs => ?_, h3⟩
  subst he
  obtain ⟨R, hR⟩ := (h1.1.2 hs).2
  exact Nat.not_lt_zero _ (hpre R hR)

theorem Tri.panic {m b p s α} (msg : String) : Tri lvl m b p s (fun g => some ((.panic msg : Res α), g)) := by
  intro g res g' hx _ _
  cases hx
  exact ⟨trivial, fun _ e he => (by cases he), fun _ v s' he => (by cases he)⟩

/-- a result that does not touch the global object -/
theorem Tri.pure {m b p s α} {r : Res α}
    (hok : ∀ v s', r = .ok v s' → GoodSt s → s.off ≤ s'.off ∧ GoodSt s' ∧ (p → s.off < s'.off))
    (herr : ∀ e, r = .err e → GoodSt s → s.off ≤ e.pos ∧ ¬ IsSent e) :
    Tri lvl m b p s (fun g => some (r, g)) := by
  intro g res g' hx hh _
  cases hx
  cases r with
  | ok v s' =>
    obtain ⟨h1, h2, h3⟩ := hok v s' rfl hh.good
    exact ⟨⟨h1, h2, SentSub.refl _, hh.cinv⟩, fun _ e he => (by cases he),
      fun hp v' s'' he => (by cases he; exact h3 hp)⟩
  | err e =>
    obtain ⟨h1, h2⟩ := herr e rfl hh.good
    exact ⟨⟨⟨h1, fun hs => absurd hs h2⟩, SentSub.refl _, hh.cinv⟩, fun _ e' he => (by cases he; exact h2),
      fun _ v s' he => (by cases he)⟩
  | panic msg => exact ⟨trivial, fun _ e he => (by cases he), fun _ v s' he => (by cases he)⟩

theorem Tri.okSame {m b s α} (v : α) : Tri lvl m b False s (fun g => some (.ok v s, g)) :=
  Tri.pure (fun _ _ he hg => by cases he; exact ⟨Nat.le_refl _, hg, fun h => h.elim⟩)
    (fun _ he => by cases he)

theorem Tri.ite {m b p s α} {c : Prop} [Decidable c] {f f' : Global → Out α} (h1 : Tri lvl m b p s f)
    (h2 : Tri lvl m b p s f') : Tri lvl m b p s (fun g => if c then f g else f' g) := by
  by_cases hc : c
  · simp only [hc, if_true]; exact h1
  · simp only [hc, if_false]; exact h2

/-- sequencing.  The continuation may be checked at bound `0` when the first part consumed input. -/
theorem Tri.bind {m b p p' s α β} {f : Global → Out α} {k : α → St → Global → Out β}
    (hf : Tri lvl m b p s f)
    (hk : ∀ v s1, s.off ≤ s1.off → (p → s.off < s1.off) →
      ∃ m', (m' = m ∨ (m' = 0 ∧ s.off < s1.off)) ∧ Tri lvl m' b p' s1 (k v s1)) :
    Tri lvl m b (p ∨ p') s (fun g => bindR (f g) k) := by
  intro g res g' h hh hpre
  simp only [bindR] at h
  split at h
  · cases h
  · rename_i v s1 g1 heq
    obtain ⟨hpost, _, hprog⟩ := hf _ _ _ heq hh hpre
    have hh1 := hpost.hyp hh
    obtain ⟨m', hm', hk'⟩ := hk v s1 hpost.1 (fun hp => hprog hp v s1 rfl)
    have hpre1 : Pre lvl m' s1.off g1 := by
      rcases hm' with rfl | ⟨rfl, hlt⟩
      · exact pre_next hh hpre hpost.2.2.1 hpost.1
      · exact pre_zero hh hpost.2.2.1 hlt
    obtain ⟨hpost2, hb2, hp2⟩ := hk' _ _ _ h hh1 hpre1
    refine ⟨Post.trans hh hpost hpost2, hb2, fun hpp v' s' he => ?_⟩
    subst he
    have h12 : s1.off ≤ s'.off := hpost2.1
    rcases hpp with hp | hp
    · have := hprog hp v s1 rfl; omega
    · have := hp2 hp v' s' rfl
      have := hpost.1
      omega
  · rename_i e g1 heq
    cases h
    obtain ⟨hpost, hb, _⟩ := hf _ _ _ heq hh hpre
    exact ⟨hpost, fun hb' e' he => (by cases he; exact hb hb' e rfl), fun _ v s' he => (by cases he)⟩
  · rename_i msg g1 heq
    cases h
    exact ⟨trivial, fun _ e he => (by cases he), fun _ v s' he => (by cases he)⟩

/-- the plain form: the continuation is checked at the same bound -/
theorem Tri.bind' {m b p p' s α β} {f : Global → Out α} {k : α → St → Global → Out β}
    (hf : Tri lvl m b p s f) (hk : ∀ v s1, s.off ≤ s1.off → Tri lvl m b p' s1 (k v s1)) :
    Tri lvl m b (p ∨ p') s (fun g => bindR (f g) k) :=
  Tri.bind hf (fun v s1 ho _ => ⟨m, Or.inl rfl, hk v s1 ho⟩)

/-! ### terminal matchers -/

/-- what a terminal matcher does to a good state -/
def TermOK {α} (mt : St → Res α) (nn : Prop) : Prop :=
  ∀ s, GoodSt s →
    (∀ v s', mt s = .ok v s' → s.off ≤ s'.off ∧ GoodSt s' ∧ (nn → s.off < s'.off)) ∧
    (∀ e, mt s = .err e → s.off ≤ e.pos ∧ ¬ IsSent e)

theorem termOK_of {α} {mt : St → Res α} {sp : Spec} {nn : Prop} (hr : Reports mt sp)
    (hsp : sp ≠ .leftRecursionSentinel) (hf : ∀ s L, LR.Within L s → LR.Fwd L s (mt s))
    (hl : nn → ∀ s v s', mt s = .ok v s' → s'.rest.length < s.rest.length) : TermOK mt nn := by
  intro s hg
  constructor
  · intro v s' h
    have hw : LR.Within (s.off + s.rest.length) s := rfl
    obtain ⟨ho, hw'⟩ := hf s _ hw v s' h
    refine ⟨ho, goodSt_of_far ((hr s).1 v s' h) ho hg, fun hn => ?_⟩
    have := hl hn s v s' h
    unfold LR.Within at hw'
    omega
  · intro e h
    rw [(hr s).2 e h]
    exact reportError_real hg hsp

theorem map_err {α β} {f : α → β} {r : Res α} {e} (h : r.map f = .err e) : r = .err e := by
  cases r with
  | ok v0 s0 => simp [Res.map] at h
  | err e0 => simp only [Res.map, Res.err.injEq] at h; rw [h]
  | panic m => simp [Res.map] at h

theorem Tri.term {m b s α β} {mt : St → Res α} {nn : Prop} (ht : TermOK mt nn) (f : α → β) :
    Tri lvl m b nn s (fun g => some ((mt s).map f, g)) := by
  refine Tri.pure (fun v s' he hg => ?_) (fun e he hg => ?_)
  · obtain ⟨v0, h0⟩ := map_ok he
    exact ((ht s hg).1 v0 s' h0)
  · exact (ht s hg).2 e (map_err he)

theorem termOK_parseChar : TermOK parseChar True :=
  termOK_of reports_parseChar (by intro h; cases h) (fun _ _ hw => LR.fwd_parseChar hw)
    (fun _ _ _ _ h => parseChar_len h)

theorem termOK_parseWhitespace : TermOK parseWhitespace False :=
  termOK_of (reports_parseWhitespace .other) (by intro h; cases h) (fun _ _ hw => LR.fwd_parseWhitespace hw)
    (fun h => h.elim)

theorem termOK_parseCharacterLiteral (c : Char) : TermOK (fun s => parseCharacterLiteral s c) True :=
  termOK_of (reports_parseCharacterLiteral c) (by intro h; cases h)
    (fun _ _ hw => LR.fwd_parseCharacterLiteral c hw) (fun _ _ _ _ h => parseCharacterLiteral_len h)

theorem termOK_parseCharacterRange (lo hi : Char) : TermOK (fun s => parseCharacterRange s lo hi) True :=
  termOK_of (reports_parseCharacterRange lo hi) (by intro h; cases h)
    (fun _ _ hw => LR.fwd_parseCharacterRange lo hi hw) (fun _ _ _ _ h => parseCharacterRange_len h)

theorem termOK_parseCharacterLiteralInsensitive (c : Char) :
    TermOK (fun s => parseCharacterLiteralInsensitive s c) True :=
  termOK_of (reports_parseCharacterLiteralInsensitive c) (by intro h; cases h)
    (fun _ _ hw => LR.fwd_parseCharacterLiteralInsensitive c hw)
    (fun _ _ _ _ h => parseCharacterLiteralInsensitive_len h)

theorem termOK_parseStringLiteral (l : List Char) :
    TermOK (fun s => parseStringLiteral s l) (l.isEmpty = false) :=
  termOK_of (reports_parseStringLiteral l) (by intro h; cases h)
    (fun _ _ hw => LR.fwd_parseStringLiteral l hw) (fun hn _ _ _ h => (parseStringLiteral_len h).2 hn)

theorem termOK_parseStringLiteralInsensitive (l : List Char) :
    TermOK (fun s => parseStringLiteralInsensitive s l) (l.isEmpty = false) :=
  termOK_of (reports_parseStringLiteralInsensitive l) (by intro h; cases h)
    (fun _ _ hw => LR.fwd_parseStringLiteralInsensitive l hw)
    (fun hn _ _ _ h => (parseStringLiteralInsensitive_len h).2 hn)

theorem termOK_parseEndOfInput : TermOK parseEndOfInput False :=
  termOK_of reports_parseEndOfInput (by intro h; cases h) (fun _ _ hw => LR.fwd_parseEndOfInput hw)
    (fun h => h.elim)

end

/-! ### the syntactic conditions as propositions (bound `0` needs no check) -/

def ChkE (env : Env) (lvl : String → Nat) (m : Nat) (w b : Bool) (e : Expr) : Prop :=
  m = 0 ∨ ∃ d, chk env.g env.settings lvl d m w b e = true

def ChkR (env : Env) (lvl : String → Nat) (m : Nat) (b : Bool) (name : String) : Prop :=
  m = 0 ∨ ∃ d, chkRule env.g env.settings lvl m b (chk env.g env.settings lvl d m) name = true

def ChkSeq (env : Env) (lvl : String → Nat) (m : Nat) (w b : Bool) (ps : List Expr) : Prop :=
  m = 0 ∨ ∃ d, chkSeq (chk env.g env.settings lvl d m w) (prog env.g d) b ps = true

def ChkAlts (env : Env) (lvl : String → Nat) (m : Nat) (w b : Bool) (as : List Expr) : Prop :=
  m = 0 ∨ ∃ d, chkAlts (chk env.g env.settings lvl d m w) b as = true

def ProgE (env : Env) (e : Expr) : Prop := ∃ d, prog env.g d e = true

def ProgR (env : Env) (name : String) : Prop := ∃ d, progRule env.g (prog env.g d) name = true

section
variable {env : Env} {lvl : String → Nat} {m : Nat} {w b : Bool}

theorem ChkE.choice1 {a} (h : ChkE env lvl m w b (.choice [a])) : ChkE env lvl m w b a := by
  rcases h with h | ⟨d, hd⟩
  · exact Or.inl h
  · cases d with
    | zero => simp [chk] at hd
    | succ d => exact Or.inr ⟨d, by simpa only [chk, chkAlts] using hd⟩

theorem ChkE.choice {as} (h : ChkE env lvl m w b (.choice as)) : ChkAlts env lvl m w b as := by
  rcases h with h | ⟨d, hd⟩
  · exact Or.inl h
  · cases d with
    | zero => simp [chk] at hd
    | succ d => exact Or.inr ⟨d, by simpa only [chk] using hd⟩

theorem ChkAlts.cons {a as} (h : ChkAlts env lvl m w b (a :: as)) :
    ChkE env lvl m w (b && as.isEmpty) a ∧ ChkAlts env lvl m w b as := by
  rcases h with h | ⟨d, hd⟩
  · exact ⟨Or.inl h, Or.inl h⟩
  · cases as with
    | nil =>
      simp only [chkAlts] at hd
      exact ⟨Or.inr ⟨d, by simpa using hd⟩, Or.inr ⟨d, rfl⟩⟩
    | cons a' as =>
      simp only [chkAlts, Bool.and_eq_true] at hd
      exact ⟨Or.inr ⟨d, by simpa using hd.1⟩, Or.inr ⟨d, hd.2⟩⟩

theorem ChkE.seq1 {p} (h : ChkE env lvl m w b (.seq [p])) : ChkE env lvl m w b p := by
  rcases h with h | ⟨d, hd⟩
  · exact Or.inl h
  · cases d with
    | zero => simp [chk] at hd
    | succ d =>
      simp only [chk, chkSeq, Bool.and_eq_true] at hd
      exact Or.inr ⟨d, hd.1⟩

theorem ChkE.seq {ps} (h : ChkE env lvl m w b (.seq ps)) : ChkSeq env lvl m w b ps := by
  rcases h with h | ⟨d, hd⟩
  · exact Or.inl h
  · cases d with
    | zero => simp [chk] at hd
    | succ d => exact Or.inr ⟨d, by simpa only [chk] using hd⟩

theorem ChkSeq.cons {p ps} (h : ChkSeq env lvl m w b (p :: ps)) :
    ChkE env lvl m w b p ∧ (ProgE env p ∨ ChkSeq env lvl m w b ps) := by
  rcases h with h | ⟨d, hd⟩
  · exact ⟨Or.inl h, Or.inr (Or.inl h)⟩
  · simp only [chkSeq, Bool.and_eq_true, Bool.or_eq_true] at hd
    refine ⟨Or.inr ⟨d, hd.1⟩, ?_⟩
    rcases hd.2 with h2 | h2
    · exact Or.inl ⟨d, h2⟩
    · exact Or.inr (Or.inr ⟨d, h2⟩)

theorem ChkE.group {x} (h : ChkE env lvl m w b (.group x)) : ChkE env lvl m w b x := by
  rcases h with h | ⟨d, hd⟩
  · exact Or.inl h
  · cases d with
    | zero => simp [chk] at hd
    | succ d => exact Or.inr ⟨d, by simpa only [chk] using hd⟩

theorem ChkE.opt {x} (h : ChkE env lvl m w b (.opt x)) : ChkE env lvl m w false x := by
  rcases h with h | ⟨d, hd⟩
  · exact Or.inl h
  · cases d with
    | zero => simp [chk] at hd
    | succ d => exact Or.inr ⟨d, by simpa only [chk] using hd⟩

theorem ChkE.closure {x plus} (h : ChkE env lvl m w b (.closure x plus)) :
    ChkE env lvl m w (b && plus) x := by
  rcases h with h | ⟨d, hd⟩
  · exact Or.inl h
  · cases d with
    | zero => simp [chk] at hd
    | succ d => exact Or.inr ⟨d, by simpa only [chk] using hd⟩

theorem ChkE.neg {x} (h : ChkE env lvl m w b (.neg x)) : ChkE env lvl m w false x := by
  rcases h with h | ⟨d, hd⟩
  · exact Or.inl h
  · cases d with
    | zero => simp [chk] at hd
    | succ d => exact Or.inr ⟨d, by simpa only [chk] using hd⟩

theorem ChkE.pos {x} (h : ChkE env lvl m w b (.pos x)) : ChkE env lvl m w b x := by
  rcases h with h | ⟨d, hd⟩
  · exact Or.inl h
  · cases d with
    | zero => simp [chk] at hd
    | succ d => exact Or.inr ⟨d, by simpa only [chk] using hd⟩

theorem ChkE.range {lo hi} (h : ChkE env lvl m w b (.range lo hi)) (hw : w = true) :
    ChkR env lvl m b "Whitespace" := by
  rcases h with h | ⟨d, hd⟩
  · exact Or.inl h
  · cases d with
    | zero => simp [chk] at hd
    | succ d =>
      simp only [chk, hw, Bool.not_true, Bool.false_or] at hd
      exact Or.inr ⟨d, hd⟩

theorem ChkE.lit {ins body} (h : ChkE env lvl m w b (.lit ins body)) (hw : w = true) :
    ChkR env lvl m b "Whitespace" := by
  rcases h with h | ⟨d, hd⟩
  · exact Or.inl h
  · cases d with
    | zero => simp [chk] at hd
    | succ d =>
      simp only [chk, hw, Bool.not_true, Bool.false_or] at hd
      exact Or.inr ⟨d, hd⟩

theorem ChkE.eoi (h : ChkE env lvl m w b .eoi) (hw : w = true) : ChkR env lvl m b "Whitespace" := by
  rcases h with h | ⟨d, hd⟩
  · exact Or.inl h
  · cases d with
    | zero => simp [chk] at hd
    | succ d =>
      simp only [chk, hw, Bool.not_true, Bool.false_or] at hd
      exact Or.inr ⟨d, hd⟩

theorem ChkE.incl {r rule} (h : ChkE env lvl m w b (.incl r)) (hf : env.g.findRule r = some rule) :
    ChkE env lvl m w b rule.definition := by
  rcases h with h | ⟨d, hd⟩
  · exact Or.inl h
  · cases d with
    | zero => simp [chk] at hd
    | succ d =>
      simp only [chk, hf] at hd
      exact Or.inr ⟨d, hd⟩

theorem ChkE.field {nm bx typ} (h : ChkE env lvl m w b (.field nm bx typ)) :
    (w = true → ChkR env lvl m b "Whitespace") ∧ ChkR env lvl m b typ := by
  rcases h with h | ⟨d, hd⟩
  · exact ⟨fun _ => Or.inl h, Or.inl h⟩
  · cases d with
    | zero => simp [chk] at hd
    | succ d =>
      simp only [chk, Bool.and_eq_true] at hd
      refine ⟨fun hw => ?_, Or.inr ⟨d, hd.2⟩⟩
      have h1 := hd.1
      simp only [hw, Bool.not_true, Bool.false_or] at h1
      exact Or.inr ⟨d, h1⟩

theorem ChkR.rule {name b r} (h : ChkR env lvl m b name) (hf : env.g.find name = some (.rule r)) :
    (r.flags.leftRecursive = true → m ≤ lvl r.name + 1 ∧ (b = true → m ≤ lvl r.name)) ∧
    (r.flags.leftRecursive = false → r.flags.memoize = true → m ≤ lvl r.name ∧
      ChkE env lvl m (env.settings.skipWhitespace && !r.flags.noSkipWs) true r.definition) ∧
    (r.flags.leftRecursive = false → r.flags.memoize = false →
      ChkE env lvl m (env.settings.skipWhitespace && !r.flags.noSkipWs) b r.definition) := by
  rcases h with h | ⟨d, hd⟩
  · exact ⟨fun _ => ⟨by omega, fun _ => by omega⟩, fun _ _ => ⟨by omega, Or.inl h⟩, fun _ _ => Or.inl h⟩
  · simp only [chkRule, hf] at hd
    refine ⟨?_, ?_, ?_⟩
    · intro hl
      simp only [hl, if_true] at hd
      cases b with
      | true =>
        simp only [if_true, decide_eq_true_eq] at hd
        exact ⟨by omega, fun _ => hd⟩
      | false =>
        simp only [Bool.false_eq_true, if_false, decide_eq_true_eq] at hd
        exact ⟨hd, fun hb => by cases hb⟩
    · intro hl hm
      simp only [hl, hm, Bool.false_eq_true, if_false, if_true, Bool.and_eq_true, decide_eq_true_eq] at hd
      exact ⟨hd.1, Or.inr ⟨d, hd.2⟩⟩
    · intro hl hm
      simp only [hl, hm, Bool.false_eq_true, if_false] at hd
      exact Or.inr ⟨d, hd⟩

theorem ChkR.charRule {name b cr} (h : ChkR env lvl m b name)
    (hf : env.g.find name = some (.charRule cr)) :
    ∀ id, CharRulePart.ident id ∈ cr.choices → ChkR env lvl m false id := by
  intro id hid
  rcases h with h | ⟨d, hd⟩
  · exact Or.inl h
  · simp only [chkRule, hf, List.all_eq_true] at hd
    have h1 := hd _ hid
    simp only at h1
    cases d with
    | zero => simp [chk] at h1
    | succ d =>
      simp only [chk, Bool.and_eq_true] at h1
      exact Or.inr ⟨d, h1.2⟩

/-! progress -/

theorem ProgE.choice {as} (h : ProgE env (.choice as)) : ∀ a ∈ as, ProgE env a := by
  obtain ⟨d, hd⟩ := h
  cases d with
  | zero => simp [prog] at hd
  | succ d =>
    simp only [prog, List.all_eq_true] at hd
    exact fun a ha => ⟨d, hd a ha⟩

theorem ProgE.seq {ps} (h : ProgE env (.seq ps)) : ∃ p ∈ ps, ProgE env p := by
  obtain ⟨d, hd⟩ := h
  cases d with
  | zero => simp [prog] at hd
  | succ d =>
    simp only [prog, List.any_eq_true] at hd
    obtain ⟨p, hp, h⟩ := hd
    exact ⟨p, hp, d, h⟩

theorem ProgE.group {x} (h : ProgE env (.group x)) : ProgE env x := by
  obtain ⟨d, hd⟩ := h
  cases d with
  | zero => simp [prog] at hd
  | succ d => exact ⟨d, by simpa only [prog] using hd⟩

theorem ProgE.opt {x} (h : ProgE env (.opt x)) : False := by
  obtain ⟨d, hd⟩ := h
  cases d <;> simp [prog] at hd

theorem ProgE.neg {x} (h : ProgE env (.neg x)) : False := by
  obtain ⟨d, hd⟩ := h
  cases d <;> simp [prog] at hd

theorem ProgE.pos {x} (h : ProgE env (.pos x)) : False := by
  obtain ⟨d, hd⟩ := h
  cases d <;> simp [prog] at hd

theorem ProgE.eoi (h : ProgE env .eoi) : False := by
  obtain ⟨d, hd⟩ := h
  cases d <;> simp [prog] at hd

theorem ProgE.closure {x plus} (h : ProgE env (.closure x plus)) : plus = true ∧ ProgE env x := by
  obtain ⟨d, hd⟩ := h
  cases d with
  | zero => simp [prog] at hd
  | succ d =>
    simp only [prog, Bool.and_eq_true] at hd
    exact ⟨hd.1, d, hd.2⟩

theorem ProgE.lit {ins body mm} (h : ProgE env (.lit ins body)) (hc : compileLit ins body = .ok mm) :
    mm.nullable = false := by
  obtain ⟨d, hd⟩ := h
  cases d with
  | zero => simp [prog] at hd
  | succ d => simpa [prog, hc] using hd

theorem ProgE.incl {r rule} (h : ProgE env (.incl r)) (hf : env.g.findRule r = some rule) :
    ProgE env rule.definition := by
  obtain ⟨d, hd⟩ := h
  cases d with
  | zero => simp [prog] at hd
  | succ d =>
    simp only [prog, hf] at hd
    exact ⟨d, hd⟩

theorem ProgE.field {nm bx typ} (h : ProgE env (.field nm bx typ)) : ProgR env typ := by
  obtain ⟨d, hd⟩ := h
  cases d with
  | zero => simp [prog] at hd
  | succ d => exact ⟨d, by simpa only [prog] using hd⟩

theorem ProgR.rule {name r} (h : ProgR env name) (hf : env.g.find name = some (.rule r)) :
    r.flags.leftRecursive = false ∧ r.flags.memoize = false ∧ ProgE env r.definition := by
  obtain ⟨d, hd⟩ := h
  simp only [progRule, hf, Bool.and_eq_true, Bool.not_eq_true'] at hd
  exact ⟨hd.1.1, hd.1.2, d, hd.2⟩

theorem ProgR.charRule {name cr} (h : ProgR env name) (hf : env.g.find name = some (.charRule cr)) :
    ∀ id, CharRulePart.ident id ∈ cr.choices → ProgR env id := by
  intro id hid
  obtain ⟨d, hd⟩ := h
  simp only [progRule, hf, List.all_eq_true] at hd
  have h1 := hd _ hid
  simp only at h1
  exact ProgE.field ⟨d, h1⟩

theorem ProgR.externRule {name er} (h : ProgR env name) (hf : env.g.find name = some (.externRule er)) :
    False := by
  obtain ⟨d, hd⟩ := h
  simp [progRule, hf] at hd

theorem ProgR.none {name} (h : ProgR env name) (hf : env.g.find name = none) : name = "char" := by
  obtain ⟨d, hd⟩ := h
  simpa [progRule, hf] using hd

end

/-- the invariant of the evaluator -/
structure SInv (env : Env) (lvl : String → Nat) (rec : Rec) : Prop where
  expr : ∀ ctx e s m b, ChkE env lvl m ctx.skipWs b e → Tri lvl m b (ProgE env e) s (rec.expr ctx e s)
  rule : ∀ name s m b, ChkR env lvl m b name → Tri lvl m b (ProgR env name) s (rec.rule name s)

/-! ### expression level -/

section
variable {env : Env} {lvl : String → Nat} {rec : Rec}

theorem withSkipWs_tri {α} (hrec : SInv env lvl rec) {ctx : Ctx} {m b p s} {k : St → Global → Out α}
    (hws : ctx.skipWs = true → ChkR env lvl m b "Whitespace")
    (hk : ∀ s1, s.off ≤ s1.off → Tri lvl m b p s1 (k s1)) :
    Tri lvl m b p s (fun g => withSkipWs rec ctx s g k) := by
  by_cases hc : ctx.skipWs = true
  · simp only [withSkipWs, hc, if_true]
    exact (Tri.bind' (hrec.rule _ _ _ _ (hws hc)) (fun _ s1 ho => hk s1 ho)).weaken id (fun hp => Or.inr hp)
  · simp only [withSkipWs, if_neg hc]
    exact hk s (Nat.le_refl _)

theorem evalSeq_tri (hrec : SInv env lvl rec) {ctx : Ctx} {b : Bool} :
    ∀ ps m seen acc s, ChkSeq env lvl m ctx.skipWs b ps →
      Tri lvl m b (∃ p ∈ ps, ProgE env p) s (evalSeq env rec ctx ps seen acc s) := by
  intro ps
  induction ps with
  | nil =>
    intro m seen acc s _
    exact (Tri.okSame _).weaken id (fun ⟨p, hp, _⟩ => by cases hp)
  | cons p ps ih =>
    intro m seen acc s hchk
    obtain ⟨hp, hrest⟩ := hchk.cons
    refine Tri.congr (fun g => by rw [evalSeq]) ((Tri.bind (p' := ∃ p ∈ ps, ProgE env p)
      (hrec.expr ctx p s m b hp) (fun r s1 ho hprog => ?_)).weaken id ?_)
    · have key : ∀ m', ChkSeq env lvl m' ctx.skipWs b ps → Tri lvl m' b (∃ p ∈ ps, ProgE env p) s1
          (fun g' => match mergePart (filterRuleFields ctx.ruleFields (ownFields env p)) seen acc r with
            | .error msg => some (.panic ("codegen: " ++ msg), g')
            | .ok (seen', acc') => evalSeq env rec ctx ps seen' acc' s1 g') := by
        intro m' hc
        cases hm : mergePart (filterRuleFields ctx.ruleFields (ownFields env p)) seen acc r with
        | error msg => simp only []; exact Tri.panic _
        | ok v => simp only []; exact ih _ _ _ _ hc
      rcases hrest with hpr | hrest
      · exact ⟨0, Or.inr ⟨rfl, hprog hpr⟩, key 0 (Or.inl rfl)⟩
      · exact ⟨m, Or.inl rfl, key m hrest⟩
    · rintro ⟨q, hq, hpq⟩
      rcases List.mem_cons.1 hq with rfl | hq
      · exact Or.inl hpq
      · exact Or.inr ⟨q, hq, hpq⟩

/-- `Post` with the sentinel clause relative to an earlier global object -/
def PostG (G0 : Global) (s : St) (g : Global) {α} (res : Res α) (g' : Global) : Prop :=
  match res with
  | .ok _ s' => s.off ≤ s'.off ∧ GoodSt s' ∧ SentSub g' g ∧ CInv g'
  | .err e => ErrOK G0 s.off e ∧ SentSub g' g ∧ CInv g'
  | .panic _ => True

theorem Post.toG {α} {G0 : Global} {s : St} {g g' : Global} {res : Res α} (hs : SentSub g G0)
    (h : Post s g res g') : PostG G0 s g res g' := by
  cases res with
  | ok v s' => exact h
  | err e => exact ⟨h.1.sub hs, h.2⟩
  | panic msg => trivial

theorem evalAlts_sn (hrec : SInv env lvl rec) {ctx : Ctx} {fields} {m : Nat} {b : Bool} (G0 : Global) :
    ∀ as cur g res g', evalAlts env rec ctx fields as cur g = some (res, g') →
      Hyp cur g → Pre lvl m cur.off g → SentSub g G0 → ChkAlts env lvl m ctx.skipWs b as →
      (as = [] → ∃ f, cur.far = some f ∧ ErrOK G0 cur.off f ∧ (b = true → ¬ IsSent f)) →
      PostG G0 cur g res g' ∧ (b = true → ∀ e, res = .err e → ¬ IsSent e) ∧
        ((∀ a ∈ as, ProgE env a) → ∀ v s', res = .ok v s' → cur.off < s'.off) := by
  intro as
  induction as with
  | nil =>
    intro cur g res g' h hh _ _ _ hnil
    simp only [evalAlts, Option.some.injEq, Prod.mk.injEq] at h
    obtain ⟨rfl, rfl⟩ := h
    obtain ⟨f, hf, hfe, hfb⟩ := hnil rfl
    have hrep : cur.reportFarthest = f := by simp only [St.reportFarthest, hf]
    rw [hrep]
    exact ⟨⟨hfe, SentSub.refl _, hh.cinv⟩, fun hb e he => (by cases he; exact hfb hb),
      fun _ v s' he => (by cases he)⟩
  | cons a as ih =>
    intro cur g res g' h hh hpre hsub hchk _
    obtain ⟨hca, hcas⟩ := hchk.cons
    simp only [evalAlts] at h
    split at h
    · cases h
    · rename_i r0 s0 g0 hx
      obtain ⟨hpost, _, hprog⟩ := hrec.expr _ _ _ _ _ hca _ _ _ hx hh hpre
      have hres : PostG G0 cur g (.ok r0 s0 : Res Parsed) g0 ∧
          ((∀ a' ∈ a :: as, ProgE env a') → cur.off < s0.off) :=
        ⟨hpost, fun hall => hprog (hall a (List.mem_cons_self ..)) _ _ rfl⟩
      split at h
      · cases h
        exact ⟨hres.1, fun _ e he => (by cases he), fun hall v s' he => (by cases he; exact hres.2 hall)⟩
      · cases h
        exact ⟨trivial, fun _ e he => (by cases he), fun _ v s' he => (by cases he)⟩
    · rename_i e0 g0 hx
      obtain ⟨hpost, hb0, _⟩ := hrec.expr _ _ _ _ _ hca _ _ _ hx hh hpre
      obtain ⟨he0, hs0, hc0⟩ := hpost
      obtain ⟨hgood, f, hf, hfe, hfs⟩ := recordError_good hh.good he0
      have hoff : (cur.recordError e0).off = cur.off := recordError_off _ _
      have hh1 : Hyp (cur.recordError e0) g0 :=
        hyp_next hh (Nat.le_of_eq hoff.symm) hgood hs0 hc0
      have hpre1 : Pre lvl m (cur.recordError e0).off g0 :=
        pre_next hh hpre hs0 (Nat.le_of_eq hoff.symm)
      obtain ⟨h1, h2, h3⟩ := ih _ _ _ _ h hh1 hpre1 (hs0.trans hsub) hcas (fun hnil => by
        refine ⟨f, hf, ?_, fun hb => hfs ?_⟩
        · rw [hoff]; exact hfe.sub hsub
        · subst hnil
          exact hb0 (by simp [hb]) e0 rfl)
      refine ⟨?_, h2, fun hall v s' he => ?_⟩
      · cases res with
        | ok v s' =>
          obtain ⟨ho, hg, hs, hc⟩ := h1
          exact ⟨by rw [hoff] at ho; exact ho, hg, hs.trans hs0, hc⟩
        | err e =>
          obtain ⟨hee, hs, hc⟩ := h1
          exact ⟨by rw [hoff] at hee; exact hee, hs.trans hs0, hc⟩
        | panic msg => trivial
      · have := h3 (fun a' ha' => hall a' (List.mem_cons_of_mem _ ha')) v s' he
        rw [hoff] at this; exact this
    · rename_i msg g0 hx
      cases h
      exact ⟨trivial, fun _ e he => (by cases he), fun _ v s' he => (by cases he)⟩

theorem evalLoop_sn {body : St → Global → Out Parsed} {fields} {m : Nat} {b : Bool} {p : Prop}
    (hbody : ∀ s, Tri lvl m b p s (body s)) :
    ∀ k iters acc s g res g', evalLoop body fields k iters acc s g = some (res, g') →
      Hyp s g → Pre lvl m s.off g →
      match res with
      | .ok (it, _) s' => s.off ≤ s'.off ∧ GoodSt s' ∧ SentSub g' g ∧ CInv g' ∧ iters ≤ it ∧
          (it = iters → ∃ f, s'.far = some f ∧ ErrOK g s.off f ∧ (b = true → ¬ IsSent f)) ∧
          (p → iters < it → s.off < s'.off)
      | .err _ => False
      | .panic _ => True := by
  intro k
  induction k with
  | zero => intro iters acc s g res g' h; simp [evalLoop] at h
  | succ k ih =>
    intro iters acc s g res g' h hh hpre
    simp only [evalLoop] at h
    split at h
    · cases h
    · rename_i r0 s0 g0 hx
      obtain ⟨hpost, _, hprog⟩ := hbody _ _ _ _ hx hh hpre
      split at h
      · have hh1 := hpost.hyp hh
        have hpre1 : Pre lvl m s0.off g0 := pre_next hh hpre hpost.2.2.1 hpost.1
        have := ih _ _ _ _ _ _ h hh1 hpre1
        cases res with
        | ok v s' =>
          obtain ⟨it, acc'⟩ := v
          simp only at this ⊢
          obtain ⟨ho, hg, hs, hc, hit, _, hpr⟩ := this
          refine ⟨Nat.le_trans hpost.1 ho, hg, hs.trans hpost.2.2.1, hc, by omega,
            fun heq => by omega, fun hp _ => ?_⟩
          have := hprog hp _ _ rfl
          omega
        | err e => exact this
        | panic msg => trivial
      · cases h; trivial
    · rename_i e0 g0 hx
      obtain ⟨hpost, hb0, _⟩ := hbody _ _ _ _ hx hh hpre
      obtain ⟨he0, hs0, hc0⟩ := hpost
      obtain ⟨hgood, f, hf, hfe, hfs⟩ := recordError_good hh.good he0
      cases h
      simp only
      refine ⟨by simp, hgood, hs0, hc0, Nat.le_refl _, fun _ => ⟨f, hf, hfe, fun hb => hfs (hb0 hb e0 rfl)⟩,
        fun _ hlt => by omega⟩
    · cases h; trivial

theorem PostG.toPost {α} {s : St} {g g' : Global} {res : Res α} (h : PostG g s g res g') :
    Post s g res g' := by
  cases res <;> exact h

theorem stepExpr_tri (hrec : SInv env lvl rec) (n : Nat) (ctx : Ctx) (e : Expr) (s : St) (m : Nat) (b : Bool)
    (hchk : ChkE env lvl m ctx.skipWs b e) : Tri lvl m b (ProgE env e) s (stepExpr env rec n ctx e s) := by
  cases e with
  | choice alts =>
    match alts with
    | [] => exact Tri.panic _
    | [a] =>
      exact (hrec.expr ctx a s m b hchk.choice1).weaken id (fun hp => hp.choice a (List.mem_cons_self ..))
    | a :: a' :: rest =>
      intro g res g' h hh hpre
      simp only [stepExpr] at h
      obtain ⟨h1, h2, h3⟩ := evalAlts_sn hrec g _ _ _ _ _ h hh hpre (SentSub.refl _) hchk.choice
        (fun hnil => by cases hnil)
      exact ⟨h1.toPost, h2, fun hp => h3 hp.choice⟩
  | seq parts =>
    match parts with
    | [] => exact (Tri.okSame _).weaken id (fun hp => by obtain ⟨p, hp, _⟩ := hp.seq; cases hp)
    | [p] =>
      refine (hrec.expr ctx p s m b hchk.seq1).weaken id (fun hp => ?_)
      obtain ⟨q, hq, hpq⟩ := hp.seq
      rcases List.mem_singleton.1 hq with rfl
      exact hpq
    | a :: a' :: rest =>
      refine (Tri.bind' (p' := False) (evalSeq_tri hrec _ _ _ _ _ hchk.seq) (fun v s' _ => ?_)).weaken id
        (fun hp => Or.inl hp.seq)
      obtain ⟨seen, acc⟩ := v
      cases hp : project (filterRuleFields ctx.ruleFields (ownFields env (.seq (a :: a' :: rest)))) acc with
      | error msg => simp only [hp]; exact Tri.panic _
      | ok v => simp only [hp]; exact Tri.okSame _
  | group x => exact (hrec.expr ctx x s m b hchk.group).weaken id (fun hp => hp.group)
  | opt x =>
    intro g res g' h hh hpre
    simp only [stepExpr] at h
    split at h
    · cases h
    · rename_i r0 s0 g0 hx
      cases h
      obtain ⟨hpost, _, _⟩ := hrec.expr ctx x s m false hchk.opt _ _ _ hx hh hpre
      exact ⟨hpost, fun _ e he => (by cases he), fun hp => hp.opt.elim⟩
    · rename_i e0 g0 hx
      obtain ⟨hpost, _, _⟩ := hrec.expr ctx x s m false hchk.opt _ _ _ hx hh hpre
      obtain ⟨he0, hs0, hc0⟩ := hpost
      obtain ⟨hgood, _⟩ := recordError_good hh.good he0
      split at h
      · cases h
        exact ⟨⟨by simp, hgood, hs0, hc0⟩, fun _ e he => (by cases he), fun hp => hp.opt.elim⟩
      · cases h
        exact ⟨trivial, fun _ e he => (by cases he), fun hp => hp.opt.elim⟩
    · cases h
      exact ⟨trivial, fun _ e he => (by cases he), fun hp => hp.opt.elim⟩
  | closure x plus =>
    intro g res g' h hh hpre
    simp only [stepExpr] at h
    split at h
    · cases h
      exact ⟨trivial, fun _ e he => (by cases he), fun _ v s' he => (by cases he)⟩
    · rename_i init hinit
      simp only [bindR] at h
      split at h
      · cases h
      · rename_i v s1 g1 heq
        obtain ⟨it, acc⟩ := v
        have := evalLoop_sn (fun s => hrec.expr ctx x s m (b && plus) hchk.closure) _ _ _ _ _ _ _ heq hh hpre
        simp only at this
        obtain ⟨ho, hg, hs, hc, _, hzero, hpr⟩ := this
        simp only at h
        split at h
        · rename_i hcond
          cases h
          simp only [Bool.and_eq_true, beq_iff_eq] at hcond
          obtain ⟨f, hf, hfe, hfb⟩ := hzero hcond.2
          have hrep : s1.reportFarthest = f := by simp only [St.reportFarthest, hf]
          rw [hrep]
          exact ⟨⟨hfe, hs, hc⟩, fun hb e he => (by cases he; exact hfb (by simp [hb, hcond.1])),
            fun _ v s' he => (by cases he)⟩
        · rename_i hcond
          cases h
          refine ⟨⟨ho, hg, hs, hc⟩, fun _ e he => (by cases he), fun hp v s' he => ?_⟩
          cases he
          obtain ⟨hplus, hpx⟩ := hp.closure
          refine hpr hpx ?_
          simp only [hplus, Bool.true_and, beq_iff_eq] at hcond
          omega
      · rename_i e g1 heq
        have := evalLoop_sn (fun s => hrec.expr ctx x s m (b && plus) hchk.closure) _ _ _ _ _ _ _ heq hh hpre
        exact this.elim
      · cases h
        exact ⟨trivial, fun _ e he => (by cases he), fun _ v s' he => (by cases he)⟩
  | neg x =>
    intro g res g' h hh hpre
    simp only [stepExpr] at h
    split at h
    · cases h
    · rename_i r0 s0 g0 hx
      cases h
      obtain ⟨hpost, _, _⟩ := hrec.expr ctx x s m false hchk.neg _ _ _ hx hh hpre
      have hreal : Spec.negativeLookaheadFailed ≠ .leftRecursionSentinel := by intro h; cases h
      exact ⟨⟨errOK_real hh.good hreal, hpost.2.2.1, hpost.2.2.2⟩,
        fun _ e he => (by cases he; exact (reportError_real hh.good hreal).2), fun _ v s' he => (by cases he)⟩
    · rename_i e0 g0 hx
      cases h
      obtain ⟨hpost, _, _⟩ := hrec.expr ctx x s m false hchk.neg _ _ _ hx hh hpre
      exact ⟨⟨Nat.le_refl _, hh.good, hpost.2.1, hpost.2.2⟩, fun _ e he => (by cases he), fun hp => hp.neg.elim⟩
    · cases h
      exact ⟨trivial, fun _ e he => (by cases he), fun hp => hp.neg.elim⟩
  | pos x =>
    intro g res g' h hh hpre
    simp only [stepExpr, bindR] at h
    split at h
    · cases h
    · rename_i r0 s0 g0 hx
      cases h
      obtain ⟨hpost, _, _⟩ := hrec.expr ctx x s m b hchk.pos _ _ _ hx hh hpre
      exact ⟨⟨Nat.le_refl _, hh.good, hpost.2.2.1, hpost.2.2.2⟩, fun _ e he => (by cases he),
        fun hp => hp.pos.elim⟩
    · rename_i e0 g0 hx
      cases h
      obtain ⟨hpost, hb, _⟩ := hrec.expr ctx x s m b hchk.pos _ _ _ hx hh hpre
      exact ⟨hpost, fun hb' e he => (by cases he; exact hb hb' e0 rfl), fun hp => hp.pos.elim⟩
    · cases h
      exact ⟨trivial, fun _ e he => (by cases he), fun hp => hp.pos.elim⟩
  | range lo hi =>
    show Tri lvl m b _ s (fun g => stepExpr env rec n ctx (.range lo hi) s g)
    simp only [stepExpr]
    cases hlo : lo.toChar <;> cases hhi : hi.toChar <;> simp only []
    all_goals first
      | exact Tri.panic _
      | exact withSkipWs_tri hrec (fun hw => hchk.range hw)
          (fun s1 _ => (Tri.term (termOK_parseCharacterRange _ _) _).weaken id (fun _ => trivial))
  | lit ins body =>
    show Tri lvl m b _ s (fun g => stepExpr env rec n ctx (.lit ins body) s g)
    simp only [stepExpr]
    cases hm : compileLit ins body with
    | err msg => simp only []; exact Tri.panic _
    | fuel => simp only []; exact Tri.panic _
    | ok mm =>
      simp only []
      refine withSkipWs_tri hrec (fun hw => hchk.lit hw) (fun s1 _ => ?_)
      cases mm with
      | charLit c => exact (Tri.term (termOK_parseCharacterLiteral c) _).weaken id (fun _ => trivial)
      | strLit l =>
        exact (Tri.term (termOK_parseStringLiteral l) _).weaken id (fun hp => hp.lit hm)
      | charLitI c =>
        exact (Tri.term (termOK_parseCharacterLiteralInsensitive c) _).weaken id (fun _ => trivial)
      | strLitI l =>
        exact (Tri.term (termOK_parseStringLiteralInsensitive l) _).weaken id (fun hp => hp.lit hm)
  | eoi =>
    exact withSkipWs_tri hrec (fun hw => hchk.eoi hw)
      (fun s1 _ => (Tri.term termOK_parseEndOfInput _).weaken id (fun hp => hp.eoi.elim))
  | incl r =>
    show Tri lvl m b _ s (fun g => stepExpr env rec n ctx (.incl r) s g)
    simp only [stepExpr]
    cases hf : env.g.findRule r with
    | none => simp only []; exact Tri.panic _
    | some rule =>
      simp only []
      exact (hrec.expr ctx _ s m b (hchk.incl hf)).weaken id (fun hp => hp.incl hf)
  | field name boxed typ =>
    show Tri lvl m b _ s (fun g => stepExpr env rec n ctx (.field name boxed typ) s g)
    simp only [stepExpr]
    refine withSkipWs_tri hrec (fun hw => hchk.field.1 hw) (fun s1 _ => ?_)
    refine (Tri.bind' (p' := False) (hrec.rule typ s1 m b hchk.field.2) (fun v s' _ => ?_)).weaken id
      (fun hp => Or.inl hp.field)
    cases name with
    | none => exact Tri.okSame _
    | some nm =>
      simp only []
      cases hp : postprocessField ctx.ruleFields nm.key typ v with
      | error msg => simp only []; exact Tri.panic _
      | ok fv => simp only []; exact Tri.okSame _

end

/-! ### rule level -/

/-- `RecFirst` as a proposition -/
def RecFirstP (env : Env) (lvl : String → Nat) : Prop :=
  ∀ r, RuleEntry.rule r ∈ env.g.rules → r.flags.leftRecursive = true →
    ChkE env lvl (lvl r.name + 1) (env.settings.skipWhitespace && !r.flags.noSkipWs) true r.definition

section
variable {env : Env} {lvl : String → Nat} {rec : Rec}

theorem runChecks_tri : ∀ fs v s m b, Tri lvl m b False s (runChecks env fs v s) := by
  intro fs
  induction fs with
  | nil => intro v s m b; exact Tri.okSame _
  | cons f fs ih =>
    intro v s m b g res g' h hh hpre
    simp only [runChecks] at h
    split at h
    · cases h
      have hreal : ∀ nm, Spec.checkFunctionFailed nm ≠ .leftRecursionSentinel := by intro nm h; cases h
      exact ⟨⟨errOK_real hh.good (hreal _), sentSub_of_cache rfl, cinv_of_cache hh.cinv rfl⟩,
        fun _ e he => (by cases he; exact (reportError_real hh.good (hreal _)).2),
        fun _ v s' he => (by cases he)⟩
    · obtain ⟨h1, h2, h3⟩ := ih _ _ _ _ _ _ _ h (hyp_of_cache hh rfl) (pre_of_cache hpre rfl)
      exact ⟨h1.cache_l rfl, h2, h3⟩

theorem ruleBody_tri (hrec : SInv env lvl rec) (r : Rule) (s : St) (m : Nat) (b : Bool)
    (hchk : ChkE env lvl m (env.settings.skipWhitespace && !r.flags.noSkipWs) b r.definition) :
    Tri lvl m b (ProgE env r.definition) s (ruleBody env rec r s) := by
  show Tri lvl m b _ s (fun g => ruleBody env rec r s g)
  simp only [ruleBody]
  cases hf : getFields env.g env.nf r.definition with
  | ok fields =>
    simp only []
    have hexpr := hrec.expr
      { skipWs := env.settings.skipWhitespace && !r.flags.noSkipWs, ruleFields := fields } r.definition s m b hchk
    refine Tri.ite ((Tri.bind' (p' := False) hexpr (fun _ s' _ => runChecks_tri _ _ _ _ _)).weaken id Or.inl)
      (Tri.ite ((Tri.bind' (p' := False) hexpr (fun p s' _ => ?_)).weaken id Or.inl)
        (Tri.ite (Tri.panic _) ((Tri.bind' (p' := False) hexpr (fun p s' _ => ?_)).weaken id Or.inl)))
    · cases hv : p.get "_override" with
      | none => simp only []; exact Tri.panic _
      | some v => simp only []; exact runChecks_tri _ _ _ _ _
    · cases hp : project fields p with
      | error msg => simp only []; exact Tri.panic _
      | ok fs => simp only []; exact runChecks_tri _ _ _ _ _
  | err msg => simp only []; exact Tri.panic _
  | fuel => simp only []; exact Tri.panic _

/-- what the grow loop guarantees: the seed is gone, a failure is a real one -/
def GrowPost (s : St) (key : String × Nat) (gi : Global) (res : Res Val) (g' : Global) : Prop :=
  match res with
  | .ok _ s' => s.off ≤ s'.off ∧ GoodSt s' ∧ CInv g' ∧ (∀ k', Act g' k' → k' ≠ key ∧ Act gi k')
  | .err e => s.off ≤ e.pos ∧ ¬ IsSent e ∧ CInv g' ∧ (∀ k', Act g' k' → k' ≠ key ∧ Act gi k')
  | .panic _ => True

theorem growLoop_sn {body : St → Global → Out Val} {key : String × Nat} {s : St} {M : Nat} {p : Prop}
    (hbody : Tri lvl M true p s (body s)) (hkey : key.2 = s.off) :
    ∀ k best gi res g', growLoop body key s k best gi = some (res, g') → Hyp s gi → Pre lvl M s.off gi →
      (∀ bv bs, best = .ok bv bs → s.off ≤ bs.off ∧ GoodSt bs ∧ ¬ Act gi key) →
      GrowPost s key gi res g' := by
  intro k
  induction k with
  | zero => intro best gi res g' h; simp [growLoop] at h
  | succ k ih =>
    intro best gi res g' h hh hpre hbest
    rw [growLoop_succ] at h
    have hh0 : Hyp s (growPre key gi) := hyp_of_cache hh rfl
    have hpre0 : Pre lvl M s.off (growPre key gi) := pre_of_cache hpre rfl
    -- the answer is the previous best
    have hstop : ∀ {g1 : Global}, SentSub g1 gi → CInv g1 → ∀ bv bs, best = .ok bv bs →
        GrowPost s key gi (.ok bv bs) g1 := by
      intro g1 hs1 hc1 bv bs hb
      obtain ⟨h1, h2, h3⟩ := hbest bv bs hb
      exact ⟨h1, h2, hc1, fun k' hk' => ⟨fun heq => h3 (heq ▸ hs1 _ hk'), hs1 _ hk'⟩⟩
    split at h
    · cases h
    · cases h; trivial
    · rename_i v ns g1 hx
      obtain ⟨hpost, _, _⟩ := hbody _ _ _ hx hh0 hpre0
      obtain ⟨ho, hg, hs, hc⟩ := hpost
      have hs' : SentSub g1 gi := hs.trans (sentSub_of_cache rfl)
      -- the loop goes on with the new best
      have hgo : growLoop body key s k (.ok v ns) (g1.insert key (.ok v ns)) = some (res, g') →
          GrowPost s key gi res g' := by
        intro h'
        have hxok : ∀ e, (Res.ok v ns : Res Val) = .err e → ¬ IsSent e := by intro e he; cases he
        have hc2 : CInv (g1.insert key (.ok v ns)) :=
          cinv_insert hc (fun v' ns' he => by cases he; exact ⟨by rw [hkey]; exact ho, hg⟩)
            (fun e he => by cases he)
        have hact2 : ∀ k', Act (g1.insert key (.ok v ns)) k' → k' ≠ key ∧ Act gi k' := by
          intro k' hk'
          have hne : k' ≠ key := fun heq => not_act_insert hxok (heq ▸ hk')
          exact ⟨hne, hs' _ ((act_insert_ne hne).1 hk')⟩
        have hh2 : Hyp s (g1.insert key (.ok v ns)) := ⟨hh.good, hc2, fun k' hk' => hh.le _ (hact2 k' hk').2⟩
        have hpre2 : Pre lvl M s.off (g1.insert key (.ok v ns)) := fun R hR => hpre R (hact2 _ hR).2
        have := ih _ _ _ _ h' hh2 hpre2 (fun bv bs he => by
          cases he; exact ⟨ho, hg, fun ha => (hact2 _ ha).1 rfl⟩)
        cases res with
        | ok v' s' =>
          obtain ⟨a1, a2, a3, a4⟩ := this
          exact ⟨a1, a2, a3, fun k' hk' => ⟨(a4 k' hk').1, (hact2 _ (a4 k' hk').2).2⟩⟩
        | err e =>
          obtain ⟨a1, a2, a3, a4⟩ := this
          exact ⟨a1, a2, a3, fun k' hk' => ⟨(a4 k' hk').1, (hact2 _ (a4 k' hk').2).2⟩⟩
        | panic msg => trivial
      cases best with
      | ok bv bs =>
        simp only at h
        split at h
        · exact hgo h
        · cases h
          exact hstop hs' hc bv bs rfl
      | err e0 => exact hgo h
      | panic msg => exact hgo h
    · rename_i e g1 hx
      obtain ⟨hpost, hb, _⟩ := hbody _ _ _ hx hh0 hpre0
      obtain ⟨he, hs, hc⟩ := hpost
      have hs' : SentSub g1 gi := hs.trans (sentSub_of_cache rfl)
      have hne : ¬ IsSent e := hb rfl e rfl
      have hfail : GrowPost s key gi (.err e) (g1.insert key (.err e)) := by
        have hxe : ∀ e', (Res.err e : Res Val) = .err e' → ¬ IsSent e' := by intro e' he'; cases he'; exact hne
        refine ⟨he.1, hne, cinv_insert hc (fun v' ns' he' => by cases he') (fun e' he' => ?_), fun k' hk' => ?_⟩
        · cases he'
          exact ⟨by rw [hkey]; exact he.1, fun hs => absurd hs hne⟩
        · have hk : k' ≠ key := fun heq => not_act_insert hxe (heq ▸ hk')
          exact ⟨hk, hs' _ ((act_insert_ne hk).1 hk')⟩
      cases best with
      | ok bv bs =>
        cases h
        exact hstop hs' hc bv bs rfl
      | err e0 => cases h; exact hfail
      | panic msg => cases h; exact hfail

/-- the `left_recursive` branch of `generate_memoized_body` -/
theorem memoBody_leftrec_sn {body : St → Global → Out Val} {flags : RuleFlags} {name : String}
    (hl : flags.leftRecursive = true) {s : St} {M : Nat} {p : Prop} (hbody : Tri lvl M true p s (body s))
    (n : Nat) (hM : lvl name < M) :
    ∀ g res g', memoBody flags name body n s g = some (res, g') → Hyp s g → Pre lvl M s.off g →
      Post s g res g' ∧ (∀ e, res = .err e → IsSent e → Act g (name, s.off)) := by
  intro g res g' h hh hpre
  unfold memoBody at h
  simp only [hl, if_true] at h
  split at h
  · rename_i cached hlk
    cases h
    cases res with
    | ok v ns =>
      obtain ⟨h1, h2⟩ := hh.cinv.ok _ _ _ hlk
      exact ⟨⟨h1, h2, sentSub_of_cache rfl, cinv_of_cache hh.cinv rfl⟩, fun e he => by cases he⟩
    | err e =>
      obtain ⟨h1, h2⟩ := hh.cinv.err _ _ hlk
      exact ⟨⟨⟨h1, fun hs => ⟨h2 hs, name, e, hlk, hs⟩⟩, sentSub_of_cache rfl, cinv_of_cache hh.cinv rfl⟩,
        fun e' he hs => by cases he; exact ⟨e, hlk, hs⟩⟩
    | panic msg => exact ⟨trivial, fun e he => by cases he⟩
  · rename_i hmiss
    have hseed := reportError_seed hh.good
    have hc0 : CInv (g.insert (name, s.off) (.err (s.reportError .leftRecursionSentinel))) :=
      cinv_insert hh.cinv (fun v ns he => by cases he) (fun e he => by cases he; exact hseed)
    have hact0 : ∀ k', Act (g.insert (name, s.off) (.err (s.reportError .leftRecursionSentinel))) k' →
        k' = (name, s.off) ∨ Act g k' := by
      intro k' hk'
      by_cases hk : k' = (name, s.off)
      · exact Or.inl hk
      · exact Or.inr ((act_insert_ne hk).1 hk')
    have hh0 : Hyp s (g.insert (name, s.off) (.err (s.reportError .leftRecursionSentinel))) := by
      refine ⟨hh.good, hc0, fun k' hk' => ?_⟩
      rcases hact0 k' hk' with rfl | hk
      · exact Nat.le_refl _
      · exact hh.le _ hk
    have hpre0 : Pre lvl M s.off (g.insert (name, s.off) (.err (s.reportError .leftRecursionSentinel))) := by
      intro R hR
      rcases hact0 _ hR with heq | hk
      · have : R = name := (Prod.mk.inj heq).1
        rw [this]; exact hM
      · exact hpre R hk
    have : GrowPost s (name, s.off) _ res g' :=
      growLoop_sn hbody (key := (name, s.off)) rfl _ _ _ _ _ h hh0 hpre0 (fun bv bs he => by cases he)
    have hsub : ∀ k', (k' ≠ (name, s.off) ∧
        Act (g.insert (name, s.off) (.err (s.reportError .leftRecursionSentinel))) k') → Act g k' :=
      fun k' hk' => (act_insert_ne hk'.1).1 hk'.2
    cases res with
    | ok v s' =>
      obtain ⟨a1, a2, a3, a4⟩ := this
      exact ⟨⟨a1, a2, fun k' hk' => hsub k' (a4 k' hk'), a3⟩, fun e he => by cases he⟩
    | err e =>
      obtain ⟨a1, a2, a3, a4⟩ := this
      exact ⟨⟨⟨a1, fun hs => absurd hs a2⟩, fun k' hk' => hsub k' (a4 k' hk'), a3⟩,
        fun e' he hs => by cases he; exact absurd hs a2⟩
    | panic msg => exact ⟨trivial, fun e he => by cases he⟩

/-- the `memoize` branch of `generate_memoized_body`: the body is checked strictly, so no sentinel
    failure is ever cached; a hit cannot be a planted seed because the level of the rule is `≥ m` -/
theorem memoBody_memo_sn {body : St → Global → Out Val} {flags : RuleFlags} {name : String}
    (hl : flags.leftRecursive = false) (hmz : flags.memoize = true) {s : St} {m : Nat} {p : Prop}
    (hbody : Tri lvl m true p s (body s)) (n : Nat) (hlv : m ≤ lvl name) :
    ∀ g res g', memoBody flags name body n s g = some (res, g') → Hyp s g → Pre lvl m s.off g →
      Post s g res g' ∧ (∀ e, res = .err e → ¬ IsSent e) := by
  intro g res g' h hh hpre
  unfold memoBody at h
  simp only [hl, hmz, Bool.false_eq_true, if_false, if_true] at h
  split at h
  · rename_i cached hlk
    cases h
    cases res with
    | ok v ns =>
      obtain ⟨h1, h2⟩ := hh.cinv.ok _ _ _ hlk
      exact ⟨⟨h1, h2, sentSub_of_cache rfl, cinv_of_cache hh.cinv rfl⟩, fun e he => by cases he⟩
    | err e =>
      obtain ⟨h1, _⟩ := hh.cinv.err _ _ hlk
      have hne : ¬ IsSent e := fun hs => by
        have := hpre name ⟨e, hlk, hs⟩
        omega
      exact ⟨⟨⟨h1, fun hs => absurd hs hne⟩, sentSub_of_cache rfl, cinv_of_cache hh.cinv rfl⟩,
        fun e' he => by cases he; exact hne⟩
    | panic msg => exact ⟨trivial, fun e he => by cases he⟩
  · rename_i hmiss
    split at h
    · cases h
    · cases h; exact ⟨trivial, fun e he => by cases he⟩
    · rename_i r0 g1 _ hb
      cases h
      obtain ⟨hpost, hstrict, _⟩ := hbody _ _ _ hb (hyp_of_cache hh rfl) (pre_of_cache hpre rfl)
      cases res with
      | ok v ns =>
        obtain ⟨ho, hg, hs, hc⟩ := hpost
        have hxok : ∀ e, (Res.ok v ns : Res Val) = .err e → ¬ IsSent e := by intro e he; cases he
        refine ⟨⟨ho, hg, fun k' hk' => ?_, cinv_insert hc (fun v' ns' he => by cases he; exact ⟨ho, hg⟩)
          (fun e he => by cases he)⟩, fun e he => by cases he⟩
        have hne : k' ≠ (name, s.off) := fun heq => not_act_insert hxok (heq ▸ hk')
        exact (act_of_cache rfl).1 (hs _ ((act_insert_ne hne).1 hk'))
      | err e =>
        obtain ⟨he, hs, hc⟩ := hpost
        have hne : ¬ IsSent e := hstrict rfl e rfl
        have hxe : ∀ e', (Res.err e : Res Val) = .err e' → ¬ IsSent e' := by
          intro e' he'; cases he'; exact hne
        refine ⟨⟨⟨he.1, fun hs => absurd hs hne⟩, fun k' hk' => ?_,
          cinv_insert hc (fun v' ns' he' => by cases he') (fun e' he' => by
            cases he'; exact ⟨he.1, fun hs => absurd hs hne⟩)⟩, fun e' he' => by cases he'; exact hne⟩
        have hk : k' ≠ (name, s.off) := fun heq => not_act_insert hxe (heq ▸ hk')
        exact (act_of_cache rfl).1 (hs _ ((act_insert_ne hk).1 hk'))
      | panic msg => exact ⟨trivial, fun e he => by cases he⟩

theorem normalRule_tri (hrec : SInv env lvl rec) (hrf : RecFirstP env lvl) (n : Nat)
    {name : String} {r : Rule} (hf : env.g.find name = some (.rule r)) (s : St) (m : Nat) (b : Bool)
    (hchk : ChkR env lvl m b name) : Tri lvl m b (ProgR env name) s (normalRule env rec n r s) := by
  have hmem : RuleEntry.rule r ∈ env.g.rules := (find_mem hf).1
  obtain ⟨hc1, hc2, hc3⟩ := hchk.rule hf
  intro g res g' h hh hpre
  unfold normalRule at h
  simp only at h
  split at h
  · cases h
  · rename_i res0 g0 hx
    cases h
    by_cases hl : r.flags.leftRecursive = true
    · obtain ⟨hm1, hm2⟩ := hc1 hl
      have hbody := ruleBody_tri hrec r s (lvl r.name + 1) true (hrf r hmem hl)
      obtain ⟨hpost, hsent⟩ := memoBody_leftrec_sn hl hbody n (Nat.lt_succ_self _) _ _ _ hx
        (hyp_of_cache hh rfl) (pre_of_cache (hpre.mono hm1) rfl)
      refine ⟨(hpost.cache_l rfl).cache_r (LR.traceResult_cache _ _), fun hb e he hs => ?_,
        fun hp => ?_⟩
      · have hact : Act g (r.name, s.off) := (act_of_cache rfl).1 (hsent e he hs)
        have := hpre _ hact
        have := hm2 hb
        omega
      · have := (hp.rule hf).1
        rw [this] at hl; cases hl
    · have hl' : r.flags.leftRecursive = false := by simpa using hl
      by_cases hmz : r.flags.memoize = true
      · obtain ⟨hlv, hce⟩ := hc2 hl' hmz
        have hbody := ruleBody_tri hrec r s m true hce
        obtain ⟨hpost, hsent⟩ := memoBody_memo_sn hl' hmz hbody n hlv _ _ _ hx
          (hyp_of_cache hh rfl) (pre_of_cache hpre rfl)
        refine ⟨(hpost.cache_l rfl).cache_r (LR.traceResult_cache _ _), fun _ e he => hsent e he,
          fun hp => ?_⟩
        have := (hp.rule hf).2.1
        rw [this] at hmz; cases hmz
      · have hmemo : r.flags.memoize = false := by simpa using hmz
        unfold memoBody at hx
        simp only [hl', hmemo, Bool.false_eq_true, if_false] at hx
        obtain ⟨hpost, h2, h3⟩ := ruleBody_tri hrec r s m b (hc3 hl' hmemo) _ _ _ hx
          (hyp_of_cache hh rfl) (pre_of_cache hpre rfl)
        exact ⟨(hpost.cache_l rfl).cache_r (LR.traceResult_cache _ _), h2, fun hp => h3 (hp.rule hf).2.2⟩

end

section
variable {env : Env} {lvl : String → Nat} {rec : Rec}

theorem classErr_real (nm : String) : Spec.expectedCharacterClass nm ≠ .leftRecursionSentinel := by
  intro h; cases h

theorem charParts_tri (hrec : SInv env lvl rec) (name : String) {m : Nat} {b : Bool} :
    ∀ ps s, (∀ id, CharRulePart.ident id ∈ ps → ChkR env lvl m false id) →
      Tri lvl m b (∀ id, CharRulePart.ident id ∈ ps → ProgR env id) s (charParts rec name ps s) := by
  intro ps
  induction ps with
  | nil =>
    intro s _
    exact Tri.pure (fun _ _ he => by cases he)
      (fun e he hg => by cases he; exact reportError_real hg (classErr_real _))
  | cons p ps ih =>
    intro s hchk g res g' h hh hpre
    have hih := ih s (fun id hid => hchk id (List.mem_cons_of_mem _ hid))
    have key : ∀ (x : Out Val) (pp : Prop),
        (∀ r1 g1, x = some (r1, g1) → Post s g r1 g1 ∧ (pp → ∀ v s', r1 = .ok v s' → s.off < s'.off)) →
        (match x with
         | none => none
         | some (.ok v s', g') => some (.ok v s', g')
         | some (.err _, g') => charParts rec name ps s g'
         | some (.panic m, g') => some (.panic m, g')) = some (res, g') →
        Post s g res g' ∧ (b = true → ∀ e, res = .err e → ¬ IsSent e) ∧
          ((pp ∧ ∀ id, CharRulePart.ident id ∈ ps → ProgR env id) → ∀ v s', res = .ok v s' → s.off < s'.off) := by
      intro x pp hx h
      split at h
      · cases h
      · cases h
        obtain ⟨h1, h2⟩ := hx _ _ rfl
        exact ⟨h1, fun _ e he => (by cases he), fun hp => h2 hp.1⟩
      · rename_i e0 g0
        obtain ⟨⟨_, hs0, hc0⟩, _⟩ := hx _ _ rfl
        obtain ⟨h1, h2, h3⟩ := hih _ _ _ h (hyp_next hh (Nat.le_refl _) hh.good hs0 hc0)
          (pre_next hh hpre hs0 (Nat.le_refl _))
        exact ⟨Post.then_same hs0 h1, h2, fun hp => h3 hp.2⟩
      · cases h
        exact ⟨trivial, fun _ e he => (by cases he), fun _ v s' he => (by cases he)⟩
    cases p with
    | chr item =>
      simp only [charParts] at h
      obtain ⟨h1, h2, h3⟩ := key _ True (fun r1 g1 hx => by
        split at hx
        · cases hx
          obtain ⟨a1, _, a3⟩ := Tri.term (lvl := lvl) (m := m) (b := false)
            (termOK_parseCharacterLiteral _) Val.chr g _ _ rfl hh hpre
          exact ⟨a1, a3⟩
        · cases hx; exact ⟨trivial, fun _ v s' he => (by cases he)⟩) h
      exact ⟨h1, h2, fun hp => h3 ⟨trivial, fun id hid => hp id (List.mem_cons_of_mem _ hid)⟩⟩
    | range lo hi =>
      simp only [charParts] at h
      obtain ⟨h1, h2, h3⟩ := key _ True (fun r1 g1 hx => by
        split at hx
        · cases hx
          obtain ⟨a1, _, a3⟩ := Tri.term (lvl := lvl) (m := m) (b := false)
            (termOK_parseCharacterRange _ _) Val.chr g _ _ rfl hh hpre
          exact ⟨a1, a3⟩
        · cases hx; exact ⟨trivial, fun _ v s' he => (by cases he)⟩) h
      exact ⟨h1, h2, fun hp => h3 ⟨trivial, fun id hid => hp id (List.mem_cons_of_mem _ hid)⟩⟩
    | ident id =>
      simp only [charParts] at h
      obtain ⟨h1, h2, h3⟩ := key _ (ProgR env id) (fun r1 g1 hx => by
        obtain ⟨a1, _, a3⟩ := hrec.rule id s m false (hchk id (List.mem_cons_self ..)) _ _ _ hx hh hpre
        exact ⟨a1, a3⟩) h
      exact ⟨h1, h2, fun hp => h3 ⟨hp id (List.mem_cons_self ..), fun id' hid => hp id' (List.mem_cons_of_mem _ hid)⟩⟩

theorem charRule_tri (hrec : SInv env lvl rec) {name : String} {r : CharRule}
    (hf : env.g.find name = some (.charRule r)) (s : St) (m : Nat) (b : Bool)
    (hchk : ChkR env lvl m b name) : Tri lvl m b (ProgR env name) s (charRule env rec r s) := by
  have hparts := fun s => (charParts_tri hrec r.name (b := b) r.choices s (hchk.charRule hf)).weaken id
    (fun (hp : ProgR env name) => hp.charRule hf)
  intro g res g' h hh hpre
  unfold charRule at h
  split at h
  · exact hparts s _ _ _ h hh hpre
  · split at h
    · cases h
      exact ⟨⟨errOK_real hh.good (classErr_real _), SentSub.refl _, hh.cinv⟩,
        fun _ e he => (by cases he; exact (reportError_real hh.good (classErr_real _)).2),
        fun _ v s' he => (by cases he)⟩
    · rename_i c hc
      split at h
      · rename_i e g1 hcc
        have hcache : g1.cache = g.cache := by
          have := LR.charChecks_cache (env := env) r.name r.directives c s g
          rw [hcc] at this; exact this
        have he := charChecks_err (env := env) r.name _ _ _ _ _ _ hcc
        cases h
        rw [he]
        exact ⟨⟨errOK_real hh.good (classErr_real _), sentSub_of_cache hcache, cinv_of_cache hh.cinv hcache⟩,
          fun _ e he => (by cases he; exact (reportError_real hh.good (classErr_real _)).2),
          fun _ v s' he => (by cases he)⟩
      · rename_i g1 hcc
        have hcache : g1.cache = g.cache := by
          have := LR.charChecks_cache (env := env) r.name r.directives c s g
          rw [hcc] at this; exact this
        obtain ⟨h1, h2, h3⟩ := hparts s _ _ _ h (hyp_of_cache hh hcache) (pre_of_cache hpre hcache)
        exact ⟨h1.cache_l hcache, h2, h3⟩

theorem externRule_tri (r : ExternRule) (s : St) (m : Nat) (b : Bool) :
    Tri lvl m b False s (externRule env r s) := by
  intro g res g' h hh hpre
  unfold externRule at h
  simp only at h
  split at h
  · rename_i v adv hres
    cases h
    have hreal : ∀ msg, Spec.externRuleFailed msg ≠ .leftRecursionSentinel := by intro msg h; cases h
    cases hadv : s.advanceSafe adv v with
    | ok v' s' =>
      have hw : LR.Within (s.off + s.rest.length) s := rfl
      have hfwd := LR.fwd_advanceSafe adv v hw v' s' hadv
      exact ⟨⟨hfwd.1, goodSt_of_far (advanceSafe_far hadv) hfwd.1 hh.good, sentSub_of_cache rfl,
        cinv_of_cache hh.cinv rfl⟩, fun _ e he => (by cases he), fun hf => hf.elim⟩
    | err e => exact absurd hadv advanceSafe_ne_err
    | panic msg => exact ⟨trivial, fun _ e he => (by cases he), fun hf => hf.elim⟩
  · cases h
    have hreal : ∀ msg, Spec.externRuleFailed msg ≠ .leftRecursionSentinel := by intro msg h; cases h
    exact ⟨⟨errOK_real hh.good (hreal _), sentSub_of_cache rfl, cinv_of_cache hh.cinv rfl⟩,
      fun _ e he => (by cases he; exact (reportError_real hh.good (hreal _)).2), fun hf => hf.elim⟩

theorem stepRule_tri (hrec : SInv env lvl rec) (hrf : RecFirstP env lvl) (n : Nat)
    (name : String) (s : St) (m : Nat) (b : Bool) (hchk : ChkR env lvl m b name) :
    Tri lvl m b (ProgR env name) s (stepRule env rec n name s) := by
  intro g res g' h hh hpre
  unfold stepRule at h
  split at h
  · rename_i r hf
    exact normalRule_tri hrec hrf n hf s m b hchk _ _ _ h hh hpre
  · rename_i r hf
    exact charRule_tri hrec hf s m b hchk _ _ _ h hh hpre
  · rename_i r hf
    exact (externRule_tri r s m b).weaken id (fun (hp : ProgR env name) => hp.externRule hf) _ _ _ h hh hpre
  · rename_i hf
    split at h
    · cases h
      exact (Tri.term (lvl := lvl) termOK_parseChar Val.chr).weaken id (fun _ => trivial) g _ _ rfl hh hpre
    · rename_i hne
      split at h
      · cases h
        refine (Tri.term (lvl := lvl) termOK_parseWhitespace (fun _ => Val.unit)).weaken id
          (fun (hp : ProgR env name) => ?_) g _ _ rfl hh hpre
        have := hp.none hf
        subst this
        simp at hne
      · cases h
        exact ⟨trivial, fun _ e he => (by cases he), fun _ v s' he => (by cases he)⟩

theorem step_sinv (hrec : SInv env lvl rec) (hrf : RecFirstP env lvl) (n : Nat) :
    SInv env lvl (step env rec n) :=
  ⟨fun ctx e s m b h => stepExpr_tri hrec n ctx e s m b h,
   fun name s m b h => stepRule_tri hrec hrf n name s m b h⟩

end

theorem eval_sinv (env : Env) (lvl : String → Nat) (hrf : RecFirstP env lvl) :
    ∀ n, SInv env lvl (eval env n) := by
  intro n
  induction n with
  | zero =>
    exact ⟨fun _ _ _ _ _ _ _ _ _ h => by simp [eval] at h, fun _ _ _ _ _ _ _ _ h => by simp [eval] at h⟩
  | succ n ih => exact step_sinv ih hrf n

theorem recFirstP_of {env : Env} {lvl : String → Nat} {fuel : Nat}
    (h : RecFirst env.g env.settings lvl fuel = true) : RecFirstP env lvl := by
  intro r hr hl
  unfold RecFirst at h
  rw [List.all_eq_true] at h
  have := h _ hr
  simp only [hl, Bool.not_true, Bool.false_or] at this
  exact Or.inr ⟨fuel, this⟩

theorem hyp_init (inp : List UInt8) (u : Nat) : Hyp (St.new inp) (Global.init u) := by
  refine ⟨goodSt_new inp, ⟨fun k v ns h => ?_, fun k e h => ?_⟩, fun k hk => ?_⟩
  · simp [Global.init, Global.lookup] at h
  · simp [Global.init, Global.lookup] at h
  · obtain ⟨e, h, _⟩ := hk
    simp [Global.init, Global.lookup] at h

theorem pre_init (lvl : String → Nat) (q u : Nat) : Pre lvl 0 q (Global.init u) := by
  intro R hk
  obtain ⟨e, h, _⟩ := hk
  simp [Global.init, Global.lookup] at h

end SN

/-! ## Part 4: the theorems -/

/-- **C10, last clause, with `@leftrec` rules.**  If the grammar has no `@memoize` rule and the body
    of every `@leftrec` rule passes the check `RecFirst` (for some assignment `lvl` of precedence
    levels to rule names and some analysis fuel), the error reported by a failing parse is never the
    internal left-recursion sentinel. -/
theorem C10_no_sentinel (env : Env) (lvl : String → Nat) (fuel : Nat)
    (hrf : RecFirst env.g env.settings lvl fuel = true)
    (n : Nat) (rule : String) (inp : List UInt8) (u : Nat) {e : PErr} {g' : Global}
    (h : parseAdvanced env n rule inp u = some (.err e, g')) : e.spec ≠ .leftRecursionSentinel := by
  have hinv := SN.eval_sinv env lvl (SN.recFirstP_of hrf) n
  obtain ⟨_, h2, _⟩ := hinv.rule rule (St.new inp) 0 true (Or.inl rfl) _ _ _ h
    (SN.hyp_init inp u) (SN.pre_init lvl _ u)
  exact h2 rfl e rfl

/-- the plain reading: all `@leftrec` rules on one level – in every `@leftrec` rule the last
    alternative is a base alternative -/
theorem C10_no_sentinel_flat (env : Env) (fuel : Nat)
    (hrf : RecFirst env.g env.settings (fun _ => 0) fuel = true)
    (n : Nat) (rule : String) (inp : List UInt8) (u : Nat) {e : PErr} {g' : Global}
    (h : parseAdvanced env n rule inp u = some (.err e, g')) : e.spec ≠ .leftRecursionSentinel :=
  C10_no_sentinel env (fun _ => 0) fuel hrf n rule inp u h

/-- on success, a sentinel that is still stored in `farthest_error` lies at or before the end of the
    match: the next real failure of the caller replaces it (`record_error` uses `≤`) -/
theorem C10_no_sentinel_success (env : Env) (lvl : String → Nat) (fuel : Nat)
    (hrf : RecFirst env.g env.settings lvl fuel = true)
    (n : Nat) (rule : String) (inp : List UInt8) (u : Nat) {v : Val} {s' : St} {g' : Global}
    (h : parseAdvanced env n rule inp u = some (.ok v s', g')) :
    ∀ f, s'.far = some f → f.spec = .leftRecursionSentinel → f.pos ≤ s'.off := by
  have hinv := SN.eval_sinv env lvl (SN.recFirstP_of hrf) n
  obtain ⟨h1, _, _⟩ := hinv.rule rule (St.new inp) 0 true (Or.inl rfl) _ _ _ h
    (SN.hyp_init inp u) (SN.pre_init lvl _ u)
  exact h1.2.1

/-- when the parse has answered (success or failure), no cache entry holds the sentinel any more:
    every planted seed has been replaced by the final answer of its grow loop -/
theorem C10_no_sentinel_cache (env : Env) (lvl : String → Nat) (fuel : Nat)
    (hrf : RecFirst env.g env.settings lvl fuel = true)
    (n : Nat) (rule : String) (inp : List UInt8) (u : Nat) {res : Res Val} {g' : Global}
    (h : parseAdvanced env n rule inp u = some (res, g')) (hres : ∀ msg, res ≠ .panic msg) :
    ∀ k e, g'.lookup k = some (.err e) → e.spec ≠ .leftRecursionSentinel := by
  have hinv := SN.eval_sinv env lvl (SN.recFirstP_of hrf) n
  obtain ⟨h1, _, _⟩ := hinv.rule rule (St.new inp) 0 true (Or.inl rfl) _ _ _ h
    (SN.hyp_init inp u) (SN.pre_init lvl _ u)
  have hsub : SN.SentSub g' (Global.init u) := by
    cases res with
    | ok v s' => exact h1.2.2.1
    | err e => exact h1.2.1
    | panic msg => exact absurd rfl (hres msg)
  intro k e hk hs
  obtain ⟨e0, h0, _⟩ := hsub k ⟨e, hk, hs⟩
  simp [Global.init, Global.lookup] at h0

/-! ### the shape "recursive alternatives first, then base alternatives"

  `chk` only constrains the *last* alternative strictly.  The reading of the informal sentence –
  `R = rec₁ | … | recₖ | base₁ | … | baseₗ` (`l ≥ 1`) with every base alternative passing the strict check
  and every recursive alternative the non-strict one – is a special case. -/

namespace SN

theorem chkAlts_mono {ce : Bool → Expr → Bool} (h : ∀ a, ce true a = true → ce false a = true) :
    ∀ as, chkAlts ce true as = true → chkAlts ce false as = true := by
  intro as
  induction as with
  | nil => intro _; rfl
  | cons a as ih =>
    cases as with
    | nil => intro ha; exact h a ha
    | cons a' as =>
      intro ha
      simp only [chkAlts, Bool.and_eq_true] at ha ⊢
      exact ⟨ha.1, ih ha.2⟩

theorem chkSeq_mono {ce : Bool → Expr → Bool} {pr : Expr → Bool}
    (h : ∀ a, ce true a = true → ce false a = true) :
    ∀ ps, chkSeq ce pr true ps = true → chkSeq ce pr false ps = true := by
  intro ps
  induction ps with
  | nil => intro _; rfl
  | cons p ps ih =>
    intro hp
    simp only [chkSeq, Bool.and_eq_true, Bool.or_eq_true] at hp ⊢
    exact ⟨h p hp.1, hp.2.imp id ih⟩

theorem chkRule_mono {g : Grammar} {st : Settings} {lvl : String → Nat} {m : Nat}
    {ce : Bool → Bool → Expr → Bool} (h : ∀ w a, ce w true a = true → ce w false a = true) (name : String)
    (hc : chkRule g st lvl m true ce name = true) : chkRule g st lvl m false ce name = true := by
  cases hf : g.find name with
  | none => simp only [chkRule, hf]
  | some entry =>
    cases entry with
    | rule r =>
      simp only [chkRule, hf] at hc ⊢
      by_cases hl : r.flags.leftRecursive = true
      · simp only [hl, if_true, decide_eq_true_eq] at hc
        simp only [hl, if_true, Bool.false_eq_true, if_false, decide_eq_true_eq]
        omega
      · simp only [if_neg hl] at hc ⊢
        by_cases hmz : r.flags.memoize = true
        · simp only [if_pos hmz] at hc ⊢
          exact hc
        · simp only [if_neg hmz] at hc ⊢
          exact h _ _ hc
    | charRule cr =>
      simp only [chkRule, hf] at hc ⊢
      exact hc
    | externRule er => simp only [chkRule, hf]

/-- the strict check implies the non-strict one -/
theorem chk_mono (g : Grammar) (st : Settings) (lvl : String → Nat) :
    ∀ d m w e, chk g st lvl d m w true e = true → chk g st lvl d m w false e = true := by
  intro d
  induction d with
  | zero => intro m w e h; simp [chk] at h
  | succ d ih =>
    intro m w e h
    have hr : ∀ name, chkRule g st lvl m true (chk g st lvl d m) name = true →
        chkRule g st lvl m false (chk g st lvl d m) name = true :=
      fun name => chkRule_mono (fun w a => ih m w a) name
    cases e with
    | choice alts => simp only [chk] at h ⊢; exact chkAlts_mono (ih m w) _ h
    | seq parts => simp only [chk] at h ⊢; exact chkSeq_mono (ih m w) _ h
    | group x => simp only [chk] at h ⊢; exact ih _ _ _ h
    | opt x => simpa only [chk] using h
    | closure x plus =>
      simp only [chk] at h ⊢
      cases plus with
      | true => exact ih _ _ _ h
      | false => exact h
    | neg x => simpa only [chk] using h
    | pos x => simp only [chk] at h ⊢; exact ih _ _ _ h
    | range lo hi =>
      simp only [chk, Bool.or_eq_true] at h ⊢
      exact h.imp id (hr _)
    | lit ins body =>
      simp only [chk, Bool.or_eq_true] at h ⊢
      exact h.imp id (hr _)
    | eoi =>
      simp only [chk, Bool.or_eq_true] at h ⊢
      exact h.imp id (hr _)
    | incl r =>
      simp only [chk] at h ⊢
      split
      · rename_i rule hf
        simp only [hf] at h
        exact ih _ _ _ h
      · rfl
    | field nm bx typ =>
      simp only [chk, Bool.and_eq_true, Bool.or_eq_true] at h ⊢
      exact ⟨h.1.imp id (hr _), hr _ h.2⟩

theorem chkAlts_append {ce : Bool → Expr → Bool} (hm : ∀ a, ce true a = true → ce false a = true) :
    ∀ (recs bases : List Expr), bases ≠ [] → (∀ a ∈ recs, ce false a = true) →
      (∀ a ∈ bases, ce true a = true) → chkAlts ce true (recs ++ bases) = true := by
  intro recs
  induction recs with
  | nil =>
    intro bases
    induction bases with
    | nil => intro h; exact absurd rfl h
    | cons a as ih =>
      intro _ _ hb
      cases as with
      | nil => exact hb a (List.mem_cons_self ..)
      | cons a' as =>
        simp only [List.nil_append, chkAlts, Bool.and_eq_true] at ih ⊢
        exact ⟨hm a (hb a (List.mem_cons_self ..)),
          ih (by simp) (fun _ h => by cases h) (fun x hx => hb x (List.mem_cons_of_mem _ hx))⟩
  | cons r recs ih =>
    intro bases hne hr hb
    have htail := ih bases hne (fun a ha => hr a (List.mem_cons_of_mem _ ha)) hb
    cases hrb : recs ++ bases with
    | nil =>
      have : bases = [] := (List.append_eq_nil_iff.1 hrb).2
      exact absurd this hne
    | cons x xs =>
      rw [hrb] at htail
      simp only [List.cons_append, hrb, chkAlts, Bool.and_eq_true]
      exact ⟨hr r (List.mem_cons_self ..), htail⟩

end SN

/-- a `@leftrec` body of the shape `rec₁ | … | recₖ | base₁ | … | baseₗ`, `l ≥ 1`, whose base
    alternatives pass the strict check and whose recursive alternatives pass the non-strict one,
    passes `RecFirst`'s check (with one more unit of fuel) -/
theorem RecFirst.of_shape (g : Grammar) (st : Settings) (lvl : String → Nat) (d m : Nat) (w : Bool)
    (recs bases : List Expr) (hne : bases ≠ [])
    (hrecs : ∀ a ∈ recs, SN.chk g st lvl d m w false a = true)
    (hbases : ∀ a ∈ bases, SN.chk g st lvl d m w true a = true) :
    SN.chk g st lvl (d + 1) m w true (.choice (recs ++ bases)) = true := by
  simp only [SN.chk]
  exact SN.chkAlts_append (SN.chk_mono g st lvl d m w) recs bases hne hrecs hbases

/-! ## Part 5: examples (all checked by `decide`) -/

/-- the reported error of a failing parse -/
def reportedErr (env : Env) (fuel : Nat) (rule : String) (inp : List UInt8) : Option PErr :=
  match parseAdvanced env fuel rule inp 0 with
  | some (.err e, _) => some e
  | _ => none

theorem reportedErr_some {env : Env} {fuel : Nat} {rule : String} {inp : List UInt8} {e : PErr}
    (h : reportedErr env fuel rule inp = some e) :
    ∃ g', parseAdvanced env fuel rule inp 0 = some (.err e, g') := by
  unfold reportedErr at h
  split at h
  · rename_i e0 g0 heq
    cases h
    exact ⟨g0, heq⟩
  · cases h

/-- `C10_no_sentinel` in terms of `reportedErr` -/
theorem C10_no_sentinel_reported (env : Env) (lvl : String → Nat) (fuel : Nat)
    (hrf : RecFirst env.g env.settings lvl fuel = true)
    {n : Nat} {rule : String} {inp : List UInt8} {e : PErr}
    (h : reportedErr env n rule inp = some e) : e.spec ≠ .leftRecursionSentinel := by
  obtain ⟨g', hg⟩ := reportedErr_some h
  exact C10_no_sentinel env lvl fuel hrf n rule inp 0 hg

namespace SentinelExample

def lit (c : Char) : Expr := .lit false [.chr c]
def call (r : String) : Expr := .field none false r

/-! ### non-vacuity 1: `@export @leftrec E = l:*E '+' r:Num | b:Num;  @string Num = {'0'..'9'}+;`
    (`LeftRecExample.envE`) -/

open LeftRecExample in
example : RecFirst envE.g envE.settings (fun _ => 0) 10 = true := by decide
/-- `"+1"` -/
example : reportedErr LeftRecExample.envE 30 "E" [43, 49] =
    some ⟨0, .expectedCharacterRange '0' '9'⟩ := by decide
/-- `"x"` -/
example : reportedErr LeftRecExample.envE 30 "E" [120] =
    some ⟨0, .expectedCharacterRange '0' '9'⟩ := by decide

/-! ### non-vacuity 2: a start rule above the left-recursive rule
    `@export S = e:E ';';  @leftrec E = l:*E '+' r:Num | b:Num;  @string Num = {'0'..'9'}+;` -/

def ruleS : Rule := ⟨[.export], "S", .seq [.field (some (.ident "e")) false "E", lit ';']⟩
def envS : Env :=
  { g := ⟨[.rule ruleS, .rule LeftRecExample.ruleE, .rule LeftRecExample.ruleNum]⟩,
    settings := {}, hooks := default, nf := 10 }

example : RecFirst envS.g envS.settings (fun _ => 0) 10 = true := by decide
/-- `"1+2"`: `E` succeeds (its state may still carry the sentinel of offset 0), `';'` fails at 3 -/
example : reportedErr envS 40 "S" [49, 43, 50] = some ⟨3, .expectedCharacter ';'⟩ := by decide
/-- `"+"` -/
example : reportedErr envS 40 "S" [43] = some ⟨0, .expectedCharacterRange '0' '9'⟩ := by decide

/-! ### non-vacuity 3: a precedence tower needs levels
    `@export @leftrec E = E '+' T | T;  @leftrec T = T '*' F | F;  F = Num | '(' E ')';` -/

def towerE : Rule := ⟨[.export, .leftrec], "E", .choice [.seq [call "E", lit '+', call "T"], call "T"]⟩
def towerT : Rule := ⟨[.leftrec], "T", .choice [.seq [call "T", lit '*', call "F"], call "F"]⟩
def towerF : Rule := ⟨[], "F", .choice [call "Num", .seq [lit '(', call "E", lit ')']]⟩
def envT : Env :=
  { g := ⟨[.rule towerE, .rule towerT, .rule towerF, .rule LeftRecExample.ruleNum]⟩,
    settings := {}, hooks := default, nf := 10 }
def lvlT : String → Nat := fun n => if n == "T" then 1 else 0

example : RecFirst envT.g envT.settings lvlT 10 = true := by decide
/-- … the flat assignment is rejected (the check is conservative: `T` is a `@leftrec` rule in the
    last alternative of `E`) -/
example : RecFirst envT.g envT.settings (fun _ => 0) 10 = false := by decide
/-- `"*"` -/
example : reportedErr envT 60 "E" [42] = some ⟨0, .expectedCharacter '('⟩ := by decide
/-- `"(1"` -/
example : reportedErr envT 60 "E" [40, 49] = some ⟨2, .expectedCharacter ')'⟩ := by decide

/-! ### non-vacuity 4: the recursion goes through ordinary rules (the shape used in peginator's
    documentation) `@export @leftrec Expr = Add | Sub | Term;  Add = Expr '+' Term;
    Sub = Expr '-' Term;  Term = Num | '(' Expr ')';`, with a user-defined `Whitespace` rule -/

def envDoc : Env :=
  { g := ⟨[.rule ⟨[.export, .leftrec], "Expr", .choice [call "Add", call "Sub", call "Term"]⟩,
           .rule ⟨[], "Add", .seq [call "Expr", lit '+', call "Term"]⟩,
           .rule ⟨[], "Sub", .seq [call "Expr", lit '-', call "Term"]⟩,
           .rule ⟨[], "Term", .choice [call "Num", .seq [lit '(', call "Expr", lit ')']]⟩,
           .rule LeftRecExample.ruleNum,
           .rule ⟨[.noSkipWs], "Whitespace", .closure (.choice [lit ' ', lit '\t']) false⟩]⟩,
    settings := {}, hooks := default, nf := 10 }

example : RecFirst envDoc.g envDoc.settings (fun _ => 0) 20 = true := by decide
/-- `" -"` -/
example : reportedErr envDoc 60 "Expr" [32, 45] = some ⟨1, .expectedCharacter '('⟩ := by decide
/-- `"(1 - 2"` -/
example : reportedErr envDoc 80 "Expr" [40, 49, 32, 45, 32, 50] = some ⟨6, .expectedCharacter ')'⟩ := by
  decide

/-! ### the side conditions are necessary -/

/-- base alternative first, `@leftrec A = 'b' | A 'x'`: on `"c"` the sentinel IS reported (the base
    alternative fails at 0 first, the seed answers the recursive reference with the sentinel at 0,
    which wins by the `≤` rule) -/
def envBaseFirst : Env :=
  { g := ⟨[.rule ⟨[.export, .leftrec], "A", .choice [lit 'b', .seq [call "A", lit 'x']]⟩]⟩,
    settings := {}, hooks := default, nf := 10 }

example : reportedErr envBaseFirst 30 "A" [99] = some ⟨0, .leftRecursionSentinel⟩ := by decide
example : RecFirst envBaseFirst.g envBaseFirst.settings (fun _ => 0) 10 = false := by decide

/-- the same rule with the recursive alternative first is accepted, and reports the real failure -/
def envRecFirst : Env :=
  { g := ⟨[.rule ⟨[.export, .leftrec], "A", .choice [.seq [call "A", lit 'x'], lit 'b']⟩]⟩,
    settings := {}, hooks := default, nf := 10 }

example : RecFirst envRecFirst.g envRecFirst.settings (fun _ => 0) 10 = true := by decide
example : reportedErr envRecFirst 30 "A" [99] = some ⟨0, .expectedCharacter 'b'⟩ := by decide

/-- no base alternative at all, `@leftrec A = A 'x'` ("recursive alternatives first" holds
    vacuously): the sentinel is reported – at least one base alternative is needed -/
def envNoBase : Env :=
  { g := ⟨[.rule ⟨[.export, .leftrec], "A", .choice [.seq [call "A", lit 'x']]⟩]⟩,
    settings := {}, hooks := default, nf := 10 }

example : reportedErr envNoBase 30 "A" [99] = some ⟨0, .leftRecursionSentinel⟩ := by decide
example : RecFirst envNoBase.g envNoBase.settings (fun _ => 0) 10 = false := by decide

/-- a base alternative that reaches the recursion behind a lookahead,
    `@leftrec A = A 'x' | !'c' A 'y'`: the sentinel is reported -/
def envLookahead : Env :=
  { g := ⟨[.rule ⟨[.export, .leftrec], "A",
      .choice [.seq [call "A", lit 'x'], .seq [.neg (lit 'c'), call "A", lit 'y']]⟩]⟩,
    settings := {}, hooks := default, nf := 10 }

example : reportedErr envLookahead 30 "A" [100] = some ⟨0, .leftRecursionSentinel⟩ := by decide
example : RecFirst envLookahead.g envLookahead.settings (fun _ => 0) 10 = false := by decide

/-- **a `@memoize` rule inside the left recursion leaks the sentinel** (a finding about the model): with
    `@export S = A 'w' | M;  @leftrec A = M 'x' | 'b';  @memoize M = A 'y';`
    the `@leftrec` rule lists its recursive alternative first and has a base alternative, but on `"z"`
    the memoized rule `M`, evaluated inside the first iteration of `A`, caches the sentinel failure of
    the recursive reference for good; the cache hit of the second alternative of `S` replays it after
    the seed is gone, at the same position as the real failure – and the sentinel is reported.
    This is why `RecFirst` checks a `@memoize` rule reached from a `@leftrec` body before input is
    consumed *strictly* (and wants its level above): no level assignment accepts this grammar. -/
def envMemo : Env :=
  { g := ⟨[.rule ⟨[.export], "S", .choice [.seq [call "A", lit 'w'], call "M"]⟩,
           .rule ⟨[.leftrec], "A", .choice [.seq [call "M", lit 'x'], lit 'b']⟩,
           .rule ⟨[.memoize], "M", .seq [call "A", lit 'y']⟩]⟩,
    settings := {}, hooks := default, nf := 10 }

theorem envMemo_reported : reportedErr envMemo 30 "S" [122] = some ⟨0, .leftRecursionSentinel⟩ := by
  decide

example : ∀ lvl fuel, RecFirst envMemo.g envMemo.settings lvl fuel = false := by
  intro lvl fuel
  cases h : RecFirst envMemo.g envMemo.settings lvl fuel with
  | false => rfl
  | true => exact absurd rfl (C10_no_sentinel_reported envMemo lvl fuel h envMemo_reported)

/-- … without the `@memoize` directive the same grammar is accepted and reports the real failure -/
def envMemo' : Env :=
  { g := ⟨[.rule ⟨[.export], "S", .choice [.seq [call "A", lit 'w'], call "M"]⟩,
           .rule ⟨[.leftrec], "A", .choice [.seq [call "M", lit 'x'], lit 'b']⟩,
           .rule ⟨[], "M", .seq [call "A", lit 'y']⟩]⟩,
    settings := {}, hooks := default, nf := 10 }

example : RecFirst envMemo'.g envMemo'.settings (fun _ => 0) 10 = true := by decide
example : reportedErr envMemo' 30 "S" [122] = some ⟨0, .expectedCharacter 'b'⟩ := by decide

/-- a `@memoize` rule *below* the left recursion is fine: the tower with `@memoize F`, levels
    `E ↦ 0, T ↦ 1, F ↦ 2` -/
def envTM : Env :=
  { g := ⟨[.rule towerE, .rule towerT, .rule ⟨[.memoize], "F", towerF.definition⟩,
           .rule LeftRecExample.ruleNum]⟩,
    settings := {}, hooks := default, nf := 10 }
def lvlTM : String → Nat := fun n => if n == "T" then 1 else if n == "F" then 2 else 0

example : RecFirst envTM.g envTM.settings lvlTM 10 = true := by decide
/-- `"(1*"` -/
example : reportedErr envTM 60 "E" [40, 49, 42] = some ⟨2, .expectedCharacter ')'⟩ := by decide
/-- `"*"` -/
example : reportedErr envTM 60 "E" [42] = some ⟨0, .expectedCharacter '('⟩ := by decide

/-- mutual left recursion in which a `@leftrec` rule ends with a reference to the other one,
    `@export S = A 'w' | B;  @leftrec A = B 'x' | 'b'?;  @leftrec B = 'c' | A;`:
    `B` caches the sentinel of `A` as its own final failure.  The sentinel is reported on `"z"`, so
    (by `C10_no_sentinel`) *no* level assignment and no fuel makes `RecFirst` accept this grammar. -/
def envMutual : Env :=
  { g := ⟨[.rule ⟨[.export], "S", .choice [.seq [call "A", lit 'w'], call "B"]⟩,
           .rule ⟨[.leftrec], "A", .choice [.seq [call "B", lit 'x'], .opt (lit 'b')]⟩,
           .rule ⟨[.leftrec], "B", .choice [lit 'c', call "A"]⟩]⟩,
    settings := {}, hooks := default, nf := 10 }

theorem envMutual_reported : reportedErr envMutual 30 "S" [122] = some ⟨0, .leftRecursionSentinel⟩ := by
  decide

example : ∀ lvl fuel, RecFirst envMutual.g envMutual.settings lvl fuel = false := by
  intro lvl fuel
  cases h : RecFirst envMutual.g envMutual.settings lvl fuel with
  | false => rfl
  | true =>
    exact absurd rfl (C10_no_sentinel_reported envMutual lvl fuel h envMutual_reported)

end SentinelExample

end Peg
