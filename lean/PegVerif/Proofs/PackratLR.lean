import PegVerif.Proofs.Packrat
import PegVerif.Proofs.LeftRec
import PegVerif.Proofs.NonVacuity
import PegVerif.SpecLR
/-
  Property C06 (packrat / cache discipline) for ARBITRARY grammars – `@leftrec` rules allowed, no
  hypothesis on the grammar (`NoLeftrec`, `LROk`, … are not assumed).

  This lifts Part I of `Proofs/Packrat.lean`.  The ghost event `bodyEval name off` is emitted
    (a) by the `@memoize` branch of `memoBody` on a cache miss of a memoized, non-`@leftrec` rule,
    (b) by `growLoop` before EVERY iteration of the seed-and-grow loop of a `@leftrec` rule, which
        also re-inserts its key at each improving iteration.
  So "at most once / the cached value never changes / cached ⇒ no body evaluation" are statements
  about the keys `k` whose rule `k.1` is not a `@leftrec` rule (`¬ IsLR env k.1`); they hold
  wherever the memoized rule is called from, in particular from inside a grow loop.

  Everything new lives in `Peg.PLR`; `evals`, `Reentry`, `ResB`, `CacheB`, `Run`, `bodyKeys`,
  `memoNames`, `keyGrid` … are reused from `Proofs/Packrat.lean`.

  One pass over the evaluator (`eval_pinv`, no hypothesis on the grammar) proves for every evaluation
  from `g` to `g'` with new events `l` (`Trans env P g b g' l`):
    * `mono`  entries of non-`@leftrec` keys are never removed or overwritten,
    * `pres`  no key at all is ever removed (a `@leftrec` key may get a new value),
    * `hit`   a cached non-`@leftrec` key has no `bodyEval` event in `l`,
    * `done`  unless the evaluation panics, a non-`@leftrec` key with a `bodyEval` in `l` is cached in `g'`,
    * `once`  if `l` has no re-entry of a non-`@leftrec` key (`NoReM`) every such key has at most one
              `bodyEval` in `l`,
    * `evok`  every `bodyEval name off` belongs to a `@memoize` or `@leftrec` normal rule, `off` bounded.
  The grow loop is handled by two extra combinators (`Step.lrEmit`, `Step.lrInsert`: the ghost event and
  the re-insertion of a `@leftrec` key are invisible for the other keys) and `growRun_pinv`.

  Results: `C06_cache_mono`, `C06_cache_present`, `C06_evaluated_cached`, `C06_hit_returns_entry`
  (`…_leftrec`), `C06_cached_not_evaluated`, `C06_evaluated_inserted`, `C06_no_reevaluation(_later)`,
  `C06_once` / `C06_parse_once` / `C06_twice_is_reentry` (conditional on `NoReM`), `C06_parse_events`,
  `C06_bound(_of_once,_rules)`; a checker `noReMB` for `NoReM`; `Example` (a memoized rule inside a grow
  loop) and `ExampleBad` (the counting form fails, with pure hooks, for a memoized rule on a
  left-recursive cycle through a `@leftrec` rule – so `NoReM` cannot be dropped without a hypothesis on
  the grammar such as `LROk`).
-/
namespace Peg
namespace PLR

/-! ### `@leftrec` names -/

/-- `n` is the name of a `@leftrec` normal rule (Bool form; `find` = the first entry of that name,
    which is the one `parse_<n>` calls) -/
def isLRb (env : Env) (n : String) : Bool :=
  match env.g.find n with
  | some (.rule r) => r.flags.leftRecursive
  | _ => false

/-- `n` is the name of a `@leftrec` normal rule -/
def IsLR (env : Env) (n : String) : Prop := isLRb env n = true

instance (env : Env) (n : String) : Decidable (IsLR env n) := inferInstanceAs (Decidable (_ = true))

theorem isLR_iff {env : Env} {n : String} :
    IsLR env n ↔ ∃ r0, env.g.find n = some (.rule r0) ∧ r0.flags.leftRecursive = true := by
  unfold IsLR isLRb
  constructor
  · intro h
    split at h
    · rename_i r hf; exact ⟨r, hf, h⟩
    · cases h
  · rintro ⟨r0, hf, hl⟩
    rw [hf]; exact hl

theorem isLR_of_find {env : Env} {n : String} {r : Rule} (hf : env.g.find n = some (.rule r))
    (h : r.flags.leftRecursive = true) : IsLR env n := isLR_iff.2 ⟨r, hf, h⟩

theorem not_isLR_of_find {env : Env} {n : String} {r : Rule} (hf : env.g.find n = some (.rule r))
    (h : r.flags.leftRecursive = false) : ¬ IsLR env n := by
  intro hl
  obtain ⟨r0, hf0, h0⟩ := isLR_iff.1 hl
  rw [hf] at hf0
  cases hf0
  rw [h] at h0; cases h0

/-- without `@leftrec` rules no name is `IsLR` -/
theorem not_isLR_of_noLeftrec {env : Env} (hnl : NoLeftrec env.g) (n : String) : ¬ IsLR env n := by
  intro hl
  obtain ⟨r0, hf0, h0⟩ := isLR_iff.1 hl
  have := hnl r0 (List.mem_of_find?_eq_some hf0)
  rw [this] at h0; cases h0

/-- no re-entry for the keys of non-`@leftrec` rules.  (For a `@leftrec` key the grow loop emits one
    `bodyEval` per iteration inside ONE trace bracket: a `Reentry` in the sense of Packrat.lean, by
    design.) -/
def NoReM (env : Env) (l : List Ev) : Prop := ∀ k : String × Nat, ¬ IsLR env k.1 → ¬ Reentry l.reverse k

theorem NoReM.left {env : Env} {l1 l2 : List Ev} (h : NoReM env (l2 ++ l1)) : NoReM env l2 := by
  intro k hk hr
  apply h k hk
  rw [List.reverse_append]
  exact hr.append_left _

theorem NoReM.right {env : Env} {l1 l2 : List Ev} (h : NoReM env (l2 ++ l1)) : NoReM env l1 := by
  intro k hk hr
  apply h k hk
  rw [List.reverse_append]
  exact hr.append_right _

theorem NoReM.of_noRe {env : Env} {l : List Ev} (h : NoRe l) : NoReM env l := fun k _ => h k

section
variable (env : Env) (P : Nat → Prop)

/-- what is known about a `bodyEval name off` event -/
def EvOk (name : String) (off : Nat) : Prop :=
  (∃ r0, env.g.find name = some (.rule r0) ∧ (r0.flags.memoize = true ∨ r0.flags.leftRecursive = true)) ∧
    ∃ t, P t ∧ off ≤ t

/-- an evaluation from `g` to `g'` with new events `l` (newest first); `b`: the result is a panic -/
structure Trans (g : Global) (b : Bool) (g' : Global) (l : List Ev) : Prop where
  log : g'.log = l ++ g.log
  mono : ∀ k v, ¬ IsLR env k.1 → g.lookup k = some v → g'.lookup k = some v
  pres : ∀ k, g.lookup k ≠ none → g'.lookup k ≠ none
  hit : ∀ k, ¬ IsLR env k.1 → g.lookup k ≠ none → evals l k = 0
  done : b = false → ∀ k, ¬ IsLR env k.1 → 0 < evals l k → g'.lookup k ≠ none
  once : NoReM env l → ∀ k, ¬ IsLR env k.1 → evals l k ≤ 1
  evok : ∀ n o, Ev.bodyEval n o ∈ l → EvOk env P n o

def Step (g : Global) (b : Bool) (g' : Global) : Prop := ∃ l, Trans env P g b g' l

variable {env P}

theorem Step.refl (g : Global) (b : Bool) : Step env P g b g :=
  ⟨[], rfl, fun _ _ _ h => h, fun _ h => h, fun _ _ _ => rfl, fun _ k _ h => by simp [evals] at h,
    fun _ k _ => by simp [evals], fun _ _ h => by cases h⟩

theorem Step.mono {g g' : Global} {b b' : Bool} (h : Step env P g b g') (hb : b' = false → b = false) :
    Step env P g b' g' := by
  obtain ⟨l, h⟩ := h
  exact ⟨l, h.log, h.mono, h.pres, h.hit, fun hb' => h.done (hb hb'), h.once, h.evok⟩

theorem Step.trans {g g1 g2 : Global} {b : Bool} (h1 : Step env P g false g1) (h2 : Step env P g1 b g2) :
    Step env P g b g2 := by
  obtain ⟨l1, h1⟩ := h1
  obtain ⟨l2, h2⟩ := h2
  refine ⟨l2 ++ l1, ?_, ?_, ?_, ?_, ?_, ?_, ?_⟩
  · rw [h2.log, h1.log, List.append_assoc]
  · exact fun k v hn h => h2.mono k v hn (h1.mono k v hn h)
  · exact fun k h => h2.pres k (h1.pres k h)
  · intro k hn hk
    rw [evals_append, h1.hit k hn hk, h2.hit k hn (h1.pres k hk)]
  · intro hb k hn hk
    rw [evals_append] at hk
    by_cases h0 : 0 < evals l1 k
    · exact h2.pres k (h1.done rfl k hn h0)
    · exact h2.done hb k hn (by omega)
  · intro hno k hn
    rw [evals_append]
    have e1 := h1.once hno.right k hn
    have e2 := h2.once hno.left k hn
    by_cases h0 : 0 < evals l1 k
    · have := h2.hit k hn (h1.done rfl k hn h0)
      omega
    · omega
  · intro n o hm
    rcases List.mem_append.1 hm with hm | hm
    · exact h2.evok n o hm
    · exact h1.evok n o hm

theorem Step.emit (g : Global) (b : Bool) {e : Ev} (he : Neutral e) : Step env P g b (g.emit e) := by
  refine ⟨[e], rfl, fun _ _ _ h => h, fun _ h => h, fun k _ _ => evals_singleton_neutral he k, ?_, ?_, ?_⟩
  · intro _ k _ hk; rw [evals_singleton_neutral he k] at hk; cases hk
  · intro _ k _; rw [evals_singleton_neutral he k]; omega
  · intro n o hm
    simp only [List.mem_singleton] at hm
    subst hm
    have := he (n, o)
    simp [isBodyEval] at this

theorem Step.setUctx (g : Global) (b : Bool) (u : Nat) : Step env P g b { g with uctx := u } :=
  ⟨[], rfl, fun _ _ _ h => h, fun _ h => h, fun _ _ _ => rfl, fun _ k _ h => by simp [evals] at h,
    fun _ k _ => by simp [evals], fun _ _ h => by cases h⟩

/-- the ghost event of one iteration of the grow loop of the `@leftrec` key `key`: invisible for the
    keys of the other rules -/
theorem Step.lrEmit (g : Global) (b : Bool) {key : String × Nat} (hlr : IsLR env key.1)
    (hev : EvOk env P key.1 key.2) : Step env P g b (g.emit (.bodyEval key.1 key.2)) := by
  have hne : ∀ k : String × Nat, ¬ IsLR env k.1 → key ≠ k := fun k hn he => hn (he ▸ hlr)
  refine ⟨[.bodyEval key.1 key.2], rfl, fun _ _ _ h => h, fun _ h => h,
    fun k hn _ => evals_singleton_ne (hne k hn), ?_, ?_, ?_⟩
  · intro _ k hn hk; rw [evals_singleton_ne (hne k hn)] at hk; cases hk
  · intro _ k hn; rw [evals_singleton_ne (hne k hn)]; omega
  · intro n o hm
    simp only [List.mem_singleton, Ev.bodyEval.injEq] at hm
    obtain ⟨rfl, rfl⟩ := hm
    exact hev

/-- the grow loop plants / replaces the entry of its own `@leftrec` key: the entries of the keys of
    the other rules are untouched, and no key disappears -/
theorem Step.lrInsert (g : Global) (b : Bool) {key : String × Nat} (hlr : IsLR env key.1) (r : Res Val) :
    Step env P g b (g.insert key r) := by
  refine ⟨[], rfl, ?_, ?_, fun _ _ _ => rfl, fun _ k _ h => by simp [evals] at h,
    fun _ k _ => by simp [evals], fun _ _ h => by cases h⟩
  · intro k v hn hk
    rw [lookup_insert]
    have hne : ¬ (key == k) = true := by
      intro he
      have : key = k := by simpa using he
      exact hn (this ▸ hlr)
    rw [if_neg hne]; exact hk
  · intro k hk
    rw [lookup_insert]
    split
    · exact fun h => by cases h
    · exact hk

/-- the cache-miss branch of `generate_memoized_body` (the `@memoize` branch: `k.1` is not a
    `@leftrec` rule) -/
theorem Step.memo {g g1 : Global} {b b' : Bool} {k : String × Nat} (hnk : ¬ IsLR env k.1)
    (hk : g.lookup k = none) (hev : EvOk env P k.1 k.2)
    (h1 : Step env P (g.emit (.bodyEval k.1 k.2)) b g1)
    (ht : ∀ l1, g1.log = l1 ++ (g.emit (.bodyEval k.1 k.2)).log → Tr b' l1) :
    Step env P g true g1 ∧ ∀ r, Step env P g b (g1.insert k r) := by
  obtain ⟨l1, h1⟩ := h1
  have ht1 := ht l1 h1.log
  have hlog : g1.log = (l1 ++ [Ev.bodyEval k.1 k.2]) ++ g.log := by
    rw [h1.log]; simp
  have hhit : ∀ k', ¬ IsLR env k'.1 → g.lookup k' ≠ none → evals (l1 ++ [Ev.bodyEval k.1 k.2]) k' = 0 := by
    intro k' hn' hk'
    have hne : k ≠ k' := fun he => hk' (he ▸ hk)
    rw [evals_append, h1.hit k' hn' hk', evals_singleton_ne hne]
  have honce : NoReM env (l1 ++ [Ev.bodyEval k.1 k.2]) →
      ∀ k', ¬ IsLR env k'.1 → evals (l1 ++ [Ev.bodyEval k.1 k.2]) k' ≤ 1 := by
    intro hno k' hn'
    rw [evals_append]
    have e1 := h1.once hno.left k' hn'
    by_cases hkk : k = k'
    · subst hkk
      rw [evals_singleton_self]
      by_cases h0 : 0 < evals l1 k
      · exact absurd (reentry_of_nested ht1 h0) (hno k hnk)
      · omega
    · rw [evals_singleton_ne hkk]; omega
  have hevok : ∀ n o, Ev.bodyEval n o ∈ l1 ++ [Ev.bodyEval k.1 k.2] → EvOk env P n o := by
    intro n o hm
    rcases List.mem_append.1 hm with hm | hm
    · exact h1.evok n o hm
    · simp only [List.mem_singleton, Ev.bodyEval.injEq] at hm
      obtain ⟨rfl, rfl⟩ := hm
      exact hev
  refine ⟨⟨_, hlog, h1.mono, h1.pres, hhit, (fun h => by cases h), honce, hevok⟩,
    fun r => ⟨_, ?_, ?_, ?_, hhit, ?_, honce, hevok⟩⟩
  · rw [insert_log]; exact hlog
  · intro k' v hn' hk'
    rw [lookup_insert]
    have hne : ¬ (k == k') = true := by
      intro he
      have : k = k' := by simpa using he
      subst this
      rw [hk] at hk'; cases hk'
    rw [if_neg hne]
    exact h1.mono k' v hn' hk'
  · intro k' hk'
    rw [lookup_insert]
    split
    · exact fun h => by cases h
    · exact h1.pres k' hk'
  · intro hb k' hn' hk'
    rw [lookup_insert]
    split
    · exact fun h => by cases h
    · rename_i hne
      have hne' : k ≠ k' := fun he => hne (by simp [he])
      rw [evals_append, evals_singleton_ne hne'] at hk'
      exact h1.done hb k' hn' (by omega)

/-! ### the invariant of a computation -/

variable (env P)

def PPost {α} (g : Global) (r : Res α) (g' : Global) : Prop :=
  Step env P g r.isPanic g' ∧ CacheB P g' ∧ ResB P r

def PInv {α} (f : Global → Out α) : Prop :=
  ∀ g r g', f g = some (r, g') → CacheB P g → PPost env P g r g'

structure RecP (rec : Rec) : Prop where
  expr : ∀ ctx e s, P s.tot → PInv env P (rec.expr ctx e s)
  rule : ∀ name s, P s.tot → PInv env P (rec.rule name s)

variable {env P}

theorem PPost.refl {α} {g : Global} {r : Res α} (hc : CacheB P g) (hr : ResB P r) : PPost env P g r g :=
  ⟨Step.refl g _, hc, hr⟩

/-- replace the result (e.g. by a panic of the generated code after the sub-evaluation) -/
theorem PPost.replace {α β} {g g' : Global} {r : Res α} {r' : Res β} (h : PPost env P g r g')
    (hb : r'.isPanic = false → r.isPanic = false) (hr : ResB P r') : PPost env P g r' g' :=
  ⟨h.1.mono hb, h.2.1, hr⟩

theorem PPost.trans {α} {g g1 g2 : Global} {r : Res α} (h1 : Step env P g false g1) (h2 : PPost env P g1 r g2) :
    PPost env P g r g2 :=
  ⟨h1.trans h2.1, h2.2⟩

theorem PPost.emit_after {α} {g g' : Global} {r : Res α} (h : PPost env P g r g') (hnp : r.isPanic = false)
    {e : Ev} (he : Neutral e) : PPost env P g r (g'.emit e) := by
  refine ⟨?_, fun k v s' hl => h.2.1 k v s' hl, h.2.2⟩
  have h1 := h.1
  rw [hnp] at h1 ⊢
  exact h1.trans (Step.emit _ _ he)

theorem PPost.toPanic {α β} {g g' : Global} {r : Res α} (h : PPost env P g r g') (m : String) :
    PPost env P g (.panic m : Res β) g' :=
  h.replace (fun h => by simp [Res.isPanic] at h) (ResB.panic m)

theorem PPost.toErr {α β} {g g' : Global} {r : Res α} (h : PPost env P g r g') (hnp : r.isPanic = false)
    (e : PErr) : PPost env P g (.err e : Res β) g' :=
  h.replace (fun _ => hnp) (ResB.err e)

theorem PPost.toOk {α β} {g g' : Global} {r : Res α} (h : PPost env P g r g') (hnp : r.isPanic = false)
    (v : β) {s : St} (hs : P s.tot) : PPost env P g (.ok v s) g' :=
  h.replace (fun _ => hnp) (ResB.ok hs)

theorem PInv.pure {α} (r : Res α) (hr : ResB P r) : PInv env P (fun g => some (r, g)) := by
  intro g r' g' h hc
  cases h
  exact PPost.refl hc hr

theorem PInv.congr {α} {f f' : Global → Out α} (he : ∀ g, f g = f' g) (h : PInv env P f') : PInv env P f := by
  have : f = f' := funext he
  rw [this]; exact h

theorem PInv.ite {α} {c : Prop} [Decidable c] {f f' : Global → Out α} (h1 : PInv env P f)
    (h2 : PInv env P f') : PInv env P (fun g => if c then f g else f' g) := by
  by_cases hc : c
  · simp only [hc, if_true]; exact h1
  · simp only [hc, if_false]; exact h2

theorem bindR_pinv {α β} {f : Global → Out α} {k : α → St → Global → Out β}
    (hf : PInv env P f) (hk : ∀ v s, P s.tot → PInv env P (k v s)) :
    PInv env P (fun g => bindR (f g) k) := by
  intro g r g' h hc
  simp only [bindR] at h
  split at h
  · cases h
  · rename_i v s1 g1 heq
    obtain ⟨hs, hc1, hr1⟩ := hf _ _ _ heq hc
    exact PPost.trans hs (hk v s1 hr1.of_ok _ _ _ h hc1)
  · rename_i e g1 heq
    cases h
    exact (hf _ _ _ heq hc).toErr rfl e
  · rename_i m g1 heq
    cases h
    exact (hf _ _ _ heq hc).toPanic m

theorem withSkipWs_pinv {α} {rec : Rec} (hrec : RecP env P rec) {ctx : Ctx} {s : St} (hs : P s.tot)
    {k : St → Global → Out α} (hk : ∀ s, P s.tot → PInv env P (k s)) :
    PInv env P (fun g => withSkipWs rec ctx s g k) := by
  unfold withSkipWs
  split
  · exact bindR_pinv (hrec.rule _ _ hs) (fun _ s hs' => hk s hs')
  · exact hk s hs

/-! ### expression level -/

section
variable {rec : Rec}

theorem evalSeq_pinv (hrec : RecP env P rec) {ctx : Ctx} :
    ∀ ps seen acc s, P s.tot → PInv env P (evalSeq env rec ctx ps seen acc s) := by
  intro ps
  induction ps with
  | nil => intro seen acc s hs; exact PInv.pure _ (ResB.ok hs)
  | cons p ps ih =>
    intro seen acc s hs
    refine PInv.congr (fun g => by rw [evalSeq]) (bindR_pinv (hrec.expr ctx p s hs) (fun r s' hs' => ?_))
    cases hm : mergePart (filterRuleFields ctx.ruleFields (ownFields env p)) seen acc r with
    | error m => simp only [hm]; exact PInv.pure _ (ResB.panic _)
    | ok v => simp only [hm]; exact ih _ _ _ hs'

theorem evalAlts_pinv (hrec : RecP env P rec) {ctx : Ctx} {fields} :
    ∀ as s, P s.tot → PInv env P (evalAlts env rec ctx fields as s) := by
  intro as
  induction as with
  | nil => intro s hs; exact PInv.pure _ (ResB.err _)
  | cons a as ih =>
    intro s hs g r g' h hc
    simp only [evalAlts] at h
    split at h
    · cases h
    · rename_i r0 s0 g0 hx
      have hp := hrec.expr _ _ _ hs _ _ _ hx hc
      split at h
      · cases h; exact hp.toOk rfl _ hp.2.2.of_ok
      · cases h; exact hp.toPanic _
    · rename_i e0 g0 hx
      have hp := hrec.expr _ _ _ hs _ _ _ hx hc
      exact PPost.trans hp.1 (ih _ (by simpa using hs) _ _ _ h hp.2.1)
    · rename_i m g0 hx
      cases h
      exact (hrec.expr _ _ _ hs _ _ _ hx hc).toPanic _

theorem evalLoop_pinv {body : St → Global → Out Parsed} (hbody : ∀ s, P s.tot → PInv env P (body s)) {fields} :
    ∀ k iters acc s, P s.tot → PInv env P (evalLoop body fields k iters acc s) := by
  intro k
  induction k with
  | zero => intro iters acc s hs g r g' h; simp [evalLoop] at h
  | succ k ih =>
    intro iters acc s hs g r g' h hc
    simp only [evalLoop] at h
    split at h
    · cases h
    · rename_i r0 s0 g0 hx
      have hp := hbody _ hs _ _ _ hx hc
      split at h
      · exact PPost.trans hp.1 (ih _ _ _ hp.2.2.of_ok _ _ _ h hp.2.1)
      · cases h; exact hp.toPanic _
    · rename_i e0 g0 hx
      cases h
      exact (hbody _ hs _ _ _ hx hc).toOk rfl _ (by simpa using hs)
    · rename_i m g0 hx
      cases h
      exact (hbody _ hs _ _ _ hx hc).toPanic _

theorem stepExpr_pinv (hrec : RecP env P rec) (n : Nat) (ctx : Ctx) (e : Expr) (s : St) (hs : P s.tot) :
    PInv env P (stepExpr env rec n ctx e s) := by
  cases e with
  | choice alts =>
    match alts with
    | [] => exact PInv.pure _ (ResB.panic _)
    | [a] => exact hrec.expr ctx a s hs
    | a :: b :: rest => exact evalAlts_pinv hrec _ _ hs
  | seq parts =>
    match parts with
    | [] => exact PInv.pure _ (ResB.ok hs)
    | [a] => exact hrec.expr ctx a s hs
    | a :: b :: rest =>
      refine bindR_pinv (evalSeq_pinv hrec _ _ _ _ hs) (fun v s' hs' => ?_)
      obtain ⟨seen, acc⟩ := v
      cases hp : project (filterRuleFields ctx.ruleFields (ownFields env (.seq (a :: b :: rest)))) acc with
      | error m => simp only [hp]; exact PInv.pure _ (ResB.panic _)
      | ok v => simp only [hp]; exact PInv.pure _ (ResB.ok hs')
  | group b => exact hrec.expr ctx b s hs
  | opt b =>
    intro g r g' h hc
    simp only [stepExpr] at h
    split at h
    · cases h
    · rename_i r0 s0 g0 hx
      cases h
      exact hrec.expr _ _ _ hs _ _ _ hx hc
    · rename_i e0 g0 hx
      have hp := hrec.expr _ _ _ hs _ _ _ hx hc
      split at h
      · cases h; exact hp.toOk rfl _ (by simpa using hs)
      · cases h; exact hp.toPanic _
    · rename_i m g0 hx
      cases h
      exact hrec.expr _ _ _ hs _ _ _ hx hc
  | closure b plus =>
    show PInv env P (fun g => stepExpr env rec n ctx (.closure b plus) s g)
    simp only [stepExpr]
    cases hinit : closureInit (filterRuleFields ctx.ruleFields (ownFields env b)) with
    | error m => simp only []; exact PInv.pure _ (ResB.panic _)
    | ok init =>
      simp only []
      exact bindR_pinv (evalLoop_pinv (hrec.expr ctx b) _ _ _ _ hs)
        (fun v s' hs' => PInv.ite (PInv.pure _ (ResB.err _)) (PInv.pure _ (ResB.ok hs')))
  | neg b =>
    intro g r g' h hc
    simp only [stepExpr] at h
    split at h
    · cases h
    · rename_i r0 s0 g0 hx
      cases h
      exact (hrec.expr _ _ _ hs _ _ _ hx hc).toErr rfl _
    · rename_i e0 g0 hx
      cases h
      exact (hrec.expr _ _ _ hs _ _ _ hx hc).toOk rfl _ hs
    · rename_i m g0 hx
      cases h
      exact (hrec.expr _ _ _ hs _ _ _ hx hc).toPanic _
  | pos b => exact bindR_pinv (hrec.expr ctx b s hs) (fun _ _ _ => PInv.pure _ (ResB.ok hs))
  | range lo hi =>
    show PInv env P (fun g => stepExpr env rec n ctx (.range lo hi) s g)
    simp only [stepExpr]
    cases hlo : lo.toChar <;> cases hhi : hi.toChar <;> simp only []
    all_goals first
      | exact PInv.pure _ (ResB.panic _)
      | exact withSkipWs_pinv hrec hs (fun s hs' => PInv.pure _
          (ResB.map _ (ResB.of_tot hs' (fun _ _ h => tot_parseCharacterRange h))))
  | lit ins body =>
    show PInv env P (fun g => stepExpr env rec n ctx (.lit ins body) s g)
    simp only [stepExpr]
    cases hm : compileLit ins body with
    | err m => simp only []; exact PInv.pure _ (ResB.panic _)
    | fuel => simp only []; exact PInv.pure _ (ResB.panic _)
    | ok m =>
      simp only []
      refine withSkipWs_pinv hrec hs (fun s hs' => ?_)
      cases m
      · exact PInv.pure _ (ResB.map _ (ResB.of_tot hs' (fun _ _ h => tot_parseCharacterLiteral h)))
      · exact PInv.pure _ (ResB.map _ (ResB.of_tot hs' (fun _ _ h => tot_parseStringLiteral h)))
      · exact PInv.pure _ (ResB.map _ (ResB.of_tot hs' (fun _ _ h => tot_parseCharacterLiteralInsensitive h)))
      · exact PInv.pure _ (ResB.map _ (ResB.of_tot hs' (fun _ _ h => tot_parseStringLiteralInsensitive h)))
  | eoi =>
    exact withSkipWs_pinv hrec hs (fun s hs' => PInv.pure _
      (ResB.map _ (ResB.of_tot hs' (fun _ _ h => tot_parseEndOfInput h))))
  | incl r =>
    show PInv env P (fun g => stepExpr env rec n ctx (.incl r) s g)
    simp only [stepExpr]
    cases hf : env.g.findRule r with
    | none => simp only []; exact PInv.pure _ (ResB.panic _)
    | some rule => simp only []; exact hrec.expr ctx _ s hs
  | field name boxed typ =>
    show PInv env P (fun g => stepExpr env rec n ctx (.field name boxed typ) s g)
    simp only [stepExpr]
    refine withSkipWs_pinv hrec hs (fun s hs' => bindR_pinv (hrec.rule typ s hs') (fun v s' hs'' => ?_))
    cases name with
    | none => exact PInv.pure _ (ResB.ok hs'')
    | some nm =>
      simp only []
      cases hp : postprocessField ctx.ruleFields nm.key typ v with
      | error m => simp only []; exact PInv.pure _ (ResB.panic _)
      | ok fv => simp only []; exact PInv.pure _ (ResB.ok hs'')

/-! ### rule level -/

theorem Step.uctx_emit (g : Global) (u : Nat) {e : Ev} (he : Neutral e) :
    Step env P g false (({ g with uctx := u } : Global).emit e) :=
  (Step.setUctx g false u).trans (Step.emit _ _ he)

theorem cacheB_insert {g : Global} {k : String × Nat} {r : Res Val} (hc : CacheB P g) (hr : ResB P r) :
    CacheB P (g.insert k r) := by
  intro k' v s' hl
  rw [lookup_insert] at hl
  split at hl
  · cases hl; exact hr v s' rfl
  · exact hc k' v s' hl

theorem runChecks_pinv : ∀ fs v s, P s.tot → PInv env P (runChecks env fs v s) := by
  intro fs
  induction fs with
  | nil => intro v s hs; exact PInv.pure _ (ResB.ok hs)
  | cons f fs ih =>
    intro v s hs g r g' h hc
    simp only [runChecks] at h
    split at h
    · cases h
      exact ⟨Step.uctx_emit _ _ (fun _ => rfl), fun k v s' h => hc k v s' h, ResB.err _⟩
    · exact PPost.trans (Step.uctx_emit _ _ (fun _ => rfl)) (ih _ _ hs _ _ _ h (fun k v s' h => hc k v s' h))

theorem ruleBody_pinv (hrec : RecP env P rec) (r : Rule) (s : St) (hs : P s.tot) :
    PInv env P (ruleBody env rec r s) := by
  show PInv env P (fun g => ruleBody env rec r s g)
  simp only [ruleBody]
  cases hf : getFields env.g env.nf r.definition with
  | ok fields =>
    simp only []
    refine PInv.ite (bindR_pinv (hrec.expr _ _ _ hs) (fun _ s' hs' => runChecks_pinv _ _ _ hs'))
      (PInv.ite (bindR_pinv (hrec.expr _ _ _ hs) (fun p s' hs' => ?_))
        (PInv.ite (PInv.pure _ (ResB.panic _)) (bindR_pinv (hrec.expr _ _ _ hs) (fun p s' hs' => ?_))))
    · cases hv : p.get "_override" with
      | none => simp only []; exact PInv.pure _ (ResB.panic _)
      | some v => simp only []; exact runChecks_pinv _ _ _ hs'
    · cases hp : project fields p with
      | error m => simp only []; exact PInv.pure _ (ResB.panic _)
      | ok fs => simp only []; exact runChecks_pinv _ _ _ hs'
  | err m => simp only []; exact PInv.pure _ (ResB.panic _)
  | fuel => simp only []; exact PInv.pure _ (ResB.panic _)


/-- before an iteration of the grow loop: the message and the ghost event -/
theorem Step.pre (g : Global) {key : String × Nat} (hlr : IsLR env key.1) (hev : EvOk env P key.1 key.2) :
    Step env P g false (growPre key g) :=
  (Step.emit g false (e := .info "Starting new left recursive loop") (fun _ => rfl)).trans
    (Step.lrEmit _ false hlr hev)

/-- the seed-and-grow loop of a `@leftrec` key, as a sequence of body evaluations separated by ghost
    events and re-insertions of that key (induction on the run of the loop) -/
theorem growRun_pinv {body : St → Global → Out Val} {key : String × Nat} {s : St}
    (hbody : PInv env P (body s)) (hlr : IsLR env key.1) (hev : EvOk env P key.1 key.2)
    {best : Res Val} {g : Global} {chain : List (Val × St)} {r : Res Val} {g' : Global}
    (h : GrowRun body key s best g chain r g') :
    CacheB P g → ResB P best → PPost env P g r g' := by
  induction h with
  | panic hb =>
    intro hc _
    exact PPost.trans (Step.pre _ hlr hev) (hbody _ _ _ hb (fun k v s' h => hc k v s' h))
  | stopOk hb _ =>
    intro hc hbest
    exact PPost.trans (Step.pre _ hlr hev)
      ((hbody _ _ _ hb (fun k v s' h => hc k v s' h)).replace (fun _ => rfl) hbest)
  | stopErr hb =>
    intro hc hbest
    exact PPost.trans (Step.pre _ hlr hev)
      ((hbody _ _ _ hb (fun k v s' h => hc k v s' h)).replace (fun _ => rfl) hbest)
  | fail hb _ =>
    intro hc _
    have hp := hbody _ _ _ hb (fun k v s' h => hc k v s' h)
    exact PPost.trans (Step.pre _ hlr hev)
      ⟨hp.1.trans (Step.lrInsert _ _ hlr _), cacheB_insert hp.2.1 (ResB.err _), ResB.err _⟩
  | grow hb _ _ ih =>
    intro hc _
    have hp := hbody _ _ _ hb (fun k v s' h => hc k v s' h)
    exact PPost.trans ((Step.pre _ hlr hev).trans (hp.1.trans (Step.lrInsert _ _ hlr _)))
      (ih (cacheB_insert hp.2.1 hp.2.2) hp.2.2)

theorem growLoop_pinv {body : St → Global → Out Val} {key : String × Nat} {s : St}
    (hbody : PInv env P (body s)) (hlr : IsLR env key.1) (hev : EvOk env P key.1 key.2)
    (k : Nat) {best : Res Val} (hbest : ResB P best) : PInv env P (growLoop body key s k best) := by
  intro g r g' h hc
  obtain ⟨chain, _, hrun⟩ := growLoop_run _ _ _ _ _ h
  exact growRun_pinv hbody hlr hev hrun hc hbest

/-- `generate_memoized_body`, all three branches.  `hlrn` / `hnlr`: the flag of the rule decides
    whether its name is `IsLR` (true for `normalRule`, where the rule is the one `find` returns) -/
theorem memoBody_pinv {body : St → Global → Out Val} (hbody : ∀ s, P s.tot → PInv env P (body s))
    (hblog : ∀ s, LogInv (body s)) (flags : RuleFlags) (name : String)
    (hlrn : flags.leftRecursive = true → IsLR env name)
    (hnlr : flags.leftRecursive = false → ¬ IsLR env name)
    (hev : flags.memoize = true ∨ flags.leftRecursive = true → ∀ o t, P t → o ≤ t → EvOk env P name o)
    (n : Nat) (s : St) (hs : P s.tot) : PInv env P (memoBody flags name body n s) := by
  intro g r g' h hc
  simp only [memoBody] at h
  split at h
  · rename_i hlr
    have hil : IsLR env (name, s.off).1 := hlrn hlr
    split at h
    · rename_i cached hl
      cases h
      refine ⟨Step.emit _ _ (fun _ => rfl), fun k v s' h => hc k v s' h, ?_⟩
      intro v s' he; subst he; exact hc _ _ _ hl
    · rename_i hl
      have hp := growLoop_pinv (key := (name, s.off)) (hbody s hs) hil
        (hev (Or.inr hlr) s.off s.tot hs (Nat.le_add_right _ _)) n
        (ResB.err (s.reportError .leftRecursionSentinel)) _ _ _ h (cacheB_insert hc (ResB.err _))
      exact PPost.trans (Step.lrInsert _ _ hil _) hp
  · rename_i hlr
    have hlr' : flags.leftRecursive = false := by simpa using hlr
    split at h
    · rename_i hm
      split at h
      · rename_i cached hl
        cases h
        refine ⟨Step.emit _ _ (fun _ => rfl), fun k v s' h => hc k v s' h, ?_⟩
        intro v s' he; subst he; exact hc _ _ _ hl
      · rename_i hl
        cases hx : body s (g.emit (.bodyEval name s.off)) with
        | none => simp [hx] at h
        | some a =>
          obtain ⟨r1, g1⟩ := a
          have hp := hbody s hs _ _ _ hx (fun k v s' h => hc k v s' h)
          have ht : ∀ l1, g1.log = l1 ++ (g.emit (.bodyEval name s.off)).log → Tr r1.isPanic l1 :=
            fun l1 hl1 => (hblog s).tr hx hl1
          obtain ⟨hpan, hins⟩ := Step.memo (k := (name, s.off)) (hnlr hlr') hl
            (hev (Or.inl hm) s.off s.tot hs (Nat.le_add_right _ _)) hp.1 ht
          cases r1 with
          | panic m => simp only [hx] at h; cases h; exact ⟨hpan, hp.2.1, ResB.panic _⟩
          | ok v s1 => simp only [hx] at h; cases h; exact ⟨hins _, cacheB_insert hp.2.1 hp.2.2, hp.2.2⟩
          | err e => simp only [hx] at h; cases h; exact ⟨hins _, cacheB_insert hp.2.1 hp.2.2, hp.2.2⟩
    · exact hbody s hs _ _ _ h hc

theorem normalRule_pinv (hrec : RecP env P rec) (hlog : RecInv rec) (n : Nat) (r : Rule)
    (hfind : env.g.find r.name = some (.rule r))
    (s : St) (hs : P s.tot) : PInv env P (normalRule env rec n r s) := by
  intro g res g' h hc
  simp only [normalRule] at h
  split at h
  · cases h
  · rename_i res1 g1 hx
    cases h
    have hp := memoBody_pinv (ruleBody_pinv hrec r) (ruleBody_log hlog r) r.flags r.name
      (fun hl => isLR_of_find hfind hl) (fun hl => not_isLR_of_find hfind hl)
      (fun hm o t ht ho => ⟨⟨r, hfind, hm⟩, t, ht, ho⟩) n s hs _ _ _ hx (fun k v s' h => hc k v s' h)
    have hp' : PPost env P g res g1 := PPost.trans (Step.emit _ _ (fun _ => rfl)) hp
    cases res with
    | ok v s1 => exact hp'.emit_after rfl (fun _ => rfl)
    | err e => exact hp'.emit_after rfl (fun _ => rfl)
    | panic m => exact hp'

theorem charChecks_pinv (name : String) :
    ∀ fs c s (g : Global) o g', charChecks env name fs c s g = (o, g') →
      Step env P g false g' ∧ (CacheB P g → CacheB P g') := by
  intro fs
  induction fs with
  | nil =>
    intro c s g o g' h
    simp only [charChecks, Prod.mk.injEq] at h
    obtain ⟨rfl, rfl⟩ := h
    exact ⟨Step.refl _ _, fun h => h⟩
  | cons f fs ih =>
    intro c s g o g' h
    simp only [charChecks] at h
    split at h
    · simp only [Prod.mk.injEq] at h
      obtain ⟨rfl, rfl⟩ := h
      exact ⟨Step.emit _ _ (fun _ => rfl), fun hc k v s' h => hc k v s' h⟩
    · obtain ⟨h1, h2⟩ := ih _ _ _ _ _ h
      exact ⟨(Step.emit _ _ (fun _ => rfl)).trans h1, fun hc => h2 (fun k v s' h => hc k v s' h)⟩

/-- first success wins, the error of the first computation is dropped -/
theorem orElse_pinv {x rest : Global → Out Val} (hx : PInv env P x) (hrest : PInv env P rest) :
    PInv env P (fun g => match x g with
      | none => none
      | some (.ok v s', g') => some (.ok v s', g')
      | some (.err _, g') => rest g'
      | some (.panic m, g') => some (.panic m, g')) := by
  intro g r g' h hc
  simp only at h
  split at h
  · cases h
  · rename_i v s1 g1 hx1
    cases h; exact hx _ _ _ hx1 hc
  · rename_i e g1 hx1
    have hp := hx _ _ _ hx1 hc
    exact PPost.trans hp.1 (hrest _ _ _ h hp.2.1)
  · rename_i m g1 hx1
    cases h; exact hx _ _ _ hx1 hc

theorem charParts_pinv (hrec : RecP env P rec) (name : String) :
    ∀ ps s, P s.tot → PInv env P (charParts rec name ps s) := by
  intro ps
  induction ps with
  | nil => intro s hs; exact PInv.pure _ (ResB.err _)
  | cons p ps ih =>
    intro s hs
    cases p with
    | chr item =>
      refine orElse_pinv ?_ (ih s hs)
      simp only []
      cases item.toChar
      · exact PInv.pure _ (ResB.map _ (ResB.of_tot hs (fun _ _ h => tot_parseCharacterLiteral h)))
      all_goals exact PInv.pure _ (ResB.panic _)
    | range lo hi =>
      refine orElse_pinv ?_ (ih s hs)
      simp only []
      cases lo.toChar <;> cases hi.toChar
      · exact PInv.pure _ (ResB.map _ (ResB.of_tot hs (fun _ _ h => tot_parseCharacterRange h)))
      all_goals exact PInv.pure _ (ResB.panic _)
    | ident id => exact orElse_pinv (hrec.rule id s hs) (ih s hs)

theorem charRule_pinv (hrec : RecP env P rec) (r : CharRule) (s : St) (hs : P s.tot) :
    PInv env P (charRule env rec r s) := by
  intro g res g' h hc
  simp only [charRule] at h
  split at h
  · exact charParts_pinv hrec _ _ _ hs _ _ _ h hc
  · split at h
    · cases h
      exact PPost.refl hc (ResB.err _)
    · split at h
      · rename_i e g1 hcc
        obtain ⟨h1, h2⟩ := charChecks_pinv (P := P) _ _ _ _ _ _ _ hcc
        cases h
        exact ⟨h1, h2 hc, ResB.err _⟩
      · rename_i g1 hcc
        obtain ⟨h1, h2⟩ := charChecks_pinv (P := P) _ _ _ _ _ _ _ hcc
        exact PPost.trans h1 (charParts_pinv hrec _ _ _ hs _ _ _ h (h2 hc))

theorem externRule_pinv (r : ExternRule) (s : St) (hs : P s.tot) : PInv env P (externRule env r s) := by
  intro g res g' h hc
  simp only [externRule] at h
  split at h
  · cases h
    exact ⟨(Step.uctx_emit _ _ (fun _ => rfl)).mono (fun _ => rfl), fun k v s' h => hc k v s' h,
      ResB.of_tot hs (fun _ _ h => tot_advanceSafe h)⟩
  · cases h
    exact ⟨Step.uctx_emit _ _ (fun _ => rfl), fun k v s' h => hc k v s' h, ResB.err _⟩


theorem stepRule_pinv (hrec : RecP env P rec) (hlog : RecInv rec) (n : Nat)
    (name : String) (s : St) (hs : P s.tot) : PInv env P (stepRule env rec n name s) := by
  show PInv env P (fun g => stepRule env rec n name s g)
  simp only [stepRule]
  cases hf : env.g.find name with
  | none =>
    simp only []
    exact PInv.ite (PInv.pure _ (ResB.map _ (ResB.of_tot hs (fun _ _ h => tot_parseChar h))))
      (PInv.ite (PInv.pure _ (ResB.map _ (ResB.of_tot hs (fun _ _ h => tot_parseWhitespace h))))
        (PInv.pure _ (ResB.panic _)))
  | some e =>
    cases e with
    | rule r =>
      simp only []
      have hname : r.name = name := by
        have := List.find?_some hf
        simpa [RuleEntry.name] using this
      exact normalRule_pinv hrec hlog n r (by rw [hname]; exact hf) s hs
    | charRule r => simp only []; exact charRule_pinv hrec r s hs
    | externRule r => simp only []; exact externRule_pinv r s hs

theorem step_pinv (hrec : RecP env P rec) (hlog : RecInv rec) (n : Nat) :
    RecP env P (step env rec n) :=
  ⟨fun ctx e s hs => stepExpr_pinv hrec n ctx e s hs, fun name s hs => stepRule_pinv hrec hlog n name s hs⟩

end

/-- the packrat invariant holds for every evaluation, at every fuel, for every grammar -/
theorem eval_pinv : ∀ n, RecP env P (eval env n) := by
  intro n
  induction n with
  | zero =>
    refine ⟨fun _ _ _ _ g r g' h => ?_, fun _ _ _ g r g' h => ?_⟩
    · simp [eval] at h
    · simp [eval] at h
  | succ n ih => exact step_pinv ih (eval_log env n) n

end

/-! ### consequences (no hypothesis on the grammar) -/

section
variable {env : Env}

theorem Trans.of_log {P : Nat → Prop} {g g' : Global} {b : Bool} (h : Step env P g b g') {l : List Ev}
    (hl : g'.log = l ++ g.log) : Trans env P g b g' l := by
  obtain ⟨l', h⟩ := h
  have : l = l' := List.append_cancel_right (hl.symm.trans h.log)
  rw [this]; exact h

/-- every evaluation of the model (`Peg.Run`: an expression or a rule call, at any fuel) is a `Step` -/
theorem Run.step {g g' : Global} {b : Bool} (h : Run env g b g') : Step env (fun _ => True) g b g' := by
  cases h with
  | expr h => exact ((eval_pinv _).expr _ _ _ trivial _ _ _ h (cacheB_true _)).1
  | rule h => exact ((eval_pinv _).rule _ _ trivial _ _ _ h (cacheB_true _)).1

/-- **1. Cache monotonicity** for the keys of rules that are not `@leftrec`: an entry present before an
    evaluation is present afterwards, with the same value. -/
theorem C06_cache_mono {g g' : Global} {b : Bool} (h : Run env g b g')
    {k : String × Nat} (hn : ¬ IsLR env k.1) {v : Res Val} (hk : g.lookup k = some v) :
    g'.lookup k = some v := by
  obtain ⟨l, h⟩ := Run.step h
  exact h.mono k v hn hk

/-- **1'. Presence is monotone for ALL keys** (also `@leftrec` keys, whose value may be replaced by the
    grow loop): no key is ever removed. -/
theorem C06_cache_present {g g' : Global} {b : Bool} (h : Run env g b g')
    {k : String × Nat} (hk : g.lookup k ≠ none) : g'.lookup k ≠ none := by
  obtain ⟨l, h⟩ := Run.step h
  exact h.pres k hk

theorem C06_cache_mono_expr {n ctx e s g r g'}
    (h : (eval env n).expr ctx e s g = some (r, g')) {k : String × Nat} (hn : ¬ IsLR env k.1) {v : Res Val}
    (hk : g.lookup k = some v) : g'.lookup k = some v :=
  C06_cache_mono (Run.expr h) hn hk

theorem C06_cache_mono_rule {n name s g r g'}
    (h : (eval env n).rule name s g = some (r, g')) {k : String × Nat} (hn : ¬ IsLR env k.1) {v : Res Val}
    (hk : g.lookup k = some v) : g'.lookup k = some v :=
  C06_cache_mono (Run.rule h) hn hk

/-- **2. Evaluated ⇒ cached** (= `Props.C06_result_is_cached` without `NoLeftrec`): after a
    non-panicking call of a memoized normal rule that is not itself `@leftrec`, the cache holds exactly
    the returned result for `(name, s.off)`.  The only hypothesis is on THAT rule. -/
theorem C06_evaluated_cached {n : Nat} {name : String} {s : St} {g g' : Global}
    {r : Res Val} {r0 : Rule} (h : (eval env n).rule name s g = some (r, g')) (hp : ∀ m, r ≠ .panic m)
    (hf : env.g.find name = some (.rule r0)) (hm : r0.flags.memoize = true)
    (hlr : r0.flags.leftRecursive = false) :
    g'.lookup (name, s.off) = some r := by
  have hname : r0.name = name := by
    have := List.find?_some hf
    simpa [RuleEntry.name] using this
  cases n with
  | zero => simp [eval] at h
  | succ n =>
    have h' : normalRule env (eval env n) n r0 s g = some (r, g') := by
      simpa only [eval, step, stepRule, hf] using h
    simp only [normalRule] at h'
    split at h'
    · cases h'
    · rename_i res1 g1 hx
      cases h'
      rw [traceResult_lookup]
      simp only [memoBody, hlr, hm, Bool.false_eq_true, if_false, if_true, hname] at hx
      split at hx
      · rename_i cached hl
        cases hx
        exact hl
      · rename_i hl
        split at hx
        · cases hx
        · cases hx
          exact absurd rfl (hp _)
        · cases hx
          rw [lookup_insert]; simp

/-- **2'. A hit returns the entry** (= `Props.C06_answered_from_cache` without `NoLeftrec`): the cached
    entry is returned as is and no body (of any rule) is evaluated. -/
theorem C06_hit_returns_entry {n : Nat} {name : String} {s : St} {g g' : Global}
    {r c : Res Val} {r0 : Rule} (h : (eval env n).rule name s g = some (r, g'))
    (hf : env.g.find name = some (.rule r0)) (hm : r0.flags.memoize = true)
    (hlr : r0.flags.leftRecursive = false)
    (hc : g.lookup (name, s.off) = some c) :
    r = c ∧ ∀ l, g'.log = l ++ g.log → ∀ k, evals l k = 0 := by
  have hname : r0.name = name := by
    have := List.find?_some hf
    simpa [RuleEntry.name] using this
  cases n with
  | zero => simp [eval] at h
  | succ n =>
    have h' : normalRule env (eval env n) n r0 s g = some (r, g') := by
      simpa only [eval, step, stepRule, hf] using h
    simp only [normalRule] at h'
    split at h'
    · cases h'
    · rename_i res1 g1 hx
      cases h'
      simp only [memoBody, hlr, hm, Bool.false_eq_true, if_false, if_true, hname, emit_lookup, hc] at hx
      cases hx
      refine ⟨rfl, fun l hl k => ?_⟩
      cases r with
      | ok v s1 =>
        have : l = [.traceOk s1.off, .info "Cache hit", .traceStart name s.off] :=
          List.append_cancel_right (hl.symm.trans (by simp [traceResult]))
        subst this; simp [evals, isBodyEval]
      | err e =>
        have : l = [.traceErr e.spec, .info "Cache hit", .traceStart name s.off] :=
          List.append_cancel_right (hl.symm.trans (by simp [traceResult]))
        subst this; simp [evals, isBodyEval]
      | panic m =>
        have : l = [.info "Cache hit", .traceStart name s.off] :=
          List.append_cancel_right (hl.symm.trans (by simp [traceResult]))
        subst this; simp [evals, isBodyEval]

/-- the same holds for a `@leftrec` rule (with or without `@memoize`): a cached position is answered
    from the cache, without any body evaluation -/
theorem C06_hit_returns_entry_leftrec {n : Nat} {name : String} {s : St} {g g' : Global}
    {r c : Res Val} {r0 : Rule} (h : (eval env n).rule name s g = some (r, g'))
    (hf : env.g.find name = some (.rule r0)) (hlr : r0.flags.leftRecursive = true)
    (hc : g.lookup (name, s.off) = some c) :
    r = c ∧ ∀ l, g'.log = l ++ g.log → ∀ k, evals l k = 0 := by
  have hname : r0.name = name := by
    have := List.find?_some hf
    simpa [RuleEntry.name] using this
  cases n with
  | zero => simp [eval] at h
  | succ n =>
    have h' : normalRule env (eval env n) n r0 s g = some (r, g') := by
      simpa only [eval, step, stepRule, hf] using h
    simp only [normalRule] at h'
    split at h'
    · cases h'
    · rename_i res1 g1 hx
      cases h'
      simp only [memoBody, hlr, if_true, hname, emit_lookup, hc] at hx
      cases hx
      refine ⟨rfl, fun l hl k => ?_⟩
      cases r with
      | ok v s1 =>
        have : l = [.traceOk s1.off, .info "Cache hit (left recursive)", .traceStart name s.off] :=
          List.append_cancel_right (hl.symm.trans (by simp [traceResult]))
        subst this; simp [evals, isBodyEval]
      | err e =>
        have : l = [.traceErr e.spec, .info "Cache hit (left recursive)", .traceStart name s.off] :=
          List.append_cancel_right (hl.symm.trans (by simp [traceResult]))
        subst this; simp [evals, isBodyEval]
      | panic m =>
        have : l = [.info "Cache hit (left recursive)", .traceStart name s.off] :=
          List.append_cancel_right (hl.symm.trans (by simp [traceResult]))
        subst this; simp [evals, isBodyEval]

/-- **3a. A cached position is never re-evaluated**: if the key `k` of a rule that is not `@leftrec` is
    in the cache before an evaluation, the evaluation emits no `bodyEval k` – wherever the rule is
    called from (also from inside the grow loop of a `@leftrec` rule, at every iteration). -/
theorem C06_cached_not_evaluated {g g' : Global} {b : Bool} (h : Run env g b g')
    {l : List Ev} (hl : g'.log = l ++ g.log) {k : String × Nat} (hn : ¬ IsLR env k.1)
    (hk : g.lookup k ≠ none) : evals l k = 0 :=
  (Trans.of_log (Run.step h) hl).hit k hn hk

/-- **3b. Every body evaluation is followed by the insertion**: if a non-panicking evaluation emitted
    `bodyEval k` (`k.1` not `@leftrec`), then `k` was absent before and is present afterwards. -/
theorem C06_evaluated_inserted {g g' : Global} (h : Run env g false g')
    {l : List Ev} (hl : g'.log = l ++ g.log) {k : String × Nat} (hn : ¬ IsLR env k.1)
    (hk : 0 < evals l k) : g.lookup k = none ∧ g'.lookup k ≠ none := by
  have ht := Trans.of_log (Run.step h) hl
  refine ⟨?_, ht.done rfl k hn hk⟩
  cases hg : g.lookup k with
  | none => rfl
  | some v =>
    have := ht.hit k hn (by rw [hg]; exact fun h => by cases h)
    omega

/-- **3c (C06, sequential form).**  Two successive evaluations (any expressions / rules, in sequence,
    threading the global state): a memoized body that was evaluated (to completion, without panic) in
    the first is not evaluated again in the second. -/
theorem C06_no_reevaluation {g g1 g2 : Global} {b : Bool}
    (h1 : Run env g false g1) (h2 : Run env g1 b g2) {l1 l2 : List Ev}
    (hl1 : g1.log = l1 ++ g.log) (hl2 : g2.log = l2 ++ g1.log) {k : String × Nat}
    (hn : ¬ IsLR env k.1) (hk : 0 < evals l1 k) : evals l2 k = 0 :=
  C06_cached_not_evaluated h2 hl2 hn (C06_evaluated_inserted h1 hl1 hn hk).2

/-- same, with anything in between that does not remove keys (e.g. any number of evaluations:
    `C06_cache_present`) -/
theorem C06_no_reevaluation_later {g g1 g2 g3 : Global} {b : Bool}
    (h1 : Run env g false g1) (hmid : ∀ k, g1.lookup k ≠ none → g2.lookup k ≠ none)
    (h3 : Run env g2 b g3) {l1 l3 : List Ev}
    (hl1 : g1.log = l1 ++ g.log) (hl3 : g3.log = l3 ++ g2.log) {k : String × Nat}
    (hn : ¬ IsLR env k.1) (hk : 0 < evals l1 k) : evals l3 k = 0 :=
  C06_cached_not_evaluated h3 hl3 hn (hmid k (C06_evaluated_inserted h1 hl1 hn hk).2)

/-- **3d (C06, counting form, conditional).**  In an evaluation whose log has no re-entry of a
    non-`@leftrec` key (`NoReM`), every such key is evaluated at most once – also when the evaluation
    ends in a panic. -/
theorem C06_once {g g' : Global} {b : Bool} (h : Run env g b g')
    {l : List Ev} (hl : g'.log = l ++ g.log) (hno : NoReM env l) (k : String × Nat)
    (hn : ¬ IsLR env k.1) : evals l k ≤ 1 :=
  (Trans.of_log (Run.step h) hl).once hno k hn

/-- counting form for a complete parse -/
theorem C06_parse_once {n rule inp u} {r : Res Val} {g' : Global}
    (h : parseAdvanced env n rule inp u = some (r, g')) (hno : NoReM env g'.log) (k : String × Nat)
    (hn : ¬ IsLR env k.1) : evals g'.log k ≤ 1 :=
  C06_once (Run.rule h) (parse_log h) hno k hn

/-- the only way to get a second `bodyEval k` for a non-`@leftrec` key is a re-entry of such a key
    (see `ExampleBad` below: this does happen, with pure hooks, when the memoized rule lies on a
    left-recursive cycle through a `@leftrec` rule) -/
theorem C06_twice_is_reentry {g g' : Global} {b : Bool} (h : Run env g b g')
    {l : List Ev} (hl : g'.log = l ++ g.log) {k : String × Nat} (hn : ¬ IsLR env k.1)
    (hk : 1 < evals l k) : ∃ k' : String × Nat, ¬ IsLR env k'.1 ∧ Reentry l.reverse k' := by
  apply Classical.byContradiction
  intro hne
  have := C06_once h hl (fun k' hn' hr => hne ⟨k', hn', hr⟩) k hn
  omega

/-! ### 4. the bound -/

/-- names of the memoized normal rules that are not `@leftrec` -/
def memoNamesM (g : Grammar) : List String :=
  g.rules.filterMap fun e => match e with
    | .rule r => if r.flags.memoize && !r.flags.leftRecursive then some r.name else none
    | _ => none

theorem memoNamesM_length_le (g : Grammar) : (memoNamesM g).length ≤ g.rules.length :=
  List.length_filterMap_le _ _

theorem memoNamesM_sub (g : Grammar) : ∀ n, n ∈ memoNamesM g → n ∈ memoNames g := by
  intro n hn
  simp only [memoNamesM, List.mem_filterMap] at hn
  obtain ⟨e, he, h⟩ := hn
  simp only [memoNames, List.mem_filterMap]
  refine ⟨e, he, ?_⟩
  cases e with
  | rule r =>
    simp only at h ⊢
    split at h
    · rename_i hc
      simp only [Bool.and_eq_true] at hc
      rw [if_pos hc.1]; exact h
    · cases h
  | charRule r => simp at h
  | externRule r => simp at h

/-- keys of the `bodyEval` events of the rules that are not `@leftrec` -/
def bodyKeysM (env : Env) (l : List Ev) : List (String × Nat) :=
  (bodyKeys l).filter fun k => !isLRb env k.1

theorem mem_bodyKeysM {l : List Ev} {k : String × Nat} :
    k ∈ bodyKeysM env l ↔ k ∈ bodyKeys l ∧ ¬ IsLR env k.1 := by
  simp [bodyKeysM, List.mem_filter, IsLR]

/-- every `bodyEval name off` of a complete parse belongs to a `@memoize` or `@leftrec` normal rule
    and has `off ≤ inp.length`; if the rule is not `@leftrec` it is a memoized one -/
theorem C06_parse_events {n rule inp u} {r : Res Val} {g' : Global}
    (h : parseAdvanced env n rule inp u = some (r, g')) {name : String} {off : Nat}
    (hm : Ev.bodyEval name off ∈ g'.log) :
    (IsLR env name ∨ name ∈ memoNamesM env.g) ∧ off ≤ inp.length := by
  have hp := (eval_pinv (env := env) (P := (· = inp.length)) n).rule rule (St.new inp)
    (by simp [St.tot, St.new]) _ _ _ h (by intro k v s' hl; simp [Global.init, Global.lookup] at hl)
  have ht := Trans.of_log hp.1 (parse_log h)
  obtain ⟨⟨r0, hf, hmemo⟩, t, rfl, ho⟩ := ht.evok name off hm
  refine ⟨?_, ho⟩
  have hname : r0.name = name := by
    have := List.find?_some hf
    simpa [RuleEntry.name] using this
  have hmem : RuleEntry.rule r0 ∈ env.g.rules := List.mem_of_find?_eq_some hf
  cases hl : r0.flags.leftRecursive with
  | true => exact Or.inl (isLR_of_find hf hl)
  | false =>
    right
    have hmm : r0.flags.memoize = true := by
      rcases hmemo with h1 | h1
      · exact h1
      · rw [hl] at h1; cases h1
    simp only [memoNamesM, List.mem_filterMap]
    exact ⟨_, hmem, by simp [hmm, hl, hname]⟩

/-- **4. The packrat bound**, from the counting form: a complete parse of an input of `inp.length`
    bytes evaluates at most `(number of memoized non-@leftrec rules) * (inp.length + 1)` bodies of
    memoized non-`@leftrec` rules. -/
theorem C06_bound_of_once {n rule inp u} {r : Res Val} {g' : Global}
    (h : parseAdvanced env n rule inp u = some (r, g'))
    (honce : ∀ k : String × Nat, ¬ IsLR env k.1 → evals g'.log k ≤ 1) :
    (bodyKeysM env g'.log).length ≤ (memoNamesM env.g).length * (inp.length + 1) := by
  rw [← keyGrid_length]
  apply List.Nodup.length_le_of_subset
  · rw [List.nodup_iff_count]
    intro k
    by_cases hn : IsLR env k.1
    · have : k ∉ bodyKeysM env g'.log := fun hk => (mem_bodyKeysM.1 hk).2 hn
      rw [List.count_eq_zero_of_not_mem this]; omega
    · have h1 : (bodyKeysM env g'.log).count k ≤ (bodyKeys g'.log).count k :=
        List.Sublist.count_le k List.filter_sublist
      have h2 := honce k hn
      rw [evals_eq_count] at h2
      omega
  · intro k hk
    obtain ⟨hk1, hk2⟩ := mem_bodyKeysM.1 hk
    obtain ⟨kn, ko⟩ := k
    obtain ⟨h1, h2⟩ := C06_parse_events h (mem_bodyKeys.1 hk1)
    rcases h1 with h1 | h1
    · exact absurd h1 hk2
    · exact mem_keyGrid h1 h2

/-- the bound for a parse without re-entry of non-`@leftrec` keys -/
theorem C06_bound {n rule inp u} {r : Res Val} {g' : Global}
    (h : parseAdvanced env n rule inp u = some (r, g')) (hno : NoReM env g'.log) :
    (bodyKeysM env g'.log).length ≤ (memoNamesM env.g).length * (inp.length + 1) :=
  C06_bound_of_once h (C06_parse_once h hno)

/-- in the form of the task statement: at most `(number of rules) * (len + 1)` -/
theorem C06_bound_rules {n rule inp u} {r : Res Val} {g' : Global}
    (h : parseAdvanced env n rule inp u = some (r, g')) (hno : NoReM env g'.log) :
    (bodyKeysM env g'.log).length ≤ env.g.rules.length * (inp.length + 1) :=
  Nat.le_trans (C06_bound h hno) (Nat.mul_le_mul_right _ (memoNamesM_length_le _))

/-- without `@leftrec` rules this is Packrat.lean's statement: `bodyKeysM = bodyKeys` … -/
theorem bodyKeysM_eq_of_noLeftrec (hnl : NoLeftrec env.g) (l : List Ev) : bodyKeysM env l = bodyKeys l := by
  unfold bodyKeysM
  rw [List.filter_eq_self]
  intro k _
  have := not_isLR_of_noLeftrec hnl k.1
  simpa [IsLR] using this

/-- … and `NoReM ↔ NoRe` -/
theorem noReM_iff_of_noLeftrec (hnl : NoLeftrec env.g) (l : List Ev) : NoReM env l ↔ NoRe l :=
  ⟨fun h k => h k (not_isLR_of_noLeftrec hnl k.1), NoReM.of_noRe⟩

end

/-! ### a decision procedure for `NoReM` -/

/-- (chronological list) no re-entry of a key whose rule is not `@leftrec` -/
def noReMB (env : Env) : List Ev → Bool
  | [] => true
  | e :: es => (match e with | .bodyEval n o => isLRb env n || scanRe (n, o) es 1 | _ => true) && noReMB env es

theorem noReMB_false_of_reentry {env : Env} {c : List Ev} {k : String × Nat} (hn : ¬ IsLR env k.1)
    (h : Reentry c k) : noReMB env c = false := by
  obtain ⟨pre, mid, post, rfl, hm⟩ := h
  have hb : isLRb env k.1 = false := by
    cases hb : isLRb env k.1 with
    | false => rfl
    | true => exact absurd hb hn
  induction pre with
  | nil =>
    simp only [List.nil_append, List.cons_append, noReMB]
    rw [scanRe_false k post mid 1 (Nat.le_refl 1) hm, hb]
    rfl
  | cons e es ih =>
    simp only [List.cons_append, noReMB, List.append_assoc] at ih ⊢
    rw [ih]; simp

/-- soundness of the checker -/
theorem NoReM_of_check {env : Env} {l : List Ev} (h : noReMB env l.reverse = true) : NoReM env l := by
  intro k hn hr
  rw [noReMB_false_of_reentry hn hr] at h
  cases h


/-! ### examples -/

/-! `@export @leftrec E = l:*E '+' r:Num | b:Num;  @memoize @string Num = {'0'..'9'}+;` on `"1+2+3"`:
    a memoized rule called from inside a grow loop. -/
namespace Example
open Peg.NV

def ruleE : Rule := ⟨[.export, .leftrec], "E",
  .choice [.seq [.field (some (.ident "l")) true "E", .lit false [.chr '+'],
                 .field (some (.ident "r")) false "Num"],
           .seq [.field (some (.ident "b")) false "Num"]]⟩
def ruleNumM : Rule := ⟨[.string, .memoize], "Num",
  .choice [.seq [.closure (.choice [.seq [.range (.chr '0') (.chr '9')]]) true]]⟩
def envEM : Env := { g := ⟨[.rule ruleE, .rule ruleNumM]⟩, settings := {}, hooks := default, nf := 10 }

/-- the bytes of `"1+2+3"` -/
def inp : List UInt8 := [49, 43, 50, 43, 51]

theorem hfNum : envEM.g.find "Num" = some (.rule ruleNumM) := rfl
theorem hmNum : ruleNumM.flags.memoize = true := rfl
theorem hlrNum : ruleNumM.flags.leftRecursive = false := rfl
theorem num_not_lr : ¬ IsLR envEM "Num" := by decide
theorem e_lr : IsLR envEM "E" := by decide
/-- the grammar is outside the scope of Packrat.lean (`NoLeftrec` fails) but inside the class `LROk` -/
example : ¬ NoLeftrec envEM.g := fun h => by
  have := h ruleE (by simp [envEM]); revert this; decide
example : LROk envEM.g envEM.settings := by decide

theorem run_some : (parseAdvanced envEM 20 "E" inp 0).isSome = true := by decide
def gEnd : Global := ((parseAdvanced envEM 20 "E" inp 0).get run_some).2
theorem run : parseAdvanced envEM 20 "E" inp 0 = some (((parseAdvanced envEM 20 "E" inp 0).get run_some).1, gEnd) :=
  run_eq run_some

/-- what happened: the parse consumes the 5 bytes; the body of `Num` is evaluated exactly once at each
    of the offsets 0, 2, 4 … -/
example : (match parseAdvanced envEM 20 "E" inp 0 with
    | some (.ok _ s, g) => (s.off, evals g.log ("Num", 0), evals g.log ("Num", 2), evals g.log ("Num", 4))
    | _ => (99, 0, 0, 0)) = (5, 1, 1, 1) := by decide

/-- … `Num` at offset 0 is attempted twice (first and last iteration of the grow loop of `E` at 0, where
    the first alternative fails) and the second attempt is a cache hit; the grow loop itself emits 4
    `bodyEval ("E", 0)` events inside one trace bracket – which is why `@leftrec` keys are excluded:
    Packrat.lean's `NoRe` check fails on this log, the `NoReM` check succeeds -/
example : hits gEnd.log = 1 ∧ evals gEnd.log ("E", 0) = 4 ∧
    noReB gEnd.log.reverse = false ∧ noReMB envEM gEnd.log.reverse = true ∧
    bodyKeys gEnd.log = [("E", 0), ("Num", 4), ("E", 0), ("Num", 2), ("E", 0), ("Num", 0), ("E", 0)] ∧
    bodyKeysM envEM gEnd.log = [("Num", 4), ("Num", 2), ("Num", 0)] ∧
    memoNamesM envEM.g = ["Num"] := by decide

/-- the hypothesis `NoReM` of the counting form is satisfied by this run -/
theorem noReM : NoReM envEM gEnd.log := NoReM_of_check (by decide)

/-- the general theorems on this run -/
example (o : Nat) : evals gEnd.log ("Num", o) ≤ 1 := C06_parse_once run noReM ("Num", o) num_not_lr
example : (bodyKeysM envEM gEnd.log).length ≤ (memoNamesM envEM.g).length * (inp.length + 1) :=
  C06_bound run noReM
example {name off} (h : Ev.bodyEval name off ∈ gEnd.log) :
    (IsLR envEM name ∨ name ∈ memoNamesM envEM.g) ∧ off ≤ inp.length := C06_parse_events run h

/-- `C06_evaluated_cached` for `Num` (the hypothesis "not `@leftrec`" is about `Num` only) -/
example : ∃ v s' g', (eval envEM 20).rule "Num" (St.new inp) (Global.init 0) = some (.ok v s', g') ∧
    g'.lookup ("Num", 0) = some (.ok v s') := by
  obtain ⟨v, s', g', h, -⟩ := ok_of (o := (eval envEM 20).rule "Num" (St.new inp) (Global.init 0))
    (fun _ s _ => s.off == 1) (by decide)
  exact ⟨v, s', g', h, C06_evaluated_cached h (fun m hm => by cases hm) hfNum hmNum hlrNum⟩

/-! two successive evaluations: `Num` at offset 0 from the fresh global, then the whole of `E` (grow
    loop included) from the global the first one left -/
theorem first_some : ((eval envEM 20).rule "Num" (St.new inp) (Global.init 0)).isSome = true := by decide
def g1 : Global := (((eval envEM 20).rule "Num" (St.new inp) (Global.init 0)).get first_some).2
theorem g1_hit : (g1.lookup ("Num", 0)).isSome = true := by decide

theorem again_some : ((eval envEM 20).rule "Num" (St.new inp) g1).isSome = true := by decide
/-- `C06_hit_returns_entry` -/
example : (((eval envEM 20).rule "Num" (St.new inp) g1).get again_some).1 = (g1.lookup ("Num", 0)).get g1_hit ∧
    ∀ l, (((eval envEM 20).rule "Num" (St.new inp) g1).get again_some).2.log = l ++ g1.log → ∀ k, evals l k = 0 :=
  C06_hit_returns_entry (run_eq again_some) hfNum hmNum hlrNum (Option.some_get g1_hit).symm

theorem second_some : ((eval envEM 20).rule "E" (St.new inp) g1).isSome = true := by decide
def g2 : Global := (((eval envEM 20).rule "E" (St.new inp) g1).get second_some).2
theorem run1 : Run envEM (Global.init 0) false g1 := by
  have h := Run.rule (env := envEM) (run_eq first_some)
  have hb : (((eval envEM 20).rule "Num" (St.new inp) (Global.init 0)).get first_some).1.isPanic = false := by decide
  rw [hb] at h; exact h
/-- `C06_no_reevaluation`: the grow loop of `E` never evaluates `Num` at 0 again … -/
example : ∀ l2, g2.log = l2 ++ g1.log → evals l2 ("Num", 0) = 0 := fun l2 hl2 =>
  C06_no_reevaluation run1 (Run.rule (run_eq second_some)) (l1 := g1.log) (by simp [Global.init]) hl2
    num_not_lr (by decide)
/-- … `C06_cache_mono`: and the entry is still the same afterwards -/
example : g2.lookup ("Num", 0) = g1.lookup ("Num", 0) := by
  have h : g2.lookup ("Num", 0) = some ((g1.lookup ("Num", 0)).get g1_hit) :=
    C06_cache_mono (Run.rule (run_eq second_some)) (k := ("Num", 0)) num_not_lr (Option.some_get g1_hit).symm
  rw [h]; exact Option.some_get g1_hit
/-- it did happen: two hits on `("Num", 0)` in the second evaluation, the only new memoized keys are
    `("Num", 2)` and `("Num", 4)` -/
example : hits g2.log = 2 ∧ evals g2.log ("Num", 0) = 1 ∧ evals g1.log ("Num", 0) = 1 ∧
    bodyKeysM envEM g2.log = [("Num", 4), ("Num", 2), ("Num", 0)] := by decide

/-- A variant in which the memoized rule is attempted at the same offset in EVERY iteration of the grow
    loop: `@export @leftrec E = p:Num '!' | l:*E '+' r:Num | b:Num`.  On `"1+2+3"` the loop of `E` at 0
    runs 4 times; `Num` at 0 is attempted 6 times (once per iteration by the first alternative, plus the
    third alternative in the first and last iteration): one body evaluation and 5 cache hits. -/
def ruleE3 : Rule := ⟨[.export, .leftrec], "E",
  .choice [.seq [.field (some (.ident "p")) false "Num", .lit false [.chr '!']],
           .seq [.field (some (.ident "l")) true "E", .lit false [.chr '+'],
                 .field (some (.ident "r")) false "Num"],
           .seq [.field (some (.ident "b")) false "Num"]]⟩
def envEM3 : Env := { g := ⟨[.rule ruleE3, .rule ruleNumM]⟩, settings := {}, hooks := default, nf := 10 }

theorem run3_some : (parseAdvanced envEM3 20 "E" inp 0).isSome = true := by decide
def gEnd3 : Global := ((parseAdvanced envEM3 20 "E" inp 0).get run3_some).2

example : (match parseAdvanced envEM3 20 "E" inp 0 with
    | some (.ok _ s, g) => (s.off, evals g.log ("Num", 0), evals g.log ("E", 0), hits g.log)
    | _ => (99, 0, 0, 0)) = (5, 1, 4, 5) := by decide
theorem noReM3 : NoReM envEM3 gEnd3.log := NoReM_of_check (by decide)
example (o : Nat) : evals gEnd3.log ("Num", o) ≤ 1 :=
  C06_parse_once (run_eq run3_some) noReM3 ("Num", o) (show ¬ IsLR envEM3 "Num" by decide)
example : LROk envEM3.g envEM3.settings := by decide

end Example

/-! **Counterexample: with `@leftrec` rules "at most once" can fail for a non-`@leftrec` `@memoize`
    rule, with pure (default) hooks**, when the memoized rule lies INSIDE a left-recursive cycle:
    ```
    @export @memoize M = e:E 'x' | n:Num ;
    @leftrec         E = m:M 'z' | n:Num ;
    @string        Num = {'0'..'9'}+ ;
    ```
    on the input `"1"`: `M` at 0 misses → body → `E` at 0 misses, plants its seed, first iteration →
    `M` at 0 misses AGAIN (nothing inserted yet) → the body of `M` a second time → `E` at 0 hits the
    seed, `Num` matches, the inner `M` is inserted … the outer `M` finally inserts a second entry.
    The parse succeeds (offset 1), `evals log ("M", 0) = 2`, the cache holds 4 entries for 2 keys.
    The grammar is not in the class `LROk` (the `@leftrec` rule `E` re-enters itself through `M`), and
    the log has a re-entry of the non-`@leftrec` key `("M", 0)`: `NoReM` (or a grammar condition such
    as `LROk`) is really needed for the counting form. -/
namespace ExampleBad
open Peg.NV

def ruleM : Rule := ⟨[.export, .memoize], "M",
  .choice [.seq [.field (some (.ident "e")) false "E", .lit false [.chr 'x']],
           .seq [.field (some (.ident "n")) false "Num"]]⟩
def ruleE : Rule := ⟨[.leftrec], "E",
  .choice [.seq [.field (some (.ident "m")) false "M", .lit false [.chr 'z']],
           .seq [.field (some (.ident "n")) false "Num"]]⟩
def ruleNum : Rule := ⟨[.string], "Num",
  .choice [.seq [.closure (.choice [.seq [.range (.chr '0') (.chr '9')]]) true]]⟩
def envBad : Env :=
  { g := ⟨[.rule ruleM, .rule ruleE, .rule ruleNum]⟩, settings := {}, hooks := default, nf := 10 }

theorem pure : PureHooks envBad.hooks := pure_default
theorem m_not_lr : ¬ IsLR envBad "M" := by decide

theorem run_some : (parseAdvanced envBad 20 "M" [49] 0).isSome = true := by decide
def gEnd : Global := ((parseAdvanced envBad 20 "M" [49] 0).get run_some).2

example : (match parseAdvanced envBad 20 "M" [49] 0 with
    | some (.ok _ s, g) => (s.off, evals g.log ("M", 0), evals g.log ("E", 0), g.cache.length,
        noReMB envBad g.log.reverse)
    | _ => (99, 0, 0, 0, true)) = (1, 2, 2, 4, false) := by decide

theorem twice : evals gEnd.log ("M", 0) = 2 := by decide

example : ¬ LROk envBad.g envBad.settings := by decide

/-- the hypothesis `NoReM` of `C06_parse_once` fails on this run … -/
theorem not_noReM : ¬ NoReM envBad gEnd.log := fun hno => by
  have h : evals gEnd.log ("M", 0) ≤ 1 := C06_parse_once (run_eq run_some) hno ("M", 0) m_not_lr
  rw [twice] at h; omega

/-- … while everything that does not need it still holds, e.g. the position is cached afterwards and
    the second entry shadows the first -/
example : (gEnd.lookup ("M", 0)).isSome = true := by decide

end ExampleBad

end PLR
end Peg
