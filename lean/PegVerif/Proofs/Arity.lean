import PegVerif.Fields
/-
  The arity lattice `one ≤ optional ≤ multiple` and structural facts about the generator's field
  analysis `getFields`:
  * `combineChoice` is the join (`max`) of the lattice, `toOptional a = combineChoice a .optional`;
  * fuel monotonicity of `getFields`, success of the sub-calls;
  * field names of every construct are duplicate-free, type lists are non-empty;
  * "local arity ≤ enclosing arity" (`SubFields`) for every construct;
  * a field occurring in two different parts of a sequence is `multiple`;
  * a field of a choice that is absent from an arm is at least `optional`.
-/
namespace Peg

/-! ### the arity order -/

def Arity.rank : Arity → Nat
  | .one => 0
  | .optional => 1
  | .multiple => 2

def Arity.le (a b : Arity) : Prop := a.rank ≤ b.rank

instance : LE Arity := ⟨Arity.le⟩

instance (a b : Arity) : Decidable (a ≤ b) := inferInstanceAs (Decidable (a.rank ≤ b.rank))

theorem Arity.le_def {a b : Arity} : a ≤ b ↔ a.rank ≤ b.rank := Iff.rfl

theorem Arity.rank_inj {a b : Arity} (h : a.rank = b.rank) : a = b := by
  cases a <;> cases b <;> first | rfl | cases h

theorem Arity.le_refl (a : Arity) : a ≤ a := Nat.le_refl _
theorem Arity.le_trans {a b c : Arity} (h1 : a ≤ b) (h2 : b ≤ c) : a ≤ c := Nat.le_trans h1 h2
theorem Arity.le_antisymm {a b : Arity} (h1 : a ≤ b) (h2 : b ≤ a) : a = b :=
  Arity.rank_inj (Nat.le_antisymm h1 h2)
theorem Arity.le_total (a b : Arity) : a ≤ b ∨ b ≤ a := Nat.le_total _ _
theorem Arity.one_le (a : Arity) : Arity.one ≤ a := Nat.zero_le _
theorem Arity.le_multiple (a : Arity) : a ≤ Arity.multiple := by cases a <;> decide
theorem Arity.eq_multiple_of_le {a : Arity} (h : Arity.multiple ≤ a) : a = .multiple := by
  cases a <;> first | rfl | exact absurd h (by decide)
theorem Arity.ne_one_of_optional_le {a : Arity} (h : Arity.optional ≤ a) : a ≠ .one := by
  cases a <;> first | exact absurd h (by decide) | exact fun h => nomatch h
theorem Arity.optional_le_of_ne_one {a : Arity} (h : a ≠ .one) : Arity.optional ≤ a := by
  cases a <;> first | exact absurd rfl h | decide

/-- `combine_arities_for_choice` is the join of the lattice -/
theorem rank_combineChoice (a b : Arity) : (combineChoice a b).rank = max a.rank b.rank := by
  cases a <;> cases b <;> rfl

theorem combineChoice_comm (a b : Arity) : combineChoice a b = combineChoice b a := by
  cases a <;> cases b <;> rfl

theorem combineChoice_assoc (a b c : Arity) :
    combineChoice (combineChoice a b) c = combineChoice a (combineChoice b c) := by
  cases a <;> cases b <;> cases c <;> rfl

theorem combineChoice_idem (a : Arity) : combineChoice a a = a := by cases a <;> rfl

theorem le_combineChoice_left (a b : Arity) : a ≤ combineChoice a b := by
  cases a <;> cases b <;> decide

theorem le_combineChoice_right (a b : Arity) : b ≤ combineChoice a b := by
  cases a <;> cases b <;> decide

theorem combineChoice_le {a b c : Arity} (h1 : a ≤ c) (h2 : b ≤ c) : combineChoice a b ≤ c := by
  rw [Arity.le_def, rank_combineChoice]; exact Nat.max_le.mpr ⟨h1, h2⟩

theorem combineChoice_mono {a a' b b' : Arity} (h1 : a ≤ a') (h2 : b ≤ b') :
    combineChoice a b ≤ combineChoice a' b' :=
  combineChoice_le (Arity.le_trans h1 (le_combineChoice_left _ _))
    (Arity.le_trans h2 (le_combineChoice_right _ _))

/-- `set_arity_to_optional` is the join with `optional` -/
theorem toOptional_eq (a : Arity) : toOptional a = combineChoice a .optional := by cases a <;> rfl

theorem rank_toOptional (a : Arity) : (toOptional a).rank = max a.rank 1 := by cases a <;> rfl

theorem le_toOptional (a : Arity) : a ≤ toOptional a := by cases a <;> decide

theorem optional_le_toOptional (a : Arity) : Arity.optional ≤ toOptional a := by cases a <;> decide

theorem toOptional_mono {a b : Arity} (h : a ≤ b) : toOptional a ≤ toOptional b := by
  rw [toOptional_eq, toOptional_eq]; exact combineChoice_mono h (Arity.le_refl _)

theorem toOptional_idem (a : Arity) : toOptional (toOptional a) = toOptional a := by cases a <;> rfl

/-! ### type sets -/

/-- every type of `a` occurs in `b`, and `boxed` is only ever switched on -/
def TSub (a b : List (String × Bool)) : Prop :=
  ∀ t ∈ a, ∃ t' ∈ b, t'.1 = t.1 ∧ (t.2 = true → t'.2 = true)

theorem TSub.refl (a : List (String × Bool)) : TSub a a := fun t ht => ⟨t, ht, rfl, id⟩

theorem TSub.trans {a b c : List (String × Bool)} (h1 : TSub a b) (h2 : TSub b c) : TSub a c := by
  intro t ht
  obtain ⟨t1, ht1, e1, b1⟩ := h1 t ht
  obtain ⟨t2, ht2, e2, b2⟩ := h2 t1 ht1
  exact ⟨t2, ht2, e2.trans e1, fun h => b2 (b1 h)⟩

theorem insertType_ne_nil (l : List (String × Bool)) (kv : String × Bool) : insertType l kv ≠ [] := by
  obtain ⟨k', b'⟩ := kv
  cases l with
  | nil => simp [insertType]
  | cons hd tl =>
    obtain ⟨k, b⟩ := hd
    simp only [insertType]
    split
    · simp
    · split <;> simp

theorem TSub_insertType_left (l : List (String × Bool)) (kv : String × Bool) : TSub l (insertType l kv) := by
  obtain ⟨k', b'⟩ := kv
  induction l with
  | nil => intro t ht; cases ht
  | cons hd tl ih =>
    obtain ⟨k, b⟩ := hd
    simp only [insertType]
    split
    · intro t ht
      rcases List.mem_cons.mp ht with rfl | ht
      · exact ⟨(k, b || b'), List.mem_cons_self, rfl, fun h => by simp only at h; simp [h]⟩
      · exact ⟨t, List.mem_cons_of_mem _ ht, rfl, id⟩
    · split
      · intro t ht
        exact ⟨t, List.mem_cons_of_mem _ ht, rfl, id⟩
      · intro t ht
        rcases List.mem_cons.mp ht with rfl | ht
        · exact ⟨_, List.mem_cons_self, rfl, id⟩
        · obtain ⟨t', ht', e⟩ := ih t ht
          exact ⟨t', List.mem_cons_of_mem _ ht', e⟩

theorem TSub_insertType_right (l : List (String × Bool)) (kv : String × Bool) :
    ∃ t' ∈ insertType l kv, t'.1 = kv.1 ∧ (kv.2 = true → t'.2 = true) := by
  obtain ⟨k', b'⟩ := kv
  induction l with
  | nil => exact ⟨(k', b'), by simp [insertType], rfl, id⟩
  | cons hd tl ih =>
    obtain ⟨k, b⟩ := hd
    simp only [insertType]
    split
    · rename_i hk
      have hk : k = k' := by simpa using hk
      exact ⟨(k, b || b'), List.mem_cons_self, hk, fun h => by have h : b' = true := h; simp [h]⟩
    · split
      · exact ⟨(k', b'), List.mem_cons_self, rfl, id⟩
      · obtain ⟨t', ht', e⟩ := ih
        exact ⟨t', List.mem_cons_of_mem _ ht', e⟩

theorem combineTypes_spec (r : List (String × Bool)) :
    ∀ l, (l ≠ [] → combineTypes l r ≠ []) ∧ TSub l (combineTypes l r) ∧ TSub r (combineTypes l r) := by
  unfold combineTypes
  induction r with
  | nil => intro l; exact ⟨id, TSub.refl _, fun t ht => by cases ht⟩
  | cons kv r ih =>
    intro l
    simp only [List.foldl_cons]
    obtain ⟨h1, h2, h3⟩ := ih (insertType l kv)
    refine ⟨fun _ => h1 (insertType_ne_nil _ _), (TSub_insertType_left l kv).trans h2, ?_⟩
    intro t ht
    rcases List.mem_cons.mp ht with rfl | ht
    · obtain ⟨t1, ht1, e1, b1⟩ := TSub_insertType_right l t
      obtain ⟨t2, ht2, e2, b2⟩ := h2 t1 ht1
      exact ⟨t2, ht2, e2.trans e1, fun h => b2 (b1 h)⟩
    · exact h3 t ht

theorem combineTypes_ne_nil {l r : List (String × Bool)} (h : l ≠ []) : combineTypes l r ≠ [] :=
  (combineTypes_spec r l).1 h
theorem TSub_combineTypes_left (l r : List (String × Bool)) : TSub l (combineTypes l r) :=
  (combineTypes_spec r l).2.1
theorem TSub_combineTypes_right (l r : List (String × Bool)) : TSub r (combineTypes l r) :=
  (combineTypes_spec r l).2.2

/-! ### `SubFields`: local descriptor ≤ enclosing descriptor -/

/-- descriptor `o` (of the enclosing construct) covers descriptor `f` (of a sub-construct) -/
def FLe (f o : FieldDesc) : Prop := o.name = f.name ∧ f.arity ≤ o.arity ∧ TSub f.types o.types

theorem FLe.refl (f : FieldDesc) : FLe f f := ⟨rfl, Arity.le_refl _, TSub.refl _⟩
theorem FLe.trans {a b c : FieldDesc} (h1 : FLe a b) (h2 : FLe b c) : FLe a c :=
  ⟨h2.1.trans h1.1, Arity.le_trans h1.2.1 h2.2.1, h1.2.2.trans h2.2.2⟩

/-- every field of `inner` occurs in `outer` with at least that arity and at least those types -/
def SubFields (inner outer : List FieldDesc) : Prop :=
  ∀ f ∈ inner, ∃ o ∈ outer, o.name = f.name ∧ f.arity ≤ o.arity ∧
    (∀ t ∈ f.types, ∃ t' ∈ o.types, t'.1 = t.1 ∧ (t.2 = true → t'.2 = true))

theorem subFields_iff {inner outer : List FieldDesc} :
    SubFields inner outer ↔ ∀ f ∈ inner, ∃ o ∈ outer, FLe f o := Iff.rfl

theorem SubFields.refl (fs : List FieldDesc) : SubFields fs fs := fun f hf => ⟨f, hf, FLe.refl f⟩

theorem SubFields.trans {a b c : List FieldDesc} (h1 : SubFields a b) (h2 : SubFields b c) :
    SubFields a c := by
  intro f hf
  obtain ⟨o1, ho1, l1⟩ := h1 f hf
  obtain ⟨o2, ho2, l2⟩ := h2 o1 ho1
  exact ⟨o2, ho2, FLe.trans l1 l2⟩

theorem SubFields.nil (fs : List FieldDesc) : SubFields [] fs := fun _ h => by cases h

theorem SubFields.append_left {a b : List FieldDesc} (c : List FieldDesc) (h : SubFields a b) :
    SubFields a (b ++ c) := fun f hf => by
  obtain ⟨o, ho, l⟩ := h f hf
  exact ⟨o, List.mem_append_left _ ho, l⟩

/-! ### field names -/

theorem hasField_iff {fs : List FieldDesc} {x : String} : hasField fs x = true ↔ x ∈ fs.map (·.name) := by
  simp only [hasField, List.any_eq_true, List.mem_map, beq_iff_eq]

theorem hasField_false_iff {fs : List FieldDesc} {x : String} :
    hasField fs x = false ↔ x ∉ fs.map (·.name) := by
  rw [← hasField_iff]; simp

theorem hasField_of_mem {fs : List FieldDesc} {f : FieldDesc} (h : f ∈ fs) : hasField fs f.name = true :=
  hasField_iff.mpr (List.mem_map.mpr ⟨f, h, rfl⟩)

theorem exists_of_hasField {fs : List FieldDesc} {x : String} (h : hasField fs x = true) :
    ∃ f ∈ fs, f.name = x := by
  obtain ⟨f, hf, e⟩ := List.mem_map.mp (hasField_iff.mp h)
  exact ⟨f, hf, e⟩

theorem SubFields.hasField {a b : List FieldDesc} (h : SubFields a b) {x : String}
    (hx : hasField a x = true) : hasField b x = true := by
  obtain ⟨f, hf, rfl⟩ := exists_of_hasField hx
  obtain ⟨o, ho, e, _⟩ := h f hf
  exact e ▸ hasField_of_mem ho

/-- in a list with duplicate-free names a descriptor is determined by its name -/
theorem eq_of_name_eq {fs : List FieldDesc} (hn : (fs.map (·.name)).Nodup) {a b : FieldDesc}
    (ha : a ∈ fs) (hb : b ∈ fs) (h : a.name = b.name) : a = b := by
  induction fs with
  | nil => cases ha
  | cons f fs ih =>
    simp only [List.map_cons, List.nodup_cons, List.mem_map, not_exists, not_and] at hn
    rcases List.mem_cons.mp ha with ha' | ha' <;> rcases List.mem_cons.mp hb with hb' | hb'
    · rw [ha', hb']
    · subst ha'; exact absurd h.symm (hn.1 b hb')
    · subst hb'; exact absurd h (hn.1 a ha')
    · exact ih hn.2 ha' hb'

/-- `BTreeMap`-less bookkeeping of names: append unless present -/
def addName (ns : List String) (x : String) : List String := if x ∈ ns then ns else ns ++ [x]

/-- the names after merging the fields `fs` of one more part / arm -/
def mergeNames (ns : List String) (fs : List FieldDesc) : List String := (fs.map (·.name)).foldl addName ns

theorem nodup_addName {ns : List String} (h : ns.Nodup) (x : String) : (addName ns x).Nodup := by
  unfold addName; split
  · exact h
  · rename_i hx
    exact List.nodup_append.mpr ⟨h, (by simp), fun a ha b hb => by
      rcases List.mem_singleton.mp hb with rfl; exact fun e => hx (e ▸ ha)⟩

theorem mem_addName {ns : List String} {x y : String} : y ∈ addName ns x ↔ y ∈ ns ∨ y = x := by
  unfold addName; split
  · rename_i hx
    exact ⟨Or.inl, fun h => h.elim id (fun e => e ▸ hx)⟩
  · simp

theorem foldl_addName_spec (xs : List String) :
    ∀ ns, (ns.Nodup → (xs.foldl addName ns).Nodup) ∧ ∀ y, y ∈ xs.foldl addName ns ↔ y ∈ ns ∨ y ∈ xs := by
  induction xs with
  | nil => intro ns; exact ⟨id, fun y => by simp⟩
  | cons x xs ih =>
    intro ns
    obtain ⟨h1, h2⟩ := ih (addName ns x)
    refine ⟨fun h => h1 (nodup_addName h x), fun y => ?_⟩
    simp only [List.foldl_cons, h2, mem_addName, List.mem_cons]
    constructor
    · rintro ((h | h) | h)
      · exact Or.inl h
      · exact Or.inr (Or.inl h)
      · exact Or.inr (Or.inr h)
    · rintro (h | h | h)
      · exact Or.inl (Or.inl h)
      · exact Or.inl (Or.inr h)
      · exact Or.inr h

theorem nodup_mergeNames {ns : List String} (h : ns.Nodup) (fs : List FieldDesc) : (mergeNames ns fs).Nodup :=
  (foldl_addName_spec _ ns).1 h

theorem mem_mergeNames {ns : List String} {fs : List FieldDesc} {y : String} :
    y ∈ mergeNames ns fs ↔ y ∈ ns ∨ hasField fs y = true := by
  rw [hasField_iff]; exact (foldl_addName_spec _ ns).2 y

theorem foldl_mergeNames_spec (fss : List (List FieldDesc)) :
    ∀ ns, (ns.Nodup → (fss.foldl mergeNames ns).Nodup) ∧
      ∀ y, y ∈ fss.foldl mergeNames ns ↔ y ∈ ns ∨ ∃ fs ∈ fss, hasField fs y = true := by
  induction fss with
  | nil => intro ns; exact ⟨id, fun y => by simp⟩
  | cons fs fss ih =>
    intro ns
    obtain ⟨h1, h2⟩ := ih (mergeNames ns fs)
    refine ⟨fun h => h1 (nodup_mergeNames h fs), fun y => ?_⟩
    simp only [List.foldl_cons, h2, mem_mergeNames, List.mem_cons, exists_eq_or_imp]
    constructor
    · rintro ((h | h) | h)
      · exact Or.inl h
      · exact Or.inr (Or.inl h)
      · exact Or.inr (Or.inr h)
    · rintro (h | h | h)
      · exact Or.inl (Or.inl h)
      · exact Or.inl (Or.inr h)
      · exact Or.inr h

/-! ### one merge step (sequence and choice) -/

theorem map_name_update (all : List FieldDesc) (upd : FieldDesc → FieldDesc)
    (h : ∀ o, (upd o).name = o.name) : (all.map upd).map (·.name) = all.map (·.name) := by
  rw [List.map_map]; exact List.map_congr_left (fun o _ => h o)

/-- what the two merge loops have in common -/
structure MergeStep (stp : List FieldDesc → FieldDesc → List FieldDesc) : Prop where
  names : ∀ all nf, (stp all nf).map (·.name) = addName (all.map (·.name)) nf.name
  sub : ∀ all nf, SubFields all (stp all nf)
  new : ∀ all nf, ∃ o ∈ stp all nf, FLe nf o
  types : ∀ all nf, (∀ f ∈ all, f.types ≠ []) → nf.types ≠ [] → ∀ f ∈ stp all nf, f.types ≠ []

theorem MergeStep.foldl {stp} (h : MergeStep stp) (new : List FieldDesc) :
    ∀ all, (new.foldl stp all).map (·.name) = mergeNames (all.map (·.name)) new ∧
      SubFields all (new.foldl stp all) ∧ SubFields new (new.foldl stp all) ∧
      ((∀ f ∈ all, f.types ≠ []) → (∀ f ∈ new, f.types ≠ []) → ∀ f ∈ new.foldl stp all, f.types ≠ []) := by
  induction new with
  | nil => intro all; exact ⟨rfl, SubFields.refl _, SubFields.nil _, fun h _ => h⟩
  | cons nf new ih =>
    intro all
    obtain ⟨h1, h2, h3, h4⟩ := ih (stp all nf)
    simp only [List.foldl_cons]
    refine ⟨?_, (h.sub all nf).trans h2, ?_, ?_⟩
    · rw [h1, h.names]; rfl
    · intro f hf
      rcases List.mem_cons.mp hf with rfl | hf
      · obtain ⟨o, ho, l⟩ := h.new all f
        obtain ⟨o2, ho2, l2⟩ := h2 o ho
        exact ⟨o2, ho2, l.trans l2⟩
      · exact h3 f hf
    · intro ha hn
      exact h4 (h.types all nf ha (hn nf List.mem_cons_self)) (fun f hf => hn f (List.mem_cons_of_mem _ hf))

/-- one iteration of the loop of `Sequence::get_fields` -/
def seqStep (all : List FieldDesc) (nf : FieldDesc) : List FieldDesc :=
  if hasField all nf.name then
    all.map fun o => if o.name == nf.name then
      { o with arity := .multiple, types := combineTypes o.types nf.types } else o
  else all ++ [nf]

theorem seqMerge_eq (all new : List FieldDesc) : seqMerge all new = new.foldl seqStep all := rfl

theorem seqStep_ok : MergeStep seqStep where
  names := by
    intro all nf
    unfold seqStep addName
    by_cases h : hasField all nf.name = true
    · rw [if_pos h, if_pos (hasField_iff.mp h)]
      exact map_name_update _ _ (fun o => by split <;> rfl)
    · rw [if_neg h, if_neg (mt hasField_iff.mpr h)]; simp
  sub := by
    intro all nf
    unfold seqStep
    split
    · intro f hf
      refine ⟨_, List.mem_map.mpr ⟨f, hf, rfl⟩, ?_⟩
      split
      · exact ⟨rfl, Arity.le_multiple _, TSub_combineTypes_left _ _⟩
      · exact FLe.refl f
    · exact (SubFields.refl all).append_left _
  new := by
    intro all nf
    unfold seqStep
    split
    · rename_i h
      obtain ⟨o, ho, e⟩ := exists_of_hasField h
      refine ⟨_, List.mem_map.mpr ⟨o, ho, rfl⟩, ?_⟩
      rw [if_pos (by simp [e])]
      exact ⟨e, Arity.le_multiple _, TSub_combineTypes_right _ _⟩
    · exact ⟨nf, by simp, FLe.refl nf⟩
  types := by
    intro all nf ha hn f hf
    unfold seqStep at hf
    split at hf
    · obtain ⟨o, ho, rfl⟩ := List.mem_map.mp hf
      split
      · exact combineTypes_ne_nil (ha o ho)
      · exact ha o ho
    · rcases List.mem_append.mp hf with hf | hf
      · exact ha f hf
      · rw [List.mem_singleton.mp hf]; exact hn

/-- the arity downgrade at the start of a non-first arm of `Choice::get_fields` -/
def chPre (first : Bool) (all new : List FieldDesc) : List FieldDesc :=
  if first then all else
    all.map fun f => if f.arity == .one && !hasField new f.name then { f with arity := .optional } else f

/-- one iteration of the loop of `Choice::get_fields` -/
def chStep (first : Bool) (all : List FieldDesc) (nf : FieldDesc) : List FieldDesc :=
  if hasField all nf.name then
    all.map fun o => if o.name == nf.name then
      { o with arity := combineChoice o.arity nf.arity, types := combineTypes o.types nf.types } else o
  else if first || nf.arity != .one then all ++ [nf]
  else all ++ [{ nf with arity := .optional }]

theorem choiceMerge_eq (first : Bool) (all new : List FieldDesc) :
    choiceMerge first all new = new.foldl (chStep first) (chPre first all new) := rfl

theorem chStep_ok (first : Bool) : MergeStep (chStep first) where
  names := by
    intro all nf
    unfold chStep addName
    by_cases h : hasField all nf.name = true
    · rw [if_pos h, if_pos (hasField_iff.mp h)]
      exact map_name_update _ _ (fun o => by split <;> rfl)
    · rw [if_neg h, if_neg (mt hasField_iff.mpr h)]; split <;> simp
  sub := by
    intro all nf
    unfold chStep
    split
    · intro f hf
      refine ⟨_, List.mem_map.mpr ⟨f, hf, rfl⟩, ?_⟩
      split
      · exact ⟨rfl, le_combineChoice_left _ _, TSub_combineTypes_left _ _⟩
      · exact FLe.refl f
    · split <;> exact (SubFields.refl all).append_left _
  new := by
    intro all nf
    unfold chStep
    split
    · rename_i h
      obtain ⟨o, ho, e⟩ := exists_of_hasField h
      refine ⟨_, List.mem_map.mpr ⟨o, ho, rfl⟩, ?_⟩
      rw [if_pos (by simp [e])]
      exact ⟨e, le_combineChoice_right _ _, TSub_combineTypes_right _ _⟩
    · split
      · exact ⟨nf, by simp, FLe.refl nf⟩
      · rename_i hc
        have h1 : nf.arity = .one := by
          cases hna : nf.arity <;> simp [hna] at hc ⊢
        exact ⟨{ nf with arity := .optional }, by simp, rfl, by rw [h1]; exact Arity.one_le _, TSub.refl _⟩
  types := by
    intro all nf ha hn f hf
    unfold chStep at hf
    split at hf
    · obtain ⟨o, ho, rfl⟩ := List.mem_map.mp hf
      split
      · exact combineTypes_ne_nil (ha o ho)
      · exact ha o ho
    · split at hf
      · rcases List.mem_append.mp hf with hf | hf
        · exact ha f hf
        · rw [List.mem_singleton.mp hf]; exact hn
      · rcases List.mem_append.mp hf with hf | hf
        · exact ha f hf
        · rw [List.mem_singleton.mp hf]; exact hn

theorem chPre_names (first : Bool) (all new : List FieldDesc) :
    (chPre first all new).map (·.name) = all.map (·.name) := by
  unfold chPre; split
  · rfl
  · exact map_name_update _ _ (fun o => by split <;> rfl)

theorem chPre_sub (first : Bool) (all new : List FieldDesc) : SubFields all (chPre first all new) := by
  unfold chPre; split
  · exact SubFields.refl _
  · intro f hf
    refine ⟨_, List.mem_map.mpr ⟨f, hf, rfl⟩, ?_⟩
    split
    · rename_i hc
      have h1 : f.arity = .one := by
        simp only [Bool.and_eq_true, beq_iff_eq] at hc; exact hc.1
      exact ⟨rfl, by rw [h1]; exact Arity.one_le _, TSub.refl _⟩
    · exact FLe.refl f

theorem chPre_types (first : Bool) (all new : List FieldDesc) (h : ∀ f ∈ all, f.types ≠ []) :
    ∀ f ∈ chPre first all new, f.types ≠ [] := by
  unfold chPre; split
  · exact h
  · intro f hf
    obtain ⟨o, ho, rfl⟩ := List.mem_map.mp hf
    split <;> exact h o ho

/-! ### merging the fields of one more part / arm, and of all parts / arms -/

structure MergeFn (mrg : List FieldDesc → List FieldDesc → List FieldDesc) : Prop where
  names : ∀ all new, (mrg all new).map (·.name) = mergeNames (all.map (·.name)) new
  sub : ∀ all new, SubFields all (mrg all new)
  new : ∀ all new, SubFields new (mrg all new)
  types : ∀ all new, (∀ f ∈ all, f.types ≠ []) → (∀ f ∈ new, f.types ≠ []) → ∀ f ∈ mrg all new, f.types ≠ []

theorem seqMerge_ok : MergeFn seqMerge where
  names all new := (seqStep_ok.foldl new all).1
  sub all new := (seqStep_ok.foldl new all).2.1
  new all new := (seqStep_ok.foldl new all).2.2.1
  types all new := (seqStep_ok.foldl new all).2.2.2

theorem choiceMerge_ok (first : Bool) : MergeFn (choiceMerge first) where
  names all new := by
    rw [choiceMerge_eq, ((chStep_ok first).foldl new _).1, chPre_names]
  sub all new := by
    rw [choiceMerge_eq]; exact (chPre_sub first all new).trans ((chStep_ok first).foldl new _).2.1
  new all new := by
    rw [choiceMerge_eq]; exact ((chStep_ok first).foldl new _).2.2.1
  types all new ha hn := by
    rw [choiceMerge_eq]; exact ((chStep_ok first).foldl new _).2.2.2 (chPre_types first all new ha) hn

/-- the common shape of `choiceFields` and of the fold of `seqMerge` -/
def mergeAll (mrg : Bool → List FieldDesc → List FieldDesc → List FieldDesc) :
    Bool → List FieldDesc → List (List FieldDesc) → List FieldDesc
  | _, all, [] => all
  | first, all, new :: rest => mergeAll mrg false (mrg first all new) rest

theorem choiceFields_eq (fss : List (List FieldDesc)) :
    ∀ first all, choiceFields first all fss = mergeAll choiceMerge first all fss := by
  induction fss with
  | nil => intro first all; rfl
  | cons new rest ih => intro first all; simp only [choiceFields, mergeAll, ih]

theorem foldl_seqMerge_eq (fss : List (List FieldDesc)) :
    ∀ first all, fss.foldl seqMerge all = mergeAll (fun _ => seqMerge) first all fss := by
  induction fss with
  | nil => intro first all; rfl
  | cons new rest ih => intro first all; simp only [List.foldl_cons, mergeAll, ih false]

theorem mergeAll_spec {mrg} (h : ∀ b, MergeFn (mrg b)) (fss : List (List FieldDesc)) :
    ∀ first all, (mergeAll mrg first all fss).map (·.name) = fss.foldl mergeNames (all.map (·.name)) ∧
      SubFields all (mergeAll mrg first all fss) ∧
      (∀ fs ∈ fss, SubFields fs (mergeAll mrg first all fss)) ∧
      ((∀ f ∈ all, f.types ≠ []) → (∀ fs ∈ fss, ∀ f ∈ fs, f.types ≠ []) →
        ∀ f ∈ mergeAll mrg first all fss, f.types ≠ []) := by
  induction fss with
  | nil => intro first all; exact ⟨rfl, SubFields.refl _, fun _ h => (by cases h), fun h _ => h⟩
  | cons new rest ih =>
    intro first all
    obtain ⟨h1, h2, h3, h4⟩ := ih false (mrg first all new)
    simp only [mergeAll, List.foldl_cons]
    refine ⟨?_, ((h first).sub all new).trans h2, ?_, ?_⟩
    · rw [h1, (h first).names]
    · intro fs hfs
      rcases List.mem_cons.mp hfs with rfl | hfs
      · exact ((h first).new all fs).trans h2
      · exact h3 fs hfs
    · intro ha hn
      exact h4 ((h first).types all new ha (hn new List.mem_cons_self))
        (fun fs hfs => hn fs (List.mem_cons_of_mem _ hfs))

/-- the result of a successful field analysis: duplicate-free names, non-empty type sets -/
structure FieldsOk (fs : List FieldDesc) : Prop where
  nodup : (fs.map (·.name)).Nodup
  types : ∀ f ∈ fs, f.types ≠ []

theorem mergeAll_fieldsOk {mrg} (h : ∀ b, MergeFn (mrg b)) (fss : List (List FieldDesc))
    (hfs : ∀ fs ∈ fss, FieldsOk fs) (first : Bool) : FieldsOk (mergeAll mrg first [] fss) := by
  obtain ⟨h1, _, _, h4⟩ := mergeAll_spec h fss first []
  refine ⟨?_, h4 (fun _ h => by cases h) (fun fs hf => (hfs fs hf).types)⟩
  rw [h1]; exact (foldl_mergeNames_spec fss _).1 List.nodup_nil

theorem hasField_mergeAll {mrg} (h : ∀ b, MergeFn (mrg b)) (fss : List (List FieldDesc)) (first : Bool)
    (x : String) : hasField (mergeAll mrg first [] fss) x = true ↔ ∃ fs ∈ fss, hasField fs x = true := by
  rw [hasField_iff, (mergeAll_spec h fss first []).1, (foldl_mergeNames_spec fss _).2]
  simp

/-! #### sequences -/

theorem seqFields_fieldsOk {fss : List (List FieldDesc)} (h : ∀ fs ∈ fss, FieldsOk fs) :
    FieldsOk (fss.foldl seqMerge []) := by
  rw [foldl_seqMerge_eq fss true]; exact mergeAll_fieldsOk (fun _ => seqMerge_ok) fss h true

/-- a field belongs to a sequence iff it belongs to one of its parts -/
theorem hasField_seqFields (fss : List (List FieldDesc)) (x : String) :
    hasField (fss.foldl seqMerge []) x = true ↔ ∃ fs ∈ fss, hasField fs x = true := by
  rw [foldl_seqMerge_eq fss true]; exact hasField_mergeAll (fun _ => seqMerge_ok) fss true x

/-- the fields of each part of a sequence are covered by the fields of the sequence -/
theorem subFields_seqFields {fss : List (List FieldDesc)} {fs : List FieldDesc} (h : fs ∈ fss) :
    SubFields fs (fss.foldl seqMerge []) := by
  rw [foldl_seqMerge_eq fss true]; exact (mergeAll_spec (fun _ => seqMerge_ok) fss true []).2.2.1 fs h

/-! #### choices -/

theorem choiceFields_fieldsOk {fss : List (List FieldDesc)} (h : ∀ fs ∈ fss, FieldsOk fs) :
    FieldsOk (choiceFields true [] fss) := by
  rw [choiceFields_eq]; exact mergeAll_fieldsOk choiceMerge_ok fss h true

/-- a field belongs to a choice iff it belongs to one of its arms -/
theorem hasField_choiceFields (fss : List (List FieldDesc)) (x : String) :
    hasField (choiceFields true [] fss) x = true ↔ ∃ fs ∈ fss, hasField fs x = true := by
  rw [choiceFields_eq]; exact hasField_mergeAll choiceMerge_ok fss true x

/-- the fields of each arm of a choice are covered by the fields of the choice -/
theorem subFields_choiceFields {fss : List (List FieldDesc)} {fs : List FieldDesc} (h : fs ∈ fss) :
    SubFields fs (choiceFields true [] fss) := by
  rw [choiceFields_eq]; exact (mergeAll_spec choiceMerge_ok fss true []).2.2.1 fs h

/-! ### a field occurring in two different parts of a sequence is `multiple` -/

/-- there is an entry named `x`, and all entries named `x` are `multiple` -/
def AllMult (x : String) (fs : List FieldDesc) : Prop :=
  hasField fs x = true ∧ ∀ o ∈ fs, o.name = x → o.arity = .multiple

theorem hasField_seqStep {all : List FieldDesc} {nf : FieldDesc} {x : String} :
    hasField (seqStep all nf) x = true ↔ hasField all x = true ∨ x = nf.name := by
  rw [hasField_iff, seqStep_ok.names, mem_addName, hasField_iff]

theorem seqStep_allMult {x : String} {all : List FieldDesc} (h : AllMult x all) (nf : FieldDesc) :
    AllMult x (seqStep all nf) := by
  refine ⟨hasField_seqStep.mpr (Or.inl h.1), ?_⟩
  intro o ho hx
  unfold seqStep at ho
  split at ho
  · obtain ⟨o', ho', rfl⟩ := List.mem_map.mp ho
    split
    · rfl
    · rename_i hc; rw [if_neg hc] at hx; exact h.2 o' ho' hx
  · rename_i hc
    rcases List.mem_append.mp ho with ho | ho
    · exact h.2 o ho hx
    · rw [List.mem_singleton.mp ho] at hx; rw [hx] at hc; exact absurd h.1 hc

theorem seqMerge_allMult {x : String} (new : List FieldDesc) :
    ∀ {all}, AllMult x all → AllMult x (seqMerge all new) := by
  rw [show (∀ {all}, AllMult x all → AllMult x (seqMerge all new)) ↔
    (∀ all, AllMult x all → AllMult x (new.foldl seqStep all)) from Iff.rfl]
  induction new with
  | nil => intro all h; exact h
  | cons nf new ih => intro all h; exact ih _ (seqStep_allMult h nf)

theorem foldl_seqMerge_allMult {x : String} (fss : List (List FieldDesc)) :
    ∀ {all}, AllMult x all → AllMult x (fss.foldl seqMerge all) := by
  induction fss with
  | nil => intro all h; exact h
  | cons fs fss ih => intro all h; exact ih (seqMerge_allMult fs h)

/-- merging a part that contains `x` into fields that already contain `x` makes it `multiple` -/
theorem seqMerge_mult {x : String} (new : List FieldDesc) :
    ∀ {all}, hasField all x = true → hasField new x = true → AllMult x (seqMerge all new) := by
  rw [show (∀ {all}, hasField all x = true → hasField new x = true → AllMult x (seqMerge all new)) ↔
    (∀ all, hasField all x = true → hasField new x = true → AllMult x (new.foldl seqStep all)) from Iff.rfl]
  induction new with
  | nil => intro all _ h; simp [hasField] at h
  | cons nf new ih =>
    intro all ha hn
    simp only [List.foldl_cons]
    by_cases hx : nf.name = x
    · have : AllMult x (seqStep all nf) := by
        refine ⟨hasField_seqStep.mpr (Or.inl ha), ?_⟩
        intro o ho hox
        unfold seqStep at ho
        rw [if_pos (hx ▸ ha)] at ho
        obtain ⟨o', ho', rfl⟩ := List.mem_map.mp ho
        split
        · rfl
        · rename_i hc; rw [if_neg hc] at hox; rw [hx, hox] at hc; simp at hc
      exact seqMerge_allMult (x := x) new this
    · refine ih _ (hasField_seqStep.mpr (Or.inl ha)) ?_
      obtain ⟨f, hf, e⟩ := exists_of_hasField hn
      rcases List.mem_cons.mp hf with rfl | hf
      · exact absurd e hx
      · exact e ▸ hasField_of_mem hf

/-- in a sequence, a field occurring in two different parts has arity `multiple` in the
    sequence's fields -/
theorem seqFields_two_parts {x : String} {pre post : List (List FieldDesc)} {a : List FieldDesc}
    (hpre : ∃ q ∈ pre, hasField q x = true) (ha : hasField a x = true) :
    AllMult x ((pre ++ a :: post).foldl seqMerge []) := by
  rw [List.foldl_append, List.foldl_cons]
  exact foldl_seqMerge_allMult post (seqMerge_mult a ((hasField_seqFields pre x).mpr hpre) ha)

/-! ### a field of a choice that is absent from an arm is at least `optional` -/

/-- all entries named `x` are at least `optional` -/
def AllOpt (x : String) (fs : List FieldDesc) : Prop :=
  ∀ o ∈ fs, o.name = x → Arity.optional ≤ o.arity

theorem chPre_allOpt {x : String} {all : List FieldDesc} (first : Bool) (new : List FieldDesc)
    (h : AllOpt x all) : AllOpt x (chPre first all new) := by
  unfold chPre; split
  · exact h
  · intro o ho hx
    obtain ⟨o', ho', rfl⟩ := List.mem_map.mp ho
    split
    · exact Arity.le_refl _
    · rename_i hc; rw [if_neg hc] at hx; exact h o' ho' hx

theorem chPre_absent {x : String} (all : List FieldDesc) {new : List FieldDesc}
    (hn : hasField new x = false) : AllOpt x (chPre false all new) := by
  unfold chPre
  simp only [Bool.false_eq_true, if_false]
  intro o ho hx
  obtain ⟨o', ho', rfl⟩ := List.mem_map.mp ho
  split
  · exact Arity.le_refl _
  · rename_i hc
    rw [if_neg hc] at hx
    rw [hx, hn] at hc
    apply Arity.optional_le_of_ne_one
    intro h1; simp [h1] at hc

theorem chStep_allOpt_false {x : String} {all : List FieldDesc} (h : AllOpt x all) (nf : FieldDesc) :
    AllOpt x (chStep false all nf) := by
  intro o ho hx
  unfold chStep at ho
  split at ho
  · obtain ⟨o', ho', rfl⟩ := List.mem_map.mp ho
    split
    · rename_i hc
      rw [if_pos hc] at hx
      exact Arity.le_trans (h o' ho' hx) (le_combineChoice_left _ _)
    · rename_i hc; rw [if_neg hc] at hx; exact h o' ho' hx
  · split at ho
    · rename_i hc
      rcases List.mem_append.mp ho with ho | ho
      · exact h o ho hx
      · rw [List.mem_singleton.mp ho]
        apply Arity.optional_le_of_ne_one
        intro h1; simp [h1] at hc
    · rcases List.mem_append.mp ho with ho | ho
      · exact h o ho hx
      · rw [List.mem_singleton.mp ho]; exact Arity.le_refl _

theorem chStep_allOpt_other {x : String} {all : List FieldDesc} (first : Bool) (h : AllOpt x all)
    {nf : FieldDesc} (hne : nf.name ≠ x) : AllOpt x (chStep first all nf) := by
  intro o ho hx
  unfold chStep at ho
  split at ho
  · obtain ⟨o', ho', rfl⟩ := List.mem_map.mp ho
    have hn : (if (o'.name == nf.name) = true then
        { o' with arity := combineChoice o'.arity nf.arity, types := combineTypes o'.types nf.types }
        else o').name = o'.name := by split <;> rfl
    rw [hn] at hx
    have hc : ¬ (o'.name == nf.name) = true := by simp [hx]; exact fun e => hne e.symm
    rw [if_neg hc]; exact h o' ho' hx
  · split at ho
    · rcases List.mem_append.mp ho with ho | ho
      · exact h o ho hx
      · rw [List.mem_singleton.mp ho] at hx; exact absurd hx hne
    · rcases List.mem_append.mp ho with ho | ho
      · exact h o ho hx
      · rw [List.mem_singleton.mp ho] at hx; exact absurd hx hne

theorem choiceMerge_allOpt {x : String} (new : List FieldDesc) {all : List FieldDesc} (h : AllOpt x all) :
    AllOpt x (choiceMerge false all new) := by
  rw [choiceMerge_eq]
  have : ∀ l all, AllOpt x all → AllOpt x (List.foldl (chStep false) all l) := by
    intro l
    induction l with
    | nil => intro all h; exact h
    | cons nf l ih => intro all h; exact ih _ (chStep_allOpt_false h nf)
  exact this new _ (chPre_allOpt false new h)

theorem choiceMerge_absent {x : String} {new : List FieldDesc} (all : List FieldDesc)
    (hn : hasField new x = false) : AllOpt x (choiceMerge false all new) := by
  rw [choiceMerge_eq]
  have : ∀ l all, (∀ f ∈ l, f.name ≠ x) → AllOpt x all → AllOpt x (List.foldl (chStep false) all l) := by
    intro l
    induction l with
    | nil => intro all _ h; exact h
    | cons nf l ih =>
      intro all hl h
      exact ih _ (fun f hf => hl f (List.mem_cons_of_mem _ hf))
        (chStep_allOpt_other false h (hl nf List.mem_cons_self))
  refine this new _ (fun f hf e => ?_) (chPre_absent all hn)
  rw [← e, hasField_of_mem hf] at hn; cases hn

theorem choiceFields_allOpt {x : String} (fss : List (List FieldDesc)) :
    ∀ {all}, AllOpt x all → AllOpt x (choiceFields false all fss) := by
  induction fss with
  | nil => intro all h; exact h
  | cons new rest ih => intro all h; exact ih (choiceMerge_allOpt new h)

/-- a field of the choice that is absent from an arm has arity ≥ `optional` in the choice's fields -/
theorem choiceFields_absent {x : String} (fss : List (List FieldDesc)) :
    ∀ first all, (first = true → all = []) → ∀ fs ∈ fss, hasField fs x = false →
      AllOpt x (choiceFields first all fss) := by
  induction fss with
  | nil => intro _ _ _ fs h; cases h
  | cons new rest ih =>
    intro first all hfa fs hfs hx
    simp only [choiceFields]
    rcases List.mem_cons.mp hfs with rfl | hfs
    · apply choiceFields_allOpt
      cases first with
      | false => exact choiceMerge_absent all hx
      | true =>
        rw [hfa rfl]
        intro o ho hox
        have h1 := hasField_of_mem ho
        rw [hasField_iff, (choiceMerge_ok true).names, mem_mergeNames, hox, hx] at h1
        simp at h1
    · exact ih false _ (fun h => by cases h) fs hfs hx

/-! ### `getFields`: fuel monotonicity, success of the sub-calls -/

/-- the fields of `e` (`[]` when the analysis fails) -/
def fieldsOf (g : Grammar) (n : Nat) (e : Expr) : List FieldDesc :=
  match getFields g n e with
  | .ok fs => fs
  | _ => []

theorem fieldsOf_eq {g : Grammar} {n : Nat} {e : Expr} {fs : List FieldDesc}
    (h : getFields g n e = .ok fs) : fieldsOf g n e = fs := by
  unfold fieldsOf; rw [h]

theorem mapMCR_congr {α β} {f f' : α → CR β} :
    ∀ {l : List α} {bs : List β}, (∀ a ∈ l, ∀ b, f a = .ok b → f' a = .ok b) →
      mapMCR f l = .ok bs → mapMCR f' l = .ok bs := by
  intro l
  induction l with
  | nil => intro bs _ h; exact h
  | cons a l ih =>
    intro bs hf h
    simp only [mapMCR] at h ⊢
    split at h
    · rename_i b hb
      split at h
      · rename_i bs' hbs
        rw [hf a List.mem_cons_self b hb]
        simp only
        rw [ih (fun a ha => hf a (List.mem_cons_of_mem _ ha)) hbs]
        exact h
      · cases h
      · cases h
    · cases h
    · cases h

theorem mapMCR_inv {α β} {f : α → CR β} (d : β) :
    ∀ {l : List α} {bs : List β}, mapMCR f l = .ok bs →
      (∀ a ∈ l, ∃ b, f a = .ok b) ∧ bs = l.map (fun a => match f a with | .ok b => b | _ => d) := by
  intro l
  induction l with
  | nil => intro bs h; simp only [mapMCR, CR.ok.injEq] at h; subst h; exact ⟨fun _ h => (by cases h), rfl⟩
  | cons a l ih =>
    intro bs h
    simp only [mapMCR] at h
    split at h
    · rename_i b hb
      split at h
      · rename_i bs' hbs
        obtain ⟨h1, h2⟩ := ih hbs
        simp only [CR.ok.injEq] at h
        subst h
        refine ⟨fun x hx => ?_, ?_⟩
        · rcases List.mem_cons.mp hx with rfl | hx
          · exact ⟨b, hb⟩
          · exact h1 x hx
        · simp only [List.map_cons, hb, ← h2]
      · cases h
      · cases h
    · cases h
    · cases h

/-- more fuel does not change a successful field analysis -/
theorem getFields_mono {g : Grammar} : ∀ {n m : Nat} {e : Expr} {fs : List FieldDesc},
    getFields g n e = .ok fs → n ≤ m → getFields g m e = .ok fs := by
  intro n
  induction n with
  | zero => intro m e fs h; simp [getFields] at h
  | succ n ih =>
    intro m e fs h hm
    obtain ⟨m, rfl⟩ : ∃ m', m = m' + 1 := ⟨m - 1, by omega⟩
    have hnm : n ≤ m := by omega
    cases e with
    | choice alts =>
      simp only [getFields] at h ⊢
      split at h
      · rename_i fss hfss
        rw [mapMCR_congr (fun a _ b hb => ih hb hnm) hfss]; exact h
      · cases h
      · cases h
    | seq parts =>
      simp only [getFields] at h ⊢
      split at h
      · rename_i fss hfss
        rw [mapMCR_congr (fun a _ b hb => ih hb hnm) hfss]; exact h
      · cases h
      · cases h
    | group b => simp only [getFields] at h ⊢; exact ih h hnm
    | opt b =>
      simp only [getFields] at h ⊢
      split at h
      · rename_i fs' hb; rw [ih hb hnm]; exact h
      · rename_i hne; exact absurd h (hne _)
    | closure b a =>
      simp only [getFields] at h ⊢
      split at h
      · rename_i fs' hb; rw [ih hb hnm]; exact h
      · rename_i hne; exact absurd h (hne _)
    | neg b =>
      simp only [getFields] at h ⊢
      split at h
      · rename_i hb; rw [ih hb hnm]; exact h
      · cases h
      · rename_i hne1 hne2
        cases hb : getFields g n b with
        | ok fs' => rw [hb] at h; cases fs' with
          | nil => exact absurd hb hne1
          | cons x xs => exact absurd hb (hne2 _)
        | err m => rw [hb] at h; cases h
        | fuel => rw [hb] at h; cases h
    | pos b =>
      simp only [getFields] at h ⊢
      split at h
      · rename_i hb; rw [ih hb hnm]; exact h
      · cases h
      · rename_i hne1 hne2
        cases hb : getFields g n b with
        | ok fs' => rw [hb] at h; cases fs' with
          | nil => exact absurd hb hne1
          | cons x xs => exact absurd hb (hne2 _)
        | err m => rw [hb] at h; cases h
        | fuel => rw [hb] at h; cases h
    | range lo hi => simp only [getFields] at h ⊢; exact h
    | lit i b => simp only [getFields] at h ⊢; exact h
    | eoi => simp only [getFields] at h ⊢; exact h
    | incl r =>
      simp only [getFields] at h ⊢
      split at h
      · cases h
      · rename_i rule hr; exact ih h hnm
    | field name boxed typ =>
      cases name with
      | none => simp only [getFields] at h ⊢; exact h
      | some nm => simp only [getFields] at h ⊢; exact h

/-- when `getFields` succeeds on the whole it succeeds (with the same fuel) on the listed
    sub-expressions, and the collected results are their `fieldsOf` -/
theorem mapMCR_getFields {g : Grammar} {n : Nat} {l : List Expr} {fss : List (List FieldDesc)}
    (h : mapMCR (getFields g n) l = .ok fss) :
    (∀ p ∈ l, getFields g (n+1) p = .ok (fieldsOf g (n+1) p)) ∧ fss = l.map (fieldsOf g (n+1)) := by
  obtain ⟨h1, h2⟩ := mapMCR_inv ([] : List FieldDesc) h
  have h3 : ∀ p ∈ l, getFields g (n+1) p = .ok (fieldsOf g (n+1) p) ∧ fieldsOf g n p = fieldsOf g (n+1) p := by
    intro p hp
    obtain ⟨b, hb⟩ := h1 p hp
    have hb' := getFields_mono hb (Nat.le_succ n)
    rw [fieldsOf_eq hb, fieldsOf_eq hb']; exact ⟨hb', rfl⟩
  refine ⟨fun p hp => (h3 p hp).1, ?_⟩
  rw [h2]
  refine List.map_congr_left (fun p hp => ?_)
  rw [← (h3 p hp).2]; unfold fieldsOf
  cases getFields g n p <;> rfl

theorem getFields_seq_inv {g : Grammar} {nf : Nat} {parts : List Expr} {own : List FieldDesc}
    (h : getFields g nf (.seq parts) = .ok own) :
    (∀ p ∈ parts, getFields g nf p = .ok (fieldsOf g nf p)) ∧
      own = (parts.map (fieldsOf g nf)).foldl seqMerge [] := by
  cases nf with
  | zero => simp [getFields] at h
  | succ n =>
    simp only [getFields] at h
    split at h
    · rename_i fss hfss
      obtain ⟨h1, h2⟩ := mapMCR_getFields hfss
      simp only [CR.ok.injEq] at h
      exact ⟨h1, by rw [← h, h2]⟩
    · cases h
    · cases h

theorem getFields_choice_inv {g : Grammar} {nf : Nat} {alts : List Expr} {own : List FieldDesc}
    (h : getFields g nf (.choice alts) = .ok own) :
    (∀ p ∈ alts, getFields g nf p = .ok (fieldsOf g nf p)) ∧
      own = choiceFields true [] (alts.map (fieldsOf g nf)) := by
  cases nf with
  | zero => simp [getFields] at h
  | succ n =>
    simp only [getFields] at h
    split at h
    · rename_i fss hfss
      obtain ⟨h1, h2⟩ := mapMCR_getFields hfss
      simp only [CR.ok.injEq] at h
      exact ⟨h1, by rw [← h, h2]⟩
    · cases h
    · cases h

theorem getFields_group_inv {g : Grammar} {nf : Nat} {b : Expr} {own : List FieldDesc}
    (h : getFields g nf (.group b) = .ok own) : getFields g nf b = .ok own := by
  cases nf with
  | zero => simp [getFields] at h
  | succ n => simp only [getFields] at h; exact getFields_mono h (Nat.le_succ n)

theorem getFields_opt_inv {g : Grammar} {nf : Nat} {b : Expr} {own : List FieldDesc}
    (h : getFields g nf (.opt b) = .ok own) :
    ∃ fs, getFields g nf b = .ok fs ∧ own = fs.map fun f => { f with arity := toOptional f.arity } := by
  cases nf with
  | zero => simp [getFields] at h
  | succ n =>
    simp only [getFields] at h
    split at h
    · rename_i fs hb
      simp only [CR.ok.injEq] at h
      exact ⟨fs, getFields_mono hb (Nat.le_succ n), h.symm⟩
    · rename_i hne; exact absurd h (hne _)

theorem getFields_closure_inv {g : Grammar} {nf : Nat} {b : Expr} {a : Bool} {own : List FieldDesc}
    (h : getFields g nf (.closure b a) = .ok own) :
    ∃ fs, getFields g nf b = .ok fs ∧ own = fs.map fun f => { f with arity := .multiple } := by
  cases nf with
  | zero => simp [getFields] at h
  | succ n =>
    simp only [getFields] at h
    split at h
    · rename_i fs hb
      simp only [CR.ok.injEq] at h
      exact ⟨fs, getFields_mono hb (Nat.le_succ n), h.symm⟩
    · rename_i hne; exact absurd h (hne _)

theorem getFields_neg_inv {g : Grammar} {nf : Nat} {b : Expr} {own : List FieldDesc}
    (h : getFields g nf (.neg b) = .ok own) : getFields g nf b = .ok [] ∧ own = [] := by
  cases nf with
  | zero => simp [getFields] at h
  | succ n =>
    simp only [getFields] at h
    split at h
    · rename_i hb
      simp only [CR.ok.injEq] at h
      exact ⟨getFields_mono hb (Nat.le_succ n), h.symm⟩
    · cases h
    · rename_i hne1 hne2
      cases hb : getFields g n b with
      | ok fs' => cases fs' with
        | nil => exact absurd hb hne1
        | cons x xs => exact absurd hb (hne2 _)
      | err m => rw [hb] at h; cases h
      | fuel => rw [hb] at h; cases h

theorem getFields_pos_inv {g : Grammar} {nf : Nat} {b : Expr} {own : List FieldDesc}
    (h : getFields g nf (.pos b) = .ok own) : getFields g nf b = .ok [] ∧ own = [] := by
  cases nf with
  | zero => simp [getFields] at h
  | succ n =>
    simp only [getFields] at h
    split at h
    · rename_i hb
      simp only [CR.ok.injEq] at h
      exact ⟨getFields_mono hb (Nat.le_succ n), h.symm⟩
    · cases h
    · rename_i hne1 hne2
      cases hb : getFields g n b with
      | ok fs' => cases fs' with
        | nil => exact absurd hb hne1
        | cons x xs => exact absurd hb (hne2 _)
      | err m => rw [hb] at h; cases h
      | fuel => rw [hb] at h; cases h

theorem getFields_incl_inv {g : Grammar} {nf : Nat} {r : String} {own : List FieldDesc}
    (h : getFields g nf (.incl r) = .ok own) :
    ∃ rule, g.findRule r = some rule ∧ getFields g nf rule.definition = .ok own := by
  cases nf with
  | zero => simp [getFields] at h
  | succ n =>
    simp only [getFields] at h
    split at h
    · cases h
    · rename_i rule hr; exact ⟨rule, hr, getFields_mono h (Nat.le_succ n)⟩

theorem getFields_terminal_inv {g : Grammar} {nf : Nat} {e : Expr} {own : List FieldDesc}
    (he : (∃ lo hi, e = .range lo hi) ∨ (∃ i b, e = .lit i b) ∨ e = .eoi ∨ ∃ b t, e = .field none b t)
    (h : getFields g nf e = .ok own) : own = [] := by
  cases nf with
  | zero => simp [getFields] at h
  | succ n =>
    rcases he with ⟨lo, hi, rfl⟩ | ⟨i, b, rfl⟩ | rfl | ⟨b, t, rfl⟩ <;>
      (simp only [getFields, CR.ok.injEq] at h; exact h.symm)

theorem getFields_field_inv {g : Grammar} {nf : Nat} {nm : FieldName} {boxed : Bool} {typ : String}
    {own : List FieldDesc} (h : getFields g nf (.field (some nm) boxed typ) = .ok own) :
    own = [{ name := nm.key, types := [(typ, boxed)], arity := .one }] := by
  cases nf with
  | zero => simp [getFields] at h
  | succ n => simp only [getFields, CR.ok.injEq] at h; exact h.symm

/-! ### structural facts about the result of `getFields` -/

theorem FieldsOk.nil : FieldsOk [] := ⟨List.nodup_nil, fun _ h => by cases h⟩

theorem FieldsOk.map_arity {fs : List FieldDesc} (h : FieldsOk fs) (u : Arity → Arity) :
    FieldsOk (fs.map fun f => { f with arity := u f.arity }) := by
  refine ⟨?_, ?_⟩
  · rw [map_name_update fs (fun f => { f with arity := u f.arity }) (fun _ => rfl)]; exact h.nodup
  · intro f hf
    obtain ⟨o, ho, rfl⟩ := List.mem_map.mp hf
    exact h.types o ho

theorem mapMCR_forall {α β} {f : α → CR β} {P : β → Prop} (hP : ∀ a b, f a = .ok b → P b) :
    ∀ {l : List α} {bs : List β}, mapMCR f l = .ok bs → ∀ b ∈ bs, P b := by
  intro l
  induction l with
  | nil => intro bs h; simp only [mapMCR, CR.ok.injEq] at h; subst h; exact fun _ h => by cases h
  | cons a l ih =>
    intro bs h
    simp only [mapMCR] at h
    split at h
    · rename_i b hb
      split at h
      · rename_i bs' hbs
        simp only [CR.ok.injEq] at h
        subst h
        intro x hx
        rcases List.mem_cons.mp hx with rfl | hx
        · exact hP a x hb
        · exact ih hbs x hx
      · cases h
      · cases h
    · cases h
    · cases h

/-- field names of every construct are duplicate-free and every type set is non-empty -/
theorem getFields_fieldsOk {g : Grammar} : ∀ {n : Nat} {e : Expr} {fs : List FieldDesc},
    getFields g n e = .ok fs → FieldsOk fs := by
  intro n
  induction n with
  | zero => intro e fs h; simp [getFields] at h
  | succ n ih =>
    intro e fs h
    cases e with
    | choice alts =>
      simp only [getFields] at h
      split at h
      · rename_i fss hfss
        simp only [CR.ok.injEq] at h
        subst h
        exact choiceFields_fieldsOk (mapMCR_forall (fun a b hb => ih hb) hfss)
      · cases h
      · cases h
    | seq parts =>
      simp only [getFields] at h
      split at h
      · rename_i fss hfss
        simp only [CR.ok.injEq] at h
        subst h
        exact seqFields_fieldsOk (mapMCR_forall (fun a b hb => ih hb) hfss)
      · cases h
      · cases h
    | group b => simp only [getFields] at h; exact ih h
    | opt b =>
      simp only [getFields] at h
      split at h
      · rename_i fs' hb
        simp only [CR.ok.injEq] at h
        subst h
        exact (ih hb).map_arity toOptional
      · rename_i hne; exact absurd h (hne _)
    | closure b a =>
      simp only [getFields] at h
      split at h
      · rename_i fs' hb
        simp only [CR.ok.injEq] at h
        subst h
        exact (ih hb).map_arity (fun _ => .multiple)
      · rename_i hne; exact absurd h (hne _)
    | neg b => rw [(getFields_neg_inv h).2]; exact FieldsOk.nil
    | pos b => rw [(getFields_pos_inv h).2]; exact FieldsOk.nil
    | range lo hi => rw [getFields_terminal_inv (Or.inl ⟨_, _, rfl⟩) h]; exact FieldsOk.nil
    | lit i b => rw [getFields_terminal_inv (Or.inr (Or.inl ⟨_, _, rfl⟩)) h]; exact FieldsOk.nil
    | eoi => rw [getFields_terminal_inv (Or.inr (Or.inr (Or.inl rfl))) h]; exact FieldsOk.nil
    | incl r =>
      simp only [getFields] at h
      split at h
      · cases h
      · exact ih h
    | field name boxed typ =>
      cases name with
      | none => rw [getFields_terminal_inv (Or.inr (Or.inr (Or.inr ⟨_, _, rfl⟩))) h]; exact FieldsOk.nil
      | some nm =>
        rw [getFields_field_inv h]
        exact ⟨by simp, fun f hf => by rw [List.mem_singleton.mp hf]; simp⟩

/-- field names of every construct are duplicate-free -/
theorem getFields_nodup {g : Grammar} {n : Nat} {e : Expr} {fs : List FieldDesc}
    (h : getFields g n e = .ok fs) : (fs.map (·.name)).Nodup := (getFields_fieldsOk h).nodup

/-- every type list in the result of `getFields` is non-empty -/
theorem getFields_types_ne_nil {g : Grammar} {n : Nat} {e : Expr} {fs : List FieldDesc}
    (h : getFields g n e = .ok fs) : ∀ f ∈ fs, f.types ≠ [] := (getFields_fieldsOk h).types

/-! ### `SubFields` for the unary constructs -/

theorem subFields_map_arity (fs : List FieldDesc) (u : Arity → Arity) (hu : ∀ a, a ≤ u a) :
    SubFields fs (fs.map fun f => { f with arity := u f.arity }) := by
  intro f hf
  exact ⟨_, List.mem_map.mpr ⟨f, hf, rfl⟩, rfl, hu _, TSub.refl _⟩

/-- body of an optional w.r.t. the optional's fields -/
theorem subFields_opt (fs : List FieldDesc) :
    SubFields fs (fs.map fun f => { f with arity := toOptional f.arity }) :=
  subFields_map_arity fs toOptional le_toOptional

/-- body of a closure w.r.t. the closure's fields -/
theorem subFields_closure (fs : List FieldDesc) :
    SubFields fs (fs.map fun f => { f with arity := .multiple }) :=
  subFields_map_arity fs (fun _ => .multiple) Arity.le_multiple

theorem opt_fields_optional (fs : List FieldDesc) :
    ∀ o ∈ fs.map (fun f => { f with arity := toOptional f.arity }), Arity.optional ≤ o.arity := by
  intro o ho
  obtain ⟨f, _, rfl⟩ := List.mem_map.mp ho
  exact optional_le_toOptional _

/-- every closure field is `multiple` -/
theorem closure_fields_multiple (fs : List FieldDesc) :
    ∀ o ∈ fs.map (fun f => { f with arity := Arity.multiple }), o.arity = .multiple := by
  intro o ho
  obtain ⟨f, _, rfl⟩ := List.mem_map.mp ho
  rfl

theorem hasField_map_arity (fs : List FieldDesc) (u : Arity → Arity) (x : String) :
    hasField (fs.map fun f => { f with arity := u f.arity }) x = hasField fs x := by
  rw [Bool.eq_iff_iff, hasField_iff, hasField_iff,
    map_name_update fs (fun f => { f with arity := u f.arity }) (fun _ => rfl)]

/-! ### per-construct summary in terms of `getFields` -/

/-- sequence: every part's analysis succeeds and is covered by the sequence's fields; a field is in
    the sequence iff it is in a part; a field in two different parts is `multiple` -/
theorem getFields_seq {g : Grammar} {nf : Nat} {parts : List Expr} {own : List FieldDesc}
    (h : getFields g nf (.seq parts) = .ok own) :
    (∀ p ∈ parts, getFields g nf p = .ok (fieldsOf g nf p) ∧ SubFields (fieldsOf g nf p) own) ∧
    (∀ x, hasField own x = true ↔ ∃ p ∈ parts, hasField (fieldsOf g nf p) x = true) ∧
    (∀ pre p post x, parts = pre ++ p :: post → (∃ q ∈ pre, hasField (fieldsOf g nf q) x = true) →
      hasField (fieldsOf g nf p) x = true → AllMult x own) := by
  obtain ⟨h1, rfl⟩ := getFields_seq_inv h
  refine ⟨fun p hp => ⟨h1 p hp, subFields_seqFields (List.mem_map.mpr ⟨p, hp, rfl⟩)⟩, fun x => ?_, ?_⟩
  · rw [hasField_seqFields]
    constructor
    · rintro ⟨_, hm, hx⟩
      obtain ⟨a, ha, rfl⟩ := List.mem_map.mp hm
      exact ⟨a, ha, hx⟩
    · rintro ⟨a, ha, hx⟩; exact ⟨_, List.mem_map.mpr ⟨a, ha, rfl⟩, hx⟩
  · rintro pre p post x rfl ⟨q, hq, hqx⟩ hpx
    rw [List.map_append, List.map_cons]
    exact seqFields_two_parts ⟨_, List.mem_map.mpr ⟨q, hq, rfl⟩, hqx⟩ hpx

/-- choice: every arm's analysis succeeds and is covered by the choice's fields; a field is in the
    choice iff it is in an arm; a field absent from an arm is at least `optional` -/
theorem getFields_choice {g : Grammar} {nf : Nat} {alts : List Expr} {own : List FieldDesc}
    (h : getFields g nf (.choice alts) = .ok own) :
    (∀ a ∈ alts, getFields g nf a = .ok (fieldsOf g nf a) ∧ SubFields (fieldsOf g nf a) own) ∧
    (∀ x, hasField own x = true ↔ ∃ a ∈ alts, hasField (fieldsOf g nf a) x = true) ∧
    (∀ a ∈ alts, ∀ x, hasField (fieldsOf g nf a) x = false → AllOpt x own) := by
  obtain ⟨h1, rfl⟩ := getFields_choice_inv h
  refine ⟨fun p hp => ⟨h1 p hp, subFields_choiceFields (List.mem_map.mpr ⟨p, hp, rfl⟩)⟩, fun x => ?_, ?_⟩
  · rw [hasField_choiceFields]
    constructor
    · rintro ⟨_, hm, hx⟩
      obtain ⟨a, ha, rfl⟩ := List.mem_map.mp hm
      exact ⟨a, ha, hx⟩
    · rintro ⟨a, ha, hx⟩; exact ⟨_, List.mem_map.mpr ⟨a, ha, rfl⟩, hx⟩
  · intro a ha x hx
    exact choiceFields_absent _ true [] (fun _ => rfl) _ (List.mem_map.mpr ⟨a, ha, rfl⟩) hx

end Peg
