import PegVerif.Spec
import PegVerif.Proofs.SpecMono
import PegVerif.Proofs.Boundary
/-
  Property C08 (whitespace skipping).

  "In a rule without `@no_skip_ws`, whitespace is skipped immediately before every literal, character range,
   `$`, and rule or field reference written in that rule's body, and at no other point; a `@no_skip_ws` rule
   skips nothing itself; rules it references keep their own setting."

  1. `C08_only_tokens`   – the non-token constructs never call `Whitespace` themselves and never look at
                           `ctx.skipWs`: their result is a function of `rec.expr ctx` only.
  2. `C08_desugar_*`     – skipping = an explicit `Whitespace` call in front of every token
                           (expression level: `C08_desugar_expr`; grammar level: `C08_desugar_grammar`).
  3. `C08_builtin*`      – the builtin skipper: never fails, maximal prefix of SPACE, TAB, LF, FF, CR.
  4. `C08_custom*`, `C08_no_skip_ws*`, `C08_callee_flag` – which `Whitespace` is called; per-rule flag.

  Everything lives in `Peg.WS` (the vocabulary `desugarE`, `desugarG`, `GoodE`, `GoodG`, `UniqueNames`, … and the
  helper lemmas, to avoid clashes with other proof files); the `C08_*` theorems are exported to `Peg`.
  Hypotheses of the desugaring theorems and why each is needed: see `GoodE`, `UniqueNames` and section 6.
-/
namespace Peg
open Spec
namespace WS

/-! ## 0. vocabulary -/

/-- the constructs in front of which whitespace is skipped -/
def isToken : Expr → Bool
  | .lit _ _ => true
  | .range _ _ => true
  | .eoi => true
  | .field _ _ _ => true
  | _ => false

/-- an explicit, unnamed call of the rule `Whitespace` -/
def wsCall : Expr := .field none false "Whitespace"

mutual
/-- put an explicit `Whitespace` call in front of every token -/
def desugarE : Expr → Expr
  | .choice alts => .choice (desugarL alts)
  | .seq parts => .seq (desugarL parts)
  | .group b => .group (desugarE b)
  | .opt b => .opt (desugarE b)
  | .closure b p => .closure (desugarE b) p
  | .neg b => .neg (desugarE b)
  | .pos b => .pos (desugarE b)
  | .range lo hi => .seq [wsCall, .range lo hi]
  | .lit i b => .seq [wsCall, .lit i b]
  | .eoi => .seq [wsCall, .eoi]
  | .incl r => .incl r
  | .field nm bx t => .seq [wsCall, .field nm bx t]
def desugarL : List Expr → List Expr
  | [] => []
  | e :: es => desugarE e :: desugarL es
end

theorem desugarL_eq_map : ∀ l, desugarL l = l.map desugarE
  | [] => by simp [desugarL]
  | e :: es => by simp [desugarL, desugarL_eq_map es]

mutual
/-- no `>Rule` include anywhere in the expression -/
def noIncl : Expr → Bool
  | .choice alts => noInclL alts
  | .seq parts => noInclL parts
  | .group b => noIncl b
  | .opt b => noIncl b
  | .closure b _ => noIncl b
  | .neg b => noIncl b
  | .pos b => noIncl b
  | .incl _ => false
  | _ => true
def noInclL : List Expr → Bool
  | [] => true
  | e :: es => noIncl e && noInclL es
end

theorem noInclL_iff : ∀ {l}, noInclL l = true ↔ ∀ e ∈ l, noIncl e = true
  | [] => by simp [noInclL]
  | e :: es => by simp [noInclL, noInclL_iff (l := es)]

mutual
/-- nesting depth (number of AST levels) -/
def depthE : Expr → Nat
  | .choice alts => depthL alts + 1
  | .seq parts => depthL parts + 1
  | .group b => depthE b + 1
  | .opt b => depthE b + 1
  | .closure b _ => depthE b + 1
  | .neg b => depthE b + 1
  | .pos b => depthE b + 1
  | _ => 1
def depthL : List Expr → Nat
  | [] => 0
  | e :: es => max (depthE e) (depthL es)
end

theorem depthL_le : ∀ {l n}, depthL l ≤ n ↔ ∀ e ∈ l, depthE e ≤ n
  | [], n => by simp [depthL]
  | e :: es, n => by simp [depthL, Nat.max_le, depthL_le (l := es)]

/-- the literal / range can be compiled (the generator rejects the grammar otherwise: the model answers
    `panic "uncompilable: …"` *before* skipping whitespace) -/
def tokenCompiles : Expr → Bool
  | .range lo hi => (match lo.toChar, hi.toChar with | .ok _, .ok _ => true | _, _ => false)
  | .lit i b => (match compileLit i b with | .ok _ => true | _ => false)
  | _ => true

mutual
/-- every literal and range in the expression compiles -/
def compilable : Expr → Bool
  | .choice alts => compilableL alts
  | .seq parts => compilableL parts
  | .group b => compilable b
  | .opt b => compilable b
  | .closure b _ => compilable b
  | .neg b => compilable b
  | .pos b => compilable b
  | .range lo hi => tokenCompiles (.range lo hi)
  | .lit i b => tokenCompiles (.lit i b)
  | _ => true
def compilableL : List Expr → Bool
  | [] => true
  | e :: es => compilable e && compilableL es
end

theorem compilableL_iff : ∀ {l}, compilableL l = true ↔ ∀ e ∈ l, compilable e = true
  | [] => by simp [compilableL]
  | e :: es => by simp [compilableL, compilableL_iff (l := es)]

/-! ## 0'. the field analysis of a desugared expression -/

theorem mapMCR_congr {α β} {f f' : α → CR β} : ∀ {l : List α}, (∀ a ∈ l, f a = f' a) → mapMCR f l = mapMCR f' l
  | [], _ => rfl
  | a :: as, h => by
    have h1 := h a (by simp)
    have h2 := mapMCR_congr (f := f) (f' := f') (l := as) (fun x hx => h x (by simp [hx]))
    simp only [mapMCR, h1, h2]

theorem mapMCR_map {α β γ} (f : α → CR β) (h : γ → α) : ∀ l : List γ, mapMCR f (l.map h) = mapMCR (fun x => f (h x)) l
  | [] => rfl
  | a :: as => by simp only [List.map, mapMCR, mapMCR_map f h as]

/-- without includes the field analysis does not look at the grammar -/
theorem getFields_noIncl (g g' : Grammar) : ∀ n e, noIncl e = true → getFields g' n e = getFields g n e := by
  intro n
  induction n with
  | zero => intro e _; rfl
  | succ n ih =>
    intro e he
    cases e with
    | choice alts =>
      simp only [noIncl, noInclL_iff] at he
      simp only [getFields, mapMCR_congr (fun a ha => ih a (he a ha))]
    | seq parts =>
      simp only [noIncl, noInclL_iff] at he
      simp only [getFields, mapMCR_congr (fun a ha => ih a (he a ha))]
    | group b => simp only [noIncl] at he; simp only [getFields, ih b he]
    | opt b => simp only [noIncl] at he; simp only [getFields, ih b he]
    | closure b p => simp only [noIncl] at he; simp only [getFields, ih b he]
    | neg b => simp only [noIncl] at he; simp only [getFields, ih b he]
    | pos b => simp only [noIncl] at he; simp only [getFields, ih b he]
    | range lo hi => rfl
    | lit i b => rfl
    | eoi => rfl
    | incl r => simp [noIncl] at he
    | field nm bx t => cases nm <;> rfl

theorem getFields_token (g g' : Grammar) (k : Nat) (t : Expr) (ht : isToken t = true) :
    ∃ fs, getFields g' (k+1) t = .ok fs ∧ getFields g (k+2) t = .ok fs ∧ (fs = [] ∨ ∃ f, fs = [f]) := by
  cases t <;> simp [isToken] at ht
  · exact ⟨[], rfl, rfl, Or.inl rfl⟩
  · exact ⟨[], rfl, rfl, Or.inl rfl⟩
  · exact ⟨[], rfl, rfl, Or.inl rfl⟩
  · rename_i nm bx t
    cases nm with
    | none => exact ⟨[], rfl, rfl, Or.inl rfl⟩
    | some nm => exact ⟨_, rfl, rfl, Or.inr ⟨_, rfl⟩⟩

theorem getFields_wrap (g' : Grammar) (k : Nat) (t : Expr) (fs : List FieldDesc)
    (h : getFields g' (k+1) t = .ok fs) (hs : fs = [] ∨ ∃ f, fs = [f]) :
    getFields g' (k+2) (.seq [wsCall, t]) = .ok fs := by
  have hw : getFields g' (k+1) wsCall = .ok [] := rfl
  rw [getFields]
  simp only [mapMCR, hw, h]
  rcases hs with rfl | ⟨f, rfl⟩
  · simp [seqMerge]
  · simp [seqMerge, hasField]

/-- the unnamed `Whitespace` reference contributes no field: given enough fuel (`depthE e < n`), the desugared
    expression has the fields of the original -/
theorem getFields_desugar (g g' : Grammar) :
    ∀ n e, noIncl e = true → depthE e < n → getFields g' n (desugarE e) = getFields g n e := by
  intro n
  induction n with
  | zero => intro e _ h; omega
  | succ n ih =>
    intro e he hd
    have tok : ∀ t, isToken t = true → depthE t < n + 1 →
        getFields g' (n+1) (.seq [wsCall, t]) = getFields g (n+1) t := by
      intro t ht hd
      obtain ⟨k, rfl⟩ : ∃ k, n = k + 1 := ⟨n - 1, by cases t <;> simp [isToken] at ht <;> simp [depthE] at hd <;> omega⟩
      obtain ⟨fs, h1, h2, hs⟩ := getFields_token g g' k t ht
      rw [h2]
      exact getFields_wrap g' k t fs h1 hs
    cases e with
    | choice alts =>
      simp only [noIncl, noInclL_iff] at he
      simp only [depthE] at hd
      have hd' : ∀ a ∈ alts, depthE a < n := fun a ha => by
        have := (depthL_le (l := alts) (n := depthL alts)).1 (Nat.le_refl _) a ha; omega
      simp only [desugarE, desugarL_eq_map, getFields, mapMCR_map,
        mapMCR_congr (fun a ha => ih a (he a ha) (hd' a ha))]
    | seq parts =>
      simp only [noIncl, noInclL_iff] at he
      simp only [depthE] at hd
      have hd' : ∀ a ∈ parts, depthE a < n := fun a ha => by
        have := (depthL_le (l := parts) (n := depthL parts)).1 (Nat.le_refl _) a ha; omega
      simp only [desugarE, desugarL_eq_map, getFields, mapMCR_map,
        mapMCR_congr (fun a ha => ih a (he a ha) (hd' a ha))]
    | group b =>
      simp only [noIncl] at he; simp only [depthE] at hd
      simp only [desugarE, getFields, ih b he (by omega)]
    | opt b =>
      simp only [noIncl] at he; simp only [depthE] at hd
      simp only [desugarE, getFields, ih b he (by omega)]
    | closure b p =>
      simp only [noIncl] at he; simp only [depthE] at hd
      simp only [desugarE, getFields, ih b he (by omega)]
    | neg b =>
      simp only [noIncl] at he; simp only [depthE] at hd
      simp only [desugarE, getFields, ih b he (by omega)]
    | pos b =>
      simp only [noIncl] at he; simp only [depthE] at hd
      simp only [desugarE, getFields, ih b he (by omega)]
    | range lo hi => exact tok _ rfl hd
    | lit i b => exact tok _ rfl hd
    | eoi => exact tok _ rfl hd
    | incl r => simp [noIncl] at he
    | field nm bx t => exact tok _ rfl hd

/-! ## 1. only tokens skip -/

theorem evalSeq_congr {env : Env} {rec rec' : SRec} {ctx ctx' : Ctx} (hrf : ctx'.ruleFields = ctx.ruleFields)
    (hexpr : ∀ b s, rec'.expr ctx' b s = rec.expr ctx b s) :
    ∀ ps seen acc s, Spec.evalSeq env rec' ctx' ps seen acc s = Spec.evalSeq env rec ctx ps seen acc s := by
  intro ps
  induction ps with
  | nil => intro seen acc s; rfl
  | cons p ps ih =>
    intro seen acc s
    simp only [Spec.evalSeq, hexpr, hrf, ih]

theorem evalAlts_congr {env : Env} {rec rec' : SRec} {ctx ctx' : Ctx} {fields}
    (hexpr : ∀ b s, rec'.expr ctx' b s = rec.expr ctx b s) :
    ∀ as s, Spec.evalAlts env rec' ctx' fields as s = Spec.evalAlts env rec ctx fields as s := by
  intro as
  induction as with
  | nil => intro s; rfl
  | cons a as ih =>
    intro s
    simp only [Spec.evalAlts, hexpr, ih]

/-- **C08, "and at no other point".**  A construct that is not a literal, range, `$` or rule/field reference
    never calls `Whitespace` itself and never looks at `ctx.skipWs`: its result is a function of the
    sub-expression evaluator `rec.expr ctx` (and of `ctx.ruleFields`) only.  In particular it is unchanged when
    `rec.rule` (hence the rule `Whitespace`) is replaced by anything else, and when `ctx.skipWs` is flipped
    while the sub-expression evaluator is kept. -/
theorem C08_only_tokens {env : Env} {rec rec' : SRec} {n : Nat} {ctx ctx' : Ctx} {e : Expr}
    (he : isToken e = false) (hrf : ctx'.ruleFields = ctx.ruleFields)
    (hexpr : ∀ b s, rec'.expr ctx' b s = rec.expr ctx b s) (s : St) :
    Spec.stepExpr env rec' n ctx' e s = Spec.stepExpr env rec n ctx e s := by
  have hfun : rec'.expr ctx' = rec.expr ctx := by funext b s; exact hexpr b s
  cases e with
  | choice alts =>
    match alts with
    | [] => rfl
    | [a] => simp only [Spec.stepExpr, hexpr]
    | a :: b :: rest => simp only [Spec.stepExpr, hrf, evalAlts_congr hexpr]
  | seq parts =>
    match parts with
    | [] => rfl
    | [a] => simp only [Spec.stepExpr, hexpr]
    | a :: b :: rest => simp only [Spec.stepExpr, hrf, evalSeq_congr hrf hexpr]
  | group b => simp only [Spec.stepExpr, hexpr]
  | opt b => simp only [Spec.stepExpr, hexpr, hrf]
  | closure b p => simp only [Spec.stepExpr, hfun, hrf]
  | neg b => simp only [Spec.stepExpr, hexpr]
  | pos b => simp only [Spec.stepExpr, hexpr]
  | incl r => simp only [Spec.stepExpr, hexpr]
  | range lo hi => simp [isToken] at he
  | lit i b => simp [isToken] at he
  | eoi => simp [isToken] at he
  | field nm bx t => simp [isToken] at he

/-- special case: same context, any other `rec.rule` -/
theorem C08_only_tokens_rule {env : Env} {rec rec' : SRec} {n : Nat} {ctx : Ctx} {e : Expr}
    (he : isToken e = false) (hexpr : rec'.expr = rec.expr) (s : St) :
    Spec.stepExpr env rec' n ctx e s = Spec.stepExpr env rec n ctx e s :=
  C08_only_tokens he rfl (fun b s => by rw [hexpr]) s

/-- special case: `ctx.skipWs` is not consulted -/
theorem C08_only_tokens_flag {env : Env} {rec : SRec} {n : Nat} {ctx : Ctx} {e : Expr} (b b' : Bool)
    (he : isToken e = false) (s : St) :
    Spec.stepExpr env { rec with expr := fun c => rec.expr { c with skipWs := b } } n { ctx with skipWs := b' } e s
      = Spec.stepExpr env rec n { ctx with skipWs := b } e s :=
  C08_only_tokens (rec := rec) (ctx := { ctx with skipWs := b }) (ctx' := { ctx with skipWs := b' })
    he rfl (fun _ _ => rfl) s

/-! ## 2a. the rule-level field list has pairwise distinct names -/

/-- pairwise distinct field names (what `get_fields` produces; needed because the generated sequence code binds
    every filtered rule field once) -/
def UniqueNames (fs : List FieldDesc) : Prop := (fs.map (·.name)).Nodup

theorem names_map_preserving {f : FieldDesc → FieldDesc} (hf : ∀ o, (f o).name = o.name) (fs : List FieldDesc) :
    (fs.map f).map (·.name) = fs.map (·.name) := by
  induction fs with
  | nil => rfl
  | cons a as ih => simp only [List.map, hf, ih]

theorem hasField_false_iff {fs : List FieldDesc} {n : String} :
    hasField fs n = false ↔ n ∉ fs.map (·.name) := by
  unfold hasField
  induction fs with
  | nil => simp
  | cons a as ih =>
    simp only [List.any_cons, Bool.or_eq_false_iff, ih, List.map, List.mem_cons, not_or]
    constructor
    · rintro ⟨h1, h2⟩; exact ⟨fun h => by simp [h] at h1, h2⟩
    · rintro ⟨h1, h2⟩; exact ⟨by simpa using fun h => h1 h.symm, h2⟩

theorem uniqueNames_append_single {fs : List FieldDesc} {f : FieldDesc} (h : UniqueNames fs)
    (hf : hasField fs f.name = false) : UniqueNames (fs ++ [f]) := by
  unfold UniqueNames at *
  rw [List.map_append, List.nodup_append]
  refine ⟨h, by simp, ?_⟩
  intro a ha b hb
  simp only [List.map, List.mem_singleton] at hb
  subst hb
  intro hab; subst hab
  exact (hasField_false_iff.1 hf) ha

theorem uniqueNames_seqMerge (all new : List FieldDesc) (h : UniqueNames all) : UniqueNames (seqMerge all new) := by
  unfold seqMerge
  induction new generalizing all with
  | nil => exact h
  | cons nf rest ih =>
    simp only [List.foldl]
    apply ih
    split
    · unfold UniqueNames
      rw [names_map_preserving]
      · exact h
      · intro o; split <;> rfl
    · rename_i hc
      exact uniqueNames_append_single h (by simpa using hc)

theorem uniqueNames_choiceMerge (first : Bool) (all new : List FieldDesc) (h : UniqueNames all) :
    UniqueNames (choiceMerge first all new) := by
  unfold choiceMerge
  have h0 : UniqueNames (if first then all else
      all.map fun f => if f.arity == .one && !hasField new f.name then { f with arity := .optional } else f) := by
    split
    · exact h
    · unfold UniqueNames
      rw [names_map_preserving]
      · exact h
      · intro o; split <;> rfl
  simp only
  generalize (if first then all else
      all.map fun f => if f.arity == .one && !hasField new f.name then { f with arity := .optional } else f) = all' at h0
  clear h
  induction new generalizing all' with
  | nil => exact h0
  | cons nf rest ih =>
    simp only [List.foldl]
    apply ih
    split
    · unfold UniqueNames
      rw [names_map_preserving]
      · exact h0
      · intro o; split <;> rfl
    · rename_i hc
      split
      · exact uniqueNames_append_single h0 (by simpa using hc)
      · exact uniqueNames_append_single (f := { nf with arity := .optional }) h0 (by simpa using hc)

theorem uniqueNames_choiceFields : ∀ (fss : List (List FieldDesc)) (first : Bool) (all : List FieldDesc),
    UniqueNames all → UniqueNames (choiceFields first all fss)
  | [], _, _, h => h
  | new :: rest, first, all, h => by
    simp only [choiceFields]
    exact uniqueNames_choiceFields rest false _ (uniqueNames_choiceMerge first all new h)

theorem uniqueNames_foldl_seqMerge : ∀ (fss : List (List FieldDesc)) (all : List FieldDesc),
    UniqueNames all → UniqueNames (fss.foldl seqMerge all)
  | [], _, h => h
  | new :: rest, all, h => by
    simp only [List.foldl]
    exact uniqueNames_foldl_seqMerge rest _ (uniqueNames_seqMerge all new h)

/-- `get_fields` never produces two descriptors with the same name -/
theorem uniqueNames_getFields (g : Grammar) : ∀ n e fs, getFields g n e = .ok fs → UniqueNames fs := by
  intro n
  induction n with
  | zero => intro e fs h; simp [getFields] at h
  | succ n ih =>
    intro e fs h
    cases e with
    | choice alts =>
      simp only [getFields] at h
      split at h <;> cases h
      exact uniqueNames_choiceFields _ _ _ (by simp [UniqueNames])
    | seq parts =>
      simp only [getFields] at h
      split at h <;> cases h
      exact uniqueNames_foldl_seqMerge _ _ (by simp [UniqueNames])
    | group b => simp only [getFields] at h; exact ih _ _ h
    | opt b =>
      simp only [getFields] at h
      split at h
      · rename_i fs0 h0; cases h
        unfold UniqueNames; rw [names_map_preserving]; exact ih _ _ h0; intro o; rfl
      · rename_i hne; exact absurd h (by intro h'; exact hne _ h')
    | closure b p =>
      simp only [getFields] at h
      split at h
      · rename_i fs0 h0; cases h
        unfold UniqueNames; rw [names_map_preserving]; exact ih _ _ h0; intro o; rfl
      · rename_i hne; exact absurd h (by intro h'; exact hne _ h')
    | neg b =>
      simp only [getFields] at h
      split at h
      · cases h; simp [UniqueNames]
      · cases h
      · rename_i hne _; exact ih _ _ h
    | pos b =>
      simp only [getFields] at h
      split at h
      · cases h; simp [UniqueNames]
      · cases h
      · rename_i hne _; exact ih _ _ h
    | range lo hi => simp only [getFields] at h; cases h; simp [UniqueNames]
    | lit i b => simp only [getFields] at h; cases h; simp [UniqueNames]
    | eoi => simp only [getFields] at h; cases h; simp [UniqueNames]
    | incl r =>
      simp only [getFields] at h
      split at h
      · cases h
      · exact ih _ _ h
    | field nm bx t =>
      cases nm with
      | none => simp only [getFields] at h; cases h; simp [UniqueNames]
      | some nm => simp only [getFields] at h; cases h; simp [UniqueNames]

/-! ## 2b. one token: `Whitespace` in front = the skipping token -/

theorem filterRuleFields_nil (rf : List FieldDesc) : filterRuleFields rf [] = [] := by
  simp [filterRuleFields, hasField]

theorem filterRuleFields_single {rf : List FieldDesc} (hu : UniqueNames rf) {k : String} {f : FieldDesc}
    (hf : findField rf k = some f) (d : FieldDesc) (hd : d.name = k) :
    filterRuleFields rf [d] = [f] ∧ f.name = k := by
  unfold filterRuleFields findField at *
  induction rf with
  | nil => simp at hf
  | cons a as ih =>
    simp only [List.find?_cons] at hf
    unfold UniqueNames at hu
    simp only [List.map, List.nodup_cons] at hu
    split at hf
    · rename_i hak
      have hak' : a.name = k := by simpa using hak
      have haf : a = f := by simpa using hf
      subst haf
      refine ⟨?_, hak'⟩
      rw [List.filter_cons]
      have : hasField [d] a.name = true := by simp [hasField, hd, hak']
      rw [if_pos this]
      congr 1
      rw [List.filter_eq_nil_iff]
      intro x hx
      simp only [hasField, List.any_cons, List.any_nil, Bool.or_false, beq_iff_eq, hd]
      intro hxk
      exact hu.1 (by rw [hak', hxk]; exact List.mem_map_of_mem hx)
    · rename_i hak
      have hak' : ¬ a.name = k := by simpa using hak
      rw [List.filter_cons]
      have : ¬ hasField [d] a.name = true := by
        simp only [hasField, List.any_cons, List.any_nil, Bool.or_false, beq_iff_eq, hd]
        exact fun h => hak' h.symm
      rw [if_neg this]
      exact ih hu.2 hf

theorem abs_map_nil_ok {α} {x : Res α} {r : Parsed} {s : St}
    (h : abs (x.map (fun _ => ([] : Parsed))) = .ok r s) : r = [] := by
  cases x <;> simp [Res.map, abs] at h
  exact h.1

theorem bindS_ok {α β} {x : SOut α} {k : α → St → SOut β} {r s}
    (h : bindS x k = some (.ok r s)) : ∃ v s1, x = some (.ok v s1) ∧ k v s1 = some (.ok r s) := by
  cases x with
  | none => simp [bindS] at h
  | some a =>
    cases a with
    | ok v s1 => exact ⟨v, s1, rfl, h⟩
    | err e => simp [bindS] at h
    | panic m => simp [bindS] at h

/-- the value of a (non-skipping) token: nothing, or the single named field -/
theorem token_value {env : Env} {rec : SRec} {n : Nat} {rf : List FieldDesc} {t : Expr} {s s' : St} {r : Parsed}
    (ht : isToken t = true)
    (h : Spec.stepExpr env rec n ⟨false, rf⟩ t s = some (.ok r s')) :
    (getFields env.g 1 t = .ok [] ∧ r = []) ∨
    (∃ d f fv, getFields env.g 1 t = .ok [d] ∧ findField rf d.name = some f ∧ r = [(d.name, fv)]) := by
  cases t with
  | range lo hi =>
    left; refine ⟨rfl, ?_⟩
    simp only [Spec.stepExpr, Spec.withSkipWs] at h
    split at h
    · simp only [Bool.false_eq_true, if_false, Option.some.injEq] at h
      exact abs_map_nil_ok h
    · simp at h
  | lit i b =>
    left; refine ⟨rfl, ?_⟩
    simp only [Spec.stepExpr, Spec.withSkipWs] at h
    split at h
    · simp only [Bool.false_eq_true, if_false] at h
      split at h <;> simp only [Option.some.injEq] at h <;> exact abs_map_nil_ok h
    · simp at h
  | eoi =>
    left; refine ⟨rfl, ?_⟩
    simp only [Spec.stepExpr, Spec.withSkipWs, Bool.false_eq_true, if_false, Option.some.injEq] at h
    exact abs_map_nil_ok h
  | field nm bx typ =>
    simp only [Spec.stepExpr, Spec.withSkipWs, Bool.false_eq_true, if_false] at h
    obtain ⟨v, s1, _, hk⟩ := bindS_ok h
    cases nm with
    | none =>
      left; refine ⟨rfl, ?_⟩
      simp only [Option.some.injEq, Res.ok.injEq] at hk
      exact hk.1.symm
    | some nm =>
      right
      simp only at hk
      split at hk
      · rename_i fv hpp
        simp only [Option.some.injEq, Res.ok.injEq] at hk
        refine ⟨_, ?_, fv, rfl, ?_, hk.1.symm⟩
        · exact (findField rf nm.key).getD default
        · unfold postprocessField at hpp
          split at hpp
          · cases hpp
          · rename_i f hf; simp [hf]
      · simp at hk
  | _ => simp [isToken] at ht

theorem desugarE_token {t : Expr} (ht : isToken t = true) : desugarE t = .seq [wsCall, t] := by
  cases t <;> simp [isToken] at ht <;> simp [desugarE]

theorem token_noIncl {t : Expr} (ht : isToken t = true) : noIncl t = true := by
  cases t <;> simp [isToken] at ht <;> simp [noIncl]

theorem token_depth {t : Expr} (ht : isToken t = true) : depthE t = 1 := by
  cases t <;> simp [isToken] at ht <;> simp [depthE]

theorem token_getFields_fuel (g : Grammar) {t : Expr} (ht : isToken t = true) (k : Nat) :
    getFields g (k+1) t = getFields g 1 t := by
  cases t <;> simp [isToken] at ht <;> try rfl
  rename_i nm _ _; cases nm <;> rfl

theorem ownFields_token {env : Env} {t : Expr} (ht : isToken t = true) (hnf : 1 ≤ env.nf) {fs}
    (h : getFields env.g 1 t = .ok fs) : ownFields env t = fs := by
  obtain ⟨k, hk⟩ : ∃ k, env.nf = k + 1 := ⟨env.nf - 1, by omega⟩
  unfold ownFields
  rw [hk, token_getFields_fuel _ ht, h]

theorem ownFields_wrap {env : Env} {t : Expr} (ht : isToken t = true) (hnf : 2 ≤ env.nf) :
    ownFields env (.seq [wsCall, t]) = ownFields env t := by
  unfold ownFields
  rw [← desugarE_token ht, getFields_desugar env.g env.g env.nf t (token_noIncl ht) (by rw [token_depth ht]; omega)]

theorem token_plumb {env : Env} {rf : List FieldDesc} {t : Expr} {r : Parsed}
    (ht : isToken t = true) (hu : UniqueNames rf) (hnf : 2 ≤ env.nf)
    (hv : (getFields env.g 1 t = .ok [] ∧ r = []) ∨
      (∃ d f fv, getFields env.g 1 t = .ok [d] ∧ findField rf d.name = some f ∧ r = [(d.name, fv)])) :
    ∃ seen acc, mergePart (filterRuleFields rf (ownFields env t)) [] [] r = .ok (seen, acc) ∧
      project (filterRuleFields rf (ownFields env (.seq [wsCall, t]))) acc = .ok r := by
  rw [ownFields_wrap ht hnf]
  rcases hv with ⟨hg, rfl⟩ | ⟨d, f, fv, hg, hf, rfl⟩
  · rw [ownFields_token ht (by omega) hg, filterRuleFields_nil]
    exact ⟨[], [], rfl, rfl⟩
  · rw [ownFields_token ht (by omega) hg]
    obtain ⟨h1, h2⟩ := filterRuleFields_single hu hf d rfl
    rw [h1]
    refine ⟨[f.name], [(f.name, fv)], ?_, ?_⟩
    · simp [mergePart, Parsed.get, Parsed.set, h2]
    · simp [project, Parsed.get, h2]

theorem abs_map_err {α β} {x : Res α} {f : α → β} {e : PErr} (h : abs (x.map f) = .err e) : e = noErr := by
  cases x <;> simp [Res.map, abs] at h
  exact h.symm

theorem bindS_err {α β} {x : SOut α} {k : α → St → SOut β} {e}
    (h : bindS x k = some (.err e)) (hk : ∀ v s, k v s = some (.err e) → e = noErr) : e = noErr := by
  cases x with
  | none => simp [bindS] at h
  | some a =>
    cases a with
    | ok v s1 => exact hk _ _ h
    | err e' => simp [bindS] at h; exact h.symm
    | panic m => simp [bindS] at h

/-- a failing token fails without payload -/
theorem token_err {env : Env} {rec : SRec} {n : Nat} {rf : List FieldDesc} {t : Expr} {s : St} {e : PErr}
    (ht : isToken t = true)
    (h : Spec.stepExpr env rec n ⟨false, rf⟩ t s = some (.err e)) : e = noErr := by
  cases t with
  | range lo hi =>
    simp only [Spec.stepExpr, Spec.withSkipWs] at h
    split at h
    · simp only [Bool.false_eq_true, if_false, Option.some.injEq] at h
      exact abs_map_err h
    · simp at h
  | lit i b =>
    simp only [Spec.stepExpr, Spec.withSkipWs] at h
    split at h
    · simp only [Bool.false_eq_true, if_false] at h
      split at h <;> simp only [Option.some.injEq] at h <;> exact abs_map_err h
    · simp at h
  | eoi =>
    simp only [Spec.stepExpr, Spec.withSkipWs, Bool.false_eq_true, if_false, Option.some.injEq] at h
    exact abs_map_err h
  | field nm bx typ =>
    simp only [Spec.stepExpr, Spec.withSkipWs, Bool.false_eq_true, if_false] at h
    refine bindS_err h ?_
    intro v s1 hk
    cases nm with
    | none => simp at hk
    | some nm =>
      simp only at hk
      split at hk <;> simp at hk
  | _ => simp [isToken] at ht

/-- a skipping token = `Whitespace`, then the same token without skipping -/
theorem token_skip {env : Env} {rec : SRec} {n : Nat} {rf : List FieldDesc} {t : Expr} {s : St}
    (ht : isToken t = true) (hc : tokenCompiles t = true) :
    Spec.stepExpr env rec n ⟨true, rf⟩ t s =
      bindS (rec.rule "Whitespace" s) (fun _ s' => Spec.stepExpr env rec n ⟨false, rf⟩ t s') := by
  cases t with
  | range lo hi =>
    simp only [tokenCompiles] at hc
    split at hc
    · rename_i h1 h2
      simp only [Spec.stepExpr, Spec.withSkipWs, h1, h2, if_true, Bool.false_eq_true, if_false]
    · cases hc
  | lit i b =>
    simp only [tokenCompiles] at hc
    split at hc
    · rename_i h1
      simp only [Spec.stepExpr, Spec.withSkipWs, h1, if_true, Bool.false_eq_true, if_false]
    · cases hc
  | eoi => simp only [Spec.stepExpr, Spec.withSkipWs, if_true, Bool.false_eq_true, if_false]
  | field nm bx typ => simp only [Spec.stepExpr, Spec.withSkipWs, if_true, Bool.false_eq_true, if_false]
  | _ => simp [isToken] at ht

/-- **the token case of the desugaring**: one level above `rec`, the two-part sequence `Whitespace t` evaluated
    without skipping is the token `t` evaluated with skipping -/
theorem token_wrap {env : Env} {rec R : SRec} {n m : Nat} {rf : List FieldDesc} {t : Expr} {s : St}
    (hR : ∀ ctx e s, R.expr ctx e s = Spec.stepExpr env rec n ctx e s)
    (ht : isToken t = true) (hc : tokenCompiles t = true) (hu : UniqueNames rf) (hnf : 2 ≤ env.nf) :
    Spec.stepExpr env R m ⟨false, rf⟩ (.seq [wsCall, t]) s = Spec.stepExpr env rec n ⟨true, rf⟩ t s := by
  have hws : R.expr ⟨false, rf⟩ wsCall s = bindS (rec.rule "Whitespace" s) (fun _ s' => some (.ok [] s')) := by
    rw [hR]; simp only [wsCall, Spec.stepExpr, Spec.withSkipWs, Bool.false_eq_true, if_false]
  have hown : ownFields env wsCall = [] := by
    unfold ownFields
    obtain ⟨k, hk⟩ : ∃ k, env.nf = k + 1 := ⟨env.nf - 1, by omega⟩
    rw [hk]; rfl
  obtain ⟨K, hK⟩ : ∃ K : St → SOut Parsed, K = fun s' => Spec.stepExpr env rec n ⟨false, rf⟩ t s' := ⟨_, rfl⟩
  have hRt : ∀ s', R.expr ⟨false, rf⟩ t s' = K s' := fun s' => by rw [hR, hK]
  have hKv : ∀ s1 r s2, K s1 = some (.ok r s2) →
      ∃ seen acc, mergePart (filterRuleFields rf (ownFields env t)) [] [] r = .ok (seen, acc) ∧
        project (filterRuleFields rf (ownFields env (.seq [wsCall, t]))) acc = .ok r := by
    intro s1 r s2 h
    rw [hK] at h
    exact token_plumb (env := env) ht hu hnf (token_value ht h)
  have hKe : ∀ s1 e, K s1 = some (.err e) → e = noErr := by
    intro s1 e h
    rw [hK] at h
    exact token_err ht h
  have hrhs : Spec.stepExpr env rec n ⟨true, rf⟩ t s = bindS (rec.rule "Whitespace" s) (fun _ s' => K s') := by
    rw [token_skip ht hc, hK]
  rw [hrhs]
  clear hK hR hrhs
  simp only [Spec.stepExpr, Spec.evalSeq, hws, hown, filterRuleFields_nil, hRt]
  cases hw : rec.rule "Whitespace" s with
  | none => rfl
  | some a =>
    cases a with
    | err e => rfl
    | panic msg => rfl
    | ok v s1 =>
      simp only [bindS, mergePart]
      cases hk : K s1 with
      | none => rfl
      | some a =>
        cases a with
        | err e => rw [hKe _ _ hk]
        | panic msg => rfl
        | ok r s2 =>
          obtain ⟨seen, acc, h1, h2⟩ := hKv _ _ _ hk
          simp only [h1, h2]

/-- a token only talks to `rec.rule` -/
theorem token_indep {envA envB : Env} {recA recB : SRec} {nA nB : Nat} {ctx : Ctx} {t : Expr} {s : St}
    (ht : isToken t = true) (hr : recA.rule = recB.rule) :
    Spec.stepExpr envA recA nA ctx t s = Spec.stepExpr envB recB nB ctx t s := by
  cases t <;> simp [isToken] at ht <;> simp only [Spec.stepExpr, Spec.withSkipWs, hr]

theorem token_transfer {envA envB : Env} {recA recB : SRec} {nA nB : Nat} {ctx : Ctx} {t : Expr} {s : St} {r}
    (ht : isToken t = true) (hR : LeR recA.rule recB.rule)
    (h : Spec.stepExpr envA recA nA ctx t s = some r) : Spec.stepExpr envB recB nB ctx t s = some r := by
  rw [token_indep (recA := recA) (envB := envB) (recB := ⟨fun _ _ _ => none, recA.rule⟩) (nB := nB) ht rfl] at h
  rw [token_indep (recA := recB) (envB := envB) (recB := ⟨fun _ _ _ => none, recB.rule⟩) (nB := nB) ht rfl]
  exact Spec.stepExpr_le (rec := ⟨fun _ _ _ => none, recA.rule⟩) (rec' := ⟨fun _ _ _ => none, recB.rule⟩)
    ⟨fun _ _ _ _ h => (by cases h), hR⟩ (Nat.le_refl _) _ _ _ _ h

/-! ## 2c. the other constructs: congruence -/

/-- direct sub-expressions -/
def children : Expr → List Expr
  | .choice l => l
  | .seq l => l
  | .group b => [b]
  | .opt b => [b]
  | .closure b _ => [b]
  | .neg b => [b]
  | .pos b => [b]
  | _ => []

/-- a transformation that maps the non-token constructs homomorphically -/
structure Hom (f : Expr → Expr) : Prop where
  choice : ∀ l, f (.choice l) = .choice (l.map f)
  seq : ∀ l, f (.seq l) = .seq (l.map f)
  group : ∀ b, f (.group b) = .group (f b)
  opt : ∀ b, f (.opt b) = .opt (f b)
  closure : ∀ b p, f (.closure b p) = .closure (f b) p
  neg : ∀ b, f (.neg b) = .neg (f b)
  pos : ∀ b, f (.pos b) = .pos (f b)

theorem hom_id : Hom (fun e => e) := by constructor <;> simp

theorem hom_desugarE : Hom desugarE := by constructor <;> simp [desugarE, desugarL_eq_map]

/-- desugar or not -/
def ds (b : Bool) (e : Expr) : Expr := if b then desugarE e else e

theorem hom_ds (b : Bool) : Hom (ds b) := by
  cases b
  · exact hom_id
  · exact hom_desugarE

section Sim
variable {envA envB : Env} {recA recB : SRec} {ctxA ctxB : Ctx}

theorem sim_evalSeq (hrf : ctxA.ruleFields = ctxB.ruleFields) (fa fb : Expr → Expr) :
    ∀ (l : List Expr),
      (∀ x ∈ l, ownFields envA (fa x) = ownFields envB (fb x) ∧
        ∀ s r, recA.expr ctxA (fa x) s = some r → recB.expr ctxB (fb x) s = some r) →
      ∀ seen acc s r, Spec.evalSeq envA recA ctxA (l.map fa) seen acc s = some r →
        Spec.evalSeq envB recB ctxB (l.map fb) seen acc s = some r := by
  intro l
  induction l with
  | nil => intro _ seen acc s r h; simpa [Spec.evalSeq] using h
  | cons p ps ih =>
    intro hl seen acc s r h
    have hp := hl p (by simp)
    simp only [List.map, Spec.evalSeq] at h ⊢
    refine Spec.bindS_le (fun a ha => hp.2 _ _ ha) ?_ h
    intro v s' r' h'
    rw [← hp.1, ← hrf]
    split at h'
    · exact h'
    · exact ih (fun x hx => hl x (by simp [hx])) _ _ _ _ h'

theorem sim_evalAlts (fields : List FieldDesc) (fa fb : Expr → Expr) :
    ∀ (l : List Expr),
      (∀ x ∈ l, ownFields envA (fa x) = ownFields envB (fb x) ∧
        ∀ s r, recA.expr ctxA (fa x) s = some r → recB.expr ctxB (fb x) s = some r) →
      ∀ s r, Spec.evalAlts envA recA ctxA fields (l.map fa) s = some r →
        Spec.evalAlts envB recB ctxB fields (l.map fb) s = some r := by
  intro l
  induction l with
  | nil => intro _ s r h; simpa [Spec.evalAlts] using h
  | cons a as ih =>
    intro hl s r h
    have ha := hl a (by simp)
    have ih' := ih (fun x hx => hl x (by simp [hx]))
    simp only [List.map, Spec.evalAlts] at h ⊢
    split at h
    · cases h
    · rename_i r0 s0 hx; rw [ha.2 _ _ hx, ← ha.1]; exact h
    · rename_i e0 hx; rw [ha.2 _ _ hx]; exact ih' _ _ h
    · rename_i m0 hx; rw [ha.2 _ _ hx]; exact h

/-- congruence of the non-token, non-include constructs -/
theorem sim_nontoken {nA nB : Nat} (hrf : ctxA.ruleFields = ctxB.ruleFields) (hn : nA ≤ nB)
    {fa fb : Expr → Expr} (ha : Hom fa) (hb : Hom fb) {e : Expr}
    (het : isToken e = false) (hni : noIncl e = true)
    (hsub : ∀ x ∈ children e, ownFields envA (fa x) = ownFields envB (fb x) ∧
      ∀ s r, recA.expr ctxA (fa x) s = some r → recB.expr ctxB (fb x) s = some r)
    (hown : ownFields envA (fa e) = ownFields envB (fb e)) {s : St} {r}
    (h : Spec.stepExpr envA recA nA ctxA (fa e) s = some r) :
    Spec.stepExpr envB recB nB ctxB (fb e) s = some r := by
  cases e with
  | choice alts =>
    rw [ha.choice] at h hown; rw [hb.choice] at hown ⊢
    simp only [children] at hsub
    match alts with
    | [] => simpa [Spec.stepExpr] using h
    | [a] =>
      simp only [List.map, Spec.stepExpr] at h ⊢
      exact (hsub a (by simp)).2 _ _ h
    | a :: b :: rest =>
      simp only [List.map, Spec.stepExpr] at h ⊢
      simp only [List.map] at hown
      rw [← hown, ← hrf]
      exact sim_evalAlts _ fa fb (a :: b :: rest) hsub _ _ h
  | seq parts =>
    rw [ha.seq] at h hown; rw [hb.seq] at hown ⊢
    simp only [children] at hsub
    match parts with
    | [] => simpa [Spec.stepExpr] using h
    | [a] =>
      simp only [List.map, Spec.stepExpr] at h ⊢
      exact (hsub a (by simp)).2 _ _ h
    | a :: b :: rest =>
      simp only [List.map, Spec.stepExpr] at h ⊢
      simp only [List.map] at hown
      rw [← hown, ← hrf]
      exact Spec.bindS_le (fun x hx => sim_evalSeq hrf fa fb (a :: b :: rest) hsub _ _ _ _ hx)
        (fun _ _ _ h => h) h
  | group b =>
    rw [ha.group] at h; rw [hb.group]
    simp only [Spec.stepExpr] at h ⊢
    exact (hsub b (by simp [children])).2 _ _ h
  | opt b =>
    rw [ha.opt] at h; rw [hb.opt]
    have hb' := hsub b (by simp [children])
    simp only [Spec.stepExpr] at h ⊢
    rw [← hb'.1, ← hrf]
    split at h
    · cases h
    · rename_i hx; rw [hb'.2 _ _ hx]; exact h
    · rename_i hx; rw [hb'.2 _ _ hx]; exact h
    · rename_i hx; rw [hb'.2 _ _ hx]; exact h
  | closure b p =>
    rw [ha.closure] at h; rw [hb.closure]
    have hb' := hsub b (by simp [children])
    simp only [Spec.stepExpr] at h ⊢
    rw [← hb'.1, ← hrf]
    split at h
    · exact h
    · rename_i init hinit
      exact Spec.bindS_le (fun x hx => Spec.evalLoop_le (fun s r => hb'.2 s r) _ _ _ _ _ _ hn hx)
        (fun _ _ _ h => h) h
  | neg b =>
    rw [ha.neg] at h; rw [hb.neg]
    have hb' := hsub b (by simp [children])
    simp only [Spec.stepExpr] at h ⊢
    split at h
    · cases h
    · rename_i hx; rw [hb'.2 _ _ hx]; exact h
    · rename_i hx; rw [hb'.2 _ _ hx]; exact h
    · rename_i hx; rw [hb'.2 _ _ hx]; exact h
  | pos b =>
    rw [ha.pos] at h; rw [hb.pos]
    have hb' := hsub b (by simp [children])
    simp only [Spec.stepExpr] at h ⊢
    exact Spec.bindS_le (fun x hx => hb'.2 _ _ hx) (fun _ _ _ h => h) h
  | incl r => simp [noIncl] at hni
  | range lo hi => simp [isToken] at het
  | lit i b => simp [isToken] at het
  | eoi => simp [isToken] at het
  | field nm bx t => simp [isToken] at het

end Sim

/-! ## 2d. one step of the simulation, both directions -/

/-- the side conditions on an expression: include-free, its literals and ranges compile, and the `get_fields`
    fuel `nf` exceeds its depth (by one more than the model itself needs, because the desugared expression is
    one level deeper at the tokens) -/
def GoodE (nf : Nat) (e : Expr) : Prop := noIncl e = true ∧ compilable e = true ∧ depthE e < nf

theorem good_children {nf : Nat} {e x : Expr} (h : GoodE nf e) (hx : x ∈ children e) : GoodE nf x := by
  obtain ⟨h1, h2, h3⟩ := h
  cases e with
  | choice l =>
    simp only [children] at hx
    simp only [noIncl, noInclL_iff] at h1
    simp only [compilable, compilableL_iff] at h2
    simp only [depthE] at h3
    have := (depthL_le (l := l) (n := depthL l)).1 (Nat.le_refl _) x hx
    exact ⟨h1 x hx, h2 x hx, by omega⟩
  | seq l =>
    simp only [children] at hx
    simp only [noIncl, noInclL_iff] at h1
    simp only [compilable, compilableL_iff] at h2
    simp only [depthE] at h3
    have := (depthL_le (l := l) (n := depthL l)).1 (Nat.le_refl _) x hx
    exact ⟨h1 x hx, h2 x hx, by omega⟩
  | group b =>
    simp only [children, List.mem_singleton] at hx; subst hx
    simp only [noIncl] at h1; simp only [compilable] at h2; simp only [depthE] at h3
    exact ⟨h1, h2, by omega⟩
  | opt b =>
    simp only [children, List.mem_singleton] at hx; subst hx
    simp only [noIncl] at h1; simp only [compilable] at h2; simp only [depthE] at h3
    exact ⟨h1, h2, by omega⟩
  | closure b p =>
    simp only [children, List.mem_singleton] at hx; subst hx
    simp only [noIncl] at h1; simp only [compilable] at h2; simp only [depthE] at h3
    exact ⟨h1, h2, by omega⟩
  | neg b =>
    simp only [children, List.mem_singleton] at hx; subst hx
    simp only [noIncl] at h1; simp only [compilable] at h2; simp only [depthE] at h3
    exact ⟨h1, h2, by omega⟩
  | pos b =>
    simp only [children, List.mem_singleton] at hx; subst hx
    simp only [noIncl] at h1; simp only [compilable] at h2; simp only [depthE] at h3
    exact ⟨h1, h2, by omega⟩
  | _ => simp [children] at hx

theorem good_token {nf : Nat} {t : Expr} (h : GoodE nf t) (ht : isToken t = true) : tokenCompiles t = true := by
  obtain ⟨_, h2, _⟩ := h
  cases t <;> simp [isToken] at ht <;> first | exact h2 | rfl

theorem ownFields_ds {envA envB : Env} (hnf : envA.nf = envB.nf) (b : Bool) {e : Expr} (hg : GoodE envA.nf e) :
    ownFields envA e = ownFields envB (ds b e) := by
  unfold ownFields ds
  cases b
  · simp only [Bool.false_eq_true, if_false]
    rw [← hnf, getFields_noIncl envA.g envB.g _ _ hg.1]
  · simp only [if_true]
    rw [← hnf, getFields_desugar envA.g envB.g _ _ hg.1 hg.2.2]

/-- forward simulation of expressions: skipping (`b = true`) evaluation of `e` is matched by the non-skipping
    evaluation of the desugared `e`; non-skipping (`b = false`) evaluation of `e` by itself -/
def FwdE (nf : Nat) (exA exB : Ctx → Expr → St → SOut Parsed) : Prop :=
  ∀ b rf e s r, GoodE nf e → UniqueNames rf → exA ⟨b, rf⟩ e s = some r → exB ⟨false, rf⟩ (ds b e) s = some r

/-- backward simulation -/
def RevE (nf : Nat) (exB exA : Ctx → Expr → St → SOut Parsed) : Prop :=
  ∀ b rf e s r, GoodE nf e → UniqueNames rf → exB ⟨false, rf⟩ (ds b e) s = some r → exA ⟨b, rf⟩ e s = some r

theorem fwd_step {envA envB : Env} {recA recB recB' : SRec} {nA nB nB' : Nat}
    (hnf : envA.nf = envB.nf) (hnf2 : 2 ≤ envB.nf)
    (hE : FwdE envA.nf recA.expr recB.expr) (hR : LeR recA.rule recB.rule)
    (hB' : ∀ ctx e s, recB'.expr ctx e s = Spec.stepExpr envB recB nB ctx e s)
    (hBle : Le recB recB') (hn : nA ≤ nB') :
    FwdE envA.nf (Spec.stepExpr envA recA nA) (Spec.stepExpr envB recB' nB') := by
  intro b rf e s r hg hu h
  by_cases het : isToken e = true
  · cases b
    · simp only [ds, Bool.false_eq_true, if_false]
      exact token_transfer het (fun n s r h => hBle.rule _ _ _ (hR _ _ _ h)) h
    · simp only [ds, if_true]
      rw [desugarE_token het, token_wrap hB' het (good_token hg het) hu hnf2]
      exact token_transfer het hR h
  · have het' : isToken e = false := by simpa using het
    refine sim_nontoken (ctxA := ⟨b, rf⟩) (ctxB := ⟨false, rf⟩) (fa := fun e => e) (fb := ds b) rfl hn hom_id (hom_ds b) het' hg.1 ?_ ?_ h
    · intro x hx
      exact ⟨ownFields_ds hnf b (good_children hg hx),
        fun s r h => hBle.expr _ _ _ _ (hE b rf x s r (good_children hg hx) hu h)⟩
    · exact ownFields_ds hnf b hg

theorem rev_step {envA envB : Env} {recA recB : SRec} {m : Nat}
    (hnf : envA.nf = envB.nf) (hnf2 : 2 ≤ envB.nf)
    (hE : RevE envA.nf recB.expr recA.expr) (hR : LeR recB.rule recA.rule)
    (hB0 : (∀ ctx e s, recB.expr ctx e s = none) ∨
      ∃ recB0 k, (∀ ctx e s, recB.expr ctx e s = Spec.stepExpr envB recB0 k ctx e s) ∧ Le recB0 recB ∧ k ≤ m) :
    RevE envA.nf (Spec.stepExpr envB recB m) (Spec.stepExpr envA recA m) := by
  intro b rf e s r hg hu h
  by_cases het : isToken e = true
  · cases b
    · simp only [ds, Bool.false_eq_true, if_false] at h
      exact token_transfer het hR h
    · simp only [ds, if_true] at h
      rw [desugarE_token het] at h
      rcases hB0 with h0 | ⟨recB0, k, h0, hle, hk⟩
      · simp [Spec.stepExpr, Spec.evalSeq, h0, bindS] at h
      · rw [token_wrap h0 het (good_token hg het) hu hnf2] at h
        exact token_transfer het hR (Spec.stepExpr_le hle hk _ _ _ _ h)
  · have het' : isToken e = false := by simpa using het
    refine sim_nontoken (ctxA := ⟨false, rf⟩) (ctxB := ⟨b, rf⟩) (fa := ds b) (fb := fun e => e) rfl (Nat.le_refl _) (hom_ds b) hom_id het' hg.1 ?_ ?_ h
    · intro x hx
      exact ⟨(ownFields_ds hnf b (good_children hg hx)).symm,
        fun s r h => hE b rf x s r (good_children hg hx) hu h⟩
    · exact (ownFields_ds hnf b hg).symm

/-! ## 2e. induction on fuel (abstract in the simulation of rules) -/

theorem fwd_main {envA envB : Env} {u : Nat} (hnf : envA.nf = envB.nf) (hnf2 : 2 ≤ envB.nf)
    (hstepR : ∀ n, FwdE envA.nf (Spec.eval envA u n).expr (Spec.eval envB u (2*n)).expr →
      LeR (Spec.eval envA u n).rule (Spec.eval envB u (2*n)).rule →
      LeR (Spec.stepRule envA u (Spec.eval envA u n)) (Spec.stepRule envB u (Spec.eval envB u (2*n)))) :
    ∀ n, FwdE envA.nf (Spec.eval envA u n).expr (Spec.eval envB u (2*n)).expr ∧
      LeR (Spec.eval envA u n).rule (Spec.eval envB u (2*n)).rule := by
  intro n
  induction n with
  | zero =>
    exact ⟨fun _ _ _ _ _ _ _ h => by simp [Spec.eval] at h, fun _ _ _ h => by simp [Spec.eval] at h⟩
  | succ n ih =>
    obtain ⟨ih1, ih2⟩ := ih
    have h2 : 2 * (n + 1) = (2 * n + 1) + 1 := by omega
    rw [h2]
    constructor
    · exact fwd_step (recB := Spec.eval envB u (2*n)) (recB' := Spec.eval envB u (2*n+1)) (nB := 2*n)
        hnf hnf2 ih1 ih2 (fun _ _ _ => rfl) (Spec.eval_le_succ envB u (2*n)) (by omega)
    · intro name s r h
      exact Spec.stepRule_le (Spec.eval_le_succ envB u (2*n)) _ _ _ (hstepR n ih1 ih2 _ _ _ h)

theorem rev_main {envA envB : Env} {u : Nat} (hnf : envA.nf = envB.nf) (hnf2 : 2 ≤ envB.nf)
    (hstepR : ∀ m, RevE envA.nf (Spec.eval envB u m).expr (Spec.eval envA u m).expr →
      LeR (Spec.eval envB u m).rule (Spec.eval envA u m).rule →
      LeR (Spec.stepRule envB u (Spec.eval envB u m)) (Spec.stepRule envA u (Spec.eval envA u m))) :
    ∀ m, RevE envA.nf (Spec.eval envB u m).expr (Spec.eval envA u m).expr ∧
      LeR (Spec.eval envB u m).rule (Spec.eval envA u m).rule := by
  intro m
  induction m with
  | zero =>
    exact ⟨fun _ _ _ _ _ _ _ h => by simp [Spec.eval] at h, fun _ _ _ h => by simp [Spec.eval] at h⟩
  | succ m ih =>
    obtain ⟨ih1, ih2⟩ := ih
    constructor
    · refine rev_step (recB := Spec.eval envB u m) hnf hnf2 ih1 ih2 ?_
      cases m with
      | zero => left; intro _ _ _; rfl
      | succ k =>
        right
        exact ⟨Spec.eval envB u k, k, fun _ _ _ => rfl, Spec.eval_le_succ envB u k, by omega⟩
    · exact hstepR m ih1 ih2

theorem depthE_pos (e : Expr) : 1 ≤ depthE e := by
  cases e <;> simp [depthE]

/-- **C08, expression level.**  For an include-free expression `e` whose literals compile, a rule-field list with
    distinct names and enough `get_fields` fuel (`GoodE env.nf e`): evaluating `e` *with* whitespace skipping and
    evaluating `desugarE e` (an explicit `Whitespace` call in front of every literal, range, `$`, rule/field
    reference) *without* skipping give the same answers (ok with the same value and position, failure, or the same
    panic), up to fuel. -/
theorem C08_desugar_expr (env : Env) (u : Nat) (e : Expr) (ctx : Ctx) (s : St) (r : Res Parsed)
    (hg : GoodE env.nf e) (hu : UniqueNames ctx.ruleFields) :
    (∃ n, (Spec.eval env u n).expr { ctx with skipWs := true } e s = some r) ↔
    (∃ m, (Spec.eval env u m).expr { ctx with skipWs := false } (desugarE e) s = some r) := by
  have hnf2 : 2 ≤ env.nf := by have := depthE_pos e; have := hg.2.2; omega
  constructor
  · rintro ⟨n, h⟩
    refine ⟨2 * n, ?_⟩
    have := (fwd_main (envA := env) (envB := env) (u := u) rfl hnf2
      (fun n _ _ => Spec.stepRule_le (Spec.eval_mono env u (by omega))) n).1
    exact this true ctx.ruleFields e s r hg hu h
  · rintro ⟨m, h⟩
    refine ⟨m, ?_⟩
    have := (rev_main (envA := env) (envB := env) (u := u) rfl hnf2
      (fun m _ _ => fun _ _ _ h => h) m).1
    exact this true ctx.ruleFields e s r hg hu h

/-! ## 2f. grammar level -/

/-- a skipping rule becomes `@no_skip_ws` with a desugared body; a `@no_skip_ws` rule is kept -/
def desugarR (r : Rule) : Rule :=
  if r.flags.noSkipWs then r
  else { directives := r.directives ++ [.noSkipWs], name := r.name, definition := desugarE r.definition }

def desugarEntry : RuleEntry → RuleEntry
  | .rule r => .rule (desugarR r)
  | x => x

/-- every normal rule is `@no_skip_ws` afterwards; char rules and extern rules are untouched -/
def desugarG (g : Grammar) : Grammar := ⟨g.rules.map desugarEntry⟩

/-- the same parser environment over the desugared grammar -/
def desugarEnv (env : Env) : Env := { env with g := desugarG env.g }

/-- side conditions on a grammar: every normal rule's body is `GoodE` -/
def GoodG (nf : Nat) (g : Grammar) : Prop := ∀ r, RuleEntry.rule r ∈ g.rules → GoodE nf r.definition

theorem flags_snoc_noSkipWs (ds : List Directive) (n n' : String) (d d' : Expr) :
    Rule.flags ⟨ds ++ [.noSkipWs], n, d⟩ = { Rule.flags ⟨ds, n', d'⟩ with noSkipWs := true } := by
  simp [Rule.flags, List.foldl_append, RuleFlags.add]

theorem checks_snoc_noSkipWs (ds : List Directive) (n n' : String) (d d' : Expr) :
    Rule.checks ⟨ds ++ [.noSkipWs], n, d⟩ = Rule.checks ⟨ds, n', d'⟩ := by
  simp [Rule.checks, List.filterMap_append]

theorem desugarR_name (r : Rule) : (desugarR r).name = r.name := by
  unfold desugarR; split <;> rfl

theorem desugarR_flags (r : Rule) : (desugarR r).flags = { r.flags with noSkipWs := true } := by
  unfold desugarR
  split
  · rename_i h
    cases hr : r.flags; simp only [hr] at h; simp [h]
  · exact flags_snoc_noSkipWs _ _ _ _ _

theorem desugarR_checks (r : Rule) : (desugarR r).checks = r.checks := by
  unfold desugarR
  split
  · rfl
  · exact checks_snoc_noSkipWs _ _ _ _ _

theorem desugarR_def (r : Rule) : (desugarR r).definition = ds (!r.flags.noSkipWs) r.definition := by
  unfold desugarR ds
  split
  · rename_i h; simp [h]
  · rename_i h; simp [h]

theorem desugarEntry_name (x : RuleEntry) : (desugarEntry x).name = x.name := by
  cases x <;> simp [desugarEntry, RuleEntry.name, desugarR_name]

theorem find_desugarG (g : Grammar) (n : String) : (desugarG g).find n = (g.find n).map desugarEntry := by
  unfold Grammar.find desugarG
  rw [List.find?_map]
  have : ((fun r : RuleEntry => r.name == n) ∘ desugarEntry) = fun r => r.name == n := by
    funext x; simp [Function.comp, desugarEntry_name]
  rw [this]

theorem runChecks_hooks {envA envB : Env} (hh : envB.hooks = envA.hooks) (u : Nat) :
    ∀ cs v s, Spec.runChecks envB u cs v s = Spec.runChecks envA u cs v s := by
  intro cs
  induction cs with
  | nil => intro v s; rfl
  | cons f fs ih => intro v s; simp only [Spec.runChecks, hh, ih]

/-- a rule wrapper is monotone in the body evaluator, across environments and across rules that agree on
    everything but the body and the `@no_skip_ws` flag -/
theorem ruleBody_sim {envA envB : Env} {u : Nat} {recA recB : SRec} {rA rB : Rule}
    (hhooks : envB.hooks = envA.hooks) (hname : rB.name = rA.name)
    (hstr : rB.flags.string = rA.flags.string) (hpos : rB.flags.position = rA.flags.position)
    (hchk : rB.checks = rA.checks)
    (hgf : getFields envB.g envB.nf rB.definition = getFields envA.g envA.nf rA.definition)
    (hex : ∀ fields, getFields envA.g envA.nf rA.definition = .ok fields → ∀ s r,
      recA.expr ⟨envA.settings.skipWhitespace && !rA.flags.noSkipWs, fields⟩ rA.definition s = some r →
      recB.expr ⟨envB.settings.skipWhitespace && !rB.flags.noSkipWs, fields⟩ rB.definition s = some r)
    {s : St} {r} (h : Spec.ruleBody envA u recA rA s = some r) : Spec.ruleBody envB u recB rB s = some r := by
  have hrc : Spec.runChecks envB u = Spec.runChecks envA u := by
    funext cs v s; exact runChecks_hooks hhooks u cs v s
  unfold Spec.ruleBody at h ⊢
  rw [hgf]
  simp only [hstr, hpos, hchk, hname, hrc]
  split at h
  · rename_i fields hf
    simp only at h
    split at h
    · rename_i hc; simp only [hc, if_true]
      exact Spec.bindS_le (fun x hx => hex fields hf _ _ hx) (fun _ _ _ h => h) h
    · rename_i hc; simp only [hc]
      split at h
      · rename_i hc2; simp only [hc2, if_true]
        exact Spec.bindS_le (fun x hx => hex fields hf _ _ hx) (fun _ _ _ h => h) h
      · rename_i hc2; simp only [hc2]
        split at h
        · rename_i hc3; simpa [hc3] using h
        · rename_i hc3; simp only [hc3]
          exact Spec.bindS_le (fun x hx => hex fields hf _ _ hx) (fun _ _ _ h => h) h
  · exact h

theorem charParts_leR {recA recB : SRec} (hR : LeR recA.rule recB.rule) :
    ∀ ps s r, Spec.charParts recA ps s = some r → Spec.charParts recB ps s = some r := by
  intro ps
  induction ps with
  | nil => intro s r h; simpa [Spec.charParts] using h
  | cons p ps ih =>
    intro s r h
    cases p with
    | chr item =>
      simp only [Spec.charParts] at h ⊢
      split at h
      · cases h
      · exact h
      · exact ih _ _ h
      · exact h
    | range lo hi =>
      simp only [Spec.charParts] at h ⊢
      split at h
      · cases h
      · exact h
      · exact ih _ _ h
      · exact h
    | ident id =>
      simp only [Spec.charParts] at h ⊢
      split at h
      · cases h
      · rename_i hx; rw [hR _ _ _ hx]; exact h
      · rename_i hx; rw [hR _ _ _ hx]; exact ih _ _ h
      · rename_i hx; rw [hR _ _ _ hx]; exact h

theorem charChecksOk_hooks {envA envB : Env} (hh : envB.hooks = envA.hooks) :
    ∀ ds c, Spec.charChecksOk envB ds c = Spec.charChecksOk envA ds c := by
  intro ds
  induction ds with
  | nil => intro c; rfl
  | cons f fs ih => intro c; simp only [Spec.charChecksOk, hh, ih]

theorem charRule_sim {envA envB : Env} {recA recB : SRec} (hh : envB.hooks = envA.hooks)
    (hR : LeR recA.rule recB.rule) {cr : CharRule} {s : St} {r}
    (h : Spec.charRule envA recA cr s = some r) : Spec.charRule envB recB cr s = some r := by
  unfold Spec.charRule at h ⊢
  simp only [charChecksOk_hooks hh]
  split at h
  · rename_i hc; rw [if_pos hc]; exact charParts_leR hR _ _ _ h
  · rename_i hc; rw [if_neg hc]
    split at h
    · exact h
    · split at h
      · rename_i hc2; rw [if_pos hc2]; exact charParts_leR hR _ _ _ h
      · rename_i hc2; rw [if_neg hc2]; exact h

theorem getFields_ds (g g' : Grammar) {nf : Nat} (b : Bool) {e : Expr} (hg : GoodE nf e) :
    getFields g' nf (ds b e) = getFields g nf e := by
  unfold ds
  cases b
  · simp only [Bool.false_eq_true, if_false]
    exact getFields_noIncl g g' _ _ hg.1
  · simp only [if_true]
    exact getFields_desugar g g' _ _ hg.1 hg.2.2

theorem stepRule_fwd {env : Env} {u : Nat} {recA recB : SRec}
    (hskip : env.settings.skipWhitespace = true) (hG : GoodG env.nf env.g)
    (hE : FwdE env.nf recA.expr recB.expr) (hR : LeR recA.rule recB.rule) :
    LeR (Spec.stepRule env u recA) (Spec.stepRule (desugarEnv env) u recB) := by
  intro name s r h
  unfold Spec.stepRule at h ⊢
  have hf : (desugarEnv env).g.find name = (env.g.find name).map desugarEntry := find_desugarG _ _
  rw [hf]
  cases hfind : env.g.find name with
  | none => simp only [hfind, Option.map] at h ⊢; exact h
  | some entry =>
    have hmem : entry ∈ env.g.rules := List.mem_of_find?_eq_some hfind
    cases entry with
    | rule r0 =>
      simp only [hfind, Option.map, desugarEntry] at h ⊢
      refine ruleBody_sim (envA := env) (envB := desugarEnv env) rfl (desugarR_name r0)
        (by rw [desugarR_flags]) (by rw [desugarR_flags]) (desugarR_checks r0) ?_ ?_ h
      · rw [desugarR_def]
        exact getFields_ds env.g (desugarG env.g) _ (hG r0 hmem)
      · intro fields hfields s r h
        have hu := uniqueNames_getFields _ _ _ _ hfields
        have := hE (!r0.flags.noSkipWs) fields r0.definition s r (hG r0 hmem) hu (by simpa [hskip] using h)
        simpa [desugarEnv, desugarR_flags, desugarR_def] using this
    | charRule cr =>
      simp only [hfind, Option.map, desugarEntry] at h ⊢
      exact charRule_sim (envA := env) (envB := desugarEnv env) rfl hR h
    | externRule er =>
      simp only [hfind, Option.map, desugarEntry] at h ⊢
      exact h

theorem stepRule_rev {env : Env} {u : Nat} {recA recB : SRec}
    (hskip : env.settings.skipWhitespace = true) (hG : GoodG env.nf env.g)
    (hE : RevE env.nf recB.expr recA.expr) (hR : LeR recB.rule recA.rule) :
    LeR (Spec.stepRule (desugarEnv env) u recB) (Spec.stepRule env u recA) := by
  intro name s r h
  unfold Spec.stepRule at h ⊢
  have hf : (desugarEnv env).g.find name = (env.g.find name).map desugarEntry := find_desugarG _ _
  rw [hf] at h
  cases hfind : env.g.find name with
  | none => simp only [hfind, Option.map] at h ⊢; exact h
  | some entry =>
    have hmem : entry ∈ env.g.rules := List.mem_of_find?_eq_some hfind
    cases entry with
    | rule r0 =>
      simp only [hfind, Option.map, desugarEntry] at h ⊢
      refine ruleBody_sim (envA := desugarEnv env) (envB := env) rfl (desugarR_name r0).symm
        (by rw [desugarR_flags]) (by rw [desugarR_flags]) (desugarR_checks r0).symm ?_ ?_ h
      · rw [desugarR_def]
        exact (getFields_ds env.g (desugarG env.g) _ (hG r0 hmem)).symm
      · intro fields hfields s r h
        rw [desugarR_def] at hfields
        have hfields' : getFields env.g env.nf r0.definition = .ok fields := by
          rw [← hfields]; exact (getFields_ds env.g (desugarG env.g) _ (hG r0 hmem)).symm
        have hu := uniqueNames_getFields _ _ _ _ hfields'
        have := hE (!r0.flags.noSkipWs) fields r0.definition s r (hG r0 hmem) hu
          (by simpa [desugarEnv, desugarR_flags, desugarR_def] using h)
        simpa [hskip] using this
    | charRule cr =>
      simp only [hfind, Option.map, desugarEntry] at h ⊢
      exact charRule_sim (envA := desugarEnv env) (envB := env) rfl hR h
    | externRule er =>
      simp only [hfind, Option.map, desugarEntry] at h ⊢
      exact h

/-- **C08, grammar level.**  `desugarG` marks every skipping rule `@no_skip_ws` and writes the `Whitespace` calls
    explicitly; the reference parser of the desugared grammar answers exactly as the original (same value,
    failure, or panic), for every rule and every input, up to fuel.
    Hypotheses: global skipping is on (otherwise nothing is skipped and `desugarG` only adds redundant flags);
    every normal rule's body is include-free, compiles, and is shallower than the `get_fields` fuel. -/
theorem C08_desugar_grammar (env : Env) (u : Nat) (rule : String) (inp : List UInt8) (r : Res Val)
    (hskip : env.settings.skipWhitespace = true) (hG : GoodG env.nf env.g) :
    (∃ n, Spec.parse env u n rule inp = some r) ↔ (∃ m, Spec.parse (desugarEnv env) u m rule inp = some r) := by
  by_cases hnf2 : 2 ≤ env.nf
  · unfold Spec.parse
    constructor
    · rintro ⟨n, h⟩
      exact ⟨2 * n, (fwd_main (envA := env) (envB := desugarEnv env) (u := u) rfl hnf2
        (fun n h1 h2 => stepRule_fwd hskip hG h1 h2) n).2 _ _ _ h⟩
    · rintro ⟨m, h⟩
      exact ⟨m, (rev_main (envA := env) (envB := desugarEnv env) (u := u) rfl hnf2
        (fun m h1 h2 => stepRule_rev hskip hG h1 h2) m).2 _ _ _ h⟩
  · -- no `get_fields` fuel: `GoodG` says there is no normal rule at all, nothing is desugared
    have hmap : ∀ l : List RuleEntry, (∀ r, RuleEntry.rule r ∈ l → False) → l.map desugarEntry = l := by
      intro l
      induction l with
      | nil => intro _; rfl
      | cons x xs ih =>
        intro hl
        rw [List.map_cons, ih (fun r hr => hl r (by simp [hr]))]
        cases x with
        | rule r0 => exact (hl r0 (by simp)).elim
        | charRule c => rfl
        | externRule c => rfl
    have hno : ∀ r, RuleEntry.rule r ∈ env.g.rules → False := fun r hr => by
      have h1 := (hG r hr).2.2
      have h2 := depthE_pos r.definition
      omega
    have : desugarEnv env = env := by
      unfold desugarEnv desugarG
      rw [hmap _ hno]
    rw [this]

/-- after `desugarG`, every normal rule is `@no_skip_ws` -/
theorem desugarG_all_noSkipWs (g : Grammar) (r : Rule) (h : RuleEntry.rule r ∈ (desugarG g).rules) :
    r.flags.noSkipWs = true := by
  simp only [desugarG, List.mem_map] at h
  obtain ⟨x, _, hx⟩ := h
  cases x with
  | rule r0 => simp only [desugarEntry, RuleEntry.rule.injEq] at hx; subst hx; rw [desugarR_flags]
  | charRule c => simp [desugarEntry] at hx
  | externRule c => simp [desugarEntry] at hx

/-! ## 3. the builtin skipper -/

theorem wsPrefixLen_eq (bs : List UInt8) : wsPrefixLen bs = (bs.takeWhile isAsciiWhitespace).length := by
  induction bs with
  | nil => rfl
  | cons b bs ih =>
    simp only [wsPrefixLen, List.takeWhile_cons]
    split <;> simp [ih]

theorem drop_wsPrefixLen (bs : List UInt8) : bs.drop (wsPrefixLen bs) = bs.dropWhile isAsciiWhitespace := by
  induction bs with
  | nil => rfl
  | cons b bs ih =>
    simp only [wsPrefixLen, List.dropWhile_cons]
    split <;> simp [ih]

theorem take_wsPrefixLen (bs : List UInt8) : bs.take (wsPrefixLen bs) = bs.takeWhile isAsciiWhitespace := by
  induction bs with
  | nil => rfl
  | cons b bs ih =>
    simp only [wsPrefixLen, List.takeWhile_cons]
    split <;> simp [ih]

theorem mem_takeWhile_true {α} (p : α → Bool) : ∀ (l : List α) (a : α), a ∈ l.takeWhile p → p a = true := by
  intro l
  induction l with
  | nil => intro a h; simp at h
  | cons x xs ih =>
    intro a h
    rw [List.takeWhile_cons] at h
    split at h
    · rename_i hx
      rcases List.mem_cons.1 h with rfl | h'
      · exact hx
      · exact ih a h'
    · simp at h

/-- the five bytes -/
theorem isAsciiWhitespace_iff (b : UInt8) :
    isAsciiWhitespace b = true ↔ b = 0x20 ∨ b = 0x09 ∨ b = 0x0A ∨ b = 0x0C ∨ b = 0x0D := by
  simp [isAsciiWhitespace, or_assoc]

/-- the five characters SPACE, TAB, LF, FF, CR -/
theorem isWsChar_iff (c : Char) :
    isWsChar c = true ↔ c = ' ' ∨ c = '\t' ∨ c = '\n' ∨ c = '\x0c' ∨ c = '\r' := by
  simp [isWsChar, or_assoc]

/-- **C08, builtin skipper (bytes).**  It never fails and consumes exactly the maximal prefix of the remaining
    bytes made of 0x20, 0x09, 0x0A, 0x0C, 0x0D: the skipped bytes are `takeWhile`, the rest is `dropWhile`
    (so the next byte, if any, is not one of the five). -/
theorem C08_builtin (s : St) :
    parseWhitespace s = .ok () { s with rest := s.rest.dropWhile isAsciiWhitespace,
                                        off := s.off + (s.rest.takeWhile isAsciiWhitespace).length } := by
  unfold parseWhitespace
  simp only [wsPrefixLen_eq, ← drop_wsPrefixLen]

theorem C08_builtin_wsPrefixLen (s : St) :
    parseWhitespace s = .ok () { s with rest := s.rest.drop (wsPrefixLen s.rest), off := s.off + wsPrefixLen s.rest } ∧
    wsPrefixLen s.rest = (s.rest.takeWhile isAsciiWhitespace).length ∧
    (∀ b ∈ s.rest.take (wsPrefixLen s.rest), isAsciiWhitespace b = true) ∧
    (∀ b, (s.rest.drop (wsPrefixLen s.rest)).head? = some b → isAsciiWhitespace b = false) := by
  refine ⟨rfl, wsPrefixLen_eq _, ?_, ?_⟩
  · intro b hb
    rw [take_wsPrefixLen] at hb
    exact mem_takeWhile_true _ _ _ hb
  · intro b hb
    rw [drop_wsPrefixLen] at hb
    have := List.head?_dropWhile_not isAsciiWhitespace s.rest
    rw [hb] at this
    simpa using this

/-- **C08, builtin skipper (characters).**  On a text (`rest = enc rem`) the skipper consumes exactly the maximal
    prefix of `rem` made of the five characters SPACE, TAB, LF, FF, CR, and never fails. -/
theorem C08_builtin_chars {s : St} {rem : List Char} (h : s.rest = enc rem) :
    parseWhitespace s = .ok () { s with rest := enc (rem.dropWhile isWsChar),
                                        off := s.off + (enc (rem.takeWhile isWsChar)).length } ∧
    wsPrefixLen s.rest = (enc (rem.takeWhile isWsChar)).length :=
  ⟨parseWhitespace_enc h, by rw [h, wsPrefixLen_enc]⟩

/-- U+000B (VT), U+00A0 (NBSP), U+2003 (EM SPACE) are not skipped; the five are -/
theorem C08_builtin_examples :
    isWsChar '\x0b' = false ∧ isWsChar '\u00a0' = false ∧ isWsChar '\u2003' = false ∧
    isWsChar ' ' = true ∧ isWsChar '\t' = true ∧ isWsChar '\n' = true ∧ isWsChar '\x0c' = true ∧
    isWsChar '\r' = true := isWsChar_examples

/-- e.g. on "\u{b} x" nothing is skipped, on " \t\u{a0}x" exactly two bytes are -/
example : wsPrefixLen (enc ['\x0b', ' ', 'x']) = 0 ∧ wsPrefixLen (enc [' ', '\t', '\u00a0', 'x']) = 2 := by
  rw [wsPrefixLen_enc, wsPrefixLen_enc]; decide

/-! ## 4. which `Whitespace` is called; the per-rule flag -/

/-- `Grammar.find` is the first entry with that name -/
theorem find_first (g : Grammar) (name : String) (pre post : List RuleEntry) (x : RuleEntry)
    (hg : g.rules = pre ++ x :: post) (hx : x.name = name) (hpre : ∀ y ∈ pre, y.name ≠ name) :
    g.find name = some x := by
  unfold Grammar.find
  rw [hg, List.find?_append]
  have : pre.find? (fun r => r.name == name) = none := by
    rw [List.find?_eq_none]; intro y hy; simpa using hpre y hy
  simp [this, hx]

/-- **C08, user-defined skipper.**  When the grammar defines an entry named `Whitespace`, the `Whitespace` called
    in front of tokens is that entry (normal rule, char rule or extern rule) and the builtin is not used. -/
theorem C08_custom_rule {env : Env} {u : Nat} {rec : SRec} {r : Rule} (s : St)
    (h : env.g.find "Whitespace" = some (.rule r)) :
    Spec.stepRule env u rec "Whitespace" s = Spec.ruleBody env u rec r s := by
  simp only [Spec.stepRule, h]

theorem C08_custom_charRule {env : Env} {u : Nat} {rec : SRec} {r : CharRule} (s : St)
    (h : env.g.find "Whitespace" = some (.charRule r)) :
    Spec.stepRule env u rec "Whitespace" s = Spec.charRule env rec r s := by
  simp only [Spec.stepRule, h]

theorem C08_custom_externRule {env : Env} {u : Nat} {rec : SRec} {r : ExternRule} (s : St)
    (h : env.g.find "Whitespace" = some (.externRule r)) :
    Spec.stepRule env u rec "Whitespace" s = Spec.externRule env u r s := by
  simp only [Spec.stepRule, h]

/-- when the grammar defines no `Whitespace`, it is the builtin: never fails, skips the maximal prefix of the
    five ASCII whitespace bytes -/
theorem C08_custom_none {env : Env} {u : Nat} {rec : SRec} (s : St)
    (h : env.g.find "Whitespace" = none) :
    Spec.stepRule env u rec "Whitespace" s =
      some (.ok .unit ⟨s.rest.dropWhile isAsciiWhitespace, s.off + (s.rest.takeWhile isAsciiWhitespace).length, none⟩) := by
  simp only [Spec.stepRule, h]
  rw [if_neg (by decide), if_pos (by decide), C08_builtin]
  rfl

/-- skipping off: the token is evaluated in place -/
theorem C08_withSkipWs_false {α} (rec : SRec) (ctx : Ctx) (s : St) (k : St → SOut α) :
    Spec.withSkipWs rec { ctx with skipWs := false } s k = k s := by
  simp [Spec.withSkipWs]

/-- skipping on: `Whitespace` is called at the token's position, the token continues where it stopped; a failure,
    panic or divergence of `Whitespace` is the token's -/
theorem C08_withSkipWs_true {α} (rec : SRec) (ctx : Ctx) (s : St) (k : St → SOut α) :
    Spec.withSkipWs rec { ctx with skipWs := true } s k = bindS (rec.rule "Whitespace" s) (fun _ s' => k s') := by
  simp [Spec.withSkipWs]

/-- the only context a rule wrapper hands to its body is `skipWs := global && !@no_skip_ws` -/
theorem C08_ruleBody_ctx (env : Env) (u : Nat) (rec : SRec) (r : Rule) (s : St) :
    Spec.ruleBody env u rec r s =
      Spec.ruleBody env u
        { rec with expr := fun ctx => rec.expr { ctx with skipWs := env.settings.skipWhitespace && !r.flags.noSkipWs } }
        r s := by
  unfold Spec.ruleBody
  split <;> rfl

/-- **C08, `@no_skip_ws`.**  A `@no_skip_ws` rule evaluates its body with `skipWs = false`, whatever the global
    setting -/
theorem C08_no_skip_ws (env : Env) (u : Nat) (rec : SRec) (r : Rule) (s : St) (h : r.flags.noSkipWs = true) :
    Spec.ruleBody env u rec r s =
      Spec.ruleBody env u { rec with expr := fun ctx => rec.expr { ctx with skipWs := false } } r s := by
  rw [C08_ruleBody_ctx]; simp [h]

/-- … and its result does not depend on the global setting -/
theorem C08_no_skip_ws_global (env : Env) (u : Nat) (rec : SRec) (r : Rule) (s : St) (b : Bool)
    (h : r.flags.noSkipWs = true) :
    Spec.ruleBody { env with settings := { env.settings with skipWhitespace := b } } u rec r s =
      Spec.ruleBody env u rec r s := by
  have hrc : Spec.runChecks { env with settings := { env.settings with skipWhitespace := b } } u =
      Spec.runChecks env u := by
    funext cs v s
    exact runChecks_hooks (envA := env)
      (envB := { env with settings := { env.settings with skipWhitespace := b } }) rfl u cs v s
  unfold Spec.ruleBody
  simp only [h, hrc, Bool.not_true, Bool.and_false]

/-- a rule without `@no_skip_ws` under the (default) global setting evaluates its body with `skipWs = true` -/
theorem C08_skip_ws (env : Env) (u : Nat) (rec : SRec) (r : Rule) (s : St)
    (hg : env.settings.skipWhitespace = true) (h : r.flags.noSkipWs = false) :
    Spec.ruleBody env u rec r s =
      Spec.ruleBody env u { rec with expr := fun ctx => rec.expr { ctx with skipWs := true } } r s := by
  rw [C08_ruleBody_ctx]; simp [h, hg]

/-- **C08, "rules it references keep their own setting".**  A rule/field reference hands no context to the callee
    (`rec.rule : String → St → _`): apart from the `Whitespace` call in front, the reference does not depend on the
    caller's `skipWs`; and the callee, being evaluated by `stepRule` → `ruleBody`, computes its context from its
    own flag (`C08_ruleBody_ctx`). -/
theorem C08_callee_flag (env : Env) (rec : SRec) (n : Nat) (ctx : Ctx) (nm : Option FieldName) (bx : Bool)
    (typ : String) (s : St) :
    Spec.stepExpr env rec n ctx (.field nm bx typ) s =
      Spec.withSkipWs rec ctx s (fun s' => Spec.stepExpr env rec n { ctx with skipWs := false } (.field nm bx typ) s') ∧
    (∀ b s', Spec.stepExpr env rec n { ctx with skipWs := false } (.field nm bx typ) s' =
      Spec.stepExpr env { rec with expr := fun c => rec.expr { c with skipWs := b } } n { ctx with skipWs := false }
        (.field nm bx typ) s') := by
  constructor
  · simp [Spec.stepExpr, Spec.withSkipWs]
  · intro b s'; simp [Spec.stepExpr, Spec.withSkipWs]

/-- the callee of a reference is the rule's own wrapper, one fuel level down -/
theorem C08_callee_is_ruleBody (env : Env) (u n : Nat) (name : String) (r : Rule) (s : St)
    (h : env.g.find name = some (.rule r)) :
    (Spec.eval env u (n+1)).rule name s = Spec.ruleBody env u (Spec.eval env u n) r s := by
  simp only [Spec.eval, Spec.step, Spec.stepRule, h]

/-- by contrast an include `>R` evaluates `R`'s body in the *includer's* context (its `@no_skip_ws` flag is
    not consulted) -/
theorem C08_include_inherits (env : Env) (rec : SRec) (n : Nat) (ctx : Ctx) (name : String) (r : Rule) (s : St)
    (h : env.g.findRule name = some r) :
    Spec.stepExpr env rec n ctx (.incl name) s = rec.expr ctx r.definition s := by
  simp only [Spec.stepExpr, h]

/-! ## 5. the hypotheses are satisfiable -/

/-- `A = 'a' x:B $ ;   @no_skip_ws B = 'b' {'0'..'9'} ;` -/
def exG : Grammar := ⟨[
  .rule ⟨[], "A", .choice [.seq [.lit false [.chr 'a'], .field (some (.ident "x")) false "B", .eoi]]⟩,
  .rule ⟨[.noSkipWs], "B", .choice [.seq [.lit false [.chr 'b'], .closure (.range (.chr '0') (.chr '9')) false]]⟩]⟩

def exEnv : Env := ⟨exG, {}, default, 8⟩

example : exEnv.settings.skipWhitespace = true ∧ 2 ≤ exEnv.nf ∧ GoodG exEnv.nf exEnv.g := by
  refine ⟨rfl, by decide, ?_⟩
  intro r hr
  simp only [exEnv, exG, List.mem_cons, RuleEntry.rule.injEq, List.mem_nil_iff, or_false] at hr
  rcases hr with rfl | rfl <;> refine ⟨by decide, by decide, by decide⟩

/-- expression level: the body of `A` with the rule's own field list -/
example : GoodE exEnv.nf (.choice [.seq [.lit false [.chr 'a'], .field (some (.ident "x")) false "B", .eoi]]) ∧
    UniqueNames [{ name := "x", types := [("B", false)], arity := .one }] := by
  refine ⟨⟨by decide, by decide, by decide⟩, by simp [UniqueNames]⟩

/-! ## 6. the hypotheses are needed (concrete counterexamples, checked by evaluation) -/

/-- `@no_skip_ws Whitespace = 'w' ;  A = '\u{110000}'..'z' ;` – the range bound does not compile -/
def cexG : Grammar := ⟨[
  .rule ⟨[.noSkipWs], "Whitespace", .lit false [.chr 'w']⟩,
  .rule ⟨[], "A", .range (.utf8 ['1','1','0','0','0','0']) (.chr 'z')⟩]⟩
def cexEnv : Env := ⟨cexG, {}, default, 8⟩

/-- without `compilable`: the model reports an uncompilable token *before* skipping, the desugared grammar calls
    (the user's, failing) `Whitespace` first -/
example : Spec.parse cexEnv 0 3 "A" [120] = some (.panic "uncompilable: range bound") ∧
    Spec.parse (desugarEnv cexEnv) 0 6 "A" [120] = some (.err Spec.noErr) := ⟨by rfl, by rfl⟩

def cexField : FieldDesc := { name := "x", types := [("B", false)], arity := .one }

/-- without `UniqueNames` (only possible at expression level, with a made-up context: `get_fields` never produces
    duplicates, `uniqueNames_getFields`): the sequence wrapper binds every filtered rule field once -/
example :
    (Spec.eval exEnv 0 6).expr ⟨true, [cexField, cexField]⟩ (.field (some (.ident "x")) false "B") (St.new [32, 98])
      = some (.ok [("x", .node "B" [] none)] ⟨[], 2, none⟩) ∧
    (Spec.eval exEnv 0 8).expr ⟨false, [cexField, cexField]⟩ (desugarE (.field (some (.ident "x")) false "B"))
        (St.new [32, 98])
      = some (.panic "codegen: assertion failed: field.arity == Arity::Multiple") := ⟨by rfl, by rfl⟩

end WS

export WS (C08_builtin C08_builtin_chars C08_builtin_examples C08_builtin_wsPrefixLen C08_callee_flag C08_callee_is_ruleBody C08_custom_charRule C08_custom_externRule C08_custom_none C08_custom_rule C08_desugar_expr C08_desugar_grammar C08_include_inherits C08_no_skip_ws C08_no_skip_ws_global C08_only_tokens C08_only_tokens_flag C08_only_tokens_rule C08_ruleBody_ctx C08_skip_ws C08_withSkipWs_false C08_withSkipWs_true)

end Peg
