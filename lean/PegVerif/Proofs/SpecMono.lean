import PegVerif.Spec
/-
  Fuel monotonicity of the reference semantics: an answer, once produced, is the answer for every
  larger fuel.  Consequence: `Spec.eval` is a partial *function* of (grammar, rule, input) –
  the answer, when defined, is unique (`Spec.eval_det`).
-/
namespace Peg
namespace Spec

def LeE (a b : Ctx → Expr → St → SOut Parsed) : Prop :=
  ∀ ctx e s r, a ctx e s = some r → b ctx e s = some r
def LeR (a b : String → St → SOut Val) : Prop :=
  ∀ n s r, a n s = some r → b n s = some r

structure Le (a b : SRec) : Prop where
  expr : LeE a.expr b.expr
  rule : LeR a.rule b.rule

theorem bindS_le {α β} {x x' : SOut α} {k k' : α → St → SOut β} {r : Res β}
    (hx : ∀ a, x = some a → x' = some a)
    (hk : ∀ v s r, k v s = some r → k' v s = some r)
    (h : bindS x k = some r) : bindS x' k' = some r := by
  cases x with
  | none => simp [bindS] at h
  | some a =>
    rw [hx a rfl]
    cases a with
    | ok v s => simp only [bindS] at h ⊢; exact hk _ _ _ h
    | err e => simpa [bindS] using h
    | panic m => simpa [bindS] using h

theorem withSkipWs_le {α} {rec rec' : SRec} (hle : Le rec rec') {ctx s} {k k' : St → SOut α} {r}
    (hk : ∀ s r, k s = some r → k' s = some r)
    (h : withSkipWs rec ctx s k = some r) : withSkipWs rec' ctx s k' = some r := by
  unfold withSkipWs at h ⊢
  split
  · rename_i hs
    simp only [hs, if_true] at h
    exact bindS_le (fun a ha => hle.rule _ _ _ ha) (fun _ s r h => hk s r h) h
  · rename_i hs
    simp only [hs] at h
    exact hk _ _ h

theorem evalSeq_le {env} {rec rec' : SRec} (hle : Le rec rec') {ctx} :
    ∀ ps seen acc s r, evalSeq env rec ctx ps seen acc s = some r →
      evalSeq env rec' ctx ps seen acc s = some r := by
  intro ps
  induction ps with
  | nil => intro seen acc s r h; simpa [evalSeq] using h
  | cons p ps ih =>
    intro seen acc s r h
    simp only [evalSeq] at h ⊢
    refine bindS_le (fun a ha => hle.expr _ _ _ _ ha) ?_ h
    intro v s' r' h'
    split at h'
    · exact h'
    · exact ih _ _ _ _ h'

theorem evalAlts_le {env} {rec rec' : SRec} (hle : Le rec rec') {ctx fields} :
    ∀ as s r, evalAlts env rec ctx fields as s = some r →
      evalAlts env rec' ctx fields as s = some r := by
  intro as
  induction as with
  | nil => intro s r h; simpa [evalAlts] using h
  | cons a as ih =>
    intro s r h
    simp only [evalAlts] at h ⊢
    split at h
    · cases h
    · rename_i r0 s0 hx; rw [hle.expr _ _ _ _ hx]; exact h
    · rename_i e0 hx; rw [hle.expr _ _ _ _ hx]; exact ih _ _ h
    · rename_i m0 hx; rw [hle.expr _ _ _ _ hx]; exact h

theorem evalLoop_le {body body' : St → SOut Parsed} {fields}
    (hb : ∀ s r, body s = some r → body' s = some r) :
    ∀ k k' iters acc s r, k ≤ k' → evalLoop body fields k iters acc s = some r →
      evalLoop body' fields k' iters acc s = some r := by
  intro k
  induction k with
  | zero => intro k' iters acc s r _ h; simp [evalLoop] at h
  | succ k ih =>
    intro k' iters acc s r hk h
    obtain ⟨k'', rfl⟩ : ∃ k'', k' = k'' + 1 := ⟨k' - 1, by omega⟩
    simp only [evalLoop] at h ⊢
    split at h
    · cases h
    · rename_i r0 s0 hx
      rw [hb _ _ hx]
      simp only
      split at h
      · exact ih _ _ _ _ _ (by omega) h
      · exact h
    · rename_i e0 hx; rw [hb _ _ hx]; exact h
    · rename_i m0 hx; rw [hb _ _ hx]; exact h

theorem stepExpr_le {env} {rec rec' : SRec} (hle : Le rec rec') {n m : Nat} (hnm : n ≤ m) :
    LeE (stepExpr env rec n) (stepExpr env rec' m) := by
  intro ctx e s r h
  cases e with
  | choice alts =>
    match alts with
    | [] => simpa [stepExpr] using h
    | [a] => simp only [stepExpr] at h ⊢; exact hle.expr _ _ _ _ h
    | a :: b :: rest => simp only [stepExpr] at h ⊢; exact evalAlts_le hle _ _ _ h
  | seq parts =>
    match parts with
    | [] => simpa [stepExpr] using h
    | [a] => simp only [stepExpr] at h ⊢; exact hle.expr _ _ _ _ h
    | a :: b :: rest =>
      simp only [stepExpr] at h ⊢
      exact bindS_le (fun x hx => evalSeq_le hle _ _ _ _ _ hx) (fun _ _ _ h => h) h
  | group b => simp only [stepExpr] at h ⊢; exact hle.expr _ _ _ _ h
  | opt b =>
    simp only [stepExpr] at h ⊢
    split at h
    · cases h
    · rename_i hx; rw [hle.expr _ _ _ _ hx]; exact h
    · rename_i hx; rw [hle.expr _ _ _ _ hx]; exact h
    · rename_i hx; rw [hle.expr _ _ _ _ hx]; exact h
  | closure b plus =>
    simp only [stepExpr] at h ⊢
    split at h
    · exact h
    · rename_i init hinit
      exact bindS_le (fun x hx => evalLoop_le (fun s r => hle.expr _ _ _ _) _ _ _ _ _ _ hnm hx)
        (fun _ _ _ h => h) h
  | neg b =>
    simp only [stepExpr] at h ⊢
    split at h
    · cases h
    · rename_i hx; rw [hle.expr _ _ _ _ hx]; exact h
    · rename_i hx; rw [hle.expr _ _ _ _ hx]; exact h
    · rename_i hx; rw [hle.expr _ _ _ _ hx]; exact h
  | pos b =>
    simp only [stepExpr] at h ⊢
    exact bindS_le (fun x hx => hle.expr _ _ _ _ hx) (fun _ _ _ h => h) h
  | range lo hi =>
    simp only [stepExpr] at h ⊢
    split at h
    · exact withSkipWs_le hle (fun _ _ h => h) h
    · exact h
  | lit ins body =>
    simp only [stepExpr] at h ⊢
    split at h
    · exact withSkipWs_le hle (fun _ _ h => h) h
    · exact h
  | eoi =>
    simp only [stepExpr] at h ⊢
    exact withSkipWs_le hle (fun _ _ h => h) h
  | incl r0 =>
    simp only [stepExpr] at h ⊢
    split at h
    · exact h
    · exact hle.expr _ _ _ _ h
  | field name boxed typ =>
    simp only [stepExpr] at h ⊢
    refine withSkipWs_le hle ?_ h
    intro s r h
    exact bindS_le (fun x hx => hle.rule _ _ _ hx) (fun _ _ _ h => h) h

theorem charParts_le {rec rec' : SRec} (hle : Le rec rec') :
    ∀ ps s r, charParts rec ps s = some r → charParts rec' ps s = some r := by
  intro ps
  induction ps with
  | nil => intro s r h; simpa [charParts] using h
  | cons p ps ih =>
    intro s r h
    cases p with
    | chr item =>
      simp only [charParts] at h ⊢
      split at h
      · cases h
      · exact h
      · exact ih _ _ h
      · exact h
    | range lo hi =>
      simp only [charParts] at h ⊢
      split at h
      · cases h
      · exact h
      · exact ih _ _ h
      · exact h
    | ident id =>
      simp only [charParts] at h ⊢
      split at h
      · cases h
      · rename_i hx; rw [hle.rule _ _ _ hx]; exact h
      · rename_i hx; rw [hle.rule _ _ _ hx]; exact ih _ _ h
      · rename_i hx; rw [hle.rule _ _ _ hx]; exact h

theorem ruleBody_le {env u} {rec rec' : SRec} (hle : Le rec rec') {r0 : Rule} {s r}
    (h : ruleBody env u rec r0 s = some r) : ruleBody env u rec' r0 s = some r := by
  unfold ruleBody at h ⊢
  split at h
  · simp only
    simp only at h
    split at h
    · rename_i hc; simp only [hc, if_true]
      exact bindS_le (fun x hx => hle.expr _ _ _ _ hx) (fun _ _ _ h => h) h
    · rename_i hc; simp only [hc]
      split at h
      · rename_i hc2; simp only [hc2, if_true]
        exact bindS_le (fun x hx => hle.expr _ _ _ _ hx) (fun _ _ _ h => h) h
      · rename_i hc2; simp only [hc2]
        split at h
        · rename_i hc3; simpa [hc3] using h
        · rename_i hc3; simp only [hc3]
          exact bindS_le (fun x hx => hle.expr _ _ _ _ hx) (fun _ _ _ h => h) h
  · exact h

theorem stepRule_le {env u} {rec rec' : SRec} (hle : Le rec rec') :
    LeR (stepRule env u rec) (stepRule env u rec') := by
  intro name s r h
  unfold stepRule at h ⊢
  split at h
  · exact ruleBody_le hle h
  · rename_i cr _
    unfold charRule at h ⊢
    split at h
    · rename_i hc; rw [if_pos hc]; exact charParts_le hle _ _ _ h
    · rename_i hc; rw [if_neg hc]
      split at h
      · exact h
      · split at h
        · rename_i hc2; rw [if_pos hc2]; exact charParts_le hle _ _ _ h
        · rename_i hc2; rw [if_neg hc2]; exact h
  · exact h
  · exact h

theorem step_le {env u} {rec rec' : SRec} (hle : Le rec rec') {n m : Nat} (hnm : n ≤ m) :
    Le (step env u rec n) (step env u rec' m) :=
  ⟨stepExpr_le hle hnm, stepRule_le hle⟩

theorem eval_le_succ (env : Env) (u : Nat) : ∀ n, Le (eval env u n) (eval env u (n + 1)) := by
  intro n
  induction n with
  | zero => exact ⟨fun _ _ _ _ h => by simp [eval] at h, fun _ _ _ h => by simp [eval] at h⟩
  | succ n ih => exact step_le ih (Nat.le_succ n)

theorem Le.refl (a : SRec) : Le a a := ⟨fun _ _ _ _ h => h, fun _ _ _ h => h⟩
theorem Le.trans {a b c : SRec} (h1 : Le a b) (h2 : Le b c) : Le a c :=
  ⟨fun _ _ _ _ h => h2.expr _ _ _ _ (h1.expr _ _ _ _ h), fun _ _ _ h => h2.rule _ _ _ (h1.rule _ _ _ h)⟩

/-- fuel monotonicity -/
theorem eval_mono (env : Env) (u : Nat) {n m : Nat} (h : n ≤ m) : Le (eval env u n) (eval env u m) := by
  induction m with
  | zero => have : n = 0 := by omega
            subst this; exact Le.refl _
  | succ m ih =>
    by_cases hnm : n ≤ m
    · exact Le.trans (ih hnm) (eval_le_succ env u m)
    · have : n = m + 1 := by omega
      subst this; exact Le.refl _

/-- the reference answer is unique: two fuels that both answer give the same answer -/
theorem eval_rule_det (env : Env) (u : Nat) {n m : Nat} {name s r r'}
    (h : (eval env u n).rule name s = some r) (h' : (eval env u m).rule name s = some r') : r = r' := by
  have h1 := (eval_mono env u (Nat.le_max_left n m)).rule _ _ _ h
  have h2 := (eval_mono env u (Nat.le_max_right n m)).rule _ _ _ h'
  rw [h1] at h2
  exact Option.some.inj h2

theorem eval_expr_det (env : Env) (u : Nat) {n m : Nat} {ctx e s r r'}
    (h : (eval env u n).expr ctx e s = some r) (h' : (eval env u m).expr ctx e s = some r') : r = r' := by
  have h1 := (eval_mono env u (Nat.le_max_left n m)).expr _ _ _ _ h
  have h2 := (eval_mono env u (Nat.le_max_right n m)).expr _ _ _ _ h'
  rw [h1] at h2
  exact Option.some.inj h2

end Spec
end Peg
