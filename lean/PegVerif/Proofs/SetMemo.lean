import PegVerif.Proofs.RefineRule
/-
  "The reference semantics does not look at `@memoize`."

  `Grammar.setMemo M g` marks exactly the rules selected by `M` with `@memoize`.  Nothing the
  reference semantics consults changes (`Spec.eval_setMemo`), hence – by the refinement theorem –
  any two choices of memoized rules give the same answer (`memo_transparent`).
-/
namespace Peg
open Spec

/-- replace the @memoize marker of a rule -/
def Rule.setMemo (b : Bool) (r : Rule) : Rule :=
  { r with directives := r.directives.filter (fun d => d != .memoize) ++ (if b then [.memoize] else []) }

/-- mark exactly the rules selected by `M` (by name) with @memoize -/
def Grammar.setMemo (M : String → Bool) (g : Grammar) : Grammar :=
  { rules := g.rules.map fun e => match e with | .rule r => .rule (r.setMemo (M r.name)) | e => e }

def Env.setMemo (M : String → Bool) (env : Env) : Env := { env with g := env.g.setMemo M }

/-- the entry-wise action of `Grammar.setMemo` -/
def RuleEntry.setMemo (M : String → Bool) : RuleEntry → RuleEntry
  | .rule r => .rule (r.setMemo (M r.name))
  | e => e

theorem Grammar.setMemo_rules (M : String → Bool) (g : Grammar) :
    (g.setMemo M).rules = g.rules.map (RuleEntry.setMemo M) := by
  unfold Grammar.setMemo
  simp only
  congr 1

@[simp] theorem Env.setMemo_g (M : String → Bool) (env : Env) : (env.setMemo M).g = env.g.setMemo M := rfl
@[simp] theorem Env.setMemo_hooks (M : String → Bool) (env : Env) : (env.setMemo M).hooks = env.hooks := rfl
@[simp] theorem Env.setMemo_settings (M : String → Bool) (env : Env) :
    (env.setMemo M).settings = env.settings := rfl
@[simp] theorem Env.setMemo_nf (M : String → Bool) (env : Env) : (env.setMemo M).nf = env.nf := rfl

/-! ### flags as a fold, field by field -/

section flags

theorem foldl_add_noSkipWs (ds : List Directive) (f : RuleFlags) :
    (ds.foldl RuleFlags.add f).noSkipWs = (f.noSkipWs || ds.contains .noSkipWs) := by
  induction ds generalizing f with
  | nil => simp
  | cons d ds ih => rw [List.foldl_cons, ih]; cases d <;> simp [RuleFlags.add]

theorem foldl_add_exported (ds : List Directive) (f : RuleFlags) :
    (ds.foldl RuleFlags.add f).exported = (f.exported || ds.contains .export) := by
  induction ds generalizing f with
  | nil => simp
  | cons d ds ih => rw [List.foldl_cons, ih]; cases d <;> simp [RuleFlags.add]

theorem foldl_add_string (ds : List Directive) (f : RuleFlags) :
    (ds.foldl RuleFlags.add f).string = (f.string || ds.contains .string) := by
  induction ds generalizing f with
  | nil => simp
  | cons d ds ih => rw [List.foldl_cons, ih]; cases d <;> simp [RuleFlags.add]

theorem foldl_add_position (ds : List Directive) (f : RuleFlags) :
    (ds.foldl RuleFlags.add f).position = (f.position || ds.contains .position) := by
  induction ds generalizing f with
  | nil => simp
  | cons d ds ih => rw [List.foldl_cons, ih]; cases d <;> simp [RuleFlags.add]

theorem foldl_add_memoize (ds : List Directive) (f : RuleFlags) :
    (ds.foldl RuleFlags.add f).memoize = (f.memoize || ds.contains .memoize) := by
  induction ds generalizing f with
  | nil => simp
  | cons d ds ih => rw [List.foldl_cons, ih]; cases d <;> simp [RuleFlags.add]

theorem foldl_add_leftRecursive (ds : List Directive) (f : RuleFlags) :
    (ds.foldl RuleFlags.add f).leftRecursive = (f.leftRecursive || ds.contains .leftrec) := by
  induction ds generalizing f with
  | nil => simp
  | cons d ds ih => rw [List.foldl_cons, ih]; cases d <;> simp [RuleFlags.add]

theorem Rule.flags_noSkipWs (r : Rule) : r.flags.noSkipWs = r.directives.contains .noSkipWs := by
  unfold Rule.flags; rw [foldl_add_noSkipWs]; rfl
theorem Rule.flags_exported (r : Rule) : r.flags.exported = r.directives.contains .export := by
  unfold Rule.flags; rw [foldl_add_exported]; rfl
theorem Rule.flags_string (r : Rule) : r.flags.string = r.directives.contains .string := by
  unfold Rule.flags; rw [foldl_add_string]; rfl
theorem Rule.flags_position (r : Rule) : r.flags.position = r.directives.contains .position := by
  unfold Rule.flags; rw [foldl_add_position]; rfl
theorem Rule.flags_memoize (r : Rule) : r.flags.memoize = r.directives.contains .memoize := by
  unfold Rule.flags; rw [foldl_add_memoize]; rfl
theorem Rule.flags_leftRecursive (r : Rule) : r.flags.leftRecursive = r.directives.contains .leftrec := by
  unfold Rule.flags; rw [foldl_add_leftRecursive]; rfl

/-- membership in the directive list of `r.setMemo b`, for anything but `@memoize` -/
theorem contains_setMemo_directives (ds : List Directive) (b : Bool) (d : Directive) (hd : d ≠ .memoize) :
    (ds.filter (fun d => d != Directive.memoize) ++ (if b then [Directive.memoize] else [])).contains d =
      ds.contains d := by
  rw [Bool.eq_iff_iff]
  simp only [List.contains_iff_mem, List.mem_append, List.mem_filter, bne_iff_ne, ne_eq]
  constructor
  · rintro (⟨h, _⟩ | h)
    · exact h
    · cases b
      · simp at h
      · simp at h; exact absurd h hd
  · intro h; exact Or.inl ⟨h, hd⟩

theorem contains_setMemo_directives_memoize (ds : List Directive) (b : Bool) :
    (ds.filter (fun d => d != Directive.memoize) ++
      (if b then [Directive.memoize] else [])).contains Directive.memoize = b := by
  cases b <;> simp

end flags

/-! ### basic facts about `Rule.setMemo` -/

@[simp] theorem Rule.setMemo_name (b : Bool) (r : Rule) : (r.setMemo b).name = r.name := rfl
@[simp] theorem Rule.setMemo_definition (b : Bool) (r : Rule) : (r.setMemo b).definition = r.definition := rfl

@[simp] theorem Rule.setMemo_checks (b : Bool) (r : Rule) : (r.setMemo b).checks = r.checks := by
  have h1 : ∀ (F : Directive → Option (List String)), F .memoize = none → ∀ ds : List Directive,
      (ds.filter (fun d => d != Directive.memoize)).filterMap F = ds.filterMap F := by
    intro F hF ds
    induction ds with
    | nil => rfl
    | cons d ds ih => cases d <;> simp [List.filterMap_cons, ih, hF]
  unfold Rule.checks Rule.setMemo
  simp only
  rw [List.filterMap_append, h1 _ rfl]
  cases b <;> simp

@[simp] theorem Rule.setMemo_flags_noSkipWs (b : Bool) (r : Rule) :
    (r.setMemo b).flags.noSkipWs = r.flags.noSkipWs := by
  rw [Rule.flags_noSkipWs, Rule.flags_noSkipWs]
  exact contains_setMemo_directives _ _ _ (by intro h; cases h)

@[simp] theorem Rule.setMemo_flags_exported (b : Bool) (r : Rule) :
    (r.setMemo b).flags.exported = r.flags.exported := by
  rw [Rule.flags_exported, Rule.flags_exported]
  exact contains_setMemo_directives _ _ _ (by intro h; cases h)

@[simp] theorem Rule.setMemo_flags_string (b : Bool) (r : Rule) :
    (r.setMemo b).flags.string = r.flags.string := by
  rw [Rule.flags_string, Rule.flags_string]
  exact contains_setMemo_directives _ _ _ (by intro h; cases h)

@[simp] theorem Rule.setMemo_flags_position (b : Bool) (r : Rule) :
    (r.setMemo b).flags.position = r.flags.position := by
  rw [Rule.flags_position, Rule.flags_position]
  exact contains_setMemo_directives _ _ _ (by intro h; cases h)

@[simp] theorem Rule.setMemo_flags_leftRecursive (b : Bool) (r : Rule) :
    (r.setMemo b).flags.leftRecursive = r.flags.leftRecursive := by
  rw [Rule.flags_leftRecursive, Rule.flags_leftRecursive]
  exact contains_setMemo_directives _ _ _ (by intro h; cases h)

@[simp] theorem Rule.setMemo_flags_memoize (b : Bool) (r : Rule) : (r.setMemo b).flags.memoize = b := by
  rw [Rule.flags_memoize]
  exact contains_setMemo_directives_memoize _ _

/-- all flags at once -/
theorem Rule.setMemo_flags (b : Bool) (r : Rule) : (r.setMemo b).flags = { r.flags with memoize := b } := by
  have h1 := Rule.setMemo_flags_noSkipWs b r
  have h2 := Rule.setMemo_flags_exported b r
  have h3 := Rule.setMemo_flags_string b r
  have h4 := Rule.setMemo_flags_position b r
  have h5 := Rule.setMemo_flags_memoize b r
  have h6 := Rule.setMemo_flags_leftRecursive b r
  generalize (r.setMemo b).flags = f at *
  cases f
  simp_all

/-! ### lookup commutes with `setMemo` -/

@[simp] theorem RuleEntry.setMemo_name (M : String → Bool) (e : RuleEntry) : (e.setMemo M).name = e.name := by
  cases e <;> rfl

theorem Grammar.find_setMemo (M : String → Bool) (g : Grammar) (n : String) :
    (g.setMemo M).find n = (g.find n).map (RuleEntry.setMemo M) := by
  unfold Grammar.find
  rw [Grammar.setMemo_rules, List.find?_map]
  congr 2
  funext e
  simp only [Function.comp, RuleEntry.setMemo_name]

theorem Grammar.findRule_setMemo (M : String → Bool) (g : Grammar) (n : String) :
    (g.setMemo M).findRule n = (g.findRule n).map (fun r => r.setMemo (M r.name)) := by
  unfold Grammar.findRule
  rw [Grammar.setMemo_rules]
  generalize g.rules = l
  induction l with
  | nil => rfl
  | cons e l ih =>
    simp only [List.map_cons, List.findSome?_cons]
    cases e with
    | rule r =>
      simp only [RuleEntry.setMemo, Rule.setMemo_name]
      by_cases hn : (r.name == n) = true
      · simp only [hn, if_true, Option.map_some]
      · simp only [hn, Bool.false_eq_true, if_false]
        exact ih
    | charRule r => simp only [RuleEntry.setMemo]; exact ih
    | externRule r => simp only [RuleEntry.setMemo]; exact ih

/-! ### the field analysis does not look at directives -/

theorem getFields_setMemo_fun (M : String → Bool) (g : Grammar) :
    ∀ n, getFields (g.setMemo M) n = getFields g n := by
  intro n
  induction n with
  | zero => funext e; simp only [getFields]
  | succ n ih =>
    funext e
    cases e with
    | incl r =>
      simp only [getFields, Grammar.findRule_setMemo, ih]
      cases g.findRule r with
      | none => rfl
      | some rule => rfl
    | field name boxed typ => cases name <;> simp only [getFields]
    | _ => simp only [getFields, ih]

theorem getFields_setMemo (M : String → Bool) (g : Grammar) (n : Nat) (e : Expr) :
    getFields (g.setMemo M) n e = getFields g n e := by
  rw [getFields_setMemo_fun]

theorem ownFields_setMemo (M : String → Bool) (env : Env) : ownFields (env.setMemo M) = ownFields env := by
  funext e
  simp only [ownFields, Env.setMemo_g, Env.setMemo_nf, getFields_setMemo]

/-! ### the reference semantics does not look at `@memoize` -/

namespace Spec

theorem evalSeq_congr {env env' : Env} (h : ownFields env = ownFields env') (rec : SRec) (ctx : Ctx) :
    ∀ ps seen acc s, evalSeq env rec ctx ps seen acc s = evalSeq env' rec ctx ps seen acc s := by
  intro ps
  induction ps with
  | nil => intro seen acc s; rfl
  | cons p ps ih =>
    intro seen acc s
    simp only [evalSeq, h, ih]

theorem evalAlts_congr {env env' : Env} (h : ownFields env = ownFields env') (rec : SRec) (ctx : Ctx)
    (fields : List FieldDesc) :
    ∀ as s, evalAlts env rec ctx fields as s = evalAlts env' rec ctx fields as s := by
  intro as
  induction as with
  | nil => intro s; rfl
  | cons a as ih =>
    intro s
    simp only [evalAlts, h, ih]

theorem stepExpr_setMemo (env : Env) (M : String → Bool) (rec : SRec) (n : Nat) :
    stepExpr (env.setMemo M) rec n = stepExpr env rec n := by
  have ho := ownFields_setMemo M env
  funext ctx e s
  cases e with
  | choice alts =>
    match alts with
    | [] => rfl
    | [a] => rfl
    | a :: b :: rest =>
      simp only [stepExpr, ho]
      exact evalAlts_congr ho _ _ _ _ _
  | seq parts =>
    match parts with
    | [] => rfl
    | [a] => rfl
    | a :: b :: rest =>
      simp only [stepExpr, ho]
      rw [evalSeq_congr ho]
  | incl r =>
    simp only [stepExpr, Env.setMemo_g, Grammar.findRule_setMemo]
    cases env.g.findRule r with
    | none => rfl
    | some rule => rfl
  | group b => rfl
  | opt b => simp only [stepExpr, ho]
  | closure b plus => simp only [stepExpr, ho]
  | neg b => rfl
  | pos b => rfl
  | range lo hi => rfl
  | lit ins body => rfl
  | eoi => rfl
  | field name boxed typ => rfl

theorem runChecks_setMemo (env : Env) (M : String → Bool) (u : Nat) :
    ∀ fs v s, runChecks (env.setMemo M) u fs v s = runChecks env u fs v s := by
  intro fs
  induction fs with
  | nil => intro v s; rfl
  | cons f fs ih => intro v s; simp only [runChecks, Env.setMemo_hooks, ih]

theorem ruleBody_setMemo (env : Env) (M : String → Bool) (u : Nat) (rec : SRec) (b : Bool) (r : Rule) (s : St) :
    ruleBody (env.setMemo M) u rec (r.setMemo b) s = ruleBody env u rec r s := by
  have hrc : runChecks (env.setMemo M) u = runChecks env u := by
    funext fs v s; exact runChecks_setMemo env M u fs v s
  simp only [ruleBody, Env.setMemo_g, Env.setMemo_nf, Env.setMemo_settings, getFields_setMemo,
    Rule.setMemo_definition, Rule.setMemo_name, Rule.setMemo_checks, Rule.setMemo_flags_noSkipWs,
    Rule.setMemo_flags_string, Rule.setMemo_flags_position, hrc]

theorem charChecksOk_setMemo (env : Env) (M : String → Bool) :
    ∀ fs c, charChecksOk (env.setMemo M) fs c = charChecksOk env fs c := by
  intro fs
  induction fs with
  | nil => intro c; rfl
  | cons f fs ih => intro c; simp only [charChecksOk, Env.setMemo_hooks, ih]

theorem charRule_setMemo (env : Env) (M : String → Bool) (rec : SRec) (r : CharRule) (s : St) :
    charRule (env.setMemo M) rec r s = charRule env rec r s := by
  simp only [charRule, charChecksOk_setMemo]

theorem externRule_setMemo (env : Env) (M : String → Bool) (u : Nat) (r : ExternRule) (s : St) :
    externRule (env.setMemo M) u r s = externRule env u r s := rfl

theorem stepRule_setMemo (env : Env) (M : String → Bool) (u : Nat) (rec : SRec) :
    stepRule (env.setMemo M) u rec = stepRule env u rec := by
  funext name s
  simp only [stepRule, Env.setMemo_g, Grammar.find_setMemo]
  cases env.g.find name with
  | none => rfl
  | some e =>
    cases e with
    | rule r => exact ruleBody_setMemo env M u rec _ r s
    | charRule r => exact charRule_setMemo env M rec r s
    | externRule r => rfl

theorem step_setMemo (env : Env) (M : String → Bool) (u : Nat) (rec : SRec) (n : Nat) :
    step (env.setMemo M) u rec n = step env u rec n := by
  simp only [step, stepExpr_setMemo, stepRule_setMemo]

/-- **The reference semantics does not look at `@memoize`.** -/
theorem eval_setMemo (env : Env) (M : String → Bool) (u : Nat) :
    ∀ n, Spec.eval (env.setMemo M) u n = Spec.eval env u n := by
  intro n
  induction n with
  | zero => rfl
  | succ n ih => simp only [eval, ih, step_setMemo]

theorem parse_setMemo (env : Env) (M : String → Bool) (u fuel : Nat) (rule : String) (inp : List UInt8) :
    Spec.parse (env.setMemo M) u fuel rule inp = Spec.parse env u fuel rule inp := by
  simp only [parse, eval_setMemo]

end Spec

/-! ### `@leftrec` is untouched -/

theorem NoLeftrec_setMemo {g : Grammar} (M : String → Bool) : NoLeftrec g → NoLeftrec (g.setMemo M) := by
  intro h r hr
  rw [Grammar.setMemo_rules, List.mem_map] at hr
  obtain ⟨e, he, heq⟩ := hr
  cases e with
  | rule r0 =>
    simp only [RuleEntry.setMemo, RuleEntry.rule.injEq] at heq
    subst heq
    rw [Rule.setMemo_flags_leftRecursive]
    exact h r0 he
  | charRule r0 => simp [RuleEntry.setMemo] at heq
  | externRule r0 => simp [RuleEntry.setMemo] at heq

theorem NoLeftrec_of_setMemo {g : Grammar} (M : String → Bool) : NoLeftrec (g.setMemo M) → NoLeftrec g := by
  intro h r hr
  have hm : RuleEntry.rule (r.setMemo (M r.name)) ∈ (g.setMemo M).rules := by
    rw [Grammar.setMemo_rules, List.mem_map]
    exact ⟨.rule r, hr, rfl⟩
  have := h _ hm
  rwa [Rule.setMemo_flags_leftRecursive] at this

theorem NoLeftrec_setMemo_iff {g : Grammar} (M : String → Bool) : NoLeftrec (g.setMemo M) ↔ NoLeftrec g :=
  ⟨NoLeftrec_of_setMemo M, NoLeftrec_setMemo M⟩

/-! ### `@memoize` transparency -/

theorem wf_new (inp : List UInt8) : WfSt inp (St.new inp) := by simp [WfSt, St.new]

theorem good_init (env : Env) (u : Nat) (inp : List UInt8) : Good env u inp (Global.init u) :=
  ⟨rfl, fun name off r hl => by simp [Global.lookup, Global.init] at hl⟩

/-- a finished run of the generated parser from a fresh state – whatever rules are memoized – is
    eventually the reference answer of the *unmarked* grammar -/
theorem parseAdvanced_setMemo_evt (env : Env) (M : String → Bool) (hp : PureHooks env.hooks)
    (hnl : NoLeftrec env.g) (rule : String) (inp : List UInt8) (u n : Nat) {r g}
    (h : parseAdvanced (env.setMemo M) n rule inp u = some (r, g)) :
    Evt (fun m => Spec.parse env u m rule inp) (Spec.abs r) := by
  have href := eval_ref (env := env.setMemo M) (u := u) (inp := inp) hp (NoLeftrec_setMemo M hnl) n
  have hpost := href.rule rule (St.new inp) (Global.init u) r g h (wf_new inp) (good_init _ u inp)
  refine hpost.1.of_eq (fun m => ?_)
  rw [Spec.eval_setMemo]
  rfl

/-- the memoized model, with any set of memoized rules, refines the reference semantics of the
    grammar as written -/
theorem memo_refines_spec (env : Env) (M : String → Bool) (hp : PureHooks env.hooks) (hnl : NoLeftrec env.g)
    (rule : String) (inp : List UInt8) (u n : Nat) {r g}
    (h : parseAdvanced (env.setMemo M) n rule inp u = some (r, g)) :
    ∃ m, Spec.parse env u m rule inp = some (Spec.abs r) := by
  obtain ⟨m0, h0⟩ := parseAdvanced_setMemo_evt env M hp hnl rule inp u n h
  exact ⟨m0, h0 m0 (Nat.le_refl _)⟩

/-- @memoize transparency: any two choices of memoized rules give the same answer (acceptance, tree, consumed bytes; only
    the error payload may differ), for every input, whenever both runs finish. -/
theorem memo_transparent (env : Env) (M M' : String → Bool) (hp : PureHooks env.hooks) (hnl : NoLeftrec env.g)
    (rule : String) (inp : List UInt8) (u n n' : Nat) {r r' g g'}
    (h : parseAdvanced (env.setMemo M) n rule inp u = some (r, g))
    (h' : parseAdvanced (env.setMemo M') n' rule inp u = some (r', g')) :
    Spec.abs r = Spec.abs r' := by
  obtain ⟨m, hm⟩ := memo_refines_spec env M hp hnl rule inp u n h
  obtain ⟨m', hm'⟩ := memo_refines_spec env M' hp hnl rule inp u n' h'
  exact Spec.eval_rule_det env u hm hm'

end Peg
